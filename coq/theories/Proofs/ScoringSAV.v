(* Proofs/ScoringSAV.v — satisfaction approval (exact rationals, Qc = normalised fractions like fractions.Fraction). *)
From Coq Require Import List Arith NArith ZArith QArith Qcanon Bool Lia Lqa Permutation.
From PrefVerif Require Import Lib.Val Model.Scoring Proofs.ScoreTable Proofs.Scoring.
Import ListNotations.
Local Close Scope Qc_scope.
Local Close Scope Q_scope.

Definition qzero : Qc := Q2Qc 0%Q.

(* textbook: every voter gives 1/|approved set| to each alternative she approves *)
Definition sav1 (a : N) (o : order) : Qc :=
  if memN a (hd [] o) then Q2Qc (1 # Pos.of_nat (length (hd [] o)))%Q else qzero.
Definition sumQc (l : list Qc) : Qc := sumS Qcplus qzero l.
Definition sav_score (P : list order) (a : N) : Qc := sumQc (map (sav1 a) P).
Definition is_maxQ (f : N -> Qc) (U : list N) (a : N) : Prop := In a U /\ forall b, In b U -> Qcle (f b) (f a).

Lemma Qc_add_pos : forall x y : Qc, Qclt qzero x -> Qcle qzero y -> Qclt qzero (Qcplus x y).
Proof.
  intros x y. unfold Qclt, Qcle, Qcplus, qzero. cbn [this Q2Qc]. rewrite !Qred_correct. intros. lra.
Qed.
Lemma Qc_add_nonneg : forall x y : Qc, Qcle qzero x -> Qcle qzero y -> Qcle qzero (Qcplus x y).
Proof.
  intros x y. unfold Qclt, Qcle, Qcplus, qzero. cbn [this Q2Qc]. rewrite !Qred_correct. intros. lra.
Qed.
Lemma w_split : forall n d, Q2Qc (Z.of_nat (S n) # d)%Q = Qcplus (Q2Qc (1 # d)%Q) (Q2Qc (Z.of_nat n # d)%Q).
Proof.
  intros n d. apply Qc_is_canon. unfold Qcplus. cbn [this Q2Qc]. rewrite !Qred_correct.
  unfold Qeq, Qplus. cbn [Qnum Qden]. rewrite Pos2Z.inj_mul. rewrite Nat2Z.inj_succ. ring.
Qed.
Lemma w_zero : forall d, Q2Qc (0 # d)%Q = qzero.
Proof. intros d. apply Qc_is_canon. unfold qzero. cbn [this Q2Qc]. rewrite !Qred_correct. reflexivity. Qed.
Lemma w_pos : forall k d, (1 <= k)%N -> Qclt qzero (Q2Qc (Z.of_N k # d)%Q).
Proof. intros k d H. unfold Qclt, qzero. cbn [this Q2Qc]. rewrite !Qred_correct. unfold Qlt. simpl. lia. Qed.
Lemma qleb_refl : forall x : Qc, Qle_bool x x = true. Proof. intro x. apply Qle_bool_iff. apply Qle_refl. Qed.
Lemma qleb_trans : forall x y z : Qc, Qle_bool x y = true -> Qle_bool y z = true -> Qle_bool x z = true.
Proof. intros x y z. rewrite !Qle_bool_iff. apply Qle_trans. Qed.
Lemma qleb_total : forall x y : Qc, Qle_bool x y = true \/ Qle_bool y x = true.
Proof. intros x y. rewrite !Qle_bool_iff. destruct (Qlt_le_dec x y); [left; apply Qlt_le_weak; assumption|right; assumption]. Qed.
Lemma qleb_false : forall x : Qc, Qclt qzero x -> Qle_bool x qzero = false.
Proof. intros x H. destruct (Qle_bool x qzero) eqn:E; [|reflexivity]. apply Qle_bool_iff in E. unfold Qclt in H. lra. Qed.

Notation totalQ := (total Qcplus qzero).

Lemma sumQc_zero : forall n, sumQc (repeat qzero n) = qzero.
Proof. induction n; simpl; [reflexivity|]. unfold sumQc in *. simpl. rewrite IHn. apply Qcplus_0_l. Qed.

Lemma weight_sum : forall n d, Q2Qc (Z.of_nat n # d)%Q = sumQc (repeat (Q2Qc (1 # d)%Q) n).
Proof.
  induction n as [|n IH]; intro d.
  - apply w_zero.
  - rewrite w_split, IH. reflexivity.
Qed.

Lemma sav_total : forall p a,
  (forall om, In om p -> NoDup (hd [] (fst om))) -> totalQ a (sav_events p) = sav_score (expand p) a.
Proof.
  intros p a H. unfold sav_events, sav_score, sumQc.
  apply (total_profile Qcplus qzero Qcplus_assoc Qcplus_0_l
           (fun o k => map (fun x => (x, sav_weight k (hd [] o))) (hd [] o)) (sav1 a)).
  intros om Hom. rewrite (total_const Qcplus qzero Qcplus_comm Qcplus_0_l) by (apply H; exact Hom).
  unfold sav1. destruct (memN a (hd [] (fst om))).
  - unfold sav_weight. rewrite <- (N2Nat.id (snd om)) at 1. rewrite nat_N_Z. apply weight_sum.
  - symmetry. apply sumQc_zero.
Qed.

Lemma sav_keys : forall p a,
  In a (map fst (sav_events p)) <-> exists om, In om p /\ In a (hd [] (fst om)).
Proof.
  intros p a. unfold sav_events. rewrite in_map_iff. split.
  - intros [[x k] [E H]]. simpl in E. subst x. apply in_flat_map in H. destruct H as [om [H1 H2]].
    apply in_map_iff in H2. destruct H2 as [y [E2 H2]]. inversion E2; subst. exists om. split; assumption.
  - intros [om [H1 H2]]. exists (a, sav_weight (snd om) (hd [] (fst om))). split; [reflexivity|].
    apply in_flat_map. exists om. split; [exact H1|]. apply in_map_iff. exists a. split; [reflexivity|exact H2].
Qed.

Lemma totalQ_nonneg : forall evs a, (forall e, In e evs -> Qclt qzero (snd e)) -> Qcle qzero (totalQ a evs).
Proof.
  induction evs as [|e r IH]; intros a H; simpl.
  - apply Qcle_refl.
  - assert (IH' := IH a (fun e' He' => H e' (or_intror He'))).
    destruct (N.eqb (fst e) a); [|exact IH'].
    apply Qc_add_nonneg; [|exact IH']. apply Qclt_le_weak. apply H. left. reflexivity.
Qed.

Lemma totalQ_pos : forall evs a, (forall e, In e evs -> Qclt qzero (snd e)) ->
  In a (map fst evs) -> Qclt qzero (totalQ a evs).
Proof.
  induction evs as [|e r IH]; intros a H Ha; simpl; [destruct Ha|].
  assert (Hr : forall e', In e' r -> Qclt qzero (snd e')) by (intros; apply H; right; assumption).
  destruct (N.eqb_spec (fst e) a) as [E|E].
  - apply Qc_add_pos; [apply H; left; reflexivity|apply totalQ_nonneg; exact Hr].
  - destruct Ha as [Ha|Ha]; [congruence|]. apply IH; assumption.
Qed.

Lemma maximal_is_maxQ : forall (f : N -> Qc) U a,
  maximal qc_leb f (fun x => In x U) a <-> is_maxQ f U a.
Proof.
  intros f U a. unfold maximal, is_maxQ, qc_leb. split; intros [H1 H2]; split; try exact H1; intros b Hb.
  - apply Qle_bool_iff. apply H2. exact Hb.
  - apply Qle_bool_iff. apply H2. exact Hb.
Qed.

Theorem sav_core_spec : forall p U,
  p <> [] ->
  (forall om, In om p -> NoDup (hd [] (fst om)) /\ incl (hd [] (fst om)) U /\ hd [] (fst om) <> [] /\ (1 <= snd om)%N) ->
  exists w, sav_core p = Ok w /\ forall a, In a w <-> is_maxQ (sav_score (expand p)) U a.
Proof.
  intros p U Hne Hp. unfold sav_core.
  assert (Hk0 : exists c, In c (map fst (sav_events p))).
  { destruct p as [|om p']; [congruence|]. destruct (Hp om (or_introl eq_refl)) as [_ [_ [Ne _]]].
    assert (X : exists x, In x (hd [] (fst om))).
    { destruct (hd [] (fst om)) as [|x r]; [congruence|exists x; left; reflexivity]. }
    destruct X as [x Hx]. exists x. apply sav_keys. exists om. split; [left; reflexivity|exact Hx]. }
  assert (Hev : sav_events p <> []).
  { destruct Hk0 as [c Hc]. intro C. rewrite C in Hc. exact Hc. }
  destruct (table_winners Qcplus qzero qc_leb Qcplus_assoc Qcplus_comm Qcplus_0_l qleb_refl qleb_trans qleb_total
              [] (sav_events p) (NoDup_nil _) (or_intror Hev)) as [w [Hw Hs]].
  exists w. split; [exact Hw|]. intros a. rewrite Hs, <- maximal_is_maxQ.
  assert (Hpos : forall e, In e (sav_events p) -> Qclt qzero (snd e)).
  { intros e He. unfold sav_events in He. apply in_flat_map in He. destruct He as [om [H1 H2]].
    apply in_map_iff in H2. destruct H2 as [y [E2 _]]. subst e. simpl. unfold sav_weight.
    apply w_pos. apply (Hp om H1). }
  assert (Hsc : forall b, Qcplus (lookup qzero [] b) (totalQ b (sav_events p)) = sav_score (expand p) b).
  { intros b. rewrite lookup_nil, Qcplus_0_l. apply sav_total. intros om Hom. apply (Hp om Hom). }
  rewrite (maximal_ext qc_leb _ (sav_score (expand p)) _ (fun x => In x (map fst (sav_events p))) a Hsc)
    by (intros b; simpl; intuition).
  apply (maximal_superset qzero qc_leb qleb_total (sav_score (expand p))).
  - intros b. apply In_decN.
  - exact Hk0.
  - intros b Hb. apply sav_keys in Hb. destruct Hb as [om [A B]]. destruct (Hp om A) as [_ [I _]]. apply I. exact B.
  - intros b Hb. rewrite <- Hsc, lookup_nil, Qcplus_0_l. apply qleb_false. apply totalQ_pos; assumption.
  - intros b Hb. rewrite <- Hsc, lookup_nil, Qcplus_0_l.
    apply (total_notin Qcplus qzero). exact Hb.
Qed.

Theorem sav_spec : forall i, wf_inst i -> is_approval i = Ok true ->
  exists w, sav_winner i = Ok w /\ forall a, In a w <-> is_maxQ (sav_score (expand (prof i))) (alts i) a.
Proof.
  intros i W A. unfold sav_winner, requires_approval. rewrite A. simpl.
  apply sav_core_spec; [apply (wi_ne i W)|].
  intros om Hom. destruct (wi_ord i W om Hom) as [Wo K].
  destruct (wf_class _ _ _ Wo (hd_in _ [] (wo_ne _ _ Wo))) as [X [Y Z]]. repeat split; assumption.
Qed.

Theorem sav_guard_shape : forall i, is_approval i = Ok false -> sav_winner i = Err Incompatible.
Proof. intros i A. unfold sav_winner, requires_approval. rewrite A. reflexivity. Qed.

Theorem sav_guard : forall i, dt_in (dt i) dom5 = false -> sav_winner i = Err Incompatible.
Proof. intros i D. unfold sav_winner, requires_approval. rewrite (is_approval_foreign i D). reflexivity. Qed.

Lemma sav_score_perm : forall P Q a, Permutation P Q -> sav_score P a = sav_score Q a.
Proof.
  intros P Q a H. unfold sav_score, sumQc. apply (sumS_perm Qcplus qzero Qcplus_assoc Qcplus_comm).
  apply Permutation_map. exact H.
Qed.

Theorem sav_regroup : forall i i',
  wf_inst i -> wf_inst i' -> is_approval i = Ok true -> is_approval i' = Ok true ->
  (forall x, In x (alts i) <-> In x (alts i')) -> Permutation (expand (prof i)) (expand (prof i')) ->
  exists w w', sav_winner i = Ok w /\ sav_winner i' = Ok w' /\ forall a, In a w <-> In a w'.
Proof.
  intros i i' W W' A A' HA HP.
  destruct (sav_spec i W A) as [w [E S]]. destruct (sav_spec i' W' A') as [w' [E' S']].
  exists w, w'. split; [exact E|split; [exact E'|]]. intros a. rewrite S, S'. unfold is_maxQ. rewrite HA.
  split; intros [H1 H2]; split; try exact H1; intros b Hb.
  - rewrite <- !(sav_score_perm _ _ _ HP). apply H2. apply HA. exact Hb.
  - rewrite !(sav_score_perm _ _ _ HP). apply H2. apply HA. exact Hb.
Qed.
