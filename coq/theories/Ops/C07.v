(* Ops/C07.v — protocol entry points for property C07 (pairwise tables, Condorcet, order_to_pwg).
   instance payload: (alts_name num_alternatives num_voters mult dtype)
     alts_name = ((alt name) ...) with name a code-point list; mult = ((order k) ...), order = ((alt ...) ...);
     dtype: 0 soc, 1 soi, 2 toc, 3 toi, 4 cat, 5 wmd, other = any other string. *)
From Coq Require Import List ZArith NArith String.
From PrefVerif Require Import Lib.Val Model.Pairwise.
Import ListNotations.
Open Scope string_scope.

Definition d_dtype (v : val) : dtype :=
  match dnat v with
  | 0 => SOC | 1 => SOI | 2 => TOC | 3 => TOI | 4 => CAT | 5 => WMD | _ => DTOther
  end.
Definition d_order (v : val) : order := dlist (dlist dN) v.
Definition d_inst (v : val) : inst :=
  mkInst (dlist (dpair dN (dlist dN)) (dnth 0 v)) (dN (dnth 1 v)) (dN (dnth 2 v))
         (dlist (dpair d_order dN) (dnth 3 v)) (d_dtype (dnth 4 v)).

Definition e_row (r : row) : val := elist (epair eN eZ) r.
Definition e_table (t : table) : val := elist (epair eN e_row) t.
Definition e_line (l : Z * N * N) : val := VL [eZ (fst (fst l)); eN (snd (fst l)); eN (snd l)].
Definition e_pwg (g : pwg) : val :=
  VL [eN (pwg_num_alternatives g); elist (epair eN (elist eN)) (pwg_alt_lines g);
      VL [eN (pwg_num_voters g); eZ (pwg_sum g); eN (pwg_num_unique g)];
      elist e_line (pwg_lines g)].

Definition op_pairwise (v : val) : val := eresult e_table (pairwise_scores (d_inst v)).
Definition op_copeland (v : val) : val := eresult e_table (copeland_scores (d_inst v)).
(* payload: (instance weak) *)
Definition op_condorcet (v : val) : val :=
  eresult ebool (has_condorcet (d_inst (dnth 0 v)) (dbool (dnth 1 v))).
Definition op_borda (v : val) : val := eresult e_row (borda_scores (d_inst v)).
Definition op_pwg (v : val) : val := eresult e_pwg (order_to_pwg (d_inst v)).

(* all five observables of one instance in one answer: (pairwise copeland condorcet condorcet_weak borda pwg) *)
Definition op_all (v : val) : val :=
  let i := d_inst v in
  VL [eresult e_table (pairwise_scores i); eresult e_table (copeland_scores i);
      eresult ebool (has_condorcet i false); eresult ebool (has_condorcet i true);
      eresult e_row (borda_scores i); eresult e_pwg (order_to_pwg i)].

Definition ops : optable :=
  [ ("c07.all", op_all); ("c07.pairwise", op_pairwise); ("c07.copeland", op_copeland); ("c07.condorcet", op_condorcet);
    ("c07.borda", op_borda); ("c07.pwg", op_pwg) ].
