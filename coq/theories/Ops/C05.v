(* Ops/C05.v — protocol entry points for property C05 (consecutive ones + approval domains).
   payloads:
     c05.c1p_decide (nc rows)            rows = ((0|1 ...) ...)           -> bool
     c05.c1p_check  (nc rows perm)       perm = (j ...)                   -> bool
     c05.c1p_core   (nc rows ridx cols)  submatrix certificate of a negative verdict -> bool
     c05.sets_decide (F) / c05.sets_check (F result)   the contract of reorder_sets on a family of index tuples
     c05.pq_reorder (elems F)   the mirrored reorder_sets; elems = the iteration order of set().union( *sets )
     c05.X_decide   (alts ballots)       X in ci cei vi vei wsc de part part2 -> bool
     c05.X_check    (alts ballots w)     w = candidate order / ballot order / partition (list of lists)
     c05.de_check   (alts ballots (vpr ap))   vpr = (((num den) (num den)) ...)  ap = ((alt (num den)) ...)
     c05.model_part / c05.model_part2 (alts ballots) -> () | (parts)      the mirrored is_part / is_2_part
     c05.de_construct (alts ballots order) -> bool   de_check of the code's construction on that order *)
From Coq Require Import List ZArith NArith QArith String.
From PrefVerif Require Import Lib.Val Model.C1P Model.Approval Model.PQTree Model.SP Model.PQTreeSP.
Import ListNotations.
Open Scope string_scope.

Definition d_rows (v : val) : matrix := dlist (dlist dbool) v.
Definition d_perm (v : val) : list nat := dlist dnat v.
Definition d_alts (v : val) : list N := dlist dN v.
Definition d_ballots (v : val) : list (list N) := dlist (dlist dN) v.
Definition dQ (v : val) : Q := Qmake (dZ (dnth 0 v)) (Z.to_pos (dZ (dnth 1 v))).

Definition op_c1p_decide (v : val) : val := ebool (c1p_decide (d_rows (dnth 1 v)) (dnat (dnth 0 v))).
Definition op_c1p_check (v : val) : val :=
  ebool (c1p_check (d_rows (dnth 1 v)) (dnat (dnth 0 v)) (d_perm (dnth 2 v))).

(* (nc rows ridx cols) *)
Definition op_c1p_core (v : val) : val :=
  ebool (c1p_core_refuted (d_rows (dnth 1 v)) (dnat (dnth 0 v)) (d_perm (dnth 2 v)) (d_perm (dnth 3 v))).

(* contract of reorder_sets: (F) and (F result), F = list of ascending index tuples *)
Definition d_sets (v : val) : list (list nat) := dlist (dlist dnat) v.
Definition op_sets_decide (v : val) : val := ebool (sets_decide (d_sets (dnth 0 v))).
Definition op_sets_check (v : val) : val := ebool (sets_check (d_sets (dnth 0 v)) (d_sets (dnth 1 v))).

(* the mirrored PQ-tree: (elems F) -> (0 ordering) | (1 code) *)
Definition op_pq_reorder (v : val) : val :=
  eresult (elist (elist enat)) (pq_reorder (dlist dnat (dnth 0 v)) (d_sets (dnth 1 v))).

Definition op_pq_inv (v : val) : val := ebool (pq_inv (dlist dnat (dnth 0 v)) (d_sets (dnth 1 v))).

Definition op_pq_complete_chk (v : val) : val := ebool (pq_complete_chk (dlist dnat (dnth 0 v)) (d_sets (dnth 1 v))).

(* C11 on top of the mirrored PQ-tree: (dtype alts profile elems) -> result bool; dtype / order encodings as in Ops/C11.v *)
Definition d_dt11 (v : val) : ord_dt :=
  match dnat v with 0%nat => DTsoc | 1%nat => DTsoi | 2%nat => DTtoc | 3%nat => DTtoi | _ => DTother end.
Definition op_c11_pq_algo (v : val) : val :=
  eresult ebool (is_single_peaked_pq_tree_algo (dlist dnat (dnth 3 v)) (d_dt11 (dnth 0 v)) (dlist dN (dnth 1 v))
                                               (dlist (dlist (dlist dN)) (dnth 2 v))).

Definition dec2 (f : list N -> list (list N) -> bool) (v : val) : val :=
  ebool (f (d_alts (dnth 0 v)) (d_ballots (dnth 1 v))).
Definition chk_alt (f : list N -> list (list N) -> list N -> bool) (v : val) : val :=
  ebool (f (d_alts (dnth 0 v)) (d_ballots (dnth 1 v)) (d_alts (dnth 2 v))).
Definition chk_idx (f : list N -> list (list N) -> list nat -> bool) (v : val) : val :=
  ebool (f (d_alts (dnth 0 v)) (d_ballots (dnth 1 v)) (d_perm (dnth 2 v))).

Definition op_de_check (v : val) : val :=
  let w := dnth 2 v in
  ebool (de_check (d_alts (dnth 0 v)) (d_ballots (dnth 1 v))
                  (dlist (dpair dQ dQ) (dnth 0 w)) (dlist (dpair dN dQ) (dnth 1 w))).
Definition op_de_construct (v : val) : val :=
  let alts := d_alts (dnth 0 v) in
  let ballots := d_ballots (dnth 1 v) in
  let w := de_construct ballots (d_alts (dnth 2 v)) in
  ebool (de_check alts ballots (fst w) (snd w)).

Definition e_parts (o : option (list (list N))) : val := eoption (elist (elist eN)) o.

Definition ops : optable :=
  [ ("c05.c1p_decide", op_c1p_decide); ("c05.c1p_check", op_c1p_check);
    ("c05.c1p_core", op_c1p_core);
    ("c05.pq_reorder", op_pq_reorder); ("c05.pq_inv", op_pq_inv); ("c05.pq_complete_chk", op_pq_complete_chk);
    ("c11.pq_algo", op_c11_pq_algo);
    ("c05.sets_decide", op_sets_decide); ("c05.sets_check", op_sets_check);
    ("c05.ci_decide", dec2 ci_decide);   ("c05.ci_check", chk_alt ci_check);
    ("c05.cei_decide", dec2 cei_decide); ("c05.cei_check", chk_alt cei_check);
    ("c05.vi_decide", dec2 vi_decide);   ("c05.vi_check", chk_idx vi_check);
    ("c05.vei_decide", dec2 vei_decide); ("c05.vei_check", chk_idx vei_check);
    ("c05.wsc_decide", dec2 wsc_decide); ("c05.wsc_check", chk_idx wsc_check);
    ("c05.de_decide", dec2 de_decide);   ("c05.de_check", op_de_check);
    ("c05.de_construct", op_de_construct);
    ("c05.part_decide", dec2 (fun _ b => part_decide b));
    ("c05.part_check", fun v => ebool (part_check (d_ballots (dnth 1 v)) (d_ballots (dnth 2 v))));
    ("c05.part2_decide", dec2 part2_decide);
    ("c05.part2_check", fun v => ebool (part2_check (d_alts (dnth 0 v)) (d_ballots (dnth 1 v)) (d_ballots (dnth 2 v))));
    ("c05.model_part", fun v => e_parts (is_part (d_ballots (dnth 1 v))));
    ("c05.model_part2", fun v => e_parts (is_2_part (d_alts (dnth 0 v)) (d_ballots (dnth 1 v)))) ].
