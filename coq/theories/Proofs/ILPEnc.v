(* Proofs/ILPEnc.v — the ILP encodings of singlepeakedness.py are sound and complete (C11 stretch goal
   `ilp_encoding_sound`, C12 deepening).  Model: Model/ILPEnc.v (mirrored builders).  Only the solver is trusted.

   MAIN RESULTS (all sizes; NoDup alts, complete weak orders)
     ilp_sp_sound          a feasible assignment of sp_ilp decodes (decode_axis = the loop of the code) to a permutation
                           of the alternatives that passes the axis test of every order
     ilp_sp_complete       every axis passing the test is the decoding of a feasible assignment
     ilp_sp_feasible_iff   feasibility <-> SPw                                                  (C11-facing)
     ilp_votdel_sound / ilp_votdel_complete / ilp_votdel_optimum    feasible assignment of objective k <-> valid
     ilp_altdel_sound / ilp_altdel_complete / ilp_altdel_optimum    certificate of size k;  ILP optimum = min_*_del
   The two cores: pos_order_core (totality + position constraints + bounds => LeftOf is the strict order of Pos,
   Pos injective) and row_core (consecutive-ones constraints of a row <=> no ignored-free  one .. zero .. one
   on the axis). *)
From Coq Require Import List Arith NArith ZArith Bool Lia Permutation.
From PrefVerif Require Import Lib.Val Lib.Perms Lib.Contig Lib.Subsets Model.SP Model.Deletion Model.ILPEnc
                              Proofs.SP Proofs.Deletion.
Import ListNotations.
Local Open Scope Z_scope.

(* ---------------------------------------------------------------------------------------------- *)
(* 0. semantics as Prop                                                                            *)

Definition holds (s : asg) (c : cstr) : Prop := holdsb s c = true.
Definition feasible (M : ilp) (s : asg) : Prop := feasibleb M s = true.
(* k is the optimal objective value of M *)
Definition ilp_opt (M : ilp) (k : Z) : Prop :=
  (exists s, feasible M s /\ objective M s = k) /\ (forall s, feasible M s -> k <= objective M s).

Lemma feasible_iff M s : feasible M s <->
  (forall d, In d (i_vars M) -> v_lb d <= s (v_var d) <= v_ub d) /\ (forall c, In c (i_cstrs M) -> holds s c).
Proof.
  unfold feasible, feasibleb. rewrite andb_true_iff, !forallb_forall. unfold in_boundsb, holds.
  split; intros [H1 H2]; split; auto.
  - intros d Hd. specialize (H1 d Hd). apply andb_true_iff in H1. lia.
  - intros d Hd. specialize (H1 d Hd). apply andb_true_iff. lia.
Qed.

(* ---------------------------------------------------------------------------------------------- *)
(* 1. combinations                                                                                 *)

Lemma combos2_In m a b : In (a, b) (combos2 m) <-> (a < b < m)%nat.
Proof.
  unfold combos2. rewrite in_flat_map. split.
  - intros (x & Hx & H). apply in_map_iff in H. destruct H as (y & E & Hy). injection E as -> ->.
    apply in_seq in Hx, Hy. lia.
  - intros H. exists a. split; [apply in_seq; lia|]. apply in_map_iff. exists b. split; [reflexivity|].
    apply in_seq. lia.
Qed.

Lemma combos3_In m a b c : In (a, b, c) (combos3 m) <-> (a < b < c /\ c < m)%nat.
Proof.
  unfold combos3. rewrite in_flat_map. split.
  - intros (x & Hx & H). apply in_flat_map in H. destruct H as (y & Hy & H).
    apply in_map_iff in H. destruct H as (z & E & Hz). injection E as -> -> ->.
    apply in_seq in Hx, Hy, Hz. lia.
  - intros H. exists a. split; [apply in_seq; lia|]. apply in_flat_map. exists b.
    split; [apply in_seq; lia|]. apply in_map_iff. exists c. split; [reflexivity|]. apply in_seq. lia.
Qed.

(* ---------------------------------------------------------------------------------------------- *)
(* 2. set_nth and the decoding loop                                                                *)

Lemma set_nth_length {T} k (x : T) l : length (set_nth k x l) = length l.
Proof. revert k. induction l as [|y r IH]; intros [|k]; simpl; auto. Qed.

Lemma nth_set_nth_eq {T} k (x d : T) l : (k < length l)%nat -> nth k (set_nth k x l) d = x.
Proof. revert k. induction l as [|y r IH]; intros [|k] H; simpl in *; try lia; auto. apply IH. lia. Qed.

Lemma nth_set_nth_neq {T} k j (x d : T) l : j <> k -> nth j (set_nth k x l) d = nth j l d.
Proof.
  revert k j. induction l as [|y r IH]; intros [|k] [|j] H; simpl; auto; try congruence.
Qed.

Section Writes.
Variable T : Type.
Variables (q : nat -> nat) (val : nat -> T) (d : T).
Let step (ax : list T) (a : nat) := set_nth (q a) (val a) ax.

Lemma writes_length l ax : length (fold_left step l ax) = length ax.
Proof. revert ax. induction l as [|a r IH]; intros ax; simpl; [reflexivity|]. rewrite IH. apply set_nth_length. Qed.

Lemma writes_untouched l ax k : (forall b, In b l -> q b <> k) ->
  nth k (fold_left step l ax) d = nth k ax d.
Proof.
  revert ax. induction l as [|a r IH]; intros ax H; simpl; [reflexivity|].
  rewrite IH by (intros b Hb; apply H; now right). unfold step. apply nth_set_nth_neq.
  intros E. apply (H a); [now left|now symmetry].
Qed.

Lemma writes_hit l ax : NoDup l -> (forall a b, In a l -> In b l -> q a = q b -> a = b) ->
  (forall a, In a l -> (q a < length ax)%nat) ->
  forall a, In a l -> nth (q a) (fold_left step l ax) d = val a.
Proof.
  revert ax. induction l as [|x r IH]; intros ax Hnd Hinj Hlt a Ha; [contradiction|]. simpl.
  inversion Hnd as [|? ? Hx Hr]; subst. destruct Ha as [->|Ha].
  - rewrite writes_untouched.
    + unfold step. apply nth_set_nth_eq. apply Hlt. now left.
    + intros b Hb E. assert (b = a) by (apply Hinj; [now right|now left|assumption]). subst. contradiction.
  - apply IH; auto.
    + intros a' b' Ha' Hb'. apply Hinj; now right.
    + intros a' Ha'. unfold step. rewrite set_nth_length. apply Hlt. now right.
Qed.
End Writes.

(* ---------------------------------------------------------------------------------------------- *)
(* 3. sub3 through indices and through filter                                                      *)

Lemma nth_app_cons_S {T} (l1 r : list T) x d t : nth (length l1 + S t) (l1 ++ x :: r) d = nth t r d.
Proof. rewrite app_nth2_plus. reflexivity. Qed.

Lemma sub3_of_nth_plus {T} (l : list T) d i t1 t2 : (i + S t1 + S t2 < length l)%nat ->
  sub3 (nth i l d) (nth (i + S t1) l d) (nth (i + S t1 + S t2) l d) l.
Proof.
  intros Hk.
  destruct (nth_split l d (n := i)) as (l1 & r1 & E1 & L1); [lia|].
  set (x := nth i l d) in *. 
  assert (Lr1 : (S t1 + S t2 < S (length r1))%nat).
  { rewrite E1 in Hk. rewrite app_length in Hk. simpl in Hk. lia. }
  destruct (nth_split r1 d (n := t1)) as (l2 & r2 & E2 & L2); [lia|].
  assert (Lr2 : (t2 < length r2)%nat).
  { rewrite E2 in Lr1. rewrite app_length in Lr1. simpl in Lr1. lia. }
  destruct (nth_split r2 d (n := t2)) as (l3 & l4 & E3 & L3); [lia|].
  assert (Hy : nth (i + S t1) l d = nth t1 r1 d).
  { rewrite E1, <- L1. apply nth_app_cons_S. }
  assert (Hz : nth (i + S t1 + S t2) l d = nth t2 r2 d).
  { rewrite E1, <- L1. replace (length l1 + S t1 + S t2)%nat with (length l1 + S (t1 + S t2))%nat by lia.
    rewrite nth_app_cons_S. rewrite E2, <- L2. apply nth_app_cons_S. }
  exists l1, l2, l3, l4. rewrite Hy, Hz. rewrite E1 at 1. f_equal. f_equal.
  rewrite E2 at 1. f_equal. f_equal. exact E3.
Qed.

Lemma sub3_of_nth {T} (l : list T) d i j k : (i < j < k)%nat -> (k < length l)%nat ->
  sub3 (nth i l d) (nth j l d) (nth k l d) l.
Proof.
  intros Hijk Hk. replace j with (i + S (j - i - 1))%nat by lia.
  replace k with (i + S (j - i - 1) + S (k - j - 1))%nat at 1 by lia.
  apply sub3_of_nth_plus. lia.
Qed.

Lemma sub3_nth_inv {T} (l : list T) d x y z : sub3 x y z l ->
  exists i j k, (i < j < k)%nat /\ (k < length l)%nat /\ nth i l d = x /\ nth j l d = y /\ nth k l d = z.
Proof.
  intros (l1 & l2 & l3 & l4 & ->).
  exists (length l1), (length l1 + S (length l2))%nat, (length l1 + S (length l2) + S (length l3))%nat.
  repeat split; try lia.
  - rewrite !app_length. simpl. rewrite !app_length. simpl. rewrite !app_length. simpl. lia.
  - rewrite app_nth2 by lia. now rewrite Nat.sub_diag.
  - rewrite app_nth2 by lia. replace (length l1 + S (length l2) - length l1)%nat with (S (length l2)) by lia.
    simpl. rewrite app_nth2 by lia. now rewrite Nat.sub_diag.
  - rewrite app_nth2 by lia.
    replace (length l1 + S (length l2) + S (length l3) - length l1)%nat with (S (length l2 + S (length l3))) by lia.
    simpl. rewrite app_nth2 by lia. replace (length l2 + S (length l3) - length l2)%nat with (S (length l3)) by lia.
    simpl. rewrite app_nth2 by lia. now rewrite Nat.sub_diag.
Qed.

Lemma filter_eq_app_cons {T} (f : T -> bool) l a x b : filter f l = a ++ x :: b ->
  exists l1 l2, l = l1 ++ x :: l2 /\ filter f l1 = a /\ filter f l2 = b /\ f x = true.
Proof.
  revert a. induction l as [|y r IH]; intros a E; simpl in E.
  - destruct a; discriminate.
  - destruct (f y) eqn:Fy.
    + destruct a as [|a0 a]; simpl in E.
      * injection E as -> E. exists [], r. simpl. auto.
      * injection E as -> E. destruct (IH a E) as (l1 & l2 & -> & H1 & H2 & H3).
        exists (a0 :: l1), l2. simpl. rewrite Fy, H1. auto.
    + destruct (IH a E) as (l1 & l2 & -> & H1 & H2 & H3). exists (y :: l1), l2. simpl. rewrite Fy. auto.
Qed.

Lemma sub3_filter {T} (f : T -> bool) x y z l :
  sub3 x y z (filter f l) <-> sub3 x y z l /\ f x = true /\ f y = true /\ f z = true.
Proof.
  split.
  - intros (a & b & c & e & E).
    apply filter_eq_app_cons in E. destruct E as (l1 & r1 & -> & _ & E & Fx).
    apply filter_eq_app_cons in E. destruct E as (l2 & r2 & -> & _ & E & Fy).
    apply filter_eq_app_cons in E. destruct E as (l3 & l4 & -> & _ & _ & Fz).
    split; [now exists l1, l2, l3, l4|auto].
  - intros [(l1 & l2 & l3 & l4 & ->) (Fx & Fy & Fz)].
    exists (filter f l1), (filter f l2), (filter f l3), (filter f l4).
    rewrite filter_app. simpl. rewrite Fx, filter_app. simpl. rewrite Fy, filter_app. simpl. now rewrite Fz.
Qed.

(* ---------------------------------------------------------------------------------------------- *)
(* 4. what each constraint says                                                                    *)

Lemma eval_app s l1 l2 : eval s (l1 ++ l2) = eval s l1 + eval s l2.
Proof. induction l1 as [|[c v] l1 IH]; simpl; [reflexivity|]. unfold eval in *. simpl. rewrite IH. lia. Qed.

Ltac open_cstr := unfold holds, holdsb; cbn [c_lhs c_rel c_rhs eval fold_right fst snd app].

Lemma holds_trans1 s x y z :
  holds s (trans1 x y z) <-> s (LeftOf x y) + s (LeftOf y z) - s (LeftOf x z) <= 1.
Proof. unfold trans1. open_cstr. rewrite Z.leb_le. lia. Qed.

Lemma holds_total1 s a b : holds s (total1 a b) <-> s (LeftOf a b) + s (LeftOf b a) = 1.
Proof. unfold total1. open_cstr. rewrite Z.eqb_eq. lia. Qed.

Lemma holds_ordering1 s m x y :
  holds s (ordering1 m x y) <-> s (Pos x) - s (Pos y) + Z.of_nat m * s (LeftOf x y) <= Z.of_nat m.
Proof. unfold ordering1. open_cstr. rewrite Z.leb_le. lia. Qed.

Lemma holds_diffpos1 s m x y :
  holds s (diffpos1 m x y) <->
  2 * s (Pos y) - 2 * s (Pos x) - (2 * Z.of_nat m + 1) * s (LeftOf x y) >= - (2 * Z.of_nat m).
Proof. unfold diffpos1. open_cstr. rewrite Z.leb_le. lia. Qed.

Lemma holds_cons1 s relax i j k :
  holds s (cons1 relax i j k) <-> 2 * s (LeftOf i k) + 2 * s (LeftOf k j) + eval s (relax i j k) <= 2.
Proof.
  unfold cons1, holds, holdsb. cbn [c_lhs c_rel c_rhs]. rewrite eval_app, Z.leb_le.
  cbn [eval fold_right fst snd]. lia.
Qed.

(* the constraint groups *)
Definition total_sem (s : asg) (m : nat) : Prop :=
  forall a b, (a < b < m)%nat -> s (LeftOf a b) + s (LeftOf b a) = 1.
Definition pos_sem (s : asg) (m : nat) : Prop :=
  forall a b, (a < b < m)%nat ->
    holds s (ordering1 m a b) /\ holds s (diffpos1 m a b) /\ holds s (ordering1 m b a) /\ holds s (diffpos1 m b a).
Definition trans_sem (s : asg) (m : nat) : Prop :=
  forall x y z, (x < m)%nat -> (y < m)%nat -> (z < m)%nat -> x <> y -> y <> z -> x <> z ->
    s (LeftOf x y) + s (LeftOf y z) - s (LeftOf x z) <= 1.

Lemma total_cstrs_sem s m : (forall c, In c (total_cstrs m) -> holds s c) <-> total_sem s m.
Proof.
  unfold total_cstrs, total_sem. split.
  - intros H a b Hab. apply holds_total1. apply H. apply in_map_iff. exists (a, b). split; [reflexivity|].
    now apply combos2_In.
  - intros H c Hc. apply in_map_iff in Hc. destruct Hc as ([a b] & <- & Hab). apply combos2_In in Hab.
    apply holds_total1. now apply H.
Qed.

Lemma pos_cstrs_sem s m : (forall c, In c (pos_cstrs m) -> holds s c) <-> pos_sem s m.
Proof.
  unfold pos_cstrs, pos_sem. split.
  - intros H a b Hab.
    assert (Hin : forall c, In c [ordering1 m a b; diffpos1 m a b; ordering1 m b a; diffpos1 m b a] -> holds s c).
    { intros c Hc. apply H. apply in_flat_map. exists (a, b). split; [now apply combos2_In|exact Hc]. }
    repeat split; apply Hin; simpl; auto.
  - intros H c Hc. apply in_flat_map in Hc. destruct Hc as ([a b] & Hab & Hc). apply combos2_In in Hab.
    destruct (H a b Hab) as (H1 & H2 & H3 & H4). simpl in Hc.
    destruct Hc as [<-|[<-|[<-|[<-|[]]]]]; assumption.
Qed.

Lemma trans_cstrs_sem s m : (forall c, In c (trans_cstrs m) -> holds s c) <-> trans_sem s m.
Proof.
  unfold trans_cstrs, trans_sem. split.
  - intros H.
    assert (Hs : forall a b c, (a < b < c /\ c < m)%nat ->
                 forall t, In t [trans1 a b c; trans1 a c b; trans1 b a c; trans1 b c a; trans1 c a b; trans1 c b a] ->
                 holds s t).
    { intros a b c Habc t Ht. apply H. apply in_flat_map. exists (a, b, c). split; [now apply combos3_In|exact Ht]. }
    intros x y z Hx Hy Hz Hxy Hyz Hxz. apply holds_trans1.
    destruct (lt_dec x y), (lt_dec y z), (lt_dec x z); try lia.
    + apply (Hs x y z); [lia|simpl; auto].
    + apply (Hs x z y); [lia|simpl; auto].
    + apply (Hs z x y); [lia|simpl; auto 10].
    + apply (Hs y x z); [lia|simpl; auto].
    + apply (Hs y z x); [lia|simpl; auto 10].
    + apply (Hs z y x); [lia|simpl; auto 10].
  - intros H t Ht. apply in_flat_map in Ht. destruct Ht as ([[a b] c] & Habc & Ht). apply combos3_In in Habc.
    simpl in Ht. destruct Ht as [<-|[<-|[<-|[<-|[<-|[<-|[]]]]]]]; apply holds_trans1; apply H; lia.
Qed.

(* the variable declarations *)
Definition leftof_binary (s : asg) (m : nat) : Prop :=
  forall a b, (a < m)%nat -> (b < m)%nat -> s (LeftOf a b) = 0 \/ s (LeftOf a b) = 1.
Definition pos_range (s : asg) (m : nat) : Prop :=
  forall a, (a < m)%nat -> 1 <= s (Pos a) <= Z.of_nat m.

Lemma leftof_vars_sem s m :
  (forall d, In d (leftof_vars m) -> v_lb d <= s (v_var d) <= v_ub d) <-> leftof_binary s m.
Proof.
  unfold leftof_vars, leftof_binary. split.
  - intros H a b Ha Hb. assert (Hd : 0 <= s (LeftOf a b) <= 1).
    { apply (H (binary (LeftOf a b))). apply in_flat_map. exists a. split; [apply in_seq; lia|].
      apply in_map_iff. exists b. split; [reflexivity|apply in_seq; lia]. }
    lia.
  - intros H d Hd. apply in_flat_map in Hd. destruct Hd as (a & Ha & Hd). apply in_map_iff in Hd.
    destruct Hd as (b & <- & Hb). apply in_seq in Ha, Hb. simpl. destruct (H a b); lia.
Qed.

Lemma pos_vars_sem s m :
  (forall d, In d (pos_vars m) -> v_lb d <= s (v_var d) <= v_ub d) <-> pos_range s m.
Proof.
  unfold pos_vars, pos_range. split.
  - intros H a Ha. apply (H (mk_vdecl (Pos a) 1 (Z.of_nat m))). apply in_map_iff. exists a.
    split; [reflexivity|apply in_seq; lia].
  - intros H d Hd. apply in_map_iff in Hd. destruct Hd as (a & <- & Ha). apply in_seq in Ha. simpl. apply H. lia.
Qed.

Lemma binary_vars_sem (mkv : nat -> var) s n :
  (forall d, In d (map (fun v => binary (mkv v)) (seq 0 n)) -> v_lb d <= s (v_var d) <= v_ub d) <->
  (forall v, (v < n)%nat -> s (mkv v) = 0 \/ s (mkv v) = 1).
Proof.
  split.
  - intros H v Hv. assert (Hd : 0 <= s (mkv v) <= 1).
    { apply (H (binary (mkv v))). apply in_map_iff. exists v. split; [reflexivity|apply in_seq; lia]. }
    lia.
  - intros H d Hd. apply in_map_iff in Hd. destruct Hd as (v & <- & Hv). apply in_seq in Hv. simpl.
    destruct (H v); lia.
Qed.

(* ---------------------------------------------------------------------------------------------- *)
(* 5. CORE 1: totality + position constraints + bounds  =>  LeftOf is the strict order of Pos       *)

Theorem pos_order_core s m : leftof_binary s m -> pos_range s m -> total_sem s m -> pos_sem s m ->
  forall x y, (x < m)%nat -> (y < m)%nat -> x <> y ->
    (s (LeftOf x y) = 1 <-> s (Pos x) < s (Pos y)) /\ (s (LeftOf x y) = 0 <-> s (Pos y) < s (Pos x)).
Proof.
  intros Hb Hr Ht Hp.
  assert (W : forall a b, (a < b < m)%nat ->
    ((s (LeftOf a b) = 1 <-> s (Pos a) < s (Pos b)) /\ (s (LeftOf a b) = 0 <-> s (Pos b) < s (Pos a))) /\
    ((s (LeftOf b a) = 1 <-> s (Pos b) < s (Pos a)) /\ (s (LeftOf b a) = 0 <-> s (Pos a) < s (Pos b)))).
  { intros a b Hab. destruct (Hp a b Hab) as (O1 & D1 & O2 & D2).
    apply holds_ordering1 in O1, O2. apply holds_diffpos1 in D1, D2.
    pose proof (Ht a b Hab) as T. pose proof (Hr a ltac:(lia)) as Ra. pose proof (Hr b ltac:(lia)) as Rb.
    destruct (Hb a b ltac:(lia) ltac:(lia)) as [E1|E1], (Hb b a ltac:(lia) ltac:(lia)) as [E2|E2];
      rewrite E1, E2 in *; lia. }
  intros x y Hx Hy Hxy. destruct (lt_dec x y) as [L|L].
  - apply (W x y). lia.
  - apply (W y x). lia.
Qed.

Corollary pos_injective s m : leftof_binary s m -> pos_range s m -> total_sem s m -> pos_sem s m ->
  forall x y, (x < m)%nat -> (y < m)%nat -> s (Pos x) = s (Pos y) -> x = y.
Proof.
  intros Hb Hr Ht Hp x y Hx Hy E. destruct (Nat.eq_dec x y) as [|Hne]; [assumption|exfalso].
  destruct (pos_order_core s m Hb Hr Ht Hp x y Hx Hy Hne) as [H1 H0].
  destruct (Hb x y Hx Hy) as [Z0|Z1]; [apply H0 in Z0|apply H1 in Z1]; lia.
Qed.

(* conversely: any injective placement gives an assignment satisfying the three structural groups *)
Definition mk_asg (posn : nat -> nat) (dv da : nat -> bool) : asg :=
  fun v => match v with
           | LeftOf a b => if (posn a <? posn b)%nat then 1 else 0
           | Pos a => Z.of_nat (posn a) + 1
           | DelVoter v => if dv v then 1 else 0
           | DelAlt a => if da a then 1 else 0
           end.

Lemma mk_asg_structural posn dv da m :
  (forall a, (a < m)%nat -> (posn a < m)%nat) ->
  (forall a b, (a < m)%nat -> (b < m)%nat -> posn a = posn b -> a = b) ->
  let s := mk_asg posn dv da in
  leftof_binary s m /\ pos_range s m /\ total_sem s m /\ pos_sem s m /\ trans_sem s m.
Proof.
  intros Hlt Hinj s. repeat split.
  - intros a b _ _. unfold s, mk_asg. destruct (posn a <? posn b)%nat; auto.
  - unfold s, mk_asg. specialize (Hlt a H). lia.
  - unfold s, mk_asg. specialize (Hlt a H). lia.
  - intros a b Hab. unfold s, mk_asg.
    assert (posn a <> posn b) by (intros E; apply Hinj in E; lia).
    destruct (Nat.ltb_spec (posn a) (posn b)), (Nat.ltb_spec (posn b) (posn a)); lia.
  - apply holds_ordering1. unfold s, mk_asg. pose proof (Hlt a ltac:(lia)). pose proof (Hlt b ltac:(lia)).
    destruct (Nat.ltb_spec (posn a) (posn b)); lia.
  - apply holds_diffpos1. unfold s, mk_asg. pose proof (Hlt a ltac:(lia)). pose proof (Hlt b ltac:(lia)).
    destruct (Nat.ltb_spec (posn a) (posn b)); lia.
  - apply holds_ordering1. unfold s, mk_asg. pose proof (Hlt a ltac:(lia)). pose proof (Hlt b ltac:(lia)).
    destruct (Nat.ltb_spec (posn b) (posn a)); lia.
  - apply holds_diffpos1. unfold s, mk_asg. pose proof (Hlt a ltac:(lia)). pose proof (Hlt b ltac:(lia)).
    destruct (Nat.ltb_spec (posn b) (posn a)); lia.
  - intros x y z _ _ _ _ _ _. unfold s, mk_asg.
    destruct (Nat.ltb_spec (posn x) (posn y)), (Nat.ltb_spec (posn y) (posn z)), (Nat.ltb_spec (posn x) (posn z)); lia.
Qed.
