(* Proofs/Autocorrect.v — lemmas for property C16 (autocorrect): the mirror parsers ord_parse / cat_parse
   (Model/OrdIO.v, Model/CatIO.v) against the independent description of Model/Autocorrect.v. *)
From Coq Require Import List Arith NArith Bool Lia String.
From PrefVerif Require Import Lib.Val Lib.Dec Lib.PyStr Model.Meta Model.Autocorrect Proofs.Meta.
From PrefVerif Require Model.OrdIO Model.CatIO.
Import ListNotations.

(* ================================================================================================ *)
(* A. association lists and merging by summation, generic in the key type                           *)
(* ================================================================================================ *)
Section Generic.
  Context {K : Type} (eqb : K -> K -> bool).
  Hypothesis eqb_eq : forall a b, eqb a b = true <-> a = b.

  Lemma eqb_refl a : eqb a a = true.
  Proof. now apply eqb_eq. Qed.

  Lemma eqb_neq a b : a <> b -> eqb a b = false.
  Proof. intros H. destruct (eqb a b) eqn:E; [|reflexivity]. apply eqb_eq in E. contradiction. Qed.

  Lemma eqb_sym a b : eqb a b = eqb b a.
  Proof.
    destruct (eqb a b) eqn:E.
    - apply eqb_eq in E. subst. symmetry. apply eqb_refl.
    - destruct (eqb b a) eqn:E2; [|reflexivity]. apply eqb_eq in E2. subst. rewrite eqb_refl in E. discriminate.
  Qed.

  Lemma kmem_In x l : kmem eqb x l = true <-> In x l.
  Proof.
    unfold kmem. rewrite existsb_exists. split.
    - intros (y & Hy & E). apply eqb_eq in E. now subst.
    - intros H. exists x. split; [exact H|apply eqb_refl].
  Qed.

  Lemma kmem_false x l : kmem eqb x l = false <-> ~ In x l.
  Proof.
    split.
    - intros H Hin. apply kmem_In in Hin. congruence.
    - intros H. destruct (kmem eqb x l) eqn:E; [|reflexivity]. apply kmem_In in E. contradiction.
  Qed.

  Lemma nodupb_NoDup l : nodupb eqb l = true <-> NoDup l.
  Proof.
    induction l as [|x r IH]; cbn [nodupb].
    - split; [constructor|reflexivity].
    - rewrite andb_true_iff, negb_true_iff, kmem_false, IH. split.
      + intros [H1 H2]. now constructor.
      + intros H. inversion H. now split.
  Qed.

  (* ---- dict operations ---- *)
  Lemma assoc_get_none {V} k (d : list (K * V)) : assoc_get eqb k d = None <-> ~ In k (keys d).
  Proof.
    induction d as [|[k' v] r IH]; cbn [assoc_get keys map fst].
    - split; [intros _ []|reflexivity].
    - destruct (eqb k k') eqn:E.
      + apply eqb_eq in E. subst. split; [discriminate|]. intros H. exfalso. apply H. now left.
      + rewrite IH. unfold keys. split.
        * intros H [H1|H1]; [subst; rewrite eqb_refl in E; discriminate|contradiction].
        * intros H H1. apply H. now right.
  Qed.

  Lemma assoc_get_some_in {V} k (d : list (K * V)) v : assoc_get eqb k d = Some v -> In k (keys d).
  Proof.
    intros H. destruct (in_dec (fun a b => match bool_dec (eqb a b) true with
                                           | left e => left (proj1 (eqb_eq a b) e)
                                           | right n => right (fun e => n (proj2 (eqb_eq a b) e)) end)
                               k (keys d)) as [Hin|Hn]; [exact Hin|].
    apply assoc_get_none in Hn. congruence.
  Qed.

  Lemma assoc_get_set {V} k' k (v : V) d :
    assoc_get eqb k' (assoc_set eqb k v d) = if eqb k' k then Some v else assoc_get eqb k' d.
  Proof.
    induction d as [|[k0 v0] r IH]; cbn [assoc_set assoc_get].
    - destruct (eqb k' k); reflexivity.
    - destruct (eqb k k0) eqn:E.
      + apply eqb_eq in E. subst k0. cbn [assoc_get]. destruct (eqb k' k); reflexivity.
      + cbn [assoc_get]. destruct (eqb k' k0) eqn:E2.
        * apply eqb_eq in E2. subst k0. rewrite (eqb_sym k' k), E. reflexivity.
        * exact IH.
  Qed.

  Lemma assoc_set_absent {V} k (v : V) d : assoc_get eqb k d = None -> assoc_set eqb k v d = d ++ [(k, v)].
  Proof.
    induction d as [|[k0 v0] r IH]; cbn [assoc_set assoc_get app]; [reflexivity|].
    destruct (eqb k k0); [discriminate|]. intros H. now rewrite IH.
  Qed.

  Lemma keys_set_present {V} k (v v0 : V) d : assoc_get eqb k d = Some v0 -> keys (assoc_set eqb k v d) = keys d.
  Proof.
    induction d as [|[k0 v1] r IH]; cbn [assoc_set assoc_get]; [discriminate|].
    destruct (eqb k k0) eqn:E.
    - apply eqb_eq in E. now subst.
    - intros H. unfold keys in *. cbn [map fst]. now rewrite IH.
  Qed.

  Lemma sum_N_app a b : sum_N (a ++ b) = (sum_N a + sum_N b)%N.
  Proof. unfold sum_N. induction a as [|x a IH]; cbn [app fold_right]; [reflexivity|]. rewrite IH. lia. Qed.

  Lemma sum_values_set_present k (v0 m : N) d : assoc_get eqb k d = Some v0 ->
    sum_N (values (assoc_set eqb k (v0 + m)%N d)) = (sum_N (values d) + m)%N.
  Proof.
    induction d as [|[k0 v1] r IH]; cbn [assoc_set assoc_get]; [discriminate|].
    destruct (eqb k k0) eqn:E.
    - intros H. injection H as ->. unfold values. cbn [map snd sum_N fold_right]. lia.
    - intros H. unfold values in *. cbn [map snd sum_N fold_right]. fold (sum_N (map snd (assoc_set eqb k (v0 + m)%N r))).
      fold (sum_N (map snd r)). rewrite IH by exact H. lia.
  Qed.

  (* a table is determined by its keys and its lookups *)
  Lemma assoc_ext {V} (f : K -> V) d : NoDup (keys d) ->
    (forall k, In k (keys d) -> assoc_get eqb k d = Some (f k)) -> d = map (fun k => (k, f k)) (keys d).
  Proof.
    induction d as [|[k v] r IH]; intros Hnd H; [reflexivity|].
    unfold keys in *. cbn [map fst] in *. inversion Hnd as [|? ? Hnin Hnd']; subst.
    f_equal.
    - specialize (H k (or_introl eq_refl)). cbn [assoc_get] in H. rewrite eqb_refl in H. now injection H as ->.
    - apply IH; [exact Hnd'|]. intros k' Hin. specialize (H k' (or_intror Hin)). cbn [assoc_get] in H.
      rewrite eqb_neq in H; [exact H|]. intros ->. contradiction.
  Qed.

  (* ---- distinct ---- *)
  Lemma distinct_snoc l x :
    distinct eqb (l ++ [x]) = if kmem eqb x (distinct eqb l) then distinct eqb l else distinct eqb l ++ [x].
  Proof. unfold distinct. rewrite fold_left_app. reflexivity. Qed.

  Lemma distinct_In l x : In x (distinct eqb l) <-> In x l.
  Proof.
    revert x. induction l as [|y l IH] using rev_ind; intros x; [reflexivity|].
    rewrite distinct_snoc, in_app_iff. cbn [In]. destruct (kmem eqb y (distinct eqb l)) eqn:E.
    - apply kmem_In in E. apply IH in E. rewrite IH. split; [tauto|]. intros [H|[H|[]]]; [exact H|now subst].
    - rewrite in_app_iff, IH. cbn [In]. tauto.
  Qed.

  Lemma distinct_NoDup l : NoDup (distinct eqb l).
  Proof.
    induction l as [|y l IH] using rev_ind; [constructor|].
    rewrite distinct_snoc. destruct (kmem eqb y (distinct eqb l)) eqn:E; [exact IH|].
    apply kmem_false in E. apply NoDup_rev in IH. rewrite <- (rev_involutive (_ ++ _)). apply NoDup_rev.
    rewrite rev_app_distr. cbn [rev app]. constructor; [|exact IH]. now rewrite <- in_rev.
  Qed.

  Lemma distinct_id l : NoDup l -> distinct eqb l = l.
  Proof.
    induction l as [|y l IH] using rev_ind; [reflexivity|]. intros H.
    apply NoDup_rev in H. rewrite rev_app_distr in H. cbn [rev app] in H. inversion H as [|? ? Hn Hnd]; subst.
    apply NoDup_rev in Hnd. rewrite rev_involutive in Hnd. rewrite <- in_rev in Hn.
    rewrite distinct_snoc, IH by exact Hnd. apply kmem_false in Hn. now rewrite Hn.
  Qed.

  (* ---- sums over lines ---- *)
  Lemma msum_snoc bs m o o' :
    msum eqb (bs ++ [(m, o)]) o' = (msum eqb bs o' + (if eqb o o' then m else 0))%N.
  Proof.
    unfold msum. rewrite filter_app, map_app, sum_N_app. cbn [filter snd].
    destruct (eqb o o'); cbn [map fst sum_N fold_right]; lia.
  Qed.

  Lemma total_snoc (bs : list (N * K)) m o : total (bs ++ [(m, o)]) = (total bs + m)%N.
  Proof. unfold total. rewrite map_app, sum_N_app. cbn [map fst sum_N fold_right]. lia. Qed.

  Lemma msum_absent bs o : ~ In o (map snd bs) -> msum eqb bs o = 0%N.
  Proof.
    induction bs as [|[m o'] bs IH]; intros H; [reflexivity|].
    unfold msum. cbn [filter snd]. cbn [map snd In] in H.
    rewrite eqb_neq by (intros ->; apply H; now left).
    apply IH. intros Hin. apply H. now right.
  Qed.

  (* ---- the merge step shared by both parsers ---- *)
  Definition gadd (st : list K * list (K * N)) (b : N * K) : list K * list (K * N) :=
    match assoc_get eqb (snd b) (snd st) with
    | Some k => (fst st, assoc_set eqb (snd b) (k + fst b)%N (snd st))
    | None => (fst st ++ [snd b], assoc_set eqb (snd b) (fst b) (snd st))
    end.

  Definition merge_inv (st : list K * list (K * N)) (bs : list (N * K)) : Prop :=
    fst st = distinct eqb (map snd bs) /\ keys (snd st) = fst st /\
    (forall o, In o (fst st) -> assoc_get eqb o (snd st) = Some (msum eqb bs o)) /\
    sum_N (values (snd st)) = total bs.

  Lemma merge_inv_step st bs b : merge_inv st bs -> merge_inv (gadd st b) (bs ++ [b]).
  Proof.
    destruct st as [ords mu], b as [m o]. unfold merge_inv, gadd. cbn [fst snd].
    intros (Ho & Hk & Hget & Hsum). rewrite map_app. cbn [map snd]. rewrite distinct_snoc, <- Ho.
    destruct (assoc_get eqb o mu) as [k|] eqn:E.
    - cbn [fst snd]. assert (Hin : In o ords) by (rewrite <- Hk; eapply assoc_get_some_in; eauto).
      pose proof (proj2 (kmem_In o ords) Hin) as Hm. rewrite Hm.
      split; [reflexivity|]. split; [rewrite (keys_set_present _ _ _ _ E); exact Hk|]. split.
      + intros o' Hin'. rewrite assoc_get_set, msum_snoc. rewrite (eqb_sym o' o).
        destruct (eqb o o') eqn:E2.
        * apply eqb_eq in E2. subst o'. rewrite (Hget o Hin) in E. now injection E as ->.
        * rewrite (Hget o' Hin'). f_equal. lia.
      + rewrite total_snoc, <- Hsum. now apply sum_values_set_present.
    - cbn [fst snd]. assert (Hnin : ~ In o ords) by (rewrite <- Hk; now apply assoc_get_none).
      pose proof (proj2 (kmem_false o ords) Hnin) as Hm. rewrite Hm.
      rewrite (assoc_set_absent _ _ _ E).
      split; [reflexivity|]. split; [unfold keys; rewrite map_app; cbn [map fst]; now rewrite <- Hk|]. split.
      + intros o' Hin'. rewrite <- (assoc_set_absent _ _ _ E), assoc_get_set, msum_snoc, (eqb_sym o' o).
        destruct (eqb o o') eqn:E2.
        * apply eqb_eq in E2. subst o'. rewrite msum_absent; [reflexivity|].
          intros Hin2. apply Hnin. rewrite Ho. now apply distinct_In.
        * apply in_app_or in Hin' as [Hin'|[->|[]]]; [|rewrite eqb_refl in E2; discriminate].
          rewrite (Hget o' Hin'). f_equal. lia.
      + unfold values. rewrite map_app, sum_N_app, total_snoc. cbn [map snd sum_N fold_right].
        unfold values in Hsum. rewrite Hsum. lia.
  Qed.

  Lemma merge_inv_fold bs : forall st bs0, merge_inv st bs0 -> merge_inv (fold_left gadd bs st) (bs0 ++ bs).
  Proof.
    induction bs as [|b bs IH]; intros st bs0 H; cbn [fold_left]; [now rewrite app_nil_r|].
    replace (bs0 ++ b :: bs) with ((bs0 ++ [b]) ++ bs) by (rewrite <- app_assoc; reflexivity).
    apply IH. now apply merge_inv_step.
  Qed.

  (* the loop invariant at the end of the file: ballot list, table, sum of the table *)
  Theorem merge_fold_spec bs :
    fold_left gadd bs ([], []) = (distinct eqb (map snd bs), merged eqb bs) /\
    sum_N (values (merged eqb bs)) = total bs.
  Proof.
    assert (H0 : merge_inv ([], []) []).
    { unfold merge_inv. cbn. repeat split. intros o []. }
    pose proof (merge_inv_fold bs _ _ H0) as H. cbn [app] in H.
    destruct (fold_left gadd bs ([], [])) as [ords mu]. destruct H as (Ho & Hk & Hget & Hsum). cbn [fst snd] in *.
    assert (Hmu : mu = merged eqb bs).
    { unfold merged. rewrite <- Ho, <- Hk. apply assoc_ext.
      - rewrite Hk, Ho. apply distinct_NoDup.
      - intros k Hin. apply Hget. now rewrite <- Hk. }
    split; [now rewrite Ho, Hmu|]. now rewrite <- Hmu.
  Qed.

  Lemma merged_keys bs : keys (merged eqb bs) = distinct eqb (map snd bs).
  Proof. unfold merged, keys. rewrite map_map. cbn [fst]. apply map_id. Qed.

  Lemma merged_get bs o : In o (map snd bs) -> assoc_get eqb o (merged eqb bs) = Some (msum eqb bs o).
  Proof.
    intros Hin. apply (distinct_In _ o) in Hin. unfold merged.
    induction (distinct eqb (map snd bs)) as [|x l IH]; [destruct Hin|].
    cbn [map assoc_get]. destruct (eqb o x) eqn:E.
    - apply eqb_eq in E. now subst.
    - destruct Hin as [->|Hin]; [rewrite eqb_refl in E; discriminate|]. now apply IH.
  Qed.

  Lemma merged_get_absent bs o : ~ In o (map snd bs) -> assoc_get eqb o (merged eqb bs) = None.
  Proof. intros H. apply assoc_get_none. rewrite merged_keys, distinct_In. exact H. Qed.

  (* without repeated ballots the merging loop and the plain loop coincide *)
  Definition padd (st : list K * list (K * N)) (b : N * K) : list K * list (K * N) :=
    (fst st ++ [snd b], assoc_set eqb (snd b) (fst b) (snd st)).

  Lemma fold_gadd_padd bs : forall st, keys (snd st) = fst st -> NoDup (fst st ++ map snd bs) ->
    fold_left gadd bs st = fold_left padd bs st.
  Proof.
    induction bs as [|[m o] bs IH]; intros [ords mu] Hk Hnd; [reflexivity|].
    cbn [fold_left fst snd map] in *.
    assert (Hnin : ~ In o ords).
    { intros Hin. apply NoDup_remove_2 in Hnd. apply Hnd. apply in_or_app. now left. }
    assert (E : assoc_get eqb o mu = None) by (apply assoc_get_none; now rewrite Hk).
    assert (Hstep : gadd (ords, mu) (m, o) = padd (ords, mu) (m, o)).
    { unfold gadd, padd. cbn [fst snd]. now rewrite E. }
    rewrite Hstep. apply IH.
    - unfold padd. cbn [fst snd]. rewrite (assoc_set_absent _ _ _ E). unfold keys in *. rewrite map_app, Hk. reflexivity.
    - unfold padd. cbn [fst snd]. rewrite <- app_assoc. exact Hnd.
  Qed.
End Generic.

(* ================================================================================================ *)
(* B. the ordinal parser                                                                            *)
(* ================================================================================================ *)
Lemma olist_eqb_eq {T} (eqb : T -> T -> bool) : (forall a b, eqb a b = true <-> a = b) ->
  forall a b, OrdIO.list_eqb eqb a b = true <-> a = b.
Proof.
  intros H. induction a as [|x a IH]; destruct b as [|y b]; cbn [OrdIO.list_eqb].
  - split; reflexivity.
  - split; discriminate.
  - split; discriminate.
  - rewrite andb_true_iff, H, IH. split; [intros [-> ->]; reflexivity|]. intros E. injection E. auto.
Qed.

Lemma order_eqb_eq a b : OrdIO.order_eqb a b = true <-> a = b.
Proof. apply olist_eqb_eq. apply olist_eqb_eq. apply N.eqb_eq. Qed.

Lemma ord_add_true st b : OrdIO.add_ballot true st b = gadd OrdIO.order_eqb st b.
Proof. destruct st as [ords mu], b as [m o]. unfold gadd. cbn [OrdIO.add_ballot fst snd]. reflexivity. Qed.

Lemma ord_add_false st b : OrdIO.add_ballot false st b = padd OrdIO.order_eqb st b.
Proof. destruct st as [ords mu], b as [m o]. reflexivity. Qed.

Lemma fold_left_ext {A B} (f g : A -> B -> A) l : (forall a b, f a b = g a b) -> forall a, fold_left f l a = fold_left g l a.
Proof. intros H. induction l as [|x l IH]; intros a; cbn [fold_left]; [reflexivity|]. now rewrite H, IH. Qed.

(* the ballot loop = read every line on its own, then fold the merge step *)
Lemma ord_ballot_loop_fold au ls : forall st,
  OrdIO.ballot_loop au st ls = rmap (fun bs => fold_left (OrdIO.add_ballot au) bs st) (ord_ballots_r ls).
Proof.
  induction ls as [|l ls IH]; intros st; cbn [OrdIO.ballot_loop ord_ballots_r]; [reflexivity|].
  unfold ord_line. destruct (remove_ws l) as [|c s] eqn:E.
  - cbn [rbind]. rewrite IH. destruct (ord_ballots_r ls); reflexivity.
  - destruct (OrdIO.parse_ballot (c :: s)) as [b|e]; cbn [rbind rmap]; [|reflexivity].
    rewrite IH. destruct (ord_ballots_r ls); reflexivity.
Qed.

(* what the header loop hands to the ballot loop does not depend on the header state *)
Lemma ord_header_rest au lines : forall st st' rest,
  OrdIO.header_loop au st lines = Ok (st', rest) -> rest = body_lines lines.
Proof.
  induction lines as [|l r IH]; intros st st' rest H.
  - cbn in H. now injection H as _ <-.
  - cbn [OrdIO.header_loop body_lines] in *. unfold is_header. change OrdIO.hash with hash in H.
    destruct (startswith hash (strip l)).
    + destruct (OrdIO.header_step au st (strip l)) as [st1|e]; cbn [rbind] in H; [|discriminate].
      destruct r as [|l2 r2]; [now injection H as _ <-|]. eapply IH; eauto.
    + now injection H as _ <-.
Qed.

Definition ord_reserve (m0 : meta) (lines : list text) : meta :=
  set_reserved m0 (reserved_of alt_name_prefix lines).

(* ord_parse true, taken apart *)
Lemma ord_parse_true_inv m0 lines i : OrdIO.ord_parse true false m0 lines = Ok i ->
  exists m nu bs,
    OrdIO.header_loop true (ord_reserve m0 lines, 0%N) lines = Ok ((m, nu), body_lines lines) /\
    ord_ballots_r (body_lines lines) = Ok bs /\
    i = OrdIO.mkOinst (set_num_voters (set_num_alternatives m (N.of_nat (List.length (alt_names m)))) (total bs))
                      (N.of_nat (List.length (distinct OrdIO.order_eqb (map snd bs))))
                      (distinct OrdIO.order_eqb (map snd bs)) (merged OrdIO.order_eqb bs).
Proof.
  unfold OrdIO.ord_parse. fold (ord_reserve m0 lines).
  destruct (OrdIO.header_loop true (ord_reserve m0 lines, 0%N) lines) as [[[m nu] rest]|e] eqn:EH; cbn [rbind]; [|discriminate].
  pose proof (ord_header_rest _ _ _ _ _ EH) as ->.
  rewrite ord_ballot_loop_fold.
  destruct (ord_ballots_r (body_lines lines)) as [bs|e] eqn:EB; cbn [rmap rbind]; [|discriminate].
  rewrite (fold_left_ext _ _ bs ord_add_true).
  destruct (merge_fold_spec OrdIO.order_eqb order_eqb_eq bs) as [Hf Hs]. rewrite Hf.
  intros H. injection H as <-. exists m, nu, bs. split; [reflexivity|]. split; [reflexivity|].
  change OrdIO.sum_N with sum_N. now rewrite Hs.
Qed.

Lemma ord_ballots_ok lines bs : ord_ballots_r (body_lines lines) = Ok bs -> ord_ballots lines = bs.
Proof. unfold ord_ballots. now intros ->. Qed.

(* ac_merge, ordinal content *)
Theorem ac_merge_ord m0 lines i : OrdIO.ord_parse true false m0 lines = Ok i ->
  let bs := ord_ballots lines in
  NoDup (OrdIO.o_orders i) /\
  OrdIO.o_orders i = distinct OrdIO.order_eqb (map snd bs) /\
  (forall o, In o (OrdIO.o_orders i) <-> In o (map snd bs)) /\
  keys (OrdIO.o_mult i) = OrdIO.o_orders i /\
  OrdIO.o_mult i = merged OrdIO.order_eqb bs /\
  (forall o, OrdIO.mult_of i o = ord_lines_mult lines o) /\
  num_voters (OrdIO.o_meta i) = total bs /\
  OrdIO.o_num_unique i = N.of_nat (List.length (distinct OrdIO.order_eqb (map snd bs))) /\
  num_alternatives (OrdIO.o_meta i) = N.of_nat (List.length (alt_names (OrdIO.o_meta i))).
Proof.
  intros H. destruct (ord_parse_true_inv _ _ _ H) as (m & nu & bs & _ & HB & ->).
  rewrite (ord_ballots_ok _ _ HB). cbn zeta. cbn [OrdIO.o_orders OrdIO.o_mult OrdIO.o_meta OrdIO.o_num_unique].
  split; [apply distinct_NoDup; exact order_eqb_eq|]. split; [reflexivity|].
  split; [intros o; apply distinct_In; exact order_eqb_eq|].
  split; [apply merged_keys|]. split; [reflexivity|]. split.
  - intros o. unfold OrdIO.mult_of, ord_lines_mult. cbn [OrdIO.o_mult]. rewrite (ord_ballots_ok _ _ HB).
    destruct (in_dec (list_eq_dec (list_eq_dec N.eq_dec)) o (map snd bs)) as [Hin|Hn].
    + now rewrite (merged_get _ order_eqb_eq _ _ Hin).
    + rewrite (merged_get_absent _ order_eqb_eq _ _ Hn). symmetry. now apply msum_absent; [exact order_eqb_eq|].
  - destruct m; cbn. repeat split; reflexivity.
Qed.

(* the independent description computes exactly the table and the counts of the parser *)
Theorem ord_expected_agrees m0 lines i : OrdIO.ord_parse true false m0 lines = Ok i ->
  ord_expected lines = Ok (OrdIO.o_mult i, num_voters (OrdIO.o_meta i), OrdIO.o_num_unique i).
Proof.
  intros H. destruct (ord_parse_true_inv _ _ _ H) as (m & nu & bs & _ & HB & ->).
  unfold ord_expected. rewrite HB. destruct m; reflexivity.
Qed.

(* ================================================================================================ *)
(* C. the categorical parser                                                                        *)
(* ================================================================================================ *)
Lemma clist_eqb_eq {T} (eqb : T -> T -> bool) : (forall a b, eqb a b = true <-> a = b) ->
  forall a b, CatIO.list_eqb eqb a b = true <-> a = b.
Proof.
  intros H. induction a as [|x a IH]; destruct b as [|y b]; cbn [CatIO.list_eqb].
  - split; reflexivity.
  - split; discriminate.
  - split; discriminate.
  - rewrite andb_true_iff, H, IH. split; [intros [-> ->]; reflexivity|]. intros E. injection E. auto.
Qed.

Lemma ballot_eqb_eq a b : CatIO.ballot_eqb a b = true <-> a = b.
Proof. apply clist_eqb_eq. apply clist_eqb_eq. apply N.eqb_eq. Qed.

Definition cproj (i : CatIO.cinst) : list CatIO.ballot * list (CatIO.ballot * N) := (CatIO.c_prefs i, CatIO.c_mult i).
Definition cput (i : CatIO.cinst) (st : list CatIO.ballot * list (CatIO.ballot * N)) : CatIO.cinst :=
  CatIO.set_c_ballots i (fst st) (snd st).
Definition cadd (au : bool) (i : CatIO.cinst) (b : N * CatIO.ballot) : CatIO.cinst :=
  CatIO.add_ballot au i (fst b) (snd b).

Lemma cat_add_true i b : cadd true i b = cput i (gadd CatIO.ballot_eqb (cproj i) b).
Proof.
  destruct b as [k b]. unfold cadd, cput, gadd, cproj, CatIO.add_ballot. cbn [fst snd].
  destruct (assoc_get CatIO.ballot_eqb b (CatIO.c_mult i)); reflexivity.
Qed.

Lemma cat_add_false i b : cadd false i b = cput i (padd CatIO.ballot_eqb (cproj i) b).
Proof. destruct b as [k b]. reflexivity. Qed.

Lemma cput_cput i st st' : cput (cput i st) st' = cput i st'.
Proof. reflexivity. Qed.
Lemma cproj_cput i st : cproj (cput i st) = st.
Proof. destruct st. reflexivity. Qed.
Lemma cput_cproj i : cput i (cproj i) = i.
Proof. destruct i. reflexivity. Qed.

Lemma cat_fold_proj (f : list CatIO.ballot * list (CatIO.ballot * N) -> N * CatIO.ballot -> _) (g : CatIO.cinst -> N * CatIO.ballot -> CatIO.cinst) :
  (forall i b, g i b = cput i (f (cproj i) b)) ->
  forall bs i, fold_left g bs i = cput i (fold_left f bs (cproj i)).
Proof.
  intros H. induction bs as [|b bs IH]; intros i; cbn [fold_left]; [now rewrite cput_cproj|].
  rewrite IH, H, cproj_cput, cput_cput. reflexivity.
Qed.

Lemma cat_ballot_loop_fold au ls : forall i,
  CatIO.ballot_loop au i ls = rmap (fun bs => fold_left (cadd au) bs i) (cat_ballots_r ls).
Proof.
  induction ls as [|l ls IH]; intros i; cbn [CatIO.ballot_loop cat_ballots_r]; [reflexivity|].
  destruct (CatIO.ballot_of_line l) as [[k b]|e]; cbn [rbind]; [|reflexivity].
  rewrite IH. destruct (cat_ballots_r ls); reflexivity.
Qed.

(* a header line leaves the ballots alone *)
Lemma cat_header_line_ballots au resv i line i' :
  CatIO.header_line au resv i line = Ok i' -> cproj i' = cproj i.
Proof.
  unfold CatIO.header_line. intros H.
  assert (H1 : exists i1, cproj i1 = cproj i /\
    (if startswith (lit "# NUMBER CATEGORIES") line
     then rmap (CatIO.set_c_num_categories i1) (py_int (drop 20 line))
     else if startswith (lit "# CATEGORY NAME") line then
       match match_name cat_name_prefix line with
       | Some (cat, nm) =>
         rmap (fun nm' => CatIO.set_c_cat_names i1 (assoc_set N.eqb cat nm' (CatIO.c_cat_names i1)))
              (corrected_name au nm (values (CatIO.c_cat_names i1)) resv)
       | None => Ok i1
       end
     else rmap (CatIO.set_c_meta i1) (parse_metadata au (CatIO.c_meta i1) line)) = Ok i').
  { destruct (startswith (lit "# NUMBER UNIQUE PREFERENCES") line).
    - destruct (py_int (drop 28 line)) as [n|e]; cbn [rmap rbind] in H; [|discriminate].
      eexists. split; [|exact H]. reflexivity.
    - cbn [rbind] in H. exists i. split; [reflexivity|exact H]. }
  clear H. destruct H1 as (i1 & <- & H).
  destruct (startswith (lit "# NUMBER CATEGORIES") line).
  - destruct (py_int (drop 20 line)); cbn [rmap] in H; [|discriminate]. now injection H as <-.
  - destruct (startswith (lit "# CATEGORY NAME") line).
    + destruct (match_name cat_name_prefix line) as [[cat nm]|]; [|now injection H as <-].
      destruct (corrected_name au nm (values (CatIO.c_cat_names i1)) resv); cbn [rmap] in H; [|discriminate].
      now injection H as <-.
    + destruct (parse_metadata au (CatIO.c_meta i1) line); cbn [rmap] in H; [|discriminate]. now injection H as <-.
Qed.

Lemma cat_header_rest au resv lines : forall i i' rest,
  CatIO.header_loop au resv i lines = Ok (i', rest) -> rest = body_lines lines /\ cproj i' = cproj i.
Proof.
  induction lines as [|l r IH]; intros i i' rest H.
  - cbn in H. injection H as <- <-. now split.
  - cbn [CatIO.header_loop body_lines] in *. unfold is_header. change CatIO.hash_prefix with hash in H.
    destruct (startswith hash (strip l)).
    + destruct (CatIO.header_line au resv i (strip l)) as [i1|e] eqn:E1; cbn [rbind] in H; [|discriminate].
      apply cat_header_line_ballots in E1.
      destruct r as [|l2 r2]; [injection H as <- <-; now split|].
      destruct (IH _ _ _ H) as [-> H2]. split; [reflexivity|congruence].
    + injection H as <- <-. now split.
Qed.

Lemma dedup_id l : NoDup l -> CatIO.dedup l = l.
Proof.
  induction l as [|b r IH]; intros H; [reflexivity|]. inversion H as [|? ? Hn Hnd]; subst.
  cbn [CatIO.dedup]. fold (kmem CatIO.ballot_eqb b r).
  rewrite (proj2 (kmem_false _ ballot_eqb_eq b r) Hn). now rewrite IH.
Qed.

Definition cat_reserve (m0 : meta) (lines : list text) : meta :=
  set_reserved m0 (reserved_of alt_name_prefix lines).

Lemma cat_parse_true_inv m0 lines i : CatIO.cat_parse true false m0 lines = Ok i ->
  exists i1 bs,
    CatIO.header_loop true (reserved_of cat_name_prefix lines) (CatIO.cinst0 (cat_reserve m0 lines)) lines
      = Ok (i1, body_lines lines) /\
    cat_ballots_r (body_lines lines) = Ok bs /\
    CatIO.c_prefs i1 = [] /\ CatIO.c_mult i1 = [] /\
    i = CatIO.recompute (CatIO.set_c_ballots i1 (distinct CatIO.ballot_eqb (map snd bs)) (merged CatIO.ballot_eqb bs)).
Proof.
  unfold CatIO.cat_parse. destruct (teqb (data_type m0) (lit "cat")); [|discriminate].
  fold (cat_reserve m0 lines). unfold CatIO.cat_parse_body.
  destruct (CatIO.header_loop true (reserved_of cat_name_prefix lines) (CatIO.cinst0 (cat_reserve m0 lines)) lines)
    as [[i1 rest]|e] eqn:EH; cbn [rbind]; [|discriminate].
  destruct (cat_header_rest _ _ _ _ _ _ EH) as [-> Hp].
  rewrite cat_ballot_loop_fold.
  destruct (cat_ballots_r (body_lines lines)) as [bs|e] eqn:EB; cbn [rmap]; [|discriminate].
  rewrite (cat_fold_proj _ _ cat_add_true). rewrite Hp. unfold cproj at 1. cbn [CatIO.cinst0 CatIO.c_prefs CatIO.c_mult].
  destruct (merge_fold_spec CatIO.ballot_eqb ballot_eqb_eq bs) as [Hf Hs]. rewrite Hf.
  intros H. injection H as <-. exists i1, bs. unfold cproj in Hp. injection Hp as Hp1 Hp2.
  repeat split; assumption || reflexivity.
Qed.

Lemma cat_ballots_ok lines bs : cat_ballots_r (body_lines lines) = Ok bs -> cat_ballots lines = bs.
Proof. unfold cat_ballots. now intros ->. Qed.

Theorem ac_merge_cat m0 lines i : CatIO.cat_parse true false m0 lines = Ok i ->
  let bs := cat_ballots lines in
  NoDup (CatIO.c_prefs i) /\
  CatIO.c_prefs i = distinct CatIO.ballot_eqb (map snd bs) /\
  (forall b, In b (CatIO.c_prefs i) <-> In b (map snd bs)) /\
  keys (CatIO.c_mult i) = CatIO.c_prefs i /\
  CatIO.c_mult i = merged CatIO.ballot_eqb bs /\
  (forall b, CatIO.mult_of (CatIO.c_mult i) b = cat_lines_mult lines b) /\
  num_voters (CatIO.c_meta i) = total bs /\
  CatIO.c_num_unique i = N.of_nat (List.length (distinct CatIO.ballot_eqb (map snd bs))) /\
  num_alternatives (CatIO.c_meta i) = N.of_nat (List.length (alt_names (CatIO.c_meta i))).
Proof.
  intros H. destruct (cat_parse_true_inv _ _ _ H) as (i1 & bs & _ & HB & _ & _ & ->).
  rewrite (cat_ballots_ok _ _ HB). cbn zeta.
  assert (Hnd : NoDup (distinct CatIO.ballot_eqb (map snd bs))) by (apply distinct_NoDup; exact ballot_eqb_eq).
  unfold CatIO.recompute. cbn [CatIO.set_c_ballots CatIO.set_c_meta CatIO.set_c_num_unique CatIO.c_prefs CatIO.c_mult CatIO.c_meta CatIO.c_num_unique].
  split; [exact Hnd|]. split; [reflexivity|].
  split; [intros b; apply distinct_In; exact ballot_eqb_eq|].
  split; [apply merged_keys|]. split; [reflexivity|]. split.
  - intros b. unfold CatIO.mult_of, cat_lines_mult. rewrite (cat_ballots_ok _ _ HB).
    destruct (in_dec (list_eq_dec (list_eq_dec N.eq_dec)) b (map snd bs)) as [Hin|Hn].
    + now rewrite (merged_get _ ballot_eqb_eq _ _ Hin).
    + rewrite (merged_get_absent _ ballot_eqb_eq _ _ Hn). symmetry. now apply msum_absent; [exact ballot_eqb_eq|].
  - rewrite (dedup_id _ Hnd). destruct (merge_fold_spec CatIO.ballot_eqb ballot_eqb_eq bs) as [_ Hs].
    change CatIO.sum_N with sum_N. rewrite Hs. destruct (CatIO.c_meta i1); cbn. repeat split; reflexivity.
Qed.

Theorem cat_expected_agrees m0 lines i : CatIO.cat_parse true false m0 lines = Ok i ->
  cat_expected lines = Ok (CatIO.c_mult i, num_voters (CatIO.c_meta i), CatIO.c_num_unique i).
Proof.
  intros H. destruct (cat_parse_true_inv _ _ _ H) as (i1 & bs & _ & HB & _ & _ & ->).
  unfold cat_expected. rewrite HB. cbn [rmap].
  assert (Hnd : NoDup (distinct CatIO.ballot_eqb (map snd bs))) by (apply distinct_NoDup; exact ballot_eqb_eq).
  unfold CatIO.recompute. cbn [CatIO.set_c_ballots CatIO.set_c_meta CatIO.set_c_num_unique CatIO.c_prefs CatIO.c_mult CatIO.c_meta CatIO.c_num_unique].
  rewrite (dedup_id _ Hnd). destruct (merge_fold_spec CatIO.ballot_eqb ballot_eqb_eq bs) as [_ Hs].
  change CatIO.sum_N with sum_N. rewrite Hs. destruct (CatIO.c_meta i1); reflexivity.
Qed.

(* ================================================================================================ *)
(* D. names: the header loop as a fold over the (id, raw name) entries of the header               *)
(* ================================================================================================ *)
Definition name_step (au : bool) (resv : list text) (d : list (N * text)) (p : N * text) : result (list (N * text)) :=
  rmap (fun nm' => assoc_set N.eqb (fst p) nm' d) (corrected_name au (snd p) (values d) resv).

Fixpoint name_fold (au : bool) (resv : list text) (d : list (N * text)) (raws : list (N * text))
  : result (list (N * text)) :=
  match raws with
  | [] => Ok d
  | p :: r => rbind (name_step au resv d p) (fun d' => name_fold au resv d' r)
  end.

Lemma name_fold_app au resv raws1 : forall d raws2,
  name_fold au resv d (raws1 ++ raws2) = rbind (name_fold au resv d raws1) (fun d' => name_fold au resv d' raws2).
Proof.
  induction raws1 as [|p r IH]; intros d raws2; cbn [app name_fold rbind]; [reflexivity|].
  destruct (name_step au resv d p); cbn [rbind]; [apply IH|reflexivity].
Qed.

(* ---- prefixes that exclude one another ---- *)
Lemma sw_compat p : forall q l, startswith p l = true -> startswith q l = true ->
  (startswith p q || startswith q p) = true.
Proof.
  induction p as [|a p IH]; intros q l Hp Hq; [reflexivity|].
  destruct q as [|b q]; [reflexivity|].
  destruct l as [|c l]; [discriminate|]. cbn [startswith] in *.
  apply andb_true_iff in Hp as [Hac Hp]. apply andb_true_iff in Hq as [Hbc Hq].
  apply N.eqb_eq in Hac. apply N.eqb_eq in Hbc. subst a b. rewrite N.eqb_refl. cbn [andb].
  exact (IH _ _ Hp Hq).
Qed.

Lemma sw_app_l p q l : startswith (p ++ q) l = true -> startswith p l = true.
Proof.
  revert l. induction p as [|a p IH]; intros l H; [reflexivity|].
  destruct l as [|c l]; [discriminate|]. cbn [app startswith] in *.
  apply andb_true_iff in H as [H1 H2]. rewrite H1. cbn [andb]. now apply IH.
Qed.

Lemma match_name_sw prefix line p : match_name prefix line = Some p -> startswith prefix line = true.
Proof. unfold match_name. destruct (startswith prefix line); [reflexivity|discriminate]. Qed.

(* a line that starts with key cannot be a name line when key and the name prefix exclude one another *)
Lemma no_match_name key prefix line :
  (startswith key prefix || startswith prefix key) = false ->
  startswith key line = true -> match_name prefix line = None.
Proof.
  intros Hc Hk. destruct (match_name prefix line) as [p|] eqn:E; [|reflexivity].
  apply match_name_sw in E. pose proof (sw_compat _ _ _ Hk E). congruence.
Qed.

Lemma no_match_name_short key prefix line :
  prefix = key ++ [32%N] -> startswith key line = false -> match_name prefix line = None.
Proof.
  intros -> Hk. destruct (match_name (key ++ [32%N]) line) as [p|] eqn:E; [|reflexivity].
  apply match_name_sw, sw_app_l in E. congruence.
Qed.

(* ---- parse_metadata seen from the names ---- *)
Definition names_effect (au : bool) (resv : list text) (prefix : text) (line : text) (d d' : list (N * text)) : Prop :=
  match match_name prefix line with
  | Some p => name_step au resv d p = Ok d'
  | None => d' = d
  end.

Lemma pm_names au m line m' : parse_metadata au m line = Ok m' ->
  reserved m' = reserved m /\ names_effect au (reserved m) alt_name_prefix line (alt_names m) (alt_names m').
Proof.
  unfold parse_metadata, names_effect. intros H.
  repeat match type of H with
  | (if startswith (lit ?k) line then _ else _) = _ =>
    lazymatch k with
    | "# ALTERNATIVE NAME"%string => fail
    | _ => let E := fresh "E" in destruct (startswith (lit k) line) eqn:E;
           [rewrite (no_match_name (lit k) alt_name_prefix line eq_refl E);
            first [ injection H as <-; split; reflexivity
                  | destruct (py_int _); cbn [rmap] in H; [injection H as <-; split; reflexivity|discriminate] ]
           | ]
    end
  end.
  destruct (startswith (lit "# ALTERNATIVE NAME") line) eqn:EA.
  - destruct (match_name alt_name_prefix line) as [[alt nm]|].
    + unfold name_step. cbn [fst snd].
      destruct (corrected_name au nm (values (alt_names m)) (reserved m)); cbn [rmap] in *; [|discriminate].
      injection H as <-. split; reflexivity.
    + injection H as <-. split; reflexivity.
  - rewrite (no_match_name_short (lit "# ALTERNATIVE NAME") alt_name_prefix line eq_refl EA).
    injection H as <-. split; reflexivity.
Qed.

Lemma names_effect_fold au resv prefix line d d' rest :
  names_effect au resv prefix line d d' ->
  name_fold au resv d ((match match_name prefix line with Some p => [p] | None => [] end) ++ rest)
  = name_fold au resv d' rest.
Proof.
  unfold names_effect. destruct (match_name prefix line) as [p|]; cbn [app name_fold].
  - intros ->. reflexivity.
  - intros ->. reflexivity.
Qed.

(* ---- ordinal header ---- *)
Lemma ord_header_step_names au st line st' : OrdIO.header_step au st line = Ok st' ->
  reserved (fst st') = reserved (fst st) /\
  names_effect au (reserved (fst st)) alt_name_prefix line (alt_names (fst st)) (alt_names (fst st')).
Proof.
  unfold OrdIO.header_step. destruct (startswith OrdIO.nuo_prefix line) eqn:E.
  - destruct (py_int (drop 23 line)); cbn [rmap]; [|discriminate]. intros H. injection H as <-. cbn [fst].
    split; [reflexivity|]. unfold names_effect.
    now rewrite (no_match_name OrdIO.nuo_prefix alt_name_prefix line eq_refl E).
  - destruct (parse_metadata au (fst st) line) as [m'|e] eqn:EP; cbn [rmap]; [|discriminate].
    intros H. injection H as <-. cbn [fst]. now apply pm_names.
Qed.

Lemma raw_names_cons prefix l r :
  raw_names prefix (l :: r) =
  if is_header l then (match match_name prefix (strip l) with Some p => [p] | None => [] end) ++ raw_names prefix r
  else [].
Proof. unfold raw_names. cbn [header_lines]. destruct (is_header l); reflexivity. Qed.

Lemma ord_header_names au lines : forall st st' rest,
  OrdIO.header_loop au st lines = Ok (st', rest) ->
  reserved (fst st') = reserved (fst st) /\
  name_fold au (reserved (fst st)) (alt_names (fst st)) (raw_names alt_name_prefix lines) = Ok (alt_names (fst st')).
Proof.
  induction lines as [|l r IH]; intros st st' rest H.
  - cbn in H. injection H as <- _. split; reflexivity.
  - rewrite raw_names_cons. cbn [OrdIO.header_loop] in H. unfold is_header. change OrdIO.hash with hash in H.
    destruct (startswith hash (strip l)).
    + destruct (OrdIO.header_step au st (strip l)) as [st1|e] eqn:E1; cbn [rbind] in H; [|discriminate].
      destruct (ord_header_step_names _ _ _ _ E1) as [Hr Hn].
      rewrite (names_effect_fold _ _ _ _ _ _ _ Hn).
      destruct r as [|l2 r2].
      * injection H as <- _. split; [exact Hr|reflexivity].
      * destruct (IH _ _ _ H) as [Hr2 Hf]. rewrite Hr in *. split; [exact Hr2|exact Hf].
    + injection H as <- _. split; reflexivity.
Qed.

(* ---- categorical header ---- *)
Lemma cat_header_line_names au resv i line i' : CatIO.header_line au resv i line = Ok i' ->
  reserved (CatIO.c_meta i') = reserved (CatIO.c_meta i) /\
  names_effect au (reserved (CatIO.c_meta i)) alt_name_prefix line
               (alt_names (CatIO.c_meta i)) (alt_names (CatIO.c_meta i')) /\
  names_effect au resv cat_name_prefix line (CatIO.c_cat_names i) (CatIO.c_cat_names i').
Proof.
  unfold CatIO.header_line. intros H.
  assert (H1 : exists i1, CatIO.c_meta i1 = CatIO.c_meta i /\ CatIO.c_cat_names i1 = CatIO.c_cat_names i /\
    (if startswith (lit "# NUMBER CATEGORIES") line
     then rmap (CatIO.set_c_num_categories i1) (py_int (drop 20 line))
     else if startswith (lit "# CATEGORY NAME") line then
       match match_name cat_name_prefix line with
       | Some (cat, nm) =>
         rmap (fun nm' => CatIO.set_c_cat_names i1 (assoc_set N.eqb cat nm' (CatIO.c_cat_names i1)))
              (corrected_name au nm (values (CatIO.c_cat_names i1)) resv)
       | None => Ok i1
       end
     else rmap (CatIO.set_c_meta i1) (parse_metadata au (CatIO.c_meta i1) line)) = Ok i').
  { destruct (startswith (lit "# NUMBER UNIQUE PREFERENCES") line).
    - destruct (py_int (drop 28 line)) as [n|e]; cbn [rmap rbind] in H; [|discriminate].
      eexists. split; [|split; [|exact H]]; reflexivity.
    - cbn [rbind] in H. exists i. split; [reflexivity|]. split; [reflexivity|exact H]. }
  clear H. destruct H1 as (i1 & <- & <- & H). unfold names_effect.
  destruct (startswith (lit "# NUMBER CATEGORIES") line) eqn:E1.
  - rewrite (no_match_name (lit "# NUMBER CATEGORIES") alt_name_prefix line eq_refl E1).
    rewrite (no_match_name (lit "# NUMBER CATEGORIES") cat_name_prefix line eq_refl E1).
    destruct (py_int (drop 20 line)); cbn [rmap] in H; [|discriminate]. injection H as <-. repeat split; reflexivity.
  - destruct (startswith (lit "# CATEGORY NAME") line) eqn:E2.
    + rewrite (no_match_name (lit "# CATEGORY NAME") alt_name_prefix line eq_refl E2).
      destruct (match_name cat_name_prefix line) as [[cat nm]|].
      * unfold name_step. cbn [fst snd].
        destruct (corrected_name au nm (values (CatIO.c_cat_names i1)) resv); cbn [rmap] in *; [|discriminate].
        injection H as <-. repeat split; reflexivity.
      * injection H as <-. repeat split; reflexivity.
    + rewrite (no_match_name_short (lit "# CATEGORY NAME") cat_name_prefix line eq_refl E2).
      destruct (parse_metadata au (CatIO.c_meta i1) line) as [m'|e] eqn:EP; cbn [rmap] in H; [|discriminate].
      injection H as <-. destruct (pm_names _ _ _ _ EP) as [Hr Hn]. cbn [CatIO.set_c_meta CatIO.c_meta CatIO.c_cat_names].
      split; [exact Hr|]. split; [exact Hn|reflexivity].
Qed.

Lemma cat_header_names au resv lines : forall i i' rest,
  CatIO.header_loop au resv i lines = Ok (i', rest) ->
  reserved (CatIO.c_meta i') = reserved (CatIO.c_meta i) /\
  name_fold au (reserved (CatIO.c_meta i)) (alt_names (CatIO.c_meta i)) (raw_names alt_name_prefix lines)
    = Ok (alt_names (CatIO.c_meta i')) /\
  name_fold au resv (CatIO.c_cat_names i) (raw_names cat_name_prefix lines) = Ok (CatIO.c_cat_names i').
Proof.
  induction lines as [|l r IH]; intros i i' rest H.
  - cbn in H. injection H as <- _. repeat split; reflexivity.
  - rewrite !raw_names_cons. cbn [CatIO.header_loop] in H. unfold is_header. change CatIO.hash_prefix with hash in H.
    destruct (startswith hash (strip l)).
    + destruct (CatIO.header_line au resv i (strip l)) as [i1|e] eqn:E1; cbn [rbind] in H; [|discriminate].
      destruct (cat_header_line_names _ _ _ _ _ E1) as (Hr & Ha & Hc).
      rewrite (names_effect_fold _ _ _ _ _ _ _ Ha), (names_effect_fold _ _ _ _ _ _ _ Hc).
      destruct r as [|l2 r2].
      * injection H as <- _. split; [exact Hr|]. split; reflexivity.
      * destruct (IH _ _ _ H) as (Hr2 & Hfa & Hfc). rewrite Hr in *. repeat split; assumption.
    + injection H as <- _. repeat split; reflexivity.
Qed.

(* ================================================================================================ *)
(* E. what the fold over the names guarantees                                                       *)
(* ================================================================================================ *)
Lemma values_set_in (d : list (N * text)) k v x :
  In x (values (assoc_set N.eqb k v d)) -> x = v \/ In x (values d).
Proof.
  unfold values. induction d as [|[k0 v0] r IH]; cbn [assoc_set map snd In].
  - intros [<-|[]]. now left.
  - destruct (N.eqb k k0); cbn [map snd In].
    + intros [<-|H]; [now left|right; now right].
    + intros [<-|H]; [right; now left|]. destruct (IH H) as [->|H2]; [now left|right; now right].
Qed.

Lemma values_set_fresh (d : list (N * text)) k v :
  ~ In v (values d) -> NoDup (values d) -> NoDup (values (assoc_set N.eqb k v d)).
Proof.
  unfold values. induction d as [|[k0 v0] r IH]; cbn [assoc_set map snd]; intros Hn Hnd.
  - constructor; [intros []|constructor].
  - inversion Hnd as [|? ? Hn0 Hnd0]; subst. destruct (N.eqb k k0); cbn [map snd].
    + constructor; [|exact Hnd0]. intros H. apply Hn. now right.
    + constructor.
      * intros H. apply (values_set_in r k v v0) in H. destruct H as [->|H]; [apply Hn; now left|contradiction].
      * apply IH; [|exact Hnd0]. intros H. apply Hn. now right.
Qed.

(* the name handed out by the autocorrect branch is never a current value *)
Lemma corrected_fresh name vals resv t : corrected_name true name vals resv = Ok t -> ~ In t vals.
Proof.
  intros H. destruct (corrected_name_spec _ _ _ _ _ H) as [[E ->]|[_ (j & _ & _ & Hn & _)]]; [|exact Hn].
  cbn [andb] in E. intros Hin. apply tmem_In in Hin. congruence.
Qed.

Theorem name_fold_nodup resv raws : forall d d',
  NoDup (values d) -> name_fold true resv d raws = Ok d' -> NoDup (values d').
Proof.
  induction raws as [|[a r] raws IH]; intros d d' Hnd H; cbn [name_fold] in H.
  - now injection H as <-.
  - unfold name_step in H. cbn [fst snd] in H.
    destruct (corrected_name true r (values d) resv) as [t|e] eqn:E; cbn [rmap rbind] in H; [|discriminate].
    eapply IH; [|exact H]. apply values_set_fresh; [|exact Hnd]. eapply corrected_fresh; eauto.
Qed.

(* first occurrences keep their name, later ones get  name ++ "__" ++ k *)
Inductive names_ok (resv : list text) : list text -> list (N * text) -> list (N * text) -> Prop :=
| nk_nil seen : names_ok resv seen [] []
| nk_first seen a r raws fins :
    ~ In r seen -> names_ok resv (seen ++ [r]) raws fins -> names_ok resv seen ((a, r) :: raws) ((a, r) :: fins)
| nk_later seen a r j raws fins :
    In r seen -> (1 <= j)%N -> ~ In (suffixed r j) resv -> names_ok resv (seen ++ [r]) raws fins ->
    names_ok resv seen ((a, r) :: raws) ((a, suffixed r j) :: fins).

Lemma N_eqb_eq' : forall a b : N, N.eqb a b = true <-> a = b.
Proof. exact N.eqb_eq. Qed.

Lemma name_fold_first resv raws : forall d seen d',
  (forall v, In v (values d) -> In v seen \/ ~ In v resv) ->
  (forall r, In r seen -> In r (values d)) ->
  NoDup (keys d ++ map fst raws) ->
  (forall r, In r (map snd raws) -> In r resv) ->
  name_fold true resv d raws = Ok d' ->
  exists fins, d' = d ++ fins /\ names_ok resv seen raws fins.
Proof.
  induction raws as [|[a r] raws IH]; intros d seen d' C1 C2 C3 C4 H; cbn [name_fold] in H.
  - injection H as <-. exists []. split; [now rewrite app_nil_r|constructor].
  - unfold name_step in H. cbn [fst snd] in H.
    destruct (corrected_name true r (values d) resv) as [t|e] eqn:E; cbn [rmap rbind] in H; [|discriminate].
    assert (Ha : assoc_get N.eqb a d = None).
    { apply (assoc_get_none N.eqb N_eqb_eq'). intros Hin. cbn [map fst] in C3.
      apply NoDup_remove_2 in C3. apply C3. apply in_or_app. now left. }
    rewrite (assoc_set_absent N.eqb _ _ _ Ha) in H.
    assert (Hr : In r resv) by (apply C4; now left).
    assert (Hseen : tmem r (values d) = true <-> In r seen).
    { rewrite tmem_In. split; [|apply C2]. intros Hv. destruct (C1 _ Hv) as [Hs|Hn]; [exact Hs|contradiction]. }
    assert (Hvals : values (d ++ [(a, t)]) = values d ++ [t]) by (unfold values; now rewrite map_app).
    assert (C3' : NoDup (keys (d ++ [(a, t)]) ++ map fst raws)).
    { unfold keys in *. rewrite map_app. cbn [map fst] in *. now rewrite <- app_assoc. }
    assert (C4' : forall r0, In r0 (map snd raws) -> In r0 resv) by (intros r0 H0; apply C4; now right).
    destruct (corrected_name_spec _ _ _ _ _ E) as [[Et ->]|[Et (j & Hj & -> & Hnv & Hnr)]]; cbn [andb] in Et.
    + (* first occurrence *)
      assert (Hns : ~ In r seen) by (intros Hs; apply Hseen in Hs; congruence).
      destruct (IH (d ++ [(a, r)]) (seen ++ [r]) d') as (fins & -> & Hok); try assumption.
      * intros v Hv. rewrite Hvals in Hv. apply in_app_or in Hv as [Hv|[<-|[]]].
        -- destruct (C1 _ Hv) as [Hs|Hn]; [left; apply in_or_app; now left|now right].
        -- left. apply in_or_app. right. now left.
      * intros r0 H0. rewrite Hvals. apply in_app_or in H0 as [H0|[<-|[]]]; apply in_or_app; [left; now apply C2|right; now left].
      * exists ((a, r) :: fins). split; [now rewrite <- app_assoc|]. now constructor.
    + (* repeated name *)
      assert (Hs : In r seen) by (now apply Hseen).
      destruct (IH (d ++ [(a, suffixed r j)]) (seen ++ [r]) d') as (fins & -> & Hok); try assumption.
      * intros v Hv. rewrite Hvals in Hv. apply in_app_or in Hv as [Hv|[<-|[]]].
        -- destruct (C1 _ Hv) as [Hs'|Hn]; [left; apply in_or_app; now left|now right].
        -- now right.
      * intros r0 H0. rewrite Hvals. apply in_or_app. left. apply C2.
        apply in_app_or in H0 as [H0|[<-|[]]]; assumption.
      * exists ((a, suffixed r j) :: fins). split; [now rewrite <- app_assoc|]. now constructor.
Qed.

(* names_ok, read entry by entry *)
Lemma names_ok_fst resv seen raws fins : names_ok resv seen raws fins -> map fst fins = map fst raws.
Proof. induction 1; cbn [map fst]; congruence. Qed.

Lemma names_ok_split resv seen raws fins : names_ok resv seen raws fins ->
  forall pre a r post, raws = pre ++ (a, r) :: post ->
  exists fpre f fpost, fins = fpre ++ (a, f) :: fpost /\ List.length fpre = List.length pre /\
    (~ In r (seen ++ map snd pre) -> f = r) /\
    (In r (seen ++ map snd pre) -> exists j, (1 <= j)%N /\ ~ In (suffixed r j) resv /\ f = suffixed r j).
Proof.
  induction 1 as [seen|seen a0 r0 raws fins Hn Hok IH|seen a0 r0 j raws fins Hs Hj Hnr Hok IH]; intros pre a r post E.
  - destruct pre; discriminate.
  - destruct pre as [|[a1 r1] pre]; cbn [app] in E.
    + injection E as -> -> ->. exists [], r, fins. cbn [map app]. rewrite app_nil_r.
      split; [reflexivity|]. split; [reflexivity|]. split; [reflexivity|]. intros Hin. contradiction.
    + injection E as -> -> ->. destruct (IH pre a r post eq_refl) as (fpre & f & fpost & -> & Hl & H1 & H2).
      exists ((a1, r1) :: fpre), f, fpost. cbn [map snd]. rewrite <- app_assoc in H1, H2. cbn [app] in H1, H2.
      split; [reflexivity|]. split; [cbn; now rewrite Hl|]. split; assumption.
  - destruct pre as [|[a1 r1] pre]; cbn [app] in E.
    + injection E as -> -> ->. exists [], (suffixed r j), fins. cbn [map app]. rewrite app_nil_r.
      split; [reflexivity|]. split; [reflexivity|]. split; [intros Hn; contradiction|]. intros _. exists j. repeat split; assumption.
    + injection E as -> -> ->. destruct (IH pre a r post eq_refl) as (fpre & f & fpost & -> & Hl & H1 & H2).
      exists ((a1, suffixed r1 j) :: fpre), f, fpost. cbn [map snd]. rewrite <- app_assoc in H1, H2. cbn [app] in H1, H2.
      split; [reflexivity|]. split; [cbn; now rewrite Hl|]. split; assumption.
Qed.

(* lookup by id when the ids are pairwise distinct *)
Lemma assoc_get_mid (fpre : list (N * text)) a f fpost :
  ~ In a (map fst fpre) -> assoc_get N.eqb a (fpre ++ (a, f) :: fpost) = Some f.
Proof.
  induction fpre as [|[k v] fpre IH]; cbn [app assoc_get map fst In]; intros Hn.
  - now rewrite N.eqb_refl.
  - destruct (N.eqb_spec a k) as [->|_]; [exfalso; apply Hn; now left|]. apply IH. intros H. apply Hn. now right.
Qed.

Lemma raw_in_reserved prefix lines a r : In (a, r) (raw_names prefix lines) -> In r (reserved_of prefix lines).
Proof.
  induction lines as [|l ls IH]; [intros []|]. rewrite raw_names_cons. unfold reserved_of. cbn [flat_map].
  destruct (is_header l); [|intros []]. intros H. apply in_or_app. apply in_app_or in H as [H|H].
  - left. destruct (match_name prefix (strip l)) as [[a' r']|]; [|destruct H].
    destruct H as [H|[]]. injection H as -> ->. now left.
  - right. now apply IH.
Qed.

(* the form used by the property statements *)
Definition first_occurrence_spec (resv : list text) (raws finals : list (N * text)) : Prop :=
  map fst finals = map fst raws /\
  forall pre a r post, raws = pre ++ (a, r) :: post ->
    (~ In r (map snd pre) -> assoc_get N.eqb a finals = Some r) /\
    (In r (map snd pre) -> exists j, (1 <= j)%N /\ ~ In (suffixed r j) resv /\
                           assoc_get N.eqb a finals = Some (suffixed r j)).

Theorem name_fold_first_occurrence resv raws finals :
  NoDup (map fst raws) -> (forall r, In r (map snd raws) -> In r resv) ->
  name_fold true resv [] raws = Ok finals -> first_occurrence_spec resv raws finals.
Proof.
  intros Hnd Hres H.
  destruct (name_fold_first resv raws [] [] finals) as (fins & -> & Hok); try assumption.
  - intros v [].
  - intros r [].
  - cbn [app]. pose proof (names_ok_fst _ _ _ _ Hok) as Hf. split; [exact Hf|].
    intros pre a r post E.
    destruct (names_ok_split _ _ _ _ Hok pre a r post E) as (fpre & f & fpost & -> & Hl & H1 & H2). cbn [app] in H1, H2.
    assert (Hna : ~ In a (map fst fpre)).
    { subst raws. rewrite !map_app in Hf. cbn [map fst] in Hf. rewrite map_app in Hnd. cbn [map fst] in Hnd.
      apply NoDup_remove_2 in Hnd. intros Hin. apply Hnd. apply in_or_app. left.
      assert (Hl2 : List.length (map fst fpre) = List.length (map fst pre)) by now rewrite !map_length.
      pose proof (f_equal (firstn (List.length (map fst fpre))) Hf) as Hfn.
      rewrite firstn_app, Nat.sub_diag, firstn_all in Hfn. cbn [firstn] in Hfn. rewrite app_nil_r in Hfn.
      rewrite Hl2, firstn_app, Nat.sub_diag, firstn_all in Hfn. cbn [firstn] in Hfn. rewrite app_nil_r in Hfn.
      now rewrite <- Hfn. }
    rewrite (assoc_get_mid _ _ _ _ Hna). split.
    + intros Hn. now rewrite (H1 Hn).
    + intros Hi. destruct (H2 Hi) as (j & Hj & Hnr & ->). exists j. repeat split; assumption.
Qed.

(* ================================================================================================ *)
(* F. ac_names_distinct and ac_first_occurrence                                                     *)
(* ================================================================================================ *)
Lemma ord_names_fold m0 lines i : OrdIO.ord_parse true false m0 lines = Ok i ->
  name_fold true (reserved_of alt_name_prefix lines) (alt_names m0) (raw_names alt_name_prefix lines)
  = Ok (alt_names (OrdIO.o_meta i)).
Proof.
  intros H. destruct (ord_parse_true_inv _ _ _ H) as (m & nu & bs & HH & _ & ->).
  destruct (ord_header_names _ _ _ _ _ HH) as [_ Hf]. cbn [fst] in Hf.
  unfold ord_reserve in Hf. cbn [reserved set_reserved alt_names] in Hf. rewrite Hf. destruct m; reflexivity.
Qed.

Lemma cat_names_fold m0 lines i : CatIO.cat_parse true false m0 lines = Ok i ->
  name_fold true (reserved_of alt_name_prefix lines) (alt_names m0) (raw_names alt_name_prefix lines)
  = Ok (alt_names (CatIO.c_meta i)) /\
  name_fold true (reserved_of cat_name_prefix lines) [] (raw_names cat_name_prefix lines)
  = Ok (CatIO.c_cat_names i).
Proof.
  intros H. destruct (cat_parse_true_inv _ _ _ H) as (i1 & bs & HH & _ & _ & _ & ->).
  destruct (cat_header_names _ _ _ _ _ _ HH) as (_ & Hfa & Hfc).
  cbn [CatIO.cinst0 CatIO.c_meta CatIO.c_cat_names] in Hfa, Hfc. unfold cat_reserve in Hfa.
  split.
  - cbn [reserved set_reserved alt_names] in Hfa. rewrite Hfa. unfold CatIO.recompute.
    cbn [CatIO.set_c_ballots CatIO.set_c_meta CatIO.set_c_num_unique CatIO.c_meta]. destruct (CatIO.c_meta i1); reflexivity.
  - rewrite Hfc. reflexivity.
Qed.

Theorem ac_names_distinct_ord m0 lines i : alt_names m0 = [] ->
  OrdIO.ord_parse true false m0 lines = Ok i -> NoDup (values (alt_names (OrdIO.o_meta i))).
Proof.
  intros H0 H. apply ord_names_fold in H. rewrite H0 in H.
  eapply name_fold_nodup; [|exact H]. constructor.
Qed.

Theorem ac_names_distinct_cat m0 lines i : alt_names m0 = [] ->
  CatIO.cat_parse true false m0 lines = Ok i ->
  NoDup (values (alt_names (CatIO.c_meta i))) /\ NoDup (values (CatIO.c_cat_names i)).
Proof.
  intros H0 H. apply cat_names_fold in H as [Ha Hc]. rewrite H0 in Ha.
  split; (eapply name_fold_nodup; [|eassumption]); constructor.
Qed.

Lemma raws_reserved prefix lines r : In r (map snd (raw_names prefix lines)) -> In r (reserved_of prefix lines).
Proof. intros H. apply in_map_iff in H as ([a r'] & <- & Hin). eapply raw_in_reserved; eauto. Qed.

Theorem ac_first_occurrence_ord m0 lines i : alt_names m0 = [] ->
  ids_distinct alt_name_prefix lines = true ->
  OrdIO.ord_parse true false m0 lines = Ok i ->
  first_occurrence_spec (reserved_of alt_name_prefix lines) (raw_names alt_name_prefix lines) (alt_names (OrdIO.o_meta i)).
Proof.
  intros H0 Hd H. apply ord_names_fold in H. rewrite H0 in H.
  apply (nodupb_NoDup N.eqb N_eqb_eq') in Hd.
  eapply name_fold_first_occurrence; [exact Hd| |exact H]. apply raws_reserved.
Qed.

Theorem ac_first_occurrence_cat m0 lines i : alt_names m0 = [] ->
  CatIO.cat_parse true false m0 lines = Ok i ->
  (ids_distinct alt_name_prefix lines = true ->
   first_occurrence_spec (reserved_of alt_name_prefix lines) (raw_names alt_name_prefix lines) (alt_names (CatIO.c_meta i))) /\
  (ids_distinct cat_name_prefix lines = true ->
   first_occurrence_spec (reserved_of cat_name_prefix lines) (raw_names cat_name_prefix lines) (CatIO.c_cat_names i)).
Proof.
  intros H0 H. apply cat_names_fold in H as [Ha Hc]. rewrite H0 in Ha.
  split; intros Hd; apply (nodupb_NoDup N.eqb N_eqb_eq') in Hd;
    (eapply name_fold_first_occurrence; [exact Hd| |eassumption]); apply raws_reserved.
Qed.

(* ================================================================================================ *)
(* G. clean content: autocorrect changes nothing (except the bookkeeping field reserved)            *)
(* ================================================================================================ *)
Lemma pm_false_reserved R m line :
  parse_metadata false (set_reserved m R) line = rmap (fun x => set_reserved x R) (parse_metadata false m line).
Proof.
  unfold parse_metadata.
  repeat match goal with
  | |- (if startswith (lit ?k) line then _ else _) = _ =>
    destruct (startswith (lit k) line);
    [first [reflexivity | destruct (py_int _); reflexivity
           | destruct (match_name alt_name_prefix line) as [[? ?]|]; reflexivity] | ]
  end.
  reflexivity.
Qed.

Definition fresh_name (d : list (N * text)) (line : text) : Prop :=
  match match_name alt_name_prefix line with
  | Some p => tmem (snd p) (values d) = false
  | None => True
  end.

Lemma pm_true_false m line : fresh_name (alt_names m) line ->
  parse_metadata true m line = parse_metadata false m line.
Proof.
  unfold fresh_name. intros Hc. unfold parse_metadata.
  repeat match goal with
  | |- (if startswith (lit ?k) line then _ else _) = _ =>
    destruct (startswith (lit k) line); [reflexivity | ]
  end.
  destruct (startswith (lit "# ALTERNATIVE NAME") line); [|reflexivity].
  destruct (match_name alt_name_prefix line) as [[alt nm]|]; [|reflexivity].
  cbn [snd] in Hc. unfold corrected_name. rewrite Hc. reflexivity.
Qed.

Definition lift_o (R : list text) (x : (meta * N) * list text) : (meta * N) * list text :=
  ((set_reserved (fst (fst x)) R, snd (fst x)), snd x).

Lemma ord_step_clean R st line : fresh_name (alt_names (fst st)) line ->
  OrdIO.header_step true (set_reserved (fst st) R, snd st) line
  = rmap (fun s => (set_reserved (fst s) R, snd s)) (OrdIO.header_step false st line).
Proof.
  intros Hf. unfold OrdIO.header_step. cbn [fst snd]. destruct (startswith OrdIO.nuo_prefix line).
  - destruct (py_int (drop 23 line)); reflexivity.
  - rewrite pm_true_false by exact Hf. rewrite pm_false_reserved.
    destruct (parse_metadata false (fst st) line); reflexivity.
Qed.

(* the names still to come are pairwise distinct and none of them is a current value *)
Definition clean_inv (d : list (N * text)) (raws : list (N * text)) : Prop :=
  NoDup (map snd raws) /\ forall v, In v (values d) -> ~ In v (map snd raws).

Lemma clean_inv_step prefix line d d' rest :
  names_effect false [] prefix line d d' \/ (exists resv, names_effect false resv prefix line d d') ->
  clean_inv d ((match match_name prefix line with Some p => [p] | None => [] end) ++ rest) ->
  clean_inv d' rest.
Proof.
  intros He [Hnd Hdis].
  assert (He' : exists resv, names_effect false resv prefix line d d') by (destruct He; eauto).
  clear He. destruct He' as (resv & He). unfold names_effect in He.
  destruct (match_name prefix line) as [[a nm]|]; cbn [app] in *.
  - unfold name_step, corrected_name in He. cbn [andb fst snd rmap] in He. injection He as <-.
    cbn [map snd] in Hnd, Hdis. inversion Hnd as [|? ? Hn Hnd']; subst. split; [exact Hnd'|].
    intros v Hv. apply values_set_in in Hv as [->|Hv]; [exact Hn|].
    intros Hin. apply (Hdis v Hv). now right.
  - subst d'. split; assumption.
Qed.

Lemma clean_inv_fresh prefix line d rest :
  prefix = alt_name_prefix ->
  clean_inv d ((match match_name prefix line with Some p => [p] | None => [] end) ++ rest) -> fresh_name d line.
Proof.
  intros -> [_ Hdis]. unfold fresh_name. destruct (match_name alt_name_prefix line) as [[a nm]|]; [|exact I].
  cbn [snd app map] in *. destruct (tmem nm (values d)) eqn:E; [|reflexivity].
  apply tmem_In in E. exfalso. apply (Hdis nm E). now left.
Qed.

Lemma ord_header_clean R lines : forall st,
  clean_inv (alt_names (fst st)) (raw_names alt_name_prefix lines) ->
  OrdIO.header_loop true (set_reserved (fst st) R, snd st) lines = rmap (lift_o R) (OrdIO.header_loop false st lines).
Proof.
  induction lines as [|l r IH]; intros st Hinv.
  - destruct st. reflexivity.
  - rewrite raw_names_cons in Hinv. cbn [OrdIO.header_loop]. unfold is_header in Hinv. change OrdIO.hash with hash.
    destruct (startswith hash (strip l)).
    + rewrite ord_step_clean by (eapply clean_inv_fresh; [reflexivity|exact Hinv]).
      destruct (OrdIO.header_step false st (strip l)) as [st1|e] eqn:E1; cbn [rmap rbind]; [|reflexivity].
      destruct r as [|l2 r2]; [reflexivity|].
      change (set_reserved (fst st1) R, snd st1) with (set_reserved (fst (st1)) R, snd (st1)).
      apply IH. destruct (ord_header_step_names _ _ _ _ E1) as [_ Hn].
      eapply clean_inv_step; [right; eexists; exact Hn|exact Hinv].
    + destruct st. reflexivity.
Qed.

Lemma set_counts_id m R :
  set_reserved (set_num_voters (set_num_alternatives (set_reserved m R) (num_alternatives m)) (num_voters m)) []
  = set_reserved m [].
Proof. destruct m. reflexivity. Qed.

Theorem ac_clean_noop_ord m0 lines : alt_names m0 = [] -> ord_clean m0 lines = true ->
  rmap forget_reserved_o (OrdIO.ord_parse true false m0 lines)
  = rmap forget_reserved_o (OrdIO.ord_parse false false m0 lines).
Proof.
  intros H0 Hc. unfold ord_clean in Hc. apply andb_true_iff in Hc as [Hc Hcnt]. apply andb_true_iff in Hc as [Hn Hb].
  apply (nodupb_NoDup teqb teqb_eq) in Hn. apply (nodupb_NoDup OrdIO.order_eqb order_eqb_eq) in Hb.
  unfold ord_counts_ok in Hcnt. revert Hcnt. unfold OrdIO.ord_parse.
  pose proof (ord_header_clean (reserved_of alt_name_prefix lines) lines (m0, 0%N)) as HH. cbn [fst snd] in HH.
  rewrite HH by (split; [exact Hn|rewrite H0; intros v []]). clear HH.
  destruct (OrdIO.header_loop false (m0, 0%N) lines) as [[[m nu] rest]|e] eqn:EH; cbn [rmap rbind lift_o fst snd]; [|reflexivity].
  pose proof (ord_header_rest _ _ _ _ _ EH) as ->.
  rewrite !ord_ballot_loop_fold. unfold ord_ballots in Hb.
  destruct (ord_ballots_r (body_lines lines)) as [bs|e] eqn:EB; cbn [rmap rbind get] in *; [|reflexivity].
  rewrite (fold_left_ext _ _ bs ord_add_true), (fold_left_ext _ _ bs ord_add_false).
  rewrite (fold_gadd_padd OrdIO.order_eqb order_eqb_eq bs ([], [])) by (cbn; [reflexivity|exact Hb] || (try reflexivity; exact Hb)).
  destruct (fold_left (padd OrdIO.order_eqb) bs ([], [])) as [ords mu]. cbn [rmap].
  intros Hcnt. cbn [OrdIO.o_meta OrdIO.o_mult OrdIO.o_orders OrdIO.o_num_unique] in Hcnt.
  apply andb_true_iff in Hcnt as [Hcnt H3]. apply andb_true_iff in Hcnt as [H1 H2].
  apply N.eqb_eq in H1, H2, H3. unfold forget_reserved_o. cbn [OrdIO.o_meta OrdIO.o_mult OrdIO.o_orders OrdIO.o_num_unique].
  change (alt_names (set_reserved m (reserved_of alt_name_prefix lines))) with (alt_names m).
  change OrdIO.sum_N with sum_N. rewrite <- H1, <- H2, <- H3, set_counts_id. reflexivity.
Qed.

(* ---- categorical ---- *)
Definition fresh_p (prefix : text) (d : list (N * text)) (line : text) : Prop :=
  match match_name prefix line with
  | Some p => tmem (snd p) (values d) = false
  | None => True
  end.

Lemma clean_inv_fresh_p prefix line d rest :
  clean_inv d ((match match_name prefix line with Some p => [p] | None => [] end) ++ rest) -> fresh_p prefix d line.
Proof.
  intros [_ Hdis]. unfold fresh_p. destruct (match_name prefix line) as [[a nm]|]; [|exact I].
  cbn [snd app map] in *. destruct (tmem nm (values d)) eqn:E; [|reflexivity].
  apply tmem_In in E. exfalso. apply (Hdis nm E). now left.
Qed.

Definition lift_c (R : list text) (i : CatIO.cinst) : CatIO.cinst :=
  CatIO.set_c_meta i (set_reserved (CatIO.c_meta i) R).

Definition chain2 (au : bool) (resv : list text) (i1 : CatIO.cinst) (line : text) : result CatIO.cinst :=
  if startswith (lit "# NUMBER CATEGORIES") line
  then rmap (CatIO.set_c_num_categories i1) (py_int (drop 20 line))
  else if startswith (lit "# CATEGORY NAME") line then
    match match_name cat_name_prefix line with
    | Some (cat, nm) =>
      rmap (fun nm' => CatIO.set_c_cat_names i1 (assoc_set N.eqb cat nm' (CatIO.c_cat_names i1)))
           (corrected_name au nm (values (CatIO.c_cat_names i1)) resv)
    | None => Ok i1
    end
  else rmap (CatIO.set_c_meta i1) (parse_metadata au (CatIO.c_meta i1) line).

Lemma header_line_chain au resv i line :
  CatIO.header_line au resv i line =
  rbind (if startswith (lit "# NUMBER UNIQUE PREFERENCES") line
         then rmap (CatIO.set_c_num_unique i) (py_int (drop 28 line)) else Ok i)
        (fun i1 => chain2 au resv i1 line).
Proof. reflexivity. Qed.

Lemma chain2_clean R Rc i1 line :
  fresh_p alt_name_prefix (alt_names (CatIO.c_meta i1)) line -> fresh_p cat_name_prefix (CatIO.c_cat_names i1) line ->
  chain2 true Rc (lift_c R i1) line = rmap (lift_c R) (chain2 false [] i1 line).
Proof.
  intros Ha Hc. unfold chain2. destruct (startswith (lit "# NUMBER CATEGORIES") line).
  - destruct (py_int (drop 20 line)); reflexivity.
  - destruct (startswith (lit "# CATEGORY NAME") line).
    + unfold fresh_p in Hc. destruct (match_name cat_name_prefix line) as [[cat nm]|]; [|reflexivity].
      cbn [snd] in Hc. unfold corrected_name. cbn [andb].
      change (CatIO.c_cat_names (lift_c R i1)) with (CatIO.c_cat_names i1). rewrite Hc. reflexivity.
    + change (CatIO.c_meta (lift_c R i1)) with (set_reserved (CatIO.c_meta i1) R).
      rewrite pm_true_false by exact Ha. rewrite pm_false_reserved.
      destruct (parse_metadata false (CatIO.c_meta i1) line); reflexivity.
Qed.

Lemma cat_line_clean R Rc i line :
  fresh_p alt_name_prefix (alt_names (CatIO.c_meta i)) line -> fresh_p cat_name_prefix (CatIO.c_cat_names i) line ->
  CatIO.header_line true Rc (lift_c R i) line = rmap (lift_c R) (CatIO.header_line false [] i line).
Proof.
  intros Ha Hc. rewrite !header_line_chain. destruct (startswith (lit "# NUMBER UNIQUE PREFERENCES") line).
  - destruct (py_int (drop 28 line)) as [n|e]; cbn [rmap rbind]; [|reflexivity].
    change (CatIO.set_c_num_unique (lift_c R i) n) with (lift_c R (CatIO.set_c_num_unique i n)).
    apply chain2_clean; assumption.
  - cbn [rbind]. apply chain2_clean; assumption.
Qed.

Definition lift_cl (R : list text) (x : CatIO.cinst * list text) : CatIO.cinst * list text := (lift_c R (fst x), snd x).

Lemma cat_header_clean R Rc lines : forall i,
  clean_inv (alt_names (CatIO.c_meta i)) (raw_names alt_name_prefix lines) ->
  clean_inv (CatIO.c_cat_names i) (raw_names cat_name_prefix lines) ->
  CatIO.header_loop true Rc (lift_c R i) lines = rmap (lift_cl R) (CatIO.header_loop false [] i lines).
Proof.
  induction lines as [|l r IH]; intros i Hia Hic.
  - reflexivity.
  - rewrite raw_names_cons in Hia, Hic. cbn [CatIO.header_loop]. unfold is_header in Hia, Hic.
    change CatIO.hash_prefix with hash.
    destruct (startswith hash (strip l)); [|reflexivity].
    rewrite cat_line_clean by (eapply clean_inv_fresh_p; eassumption).
    destruct (CatIO.header_line false [] i (strip l)) as [i1|e] eqn:E1; cbn [rmap rbind]; [|reflexivity].
    destruct r as [|l2 r2]; [reflexivity|].
    destruct (cat_header_line_names _ _ _ _ _ E1) as (_ & Hna & Hnc).
    apply IH; (eapply clean_inv_step; [right; eexists; eassumption|eassumption]).
Qed.

Theorem ac_clean_noop_cat m0 lines : alt_names m0 = [] -> cat_clean m0 lines = true ->
  rmap forget_reserved_c (CatIO.cat_parse true false m0 lines)
  = rmap forget_reserved_c (CatIO.cat_parse false false m0 lines).
Proof.
  intros H0 Hc. unfold cat_clean in Hc. apply andb_true_iff in Hc as [Hc Hcnt]. apply andb_true_iff in Hc as [Hc Hb].
  apply andb_true_iff in Hc as [Hna Hnc].
  apply (nodupb_NoDup teqb teqb_eq) in Hna, Hnc. apply (nodupb_NoDup CatIO.ballot_eqb ballot_eqb_eq) in Hb.
  unfold cat_counts_ok in Hcnt. revert Hcnt. unfold CatIO.cat_parse.
  destruct (teqb (data_type m0) (lit "cat")); [|reflexivity].
  unfold CatIO.cat_parse_body.
  pose proof (cat_header_clean (reserved_of alt_name_prefix lines) (reserved_of cat_name_prefix lines) lines (CatIO.cinst0 m0)) as HH.
  change (lift_c (reserved_of alt_name_prefix lines) (CatIO.cinst0 m0))
    with (CatIO.cinst0 (set_reserved m0 (reserved_of alt_name_prefix lines))) in HH.
  rewrite HH; clear HH.
  2:{ cbn [CatIO.cinst0 CatIO.c_meta]. rewrite H0. split; [exact Hna|intros v []]. }
  2:{ cbn [CatIO.cinst0 CatIO.c_cat_names]. split; [exact Hnc|intros v []]. }
  destruct (CatIO.header_loop false [] (CatIO.cinst0 m0) lines) as [[i1 rest]|e] eqn:EH; cbn [rmap rbind lift_cl fst snd]; [|reflexivity].
  destruct (cat_header_rest _ _ _ _ _ _ EH) as [-> Hp].
  rewrite !cat_ballot_loop_fold. unfold cat_ballots in Hb.
  destruct (cat_ballots_r (body_lines lines)) as [bs|e] eqn:EB; cbn [rmap rbind get] in *; [|reflexivity].
  rewrite (cat_fold_proj _ _ cat_add_true), (cat_fold_proj _ _ cat_add_false).
  change (cproj (lift_c (reserved_of alt_name_prefix lines) i1)) with (cproj i1). rewrite Hp.
  change (cproj (CatIO.cinst0 m0)) with (@nil CatIO.ballot, @nil (CatIO.ballot * N)).
  rewrite <- (fold_gadd_padd CatIO.ballot_eqb ballot_eqb_eq bs ([], [])) by (try reflexivity; exact Hb).
  destruct (merge_fold_spec CatIO.ballot_eqb ballot_eqb_eq bs) as [Hf _]. rewrite Hf.
  assert (Hnd : NoDup (distinct CatIO.ballot_eqb (map snd bs))) by (apply distinct_NoDup; exact ballot_eqb_eq).
  intros Hcnt. unfold cput in *. cbn [fst snd] in *.
  cbn [CatIO.set_c_ballots CatIO.c_meta CatIO.c_mult CatIO.c_prefs CatIO.c_num_unique] in Hcnt.
  apply andb_true_iff in Hcnt as [Hcnt H3]. apply andb_true_iff in Hcnt as [H1 H2].
  apply N.eqb_eq in H1, H2, H3.
  unfold forget_reserved_c, CatIO.recompute, lift_c.
  cbn [CatIO.set_c_ballots CatIO.set_c_meta CatIO.set_c_num_unique CatIO.c_meta CatIO.c_mult CatIO.c_prefs
       CatIO.c_num_unique CatIO.c_num_categories CatIO.c_cat_names].
  change (alt_names (set_reserved (CatIO.c_meta i1) (reserved_of alt_name_prefix lines))) with (alt_names (CatIO.c_meta i1)).
  change CatIO.sum_N with sum_N. rewrite (dedup_id _ Hnd), <- H1, <- H2, <- H3, set_counts_id. reflexivity.
Qed.

(* ================================================================================================ *)
(* H. the hypothesis "ids pairwise distinct" of ac_first_occurrence cannot be dropped               *)
(* ================================================================================================ *)
Definition dup_id_lines : list text :=
  [lit "# ALTERNATIVE NAME 1: X"; lit "# ALTERNATIVE NAME 1: X"; lit "1: 1"].

Theorem ac_first_occurrence_dup_id_refuted :
  exists m0 lines i, alt_names m0 = [] /\ OrdIO.ord_parse true false m0 lines = Ok i /\
    alt_names (OrdIO.o_meta i) = [(1%N, lit "X__1")] /\
    ~ first_occurrence_spec (reserved_of alt_name_prefix lines) (raw_names alt_name_prefix lines) (alt_names (OrdIO.o_meta i)).
Proof.
  exists (meta0 (lit "soc")), dup_id_lines.
  destruct (OrdIO.ord_parse true false (meta0 (lit "soc")) dup_id_lines) as [i|e] eqn:E; vm_compute in E; [|discriminate].
  injection E as <-. eexists. split; [reflexivity|]. split; [reflexivity|]. split; [reflexivity|].
  intros [_ H]. specialize (H [] 1%N (lit "X") [(1%N, lit "X")] eq_refl) as [H _].
  specialize (H (fun x => x)). vm_compute in H. discriminate.
Qed.

(* ================================================================================================ *)
(* I. the checks of sanity.py that autocorrect is meant to satisfy                                  *)
(* ================================================================================================ *)
(* sanity.orders: len(orders) = len(multiplicity); num_voters = sum(multiplicity.values());
   num_unique_orders = len(orders); len(set(orders)) = len(orders)
   sanity.metadata: num_alternatives = len(alternatives_name); len(set(names)) = num_alternatives *)
Theorem ac_sanity_ord m0 lines i : alt_names m0 = [] -> OrdIO.ord_parse true false m0 lines = Ok i ->
  List.length (OrdIO.o_orders i) = List.length (OrdIO.o_mult i) /\
  num_voters (OrdIO.o_meta i) = sum_N (values (OrdIO.o_mult i)) /\
  OrdIO.o_num_unique i = N.of_nat (List.length (OrdIO.o_orders i)) /\
  NoDup (OrdIO.o_orders i) /\
  num_alternatives (OrdIO.o_meta i) = N.of_nat (List.length (alt_names (OrdIO.o_meta i))) /\
  NoDup (values (alt_names (OrdIO.o_meta i))).
Proof.
  intros H0 H. pose proof (ac_names_distinct_ord _ _ _ H0 H) as Hn.
  destruct (ac_merge_ord _ _ _ H) as (Hnd & Ho & _ & Hk & Hm & _ & Hv & Hu & Ha).
  split; [rewrite <- Hk; unfold keys; now rewrite map_length|].
  split; [rewrite Hv, Hm; symmetry; apply (merge_fold_spec OrdIO.order_eqb order_eqb_eq)|].
  split; [now rewrite Hu, Ho|]. repeat split; assumption.
Qed.

Theorem ac_sanity_cat m0 lines i : alt_names m0 = [] -> CatIO.cat_parse true false m0 lines = Ok i ->
  List.length (CatIO.c_prefs i) = List.length (CatIO.c_mult i) /\
  num_voters (CatIO.c_meta i) = sum_N (values (CatIO.c_mult i)) /\
  CatIO.c_num_unique i = N.of_nat (List.length (CatIO.c_prefs i)) /\
  NoDup (CatIO.c_prefs i) /\
  num_alternatives (CatIO.c_meta i) = N.of_nat (List.length (alt_names (CatIO.c_meta i))) /\
  NoDup (values (alt_names (CatIO.c_meta i))) /\
  NoDup (values (CatIO.c_cat_names i)).
Proof.
  intros H0 H. destruct (ac_names_distinct_cat _ _ _ H0 H) as [Hn Hc].
  destruct (ac_merge_cat _ _ _ H) as (Hnd & Ho & _ & Hk & Hm & _ & Hv & Hu & Ha).
  split; [rewrite <- Hk; unfold keys; now rewrite map_length|].
  split; [rewrite Hv, Hm; symmetry; apply (merge_fold_spec CatIO.ballot_eqb ballot_eqb_eq)|].
  split; [now rewrite Hu, Ho|]. repeat split; assumption.
Qed.

(* ================================================================================================ *)
(* J. the reservation is made by parse_lines, not by parse: the header loop run on its own          *)
(* (reserved_names empty, as after OrdinalInstance().parse(lines, autocorrect=True)) still renames  *)
(* a first occurrence                                                                               *)
(* ================================================================================================ *)
Definition direct_lines : list text :=
  [lit "# ALTERNATIVE NAME 1: X"; lit "# ALTERNATIVE NAME 2: X"; lit "# ALTERNATIVE NAME 3: X__1"; lit "1: 1,2,3"].

Theorem ac_direct_parse_refuted :
  exists lines m nu rest,
    OrdIO.header_loop true (meta0 (lit "soc"), 0%N) lines = Ok ((m, nu), rest) /\
    raw_names alt_name_prefix lines = [(1, lit "X"); (2, lit "X"); (3, lit "X__1")]%N /\
    alt_names m = [(1, lit "X"); (2, lit "X__1"); (3, lit "X__1__1")]%N.
Proof.
  exists direct_lines.
  destruct (OrdIO.header_loop true (meta0 (lit "soc"), 0%N) direct_lines) as [[[m nu] rest]|e] eqn:E;
    vm_compute in E; [|discriminate].
  injection E as <- <- <-. do 3 eexists. split; [reflexivity|]. split; reflexivity.
Qed.
