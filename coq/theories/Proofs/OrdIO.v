(* Proofs/OrdIO.v — lemmas about Model/OrdIO.v: the ballot printer is inverted by tokenizer + class
   construction (C01_ties), the stable sort (C01_sorted, C01_idempotent), and the whole-file round trip
   (C01_roundtrip).  One lemma per printer / parser stage. *)
From Coq Require Import List NArith Bool String Lia Arith Permutation.
From PrefVerif Require Import Lib.Val Lib.Dec Lib.PyStr Model.Meta Model.OrdIO Proofs.Meta.
Import ListNotations.

(* ================================================================================================ *)
(* 1. results                                                                                       *)
(* ================================================================================================ *)
Definition rapp {T} (a b : result (list T)) : result (list T) := rbind a (fun x => rmap (app x) b).

Lemma rmapM_app {T U} (f : T -> result U) l1 l2 :
  rmapM f (l1 ++ l2) = rapp (rmapM f l1) (rmapM f l2).
Proof.
  induction l1 as [|x r IH]; simpl.
  - unfold rapp. simpl. destruct (rmapM f l2); reflexivity.
  - destruct (f x) as [y|e]; simpl; [|reflexivity]. rewrite IH. unfold rapp.
    destruct (rmapM f r); simpl; [|reflexivity]. destruct (rmapM f l2); reflexivity.
Qed.

(* ================================================================================================ *)
(* 2. ids_of : "a,b,,c" -> [a;b;c]                                                                  *)
(* ================================================================================================ *)
Lemma split_on_nonnil sep s : split_on sep s <> [].
Proof. induction s as [|c r IH]; simpl; [discriminate|]. destruct (N.eqb c sep); [discriminate|]. destruct (split_on sep r); [easy|discriminate]. Qed.

Lemma split_on_app sep x y : split_on sep (x ++ sep :: y) = split_on sep x ++ split_on sep y.
Proof.
  induction x as [|c r IH]; simpl.
  - now rewrite N.eqb_refl.
  - destruct (N.eqb c sep); [now rewrite IH|]. rewrite IH.
    pose proof (split_on_nonnil sep r) as H. destruct (split_on sep r); [easy|reflexivity].
Qed.

Lemma split_on_none sep s : forallb (fun c => negb (N.eqb c sep)) s = true -> split_on sep s = [s].
Proof.
  induction s as [|c r IH]; simpl; [reflexivity|]. intros H. apply andb_true_iff in H as [Hc Hr].
  apply negb_true_iff in Hc. rewrite Hc. now rewrite (IH Hr).
Qed.

Lemma ids_of_app x y : ids_of (x ++ 44%N :: y) = rapp (ids_of x) (ids_of y).
Proof. unfold ids_of. rewrite split_on_app, filter_app. apply rmapM_app. Qed.

Lemma ids_of_nil : ids_of [] = Ok [].
Proof. reflexivity. Qed.

Lemma digits_no_comma s : forallb is_digit s = true -> forallb (fun c => negb (N.eqb c 44)) s = true.
Proof.
  rewrite !forallb_forall. intros H c Hc. specialize (H c Hc). unfold is_digit in H.
  apply andb_true_iff in H as [A B]. apply N.leb_le in A. destruct (N.eqb_spec c 44); [lia|reflexivity].
Qed.

Lemma ids_of_show_N a : ids_of (show_N a) = Ok [a].
Proof.
  unfold ids_of. rewrite split_on_none by (apply digits_no_comma, show_N_digits).
  assert (NE : nonempty (show_N a) = true).
  { pose proof (show_N_nonempty a) as H. now destruct (show_N a). }
  cbn [filter]. rewrite NE. cbn [rmapM]. rewrite py_int_show_N. reflexivity.
Qed.

Definition commas (parts : list text) : text := join [44%N] parts.

Lemma ids_of_commas c : ids_of (commas (map show_N c)) = Ok c.
Proof.
  induction c as [|a r IH]; [reflexivity|].
  destruct r as [|b r'].
  - cbn. apply ids_of_show_N.
  - change (commas (map show_N (a :: b :: r'))) with (show_N a ++ 44%N :: commas (map show_N (b :: r'))).
    rewrite ids_of_app, ids_of_show_N, IH. reflexivity.
Qed.

(* text ready for a new piece: empty, or ending with a comma *)
Definition sepready (x : text) : Prop := x = [] \/ exists x', x = x' ++ [44%N].

Lemma ids_of_sepready_app x y : sepready x -> ids_of (x ++ y) = rapp (ids_of x) (ids_of y).
Proof.
  intros [->|[x' ->]].
  - simpl. unfold rapp. simpl. destruct (ids_of y); reflexivity.
  - rewrite <- app_assoc. cbn [app]. rewrite ids_of_app.
    replace (x' ++ [44%N]) with (x' ++ 44%N :: []) by reflexivity. rewrite ids_of_app, ids_of_nil.
    unfold rapp. destruct (ids_of x'); simpl; [|reflexivity]. rewrite app_nil_r.
    destruct (ids_of y); reflexivity.
Qed.

Lemma ids_of_comma_r x : ids_of (x ++ [44%N]) = ids_of x.
Proof.
  replace (x ++ [44%N]) with (x ++ 44%N :: []) by reflexivity. rewrite ids_of_app, ids_of_nil.
  unfold rapp. destruct (ids_of x); simpl; [now rewrite app_nil_r|reflexivity].
Qed.

(* ================================================================================================ *)
(* 3. the tokenizer on digit/comma runs                                                             *)
(* ================================================================================================ *)
Lemma digit_is_dc c : is_digit c = true -> is_dc c = true.
Proof. unfold is_dc. now intros ->. Qed.

Lemma all_dc_show_N a : forallb is_dc (show_N a) = true.
Proof.
  pose proof (show_N_digits a) as H. rewrite forallb_forall in *. intros c Hc. apply digit_is_dc. now apply H.
Qed.

Lemma all_dc_commas c : forallb is_dc (commas (map show_N c)) = true.
Proof.
  induction c as [|a r IH]; [reflexivity|]. destruct r as [|b r'].
  - cbn. apply all_dc_show_N.
  - change (commas (map show_N (a :: b :: r'))) with (show_N a ++ 44%N :: commas (map show_N (b :: r'))).
    rewrite forallb_app. rewrite all_dc_show_N. cbn [forallb andb]. exact IH.
Qed.

Lemma tok_run_dc ds : forall acc rest, forallb is_dc ds = true ->
  tok (TRun acc) (ds ++ rest) = tok (TRun (rev ds ++ acc)) rest.
Proof.
  induction ds as [|c r IH]; intros acc rest H; [reflexivity|].
  simpl in H. apply andb_true_iff in H as [Hc Hr]. cbn [app tok]. rewrite Hc. rewrite IH by exact Hr.
  simpl. now rewrite <- app_assoc.
Qed.

Lemma tok_brace_dc ds : forall acc rest, forallb is_dc ds = true ->
  tok (TBrace acc) (ds ++ rest) = tok (TBrace (rev ds ++ acc)) rest.
Proof.
  induction ds as [|c r IH]; intros acc rest H; [reflexivity|].
  simpl in H. apply andb_true_iff in H as [Hc Hr]. cbn [app tok]. rewrite Hc. rewrite IH by exact Hr.
  simpl. now rewrite <- app_assoc.
Qed.

(* semantic value of a token list *)
Definition sem (toks : list text) : result order := rmap (@List.concat (list N)) (rmapM classes_of_group toks).

Lemma sem_cons t toks : sem (t :: toks) = rapp (classes_of_group t) (sem toks).
Proof.
  unfold sem, rapp. cbn [rmapM]. destruct (classes_of_group t) as [y|e]; simpl; [|reflexivity].
  destruct (rmapM classes_of_group toks); reflexivity.
Qed.

Lemma sem_nil : sem [] = Ok [].
Proof. reflexivity. Qed.

Lemma order_of_str_sem s : order_of_str s = sem (tokenize s).
Proof. reflexivity. Qed.

(* a bare run (no brace inside) *)
Lemma classes_of_run g : forallb is_dc g = true ->
  classes_of_group g = rmap (map (fun a => [a])) (ids_of g).
Proof.
  intros H. unfold classes_of_group. destruct g as [|c r]; [reflexivity|].
  simpl in H. apply andb_true_iff in H as [Hc _]. cbn [startswith].
  assert (E : N.eqb c_lbrace c = false).
  { unfold c_lbrace. destruct (N.eqb_spec 123 c) as [<-|]; [discriminate|reflexivity]. }
  rewrite E. reflexivity.
Qed.

Lemma classes_of_braced x : classes_of_group (c_lbrace :: x ++ [c_rbrace]) = rmap (fun c => [c]) (ids_of x).
Proof.
  unfold classes_of_group. cbn [startswith]. rewrite N.eqb_refl. cbn [andb].
  unfold inner. cbn [tl]. now rewrite removelast_last.
Qed.

(* starting idle is, for the classes built, the same as starting inside an empty run *)
Lemma sem_idle_run0 s : sem (tok TIdle s) = sem (tok (TRun []) s).
Proof.
  destruct s as [|c r]; [reflexivity|]. cbn [tok].
  destruct (is_dc c) eqn:D.
  - destruct (N.eqb_spec c c_lbrace) as [->|]; [discriminate|]. reflexivity.
  - cbn [rev]. rewrite sem_cons. change (classes_of_group []) with (@Ok (list (list N)) []).
    unfold rapp. cbn [rbind]. destruct (N.eqb c c_lbrace); now destruct (sem _).
Qed.

(* ================================================================================================ *)
(* 4. C01_ties: tokenizer + class construction invert the (whitespace-free) ballot printer          *)
(* ================================================================================================ *)
(* the printed classes without blanks: a singleton is bare, any other class is in braces *)
Definition cbody (c : list N) : text :=
  match c with
  | [a] => show_N a
  | _ => c_lbrace :: commas (map show_N c) ++ [c_rbrace]
  end.
Definition ctail (r : order) : text := flat_map (fun c => 44%N :: cbody c) r.
Definition cstr (o : order) : text := match o with [] => [] | c :: r => cbody c ++ ctail r end.

Lemma ctail_cons c r : ctail (c :: r) = 44%N :: cstr (c :: r).
Proof. reflexivity. Qed.

Definition singles (l : list N) : order := map (fun a => [a]) l.

Lemma forallb_rev {T} (f : T -> bool) l : forallb f l = true -> forallb f (rev l) = true.
Proof. rewrite !forallb_forall. intros H x Hx. apply H. now apply in_rev. Qed.

Lemma tok_run_dc' ds x rest : forallb is_dc ds = true ->
  tok (TRun (rev x)) (ds ++ rest) = tok (TRun (rev (x ++ ds))) rest.
Proof. intros H. rewrite tok_run_dc by exact H. now rewrite rev_app_distr. Qed.

Lemma tok_brace_close acc rest : acc <> [] ->
  tok (TBrace acc) (c_rbrace :: rest) = (c_lbrace :: rev acc ++ [c_rbrace]) :: tok TIdle rest.
Proof. intros H. cbn [tok]. change (is_dc c_rbrace) with false. cbv iota. rewrite N.eqb_refl. destruct acc; [easy|reflexivity]. Qed.

Lemma commas_nonempty a c : commas (map show_N (a :: c)) <> [].
Proof.
  pose proof (show_N_nonempty a) as H. destruct c as [|b c'].
  - cbn. exact H.
  - change (commas (map show_N (a :: b :: c'))) with (show_N a ++ 44%N :: commas (map show_N (b :: c'))).
    destruct (show_N a); [easy|discriminate].
Qed.

(* a braced class read from inside a run x: the run is closed, the class is emitted, the scan is idle *)
Lemma tok_run_braced x c rest : c <> [] ->
  tok (TRun (rev x)) (c_lbrace :: commas (map show_N c) ++ c_rbrace :: rest) =
  x :: (c_lbrace :: commas (map show_N c) ++ [c_rbrace]) :: tok TIdle rest.
Proof.
  intros Hc. cbn [tok]. change (is_dc c_lbrace) with false. cbv iota. rewrite N.eqb_refl.
  rewrite rev_involutive. f_equal.
  rewrite tok_brace_dc by apply all_dc_commas. rewrite app_nil_r.
  rewrite tok_brace_close.
  - now rewrite rev_involutive.
  - destruct c as [|a c']; [easy|]. intros E. apply (commas_nonempty a c').
    rewrite <- (rev_involutive (commas _)). now rewrite E.
Qed.

Lemma sem_run_token x pre toks : forallb is_dc x = true -> ids_of x = Ok pre ->
  sem (x :: toks) = rapp (Ok (singles pre)) (sem toks).
Proof. intros D I. rewrite sem_cons, classes_of_run by exact D. now rewrite I. Qed.

Lemma tok_idle_comma s : sem (tok TIdle (44%N :: s)) = sem (tok (TRun (rev [44%N])) s).
Proof. rewrite sem_idle_run0. reflexivity. Qed.

Theorem ties_run : forall o x pre,
  o <> [] -> Forall (fun c => c <> []) o ->
  forallb is_dc x = true -> sepready x -> ids_of x = Ok pre ->
  sem (tok (TRun (rev x)) (cstr o)) = Ok (singles pre ++ o).
Proof.
  induction o as [|c r IH]; intros x pre Hne Hcl Dx Sx Ix; [easy|]. clear Hne.
  inversion Hcl as [|? ? Hc Hr]; subst.
  assert (Tail : forall x1 pre1, forallb is_dc x1 = true -> ids_of x1 = Ok pre1 ->
            sem (tok (TRun (rev x1)) (ctail r)) = Ok (singles pre1 ++ r)).
  { intros x1 pre1 D1 I1. destruct r as [|c' r'].
    - cbn [ctail flat_map tok]. rewrite rev_involutive. rewrite (sem_run_token x1 pre1) by assumption.
      reflexivity.
    - rewrite ctail_cons. change (44%N :: cstr (c' :: r')) with ([44%N] ++ cstr (c' :: r')).
      rewrite tok_run_dc' by reflexivity. apply IH.
      + discriminate.
      + exact Hr.
      + rewrite forallb_app, D1. reflexivity.
      + right. now exists x1.
      + now rewrite ids_of_comma_r. }
  destruct c as [|a [|b c'']]; [easy| |].
  - (* singleton class: the run goes on *)
    cbn [cstr cbody]. rewrite tok_run_dc' by apply all_dc_show_N.
    rewrite (Tail (x ++ show_N a) (pre ++ [a])).
    + unfold singles. rewrite map_app, <- app_assoc. reflexivity.
    + rewrite forallb_app, Dx. apply all_dc_show_N.
    + rewrite ids_of_sepready_app by exact Sx. now rewrite Ix, ids_of_show_N.
  - (* class in braces *)
    cbn [cstr cbody]. cbn [app]. rewrite <- app_assoc. cbn [app].
    rewrite tok_run_braced by discriminate.
    rewrite (sem_run_token x pre) by assumption.
    rewrite sem_cons, classes_of_braced, ids_of_commas. cbn [rmap].
    assert (E : sem (tok TIdle (ctail r)) = Ok r).
    { destruct r as [|c' r']; [reflexivity|]. rewrite ctail_cons, tok_idle_comma.
      rewrite (IH [44%N] []); [reflexivity|discriminate|exact Hr|reflexivity|right; now exists []|reflexivity]. }
    rewrite E. reflexivity.
Qed.

(* every arrangement of non-empty classes: first / last / only class tied, singletons, any ids *)
Theorem order_of_cstr o : Forall (fun c => c <> []) o -> order_of_str (cstr o) = Ok o.
Proof.
  intros H. rewrite order_of_str_sem. unfold tokenize. destruct o as [|c r]; [reflexivity|].
  rewrite sem_idle_run0. change (@nil N) with (rev (@nil N)).
  rewrite (ties_run (c :: r) [] []); [reflexivity|discriminate|exact H|reflexivity|now left|reflexivity].
Qed.

(* ================================================================================================ *)
(* 5. the ballot printer: order_str o is the ", "-joined list of class bodies                       *)
(* ================================================================================================ *)
Definition body (c : list N) : text :=
  match c with
  | [a] => show_N a
  | _ => lit "{" ++ join comma_sp (map show_N c) ++ lit "}"
  end.

Definition in_cs (c : N) : bool := existsb (N.eqb c) comma_sp.      (* the characters of strip(", ") *)

Definition good (y : text) : Prop := y <> [] /\ lstrip_by in_cs y = y /\ rstrip_by in_cs y = y.

Lemma digit_not_cs c : is_digit c = true -> in_cs c = false.
Proof.
  unfold is_digit, in_cs. intros H. apply andb_true_iff in H as [A B]. apply N.leb_le in A.
  cbn. destruct (N.eqb_spec c 44); [lia|]. destruct (N.eqb_spec c 32); [lia|]. reflexivity.
Qed.

Lemma good_show_N a : good (show_N a).
Proof.
  split; [apply show_N_nonempty|].
  assert (S : strip_by in_cs (show_N a) = show_N a).
  { apply strip_by_none. pose proof (show_N_digits a) as H. rewrite forallb_forall in *.
    intros c Hc. apply negb_true_iff, digit_not_cs. now apply H. }
  now apply strip_by_fix in S.
Qed.

Lemma good_braced x : good (lit "{" ++ x ++ lit "}").
Proof.
  split; [discriminate|]. split.
  - reflexivity.
  - rewrite app_assoc. apply rstrip_by_app_fix; [discriminate|reflexivity].
Qed.

Lemma good_body c : good (body c).
Proof. destruct c as [|a [|b r]]; [apply good_braced|apply good_show_N|apply good_braced]. Qed.

Lemma good_sep a b : good a -> good b -> good (a ++ comma_sp ++ b).
Proof.
  intros (A1 & A2 & A3) (B1 & B2 & B3). split; [|split].
  - destruct a; [easy|discriminate].
  - now apply lstrip_by_app_fix.
  - rewrite app_assoc. now apply rstrip_by_app_fix.
Qed.

Lemma good_join c r : good (join comma_sp (map body (c :: r))).
Proof.
  revert c. induction r as [|c' r IH]; intros c.
  - cbn. apply good_body.
  - change (join comma_sp (map body (c :: c' :: r))) with (body c ++ comma_sp ++ join comma_sp (map body (c' :: r))).
    apply good_sep; [apply good_body|apply IH].
Qed.

Lemma class_str_body c : class_str c = body c ++ comma_sp.
Proof.
  destruct c as [|a [|b r]]; unfold class_str, body; cbn [lit]; rewrite <- ?app_assoc; reflexivity.
Qed.

Lemma flat_class_str c r : flat_map class_str (c :: r) = join comma_sp (map body (c :: r)) ++ comma_sp.
Proof.
  revert c. induction r as [|c' r IH]; intros c.
  - cbn [flat_map map join]. now rewrite app_nil_r, class_str_body.
  - change (flat_map class_str (c :: c' :: r)) with (class_str c ++ flat_map class_str (c' :: r)).
    rewrite IH, class_str_body.
    change (join comma_sp (map body (c :: c' :: r))) with (body c ++ comma_sp ++ join comma_sp (map body (c' :: r))).
    now rewrite <- !app_assoc.
Qed.

Theorem order_str_join o : order_str o = join comma_sp (map body o).
Proof.
  unfold order_str. destruct o as [|c r]; [reflexivity|].
  rewrite flat_class_str. destruct (good_join c r) as (G1 & G2 & G3).
  unfold strip_chars, strip_by. fold in_cs.
  rewrite lstrip_by_app_fix by assumption. rewrite rstrip_by_all by reflexivity. exact G3.
Qed.

(* ---- removing the blanks ---- *)
Lemma remove_ws_app a b : remove_ws (a ++ b) = remove_ws a ++ remove_ws b.
Proof. apply filter_app. Qed.

Lemma remove_ws_digits s : forallb is_digit s = true -> remove_ws s = s.
Proof.
  induction s as [|c r IH]; [reflexivity|]. cbn [forallb]. intros H. apply andb_true_iff in H as [Hc Hr].
  unfold remove_ws. cbn [filter]. rewrite (digit_not_space c Hc). cbn [negb]. f_equal. now apply IH.
Qed.

Lemma remove_ws_show_N a : remove_ws (show_N a) = show_N a.
Proof. apply remove_ws_digits, show_N_digits. Qed.

Lemma remove_ws_join parts :
  remove_ws (join comma_sp parts) = commas (map remove_ws parts).
Proof.
  induction parts as [|p r IH]; [reflexivity|]. destruct r as [|q r'].
  - reflexivity.
  - change (join comma_sp (p :: q :: r')) with (p ++ comma_sp ++ join comma_sp (q :: r')).
    rewrite !remove_ws_app, IH. reflexivity.
Qed.

Lemma remove_ws_body c : remove_ws (body c) = cbody c.
Proof.
  assert (B : forall c, remove_ws (lit "{" ++ join comma_sp (map show_N c) ++ lit "}")
                        = c_lbrace :: commas (map show_N c) ++ [c_rbrace]).
  { intros c0. rewrite !remove_ws_app, remove_ws_join, map_map.
    rewrite (map_ext _ show_N) by (intros; apply remove_ws_show_N). reflexivity. }
  destruct c as [|a [|b r]]; [apply B|apply remove_ws_show_N|apply B].
Qed.

Lemma commas_cstr o : commas (map cbody o) = cstr o.
Proof.
  induction o as [|c r IH]; [reflexivity|]. destruct r as [|c' r'].
  - cbn. now rewrite app_nil_r.
  - change (commas (map cbody (c :: c' :: r'))) with (cbody c ++ 44%N :: commas (map cbody (c' :: r'))).
    rewrite IH. reflexivity.
Qed.

Theorem remove_ws_order_str o : remove_ws (order_str o) = cstr o.
Proof.
  rewrite order_str_join, remove_ws_join, map_map.
  rewrite (map_ext _ cbody) by (intros; apply remove_ws_body). apply commas_cstr.
Qed.

(* C01_ties at the level of the printer and the class construction *)
Theorem order_roundtrip o : Forall (fun c => c <> []) o -> order_of_str (remove_ws (order_str o)) = Ok o.
Proof. intros H. rewrite remove_ws_order_str. now apply order_of_cstr. Qed.

(* ================================================================================================ *)
(* 6. one ballot line                                                                               *)
(* ================================================================================================ *)
Definition ballot_text (b : order * N) : text := show_N (snd b) ++ lit ": " ++ order_str (fst b).

Lemma ballot_line_text b : ballot_line b = ballot_text b ++ nl.
Proof. unfold ballot_line, ballot_text. now rewrite <- !app_assoc. Qed.

Lemma remove_ws_ballot_text o k : remove_ws (ballot_text (o, k)) = show_N k ++ 58%N :: cstr o.
Proof.
  unfold ballot_text. cbn [fst snd]. rewrite !remove_ws_app, remove_ws_show_N, remove_ws_order_str. reflexivity.
Qed.

Lemma remove_ws_no_space s : forallb (fun c => negb (is_space c)) (remove_ws s) = true.
Proof.
  unfold remove_ws. apply forallb_forall. intros c Hc. apply filter_In in Hc. apply Hc.
Qed.

Lemma strip_remove_ws s : strip (remove_ws s) = remove_ws s.
Proof. apply strip_by_none, remove_ws_no_space. Qed.

Definition nocolon (s : text) : bool := forallb (fun c => negb (N.eqb c 58)) s.

Lemma nocolon_app a b : nocolon (a ++ b) = nocolon a && nocolon b.
Proof. apply forallb_app. Qed.

Lemma nocolon_show_N a : nocolon (show_N a) = true.
Proof.
  unfold nocolon. pose proof (show_N_digits a) as H. rewrite forallb_forall in *. intros c Hc.
  specialize (H c Hc). unfold is_digit in H. apply andb_true_iff in H as [_ B]. apply N.leb_le in B.
  destruct (N.eqb_spec c 58); [lia|reflexivity].
Qed.

Lemma nocolon_commas c : nocolon (commas (map show_N c)) = true.
Proof.
  induction c as [|a r IH]; [reflexivity|]. destruct r as [|b r'].
  - cbn. apply nocolon_show_N.
  - change (commas (map show_N (a :: b :: r'))) with (show_N a ++ 44%N :: commas (map show_N (b :: r'))).
    rewrite nocolon_app, nocolon_show_N. cbn [andb]. change (nocolon (44%N :: ?x)) with (nocolon x). exact IH.
Qed.

Lemma nocolon_cbody c : nocolon (cbody c) = true.
Proof.
  assert (B : forall c, nocolon (c_lbrace :: commas (map show_N c) ++ [c_rbrace]) = true).
  { intros c0. change (nocolon (c_lbrace :: ?x)) with (nocolon x). now rewrite nocolon_app, nocolon_commas. }
  destruct c as [|a [|b r]]; [apply B|apply nocolon_show_N|apply B].
Qed.

Lemma nocolon_ctail r : nocolon (ctail r) = true.
Proof.
  induction r as [|c r IH]; [reflexivity|]. cbn [ctail flat_map]. fold (ctail r).
  change (nocolon ((44%N :: cbody c) ++ ctail r)) with (nocolon (cbody c ++ ctail r)).
  now rewrite nocolon_app, nocolon_cbody, IH.
Qed.

Lemma nocolon_cstr o : nocolon (cstr o) = true.
Proof. destruct o as [|c r]; [reflexivity|]. cbn [cstr]. now rewrite nocolon_app, nocolon_cbody, nocolon_ctail. Qed.

Theorem parse_ballot_text o k : Forall (fun c => c <> []) o ->
  parse_ballot (remove_ws (ballot_text (o, k))) = Ok (k, o).
Proof.
  intros H. unfold parse_ballot. rewrite strip_remove_ws, remove_ws_ballot_text.
  rewrite split_on_app. rewrite (split_on_none 58 (show_N k)) by apply nocolon_show_N.
  rewrite (split_on_none 58 (cstr o)) by apply nocolon_cstr. cbn [app].
  rewrite py_int_show_N. cbn [rbind]. rewrite (order_of_cstr o H). reflexivity.
Qed.

Lemma remove_ws_ballot_text_nonempty b : remove_ws (ballot_text b) <> [].
Proof.
  destruct b as [o k]. rewrite remove_ws_ballot_text. pose proof (show_N_nonempty k).
  destruct (show_N k); [easy|discriminate].
Qed.

(* ================================================================================================ *)
(* 7. equality tests on orders, fresh keys                                                          *)
(* ================================================================================================ *)
Lemma list_eqb_eq {T} (eqb : T -> T -> bool) :
  (forall x y, eqb x y = true <-> x = y) -> forall a b, list_eqb eqb a b = true <-> a = b.
Proof.
  intros S. induction a as [|x a IH]; intros [|y b]; simpl; split; intros H; try easy.
  - apply andb_true_iff in H as [H1 H2]. apply S in H1. apply IH in H2. now subst.
  - injection H as -> ->. apply andb_true_iff. split; [now apply S|now apply IH].
Qed.

Lemma class_eqb_eq a b : class_eqb a b = true <-> a = b.
Proof. apply list_eqb_eq. intros x y. apply N.eqb_eq. Qed.
Lemma order_eqb_eq a b : order_eqb a b = true <-> a = b.
Proof. apply list_eqb_eq. apply class_eqb_eq. Qed.
Lemma order_eqb_refl a : order_eqb a a = true.
Proof. now apply order_eqb_eq. Qed.
Lemma order_eqb_neq a b : a <> b -> order_eqb a b = false.
Proof. intros H. destruct (order_eqb a b) eqn:E; [|reflexivity]. apply order_eqb_eq in E. contradiction. Qed.

Lemma oassoc_set_fresh (o : order) (k : N) mu :
  ~ In o (keys mu) -> assoc_set order_eqb o k mu = mu ++ [(o, k)].
Proof.
  induction mu as [|[o' k'] r IH]; intros H; [reflexivity|].
  cbn [assoc_set]. rewrite order_eqb_neq.
  - cbn [app]. rewrite IH; [reflexivity|]. intros Hin. apply H. now right.
  - intros ->. apply H. now left.
Qed.

Lemma oassoc_get_in (o : order) (k : N) mu :
  NoDup (keys mu) -> In (o, k) mu -> assoc_get order_eqb o mu = Some k.
Proof.
  induction mu as [|[o' k'] r IH]; intros Hn Hin; [easy|].
  cbn [assoc_get]. cbn [keys map fst] in Hn. inversion Hn as [|? ? Hnot Hn']; subst.
  destruct Hin as [E|Hin].
  - injection E as -> ->. now rewrite order_eqb_refl.
  - rewrite order_eqb_neq; [now apply IH|]. intros ->. apply Hnot.
    change o' with (fst (o', k)). now apply in_map.
Qed.

(* ================================================================================================ *)
(* 8. the ballot loop on printed ballots                                                            *)
(* ================================================================================================ *)
Theorem ballot_loop_texts : forall B ords mu,
  Forall (fun b => Forall (fun c => c <> []) (fst b)) B ->
  NoDup (keys mu ++ keys B) ->
  ballot_loop false (ords, mu) (map ballot_text B) = Ok (ords ++ keys B, mu ++ B).
Proof.
  induction B as [|[o k] r IH]; intros ords mu Hc Hn.
  - cbn. now rewrite !app_nil_r.
  - inversion Hc as [|? ? Ho Hr]; subst. cbn [map ballot_loop].
    pose proof (remove_ws_ballot_text_nonempty (o, k)) as NE.
    destruct (remove_ws (ballot_text (o, k))) as [|c0 l0] eqn:E; [easy|]. rewrite <- E.
    rewrite (parse_ballot_text o k Ho). cbn [rbind add_ballot].
    rewrite oassoc_set_fresh.
    + rewrite IH.
      * cbn [keys map fst]. now rewrite <- !app_assoc.
      * exact Hr.
      * unfold keys in *. rewrite map_app. cbn [map fst]. rewrite <- app_assoc. exact Hn.
    + intros Hin. unfold keys in Hn. cbn [map fst] in Hn. apply NoDup_remove_2 in Hn. apply Hn.
      apply in_or_app. now left.
Qed.

(* ================================================================================================ *)
(* 9. the stable sort                                                                               *)
(* ================================================================================================ *)
Section Sort.
Context {T : Type} (le : T -> T -> bool).
Hypothesis le_total : forall a b, le a b = false -> le b a = true.

Fixpoint lsorted (l : list T) : Prop :=
  match l with
  | a :: (b :: _) as r => le a b = true /\ lsorted r
  | _ => True
  end.

Lemma insert_by_perm x l : Permutation (insert_by le x l) (x :: l).
Proof.
  induction l as [|y r IH]; [reflexivity|]. cbn [insert_by]. destruct (le x y); [reflexivity|].
  rewrite IH. apply perm_swap.
Qed.

Lemma stable_sort_perm l : Permutation (stable_sort le l) l.
Proof.
  induction l as [|x r IH]; [reflexivity|]. cbn [stable_sort fold_right]. fold (stable_sort le r).
  rewrite insert_by_perm. now constructor.
Qed.

Lemma insert_by_sorted x l : lsorted l -> lsorted (insert_by le x l).
Proof.
  induction l as [|y r IH]; intros H; [exact I|].
  cbn [insert_by]. destruct (le x y) eqn:E.
  - split; [exact E|exact H].
  - apply le_total in E. destruct r as [|z r'].
    + cbn. split; [exact E|exact I].
    + destruct H as [Hyz Hr]. specialize (IH Hr). cbn [insert_by] in *. destruct (le x z) eqn:E2.
      * split; [exact E|]. split; [exact E2|exact Hr].
      * split; [exact Hyz|exact IH].
Qed.

Lemma stable_sort_sorted l : lsorted (stable_sort le l).
Proof.
  induction l as [|x r IH]; [exact I|]. cbn [stable_sort fold_right]. now apply insert_by_sorted.
Qed.

Lemma lsorted_tail x l : lsorted (x :: l) -> lsorted l.
Proof. destruct l; [easy|]. now intros [_ H]. Qed.

(* sorting a sorted list changes nothing (so the order of equal keys is kept: the sort is stable) *)
Lemma stable_sort_id l : lsorted l -> stable_sort le l = l.
Proof.
  induction l as [|x r IH]; intros H; [reflexivity|]. cbn [stable_sort fold_right]. fold (stable_sort le r).
  rewrite IH by (now apply lsorted_tail in H). destruct r as [|y r']; [reflexivity|].
  cbn [insert_by]. destruct H as [E _]. now rewrite E.
Qed.
End Sort.

Lemma key_le_total a b : key_le a b = false -> key_le b a = true.
Proof.
  unfold key_le. intros H. apply orb_false_iff in H as [H1 H2].
  apply N.ltb_ge in H1. destruct (N.ltb_spec (snd a) (snd b)) as [L|L]; [reflexivity|].
  cbn [orb]. assert (E : snd a = snd b) by lia. rewrite E in *. rewrite N.eqb_refl in *. cbn [andb] in *.
  apply Nat.leb_gt in H2. apply Nat.leb_le. lia.
Qed.

Lemma key_le_mult a b : key_le a b = true -> (snd b <= snd a)%N.
Proof.
  unfold key_le. intros H. apply orb_true_iff in H as [H|H].
  - apply N.ltb_lt in H. lia.
  - apply andb_true_iff in H as [H _]. apply N.eqb_eq in H. lia.
Qed.

Fixpoint non_increasing (l : list N) : Prop :=
  match l with
  | a :: (b :: _) as r => (b <= a)%N /\ non_increasing r
  | _ => True
  end.

Lemma lsorted_non_increasing (l : list (order * N)) : lsorted key_le l -> non_increasing (map snd l).
Proof.
  induction l as [|a r IH]; [easy|]. destruct r as [|b r']; [easy|].
  intros [E H]. cbn [map non_increasing]. split; [now apply key_le_mult|]. now apply IH.
Qed.

(* ---- the ballots of an instance ---- *)
Definition decorated (i : oinst) : list (order * N) := map (fun o => (o, mult_of i o)) (o_orders i).

Lemma ballots_perm i : Permutation (ballots i) (decorated i).
Proof. apply stable_sort_perm. Qed.

Lemma ballots_sorted i : lsorted key_le (ballots i).
Proof. apply stable_sort_sorted, key_le_total. Qed.

Lemma keys_decorated i : keys (decorated i) = o_orders i.
Proof. unfold keys, decorated. rewrite map_map. cbn [fst]. apply map_id. Qed.

Lemma keys_ballots_perm i : Permutation (keys (ballots i)) (o_orders i).
Proof. rewrite <- keys_decorated. unfold keys. apply Permutation_map, ballots_perm. Qed.

Theorem ballots_non_increasing i : non_increasing (map snd (ballots i)).
Proof. apply lsorted_non_increasing, ballots_sorted. Qed.

(* ================================================================================================ *)
(* 10. well-formedness as propositions                                                              *)
(* ================================================================================================ *)
Lemma nodupb_NoDup {T} (eqb : T -> T -> bool) (S : forall x y, eqb x y = true <-> x = y) l :
  nodupb eqb l = true -> NoDup l.
Proof.
  induction l as [|x r IH]; intros H; [constructor|]. cbn [nodupb] in H. apply andb_true_iff in H as [H1 H2].
  constructor; [|now apply IH]. intros Hin. apply negb_true_iff in H1.
  assert (existsb (eqb x) r = true); [|congruence]. apply existsb_exists. exists x. split; [exact Hin|now apply S].
Qed.

Lemma wf_text_field v : wf_text v = true -> wf_field v.
Proof.
  unfold wf_text. intros H. apply andb_true_iff in H as [A B]. split; [now apply teqb_eq in B|exact A].
Qed.

Lemma valid_type_field dt : valid_type dt = true -> wf_field dt.
Proof.
  unfold valid_type. intros H. repeat (apply orb_true_iff in H as [H|H]); apply teqb_eq in H; subst; split; reflexivity.
Qed.

Record wf_ord_P (i : oinst) : Prop := {
  wfp_fields : wf_fields (o_meta i);
  wfp_names : wf_names (alt_names (o_meta i));
  wfp_reserved : reserved (o_meta i) = [];
  wfp_some : o_orders i <> [];
  wfp_classes : Forall (fun o => Forall (fun c => c <> []) o) (o_orders i);
  wfp_mult : Forall (fun p => (1 <= snd p)%N) (o_mult i);
  wfp_keys : keys (o_mult i) = o_orders i;
  wfp_nodup : NoDup (o_orders i)
}.

Lemma wf_ord_prop i : wf_ord i = true -> wf_ord_P i.
Proof.
  unfold wf_ord, wf_meta. intros H.
  apply andb_true_iff in H as [H Hnd]. apply andb_true_iff in H as [H Hkeys].
  apply andb_true_iff in H as [H Hmult]. apply andb_true_iff in H as [H Hcls].
  apply andb_true_iff in H as [H Hsome].
  apply andb_true_iff in H as [H Hres]. apply andb_true_iff in H as [H Hids].
  apply andb_true_iff in H as [H Hnames].
  apply andb_true_iff in H as [H F9]. apply andb_true_iff in H as [H F8]. apply andb_true_iff in H as [H F7].
  apply andb_true_iff in H as [H F6]. apply andb_true_iff in H as [H F5]. apply andb_true_iff in H as [H F4].
  apply andb_true_iff in H as [H F3]. apply andb_true_iff in H as [F1 F2].
  constructor.
  - repeat split; try (apply wf_text_field; assumption); try (apply valid_type_field; assumption);
      try (apply wf_text_field in F1; apply F1); try (apply wf_text_field in F2; apply F2);
      try (apply wf_text_field in F3; apply F3); try (apply valid_type_field in F4; apply F4);
      try (apply wf_text_field in F5; apply F5); try (apply wf_text_field in F6; apply F6);
      try (apply wf_text_field in F7; apply F7); try (apply wf_text_field in F8; apply F8);
      try (apply wf_text_field in F9; apply F9).
  - split.
    + apply Forall_forall. intros p Hp. apply wf_text_field. rewrite forallb_forall in Hnames. now apply Hnames.
    + apply (nodupb_NoDup N.eqb); [apply N.eqb_eq|assumption].
  - destruct (reserved (o_meta i)); [reflexivity|discriminate].
  - destruct (o_orders i); [discriminate|discriminate].
  - apply Forall_forall. intros o Ho. apply Forall_forall. intros c Hc.
    rewrite forallb_forall in Hcls. specialize (Hcls o Ho). rewrite forallb_forall in Hcls. specialize (Hcls c Hc).
    destruct c; [discriminate|discriminate].
  - apply Forall_forall. intros p Hp. rewrite forallb_forall in Hmult. specialize (Hmult p Hp). now apply N.leb_le in Hmult.
  - apply (list_eqb_eq order_eqb order_eqb_eq). assumption.
  - apply (nodupb_NoDup order_eqb order_eqb_eq). assumption.
Qed.

(* ================================================================================================ *)
(* 11. more on strip: idempotence, first character, whitespace removal                              *)
(* ================================================================================================ *)
Section Strip2.
Variable f : N -> bool.

Lemma lstrip_by_snoc x c : f c = false -> exists x', lstrip_by f (x ++ [c]) = x' ++ [c].
Proof.
  intros Hc. induction x as [|d r [x' IH]]; cbn [app lstrip_by].
  - rewrite Hc. now exists [].
  - destruct (f d); [now exists x'|now exists (d :: r)].
Qed.

Lemma rstrip_by_head c r : f c = false -> exists r', rstrip_by f (c :: r) = c :: r'.
Proof.
  intros Hc. unfold rstrip_by. cbn [rev]. destruct (lstrip_by_snoc (rev r) c Hc) as [x' E].
  rewrite E, rev_app_distr. cbn. now exists (rev x').
Qed.

Lemma lstrip_by_idem s : lstrip_by f (lstrip_by f s) = lstrip_by f s.
Proof. induction s as [|c r IH]; [reflexivity|]. cbn [lstrip_by]. destruct (f c) eqn:E; [exact IH|]. cbn [lstrip_by]. now rewrite E. Qed.

Lemma strip_by_idem s : strip_by f (strip_by f s) = strip_by f s.
Proof.
  apply strip_by_of_fix.
  - unfold strip_by. remember (lstrip_by f s) as u eqn:Eu.
    assert (Lu : lstrip_by f u = u) by (subst u; apply lstrip_by_idem).
    destruct u as [|c r]; [reflexivity|]. cbn [lstrip_by] in Lu. destruct (f c) eqn:Ec.
    + exfalso. pose proof (lstrip_by_length f r) as L. rewrite Lu in L. cbn in L. lia.
    + destruct (rstrip_by_head c r Ec) as [r' E]. rewrite E. cbn [lstrip_by]. now rewrite Ec.
  - unfold strip_by. apply rstrip_by_fix_rev. unfold rstrip_by. rewrite rev_involutive. apply lstrip_by_idem.
Qed.
End Strip2.

Lemma strip_idem s : strip (strip s) = strip s.
Proof. apply strip_by_idem. Qed.

(* a line whose first character is neither blank nor '#' is not a header line *)
Lemma strip_head c r : is_space c = false -> exists r', strip (c :: r) = c :: r'.
Proof.
  intros Hc. unfold strip, strip_by. cbn [lstrip_by]. rewrite Hc. now apply rstrip_by_head.
Qed.

Lemma remove_ws_lstrip s : remove_ws (lstrip_by is_space s) = remove_ws s.
Proof.
  induction s as [|c r IH]; [reflexivity|]. cbn [lstrip_by]. destruct (is_space c) eqn:E; [|reflexivity].
  unfold remove_ws at 2. cbn [filter]. rewrite E. exact IH.
Qed.

Lemma remove_ws_rev s : remove_ws (rev s) = rev (remove_ws s).
Proof.
  unfold remove_ws. induction s as [|c r IH]; [reflexivity|]. cbn [rev filter]. rewrite filter_app, IH.
  cbn [filter]. destruct (negb (is_space c)); cbn; [reflexivity|now rewrite app_nil_r].
Qed.

Lemma remove_ws_strip s : remove_ws (strip s) = remove_ws s.
Proof.
  unfold strip, strip_by, rstrip_by. rewrite remove_ws_rev, remove_ws_lstrip, remove_ws_rev, rev_involutive.
  apply remove_ws_lstrip.
Qed.

(* ================================================================================================ *)
(* 12. ord_parse only looks at stripped lines                                                       *)
(* ================================================================================================ *)
Lemma header_loop_strip au : forall ls st,
  header_loop au st (map strip ls) =
  rmap (fun p => (fst p, map strip (snd p))) (header_loop au st ls).
Proof.
  induction ls as [|l r IH]; intros st; [reflexivity|].
  cbn [map header_loop]. rewrite strip_idem. destruct (startswith hash (strip l)); [|reflexivity].
  destruct (header_step au st (strip l)) as [st'|e]; [|reflexivity]. cbn [rbind].
  destruct r as [|l' r']; [reflexivity|]. exact (IH st').
Qed.

Lemma ballot_loop_strip au : forall ls st, ballot_loop au st (map strip ls) = ballot_loop au st ls.
Proof.
  induction ls as [|l r IH]; intros st; [reflexivity|]. cbn [map ballot_loop]. rewrite remove_ws_strip.
  destruct (remove_ws l); [apply IH|]. destruct (parse_ballot _); [|reflexivity]. cbn [rbind]. apply IH.
Qed.

Lemma reserved_of_strip p ls : reserved_of p (map strip ls) = reserved_of p ls.
Proof.
  unfold reserved_of. induction ls as [|l r IH]; [reflexivity|]. cbn [map flat_map]. now rewrite strip_idem, IH.
Qed.

Theorem ord_parse_strip au ho m ls : ord_parse au ho m (map strip ls) = ord_parse au ho m ls.
Proof.
  unfold ord_parse. rewrite reserved_of_strip, header_loop_strip.
  destruct (header_loop au _ ls) as [[[m' nu] rest]|e]; [|reflexivity].
  cbn [rmap rbind fst snd]. destruct ho; [reflexivity|]. now rewrite ballot_loop_strip.
Qed.

Corollary ord_parse_same_stripped au ho m ls ls' :
  map strip ls = map strip ls' -> ord_parse au ho m ls = ord_parse au ho m ls'.
Proof. intros E. rewrite <- (ord_parse_strip au ho m ls), <- (ord_parse_strip au ho m ls'). now rewrite E. Qed.

Corollary ord_parse_nl au ho m ls : ord_parse au ho m (map (fun l => l ++ nl) ls) = ord_parse au ho m ls.
Proof.
  apply ord_parse_same_stripped. rewrite map_map. apply map_ext. intros l. now apply strip_nl_r.
Qed.

(* ================================================================================================ *)
(* 13. the header loop on a list of header lines followed by a ballot line                          *)
(* ================================================================================================ *)
Definition hfold_r (au : bool) (r : result (meta * N)) (H : list text) : result (meta * N) :=
  fold_left (fun r l => rbind r (fun st => header_step au st (strip l))) H r.
Definition hfold (au : bool) (st : meta * N) (H : list text) := hfold_r au (Ok st) H.

Lemma hfold_r_err au e H : hfold_r au (Err e) H = Err e.
Proof. induction H as [|l r IH]; [reflexivity|]. exact IH. Qed.

Lemma hfold_app au st A B : hfold au st (A ++ B) = rbind (hfold au st A) (fun st1 => hfold au st1 B).
Proof.
  unfold hfold, hfold_r. rewrite fold_left_app. fold (hfold_r au (Ok st) A).
  destruct (hfold_r au (Ok st) A) as [st1|e]; [reflexivity|]. apply hfold_r_err.
Qed.

Definition is_hash (l : text) : Prop := startswith hash (strip l) = true.
Definition not_nuo (l : text) : Prop := startswith nuo_prefix (strip l) = false.

Lemma header_loop_app au : forall H st st' b rest,
  Forall is_hash H -> hfold au st H = Ok st' -> startswith hash (strip b) = false ->
  header_loop au st (H ++ b :: rest) = Ok (st', b :: rest).
Proof.
  induction H as [|l r IH]; intros st st' b rest Hh Hf Hb.
  - cbn in Hf. injection Hf as <-. cbn [app header_loop]. now rewrite Hb.
  - inversion Hh as [|? ? Hl Hr]; subst. cbn [app header_loop]. unfold is_hash in Hl. rewrite Hl.
    unfold hfold, hfold_r in Hf. cbn [fold_left rbind] in Hf.
    destruct (header_step au st (strip l)) as [st1|e].
    + cbn [rbind]. fold (hfold_r au (Ok st1) r) in Hf.
      destruct (r ++ b :: rest) eqn:E; [now destruct r|]. rewrite <- E. now apply IH.
    + fold (hfold_r au (Err e) r) in Hf. rewrite hfold_r_err in Hf. discriminate.
Qed.

Lemma parse_meta_lines_err au H : forall e,
  fold_left (fun r l => rbind r (fun m => parse_metadata au m (strip l))) H (Err e) = Err e.
Proof. induction H as [|l r IH]; intros e; [reflexivity|]. apply IH. Qed.

Lemma hfold_meta au : forall H m nu, Forall not_nuo H ->
  hfold au (m, nu) H = rmap (fun m' => (m', nu)) (parse_meta_lines au m H).
Proof.
  induction H as [|l r IH]; intros m nu Hn; [reflexivity|].
  inversion Hn as [|? ? Hl Hr]; subst. unfold hfold, hfold_r, parse_meta_lines. cbn [fold_left rbind].
  unfold header_step. unfold not_nuo in Hl. rewrite Hl. cbn [fst snd].
  destruct (parse_metadata au m (strip l)) as [m1|e]; cbn [rmap].
  - apply (IH m1 nu Hr).
  - transitivity (@Err (meta * N) e); [apply (hfold_r_err au e r)|].
    now rewrite parse_meta_lines_err.
Qed.

Lemma parse_meta_lines_app au m A B :
  parse_meta_lines au m (A ++ B) = rbind (parse_meta_lines au m A) (fun m1 => parse_meta_lines au m1 B).
Proof.
  unfold parse_meta_lines. rewrite fold_left_app.
  destruct (fold_left _ A (Ok m)) as [m1|e]; [reflexivity|]. apply parse_meta_lines_err.
Qed.

(* ================================================================================================ *)
(* 14. the written file as a list of lines                                                          *)
(* ================================================================================================ *)
Definition count_texts (i : oinst) : list text :=
  [ lit "# NUMBER ALTERNATIVES:" ++ 32%N :: show_N (num_alternatives (o_meta i));
    lit "# NUMBER VOTERS:" ++ 32%N :: show_N (num_voters (o_meta i));
    lit "# NUMBER UNIQUE ORDERS:" ++ 32%N :: show_N (o_num_unique i) ].

Definition header_texts (i : oinst) : list text :=
  meta_lines (o_meta i) ++ count_texts i ++ alt_name_lines (alt_names (o_meta i)).

Definition file_lines (i : oinst) : list text := header_texts i ++ map ballot_text (ballots i).

Lemma unlines_app a b : unlines (a ++ b) = unlines a ++ unlines b.
Proof. apply flat_map_app. Qed.

Lemma count_lines_texts i : count_lines i = unlines (count_texts i).
Proof.
  unfold count_lines, unlines, count_texts. cbn [flat_map lit].
  repeat (rewrite <- ?app_assoc; cbn [app]). reflexivity.
Qed.

Lemma ballot_lines_texts B : flat_map ballot_line B = unlines (map ballot_text B).
Proof.
  induction B as [|b r IH]; [reflexivity|]. cbn [flat_map map unlines]. fold (unlines (map ballot_text r)).
  now rewrite IH, ballot_line_text.
Qed.

Theorem ord_write_lines i : ord_write i = unlines (file_lines i).
Proof.
  unfold ord_write, file_lines, header_texts. rewrite !unlines_app.
  rewrite write_metadata_lines, count_lines_texts, write_alt_names_lines, ballot_lines_texts.
  now rewrite <- !app_assoc.
Qed.

(* ---- every header line is a '#' line; only the third count line is the unique-orders line ---- *)
Ltac kv_side Hv := rewrite strip_kv; [reflexivity|discriminate|reflexivity|exact Hv].

Lemma meta_lines_hash m : wf_fields m -> Forall is_hash (meta_lines m).
Proof.
  intros (H1 & H2 & H3 & H4 & H5 & H6 & H7 & H8 & H9). unfold meta_lines, is_hash.
  repeat constructor; [kv_side (proj1 H1)|kv_side (proj1 H2)|kv_side (proj1 H3)|kv_side (proj1 H4)
    |kv_side (proj1 H5)|kv_side (proj1 H6)|kv_side (proj1 H7)|kv_side (proj1 H8)|kv_side (proj1 H9)].
Qed.

Lemma meta_lines_not_nuo m : wf_fields m -> Forall not_nuo (meta_lines m).
Proof.
  intros (H1 & H2 & H3 & H4 & H5 & H6 & H7 & H8 & H9). unfold meta_lines, not_nuo.
  repeat constructor; [kv_side (proj1 H1)|kv_side (proj1 H2)|kv_side (proj1 H3)|kv_side (proj1 H4)
    |kv_side (proj1 H5)|kv_side (proj1 H6)|kv_side (proj1 H7)|kv_side (proj1 H8)|kv_side (proj1 H9)].
Qed.

Lemma count_texts_hash i : Forall is_hash (count_texts i).
Proof.
  unfold count_texts, is_hash. repeat constructor; kv_side (strip_show_N (num_alternatives (o_meta i)))
   || kv_side (strip_show_N (num_voters (o_meta i))) || kv_side (strip_show_N (o_num_unique i)).
Qed.

Lemma name_lines_hash d : Forall (fun p => wf_field (snd p)) d -> Forall is_hash (alt_name_lines d).
Proof.
  induction 1 as [|[a nm] r [Hv _] Hr IH]; [constructor|]. constructor; [|exact IH].
  unfold is_hash. cbn [fst snd] in *. rewrite strip_name_line; [reflexivity|reflexivity|exact Hv].
Qed.

Lemma name_lines_not_nuo d : Forall (fun p => wf_field (snd p)) d -> Forall not_nuo (alt_name_lines d).
Proof.
  induction 1 as [|[a nm] r [Hv _] Hr IH]; [constructor|]. constructor; [|exact IH].
  unfold not_nuo. cbn [fst snd] in *. rewrite strip_name_line; [reflexivity|reflexivity|exact Hv].
Qed.

Lemma ballot_text_not_hash b : startswith hash (strip (ballot_text b)) = false.
Proof.
  destruct b as [o k]. unfold ballot_text. cbn [fst snd].
  pose proof (show_N_nonempty k) as NE. pose proof (show_N_digits k) as D.
  destruct (show_N k) as [|c r]; [easy|]. cbn [forallb] in D. apply andb_true_iff in D as [Dc _].
  cbn [app]. destruct (strip_head c (r ++ lit ": " ++ order_str o) (digit_not_space c Dc)) as [r' E].
  rewrite E. change hash with [35%N]. cbn [startswith].
  unfold is_digit in Dc. apply andb_true_iff in Dc as [A _]. apply N.leb_le in A.
  destruct (N.eqb_spec 35 c); [lia|reflexivity].
Qed.

(* ---- the state after the header ---- *)
Lemma header_step_nuo au m nu n :
  header_step au (m, nu) (strip (lit "# NUMBER UNIQUE ORDERS:" ++ 32%N :: show_N n)) = Ok (m, n).
Proof.
  rewrite strip_kv; [|discriminate|reflexivity|apply strip_show_N]. rewrite spv_show_N.
  unfold header_step. cbn -[py_int show_N]. now rewrite py_int_sp_show_N.
Qed.

Lemma header_step_meta au m nu l : not_nuo l ->
  header_step au (m, nu) (strip l) = rmap (fun m' => (m', nu)) (parse_metadata au m (strip l)).
Proof. unfold not_nuo, header_step. now intros ->. Qed.

Definition parsed_meta (m m0 : meta) : meta :=
  set_alt_names (set_num_voters (set_num_alternatives (copy_fields m m0) (num_alternatives m)) (num_voters m))
                (set_all (alt_names m) (alt_names m0)).

Lemma hfold_counts au i m nu :
  hfold au (m, nu) (count_texts i) =
  Ok (set_num_voters (set_num_alternatives m (num_alternatives (o_meta i))) (num_voters (o_meta i)), o_num_unique i).
Proof.
  unfold count_texts, hfold, hfold_r. cbn [fold_left rbind].
  rewrite header_step_meta by (unfold not_nuo; kv_side (strip_show_N (num_alternatives (o_meta i)))).
  rewrite parse_line_num_alternatives. cbn [rmap rbind].
  rewrite header_step_meta by (unfold not_nuo; kv_side (strip_show_N (num_voters (o_meta i)))).
  rewrite parse_line_num_voters. cbn [rmap rbind].
  now rewrite header_step_nuo.
Qed.

Theorem hfold_header i m0 nu0 :
  wf_fields (o_meta i) -> Forall (fun p => wf_field (snd p)) (alt_names (o_meta i)) ->
  hfold false (m0, nu0) (header_texts i) = Ok (parsed_meta (o_meta i) m0, o_num_unique i).
Proof.
  intros Hf Hn. unfold header_texts. rewrite hfold_app.
  rewrite hfold_meta by (now apply meta_lines_not_nuo). rewrite metadata_roundtrip by exact Hf. cbn [rmap rbind].
  rewrite hfold_app, hfold_counts. cbn [rbind].
  rewrite hfold_meta by (now apply name_lines_not_nuo). rewrite alt_names_roundtrip by exact Hn.
  reflexivity.
Qed.

(* ================================================================================================ *)
(* 15. C01_roundtrip                                                                                *)
(* ================================================================================================ *)
Lemma parsed_meta_id m m0 :
  NoDup (keys (alt_names m)) -> reserved m = [] -> alt_names m0 = [] -> reserved m0 = [] ->
  parsed_meta m m0 = m.
Proof.
  intros Hn Hr A0 R0. unfold parsed_meta. rewrite A0. rewrite set_all_fresh by exact Hn.
  destruct m, m0. cbn in *. subst. reflexivity.
Qed.

Lemma ballots_nonempty i : o_orders i <> [] -> ballots i <> [].
Proof.
  intros H E. pose proof (keys_ballots_perm i) as P. rewrite E in P. cbn in P.
  apply Permutation_nil in P. contradiction.
Qed.

Lemma ballots_classes i :
  Forall (fun o => Forall (fun c => c <> []) o) (o_orders i) ->
  Forall (fun b => Forall (fun c => c <> []) (fst b)) (ballots i).
Proof.
  intros H. apply Forall_forall. intros b Hb. rewrite Forall_forall in H. apply H.
  apply (Permutation_in _ (keys_ballots_perm i)). unfold keys. now apply in_map.
Qed.

Lemma ballots_keys_nodup i : NoDup (o_orders i) -> NoDup (keys (ballots i)).
Proof. intros H. apply (Permutation_NoDup (Permutation_sym (keys_ballots_perm i)) H). Qed.

Theorem roundtrip_lines i m0 :
  wf_ord_P i -> alt_names m0 = [] -> reserved m0 = [] ->
  ord_parse false false m0 (file_lines i) = Ok (sorted_view i).
Proof.
  intros W A0 R0. destruct W as [Wf [Wn1 Wn2] Wr Ws Wc Wm Wk Wd].
  unfold ord_parse, file_lines.
  pose proof (ballots_nonempty i Ws) as NE. destruct (ballots i) as [|b B'] eqn:EB; [easy|].
  cbn [map].
  rewrite (header_loop_app false (header_texts i) (m0, 0%N) (parsed_meta (o_meta i) m0, o_num_unique i)).
  - cbn [rbind]. change (ballot_text b :: map ballot_text B') with (map ballot_text (b :: B')).
    rewrite <- EB. rewrite ballot_loop_texts.
    + cbn [rbind app]. rewrite parsed_meta_id by assumption. reflexivity.
    + now apply ballots_classes.
    + cbn [keys map app]. now apply ballots_keys_nodup.
  - unfold header_texts. rewrite !Forall_app. split; [now apply meta_lines_hash|]. split; [apply count_texts_hash|].
    now apply name_lines_hash.
  - now apply hfold_header.
  - apply ballot_text_not_hash.
Qed.

Lemma file_lines_no_break i : wf_ord_P i -> forallb no_break (file_lines i) = true.
Proof.
  intros W. destruct W as [Wf [Wn1 Wn2] Wr Ws Wc Wm Wk Wd].
  unfold file_lines, header_texts. rewrite !forallb_app.
  rewrite meta_lines_no_break by exact Wf. rewrite alt_name_lines_no_break by exact Wn1.
  cbn [andb]. rewrite andb_true_r. apply andb_true_iff. split.
  - unfold count_texts. cbn [forallb]. unfold no_break. rewrite !forallb_app. cbn [forallb lit].
    assert (Dg : forall n, forallb (fun c => negb (is_linebreak c)) (show_N n) = true).
    { intros n. pose proof (show_N_digits n) as Hd. rewrite forallb_forall in *. intros c Hc.
      specialize (Hd c Hc). unfold is_digit in Hd. apply andb_true_iff in Hd as [A B].
      apply N.leb_le in A. apply N.leb_le in B. unfold is_linebreak.
      repeat match goal with
      | |- context [(?a <=? c)%N] => destruct (N.leb_spec a c); try lia
      | |- context [(c <=? ?a)%N] => destruct (N.leb_spec c a); try lia
      | |- context [(c =? ?a)%N] => destruct (N.eqb_spec c a); try lia
      end; reflexivity. }
    rewrite !Dg. reflexivity.
  - apply forallb_forall. intros l Hl. apply in_map_iff in Hl as [b [<- _]].
    (* a ballot line consists of digits, ':', ' ', ',', '{', '}' *)
    assert (Dg : forall n, no_break (show_N n) = true).
    { intros n. unfold no_break. pose proof (show_N_digits n) as Hd. rewrite forallb_forall in *. intros c Hc.
      specialize (Hd c Hc). unfold is_digit in Hd. apply andb_true_iff in Hd as [A B].
      apply N.leb_le in A. apply N.leb_le in B. unfold is_linebreak.
      repeat match goal with
      | |- context [(?a <=? c)%N] => destruct (N.leb_spec a c); try lia
      | |- context [(c <=? ?a)%N] => destruct (N.leb_spec c a); try lia
      | |- context [(c =? ?a)%N] => destruct (N.eqb_spec c a); try lia
      end; reflexivity. }
    assert (Jn : forall c, no_break (join comma_sp (map show_N c)) = true).
    { induction c as [|a r IH]; [reflexivity|]. destruct r as [|a' r'].
      - cbn. apply Dg.
      - change (join comma_sp (map show_N (a :: a' :: r'))) with (show_N a ++ comma_sp ++ join comma_sp (map show_N (a' :: r'))).
        unfold no_break in *. rewrite !forallb_app. rewrite (Dg a), IH. reflexivity. }
    assert (Bd : forall c, no_break (body c) = true).
    { intros c. assert (Br : no_break (lit "{" ++ join comma_sp (map show_N c) ++ lit "}") = true).
      { unfold no_break in *. rewrite !forallb_app. rewrite (Jn c). reflexivity. }
      destruct c as [|a [|a' r]]; [exact Br|apply Dg|exact Br]. }
    assert (Os : forall o, no_break (join comma_sp (map body o)) = true).
    { induction o as [|c r IH]; [reflexivity|]. destruct r as [|c' r'].
      - cbn. apply Bd.
      - change (join comma_sp (map body (c :: c' :: r'))) with (body c ++ comma_sp ++ join comma_sp (map body (c' :: r'))).
        unfold no_break in *. rewrite !forallb_app. rewrite (Bd c), IH. reflexivity. }
    unfold ballot_text. rewrite order_str_join. unfold no_break in *. rewrite !forallb_app.
    rewrite (Dg (snd b)), (Os (fst b)). reflexivity.
Qed.

(* through the file (readlines, parse_file) ... *)
Theorem roundtrip_readlines i m0 :
  wf_ord_P i -> alt_names m0 = [] -> reserved m0 = [] ->
  ord_parse false false m0 (readlines (ord_write i)) = Ok (sorted_view i).
Proof.
  intros W A0 R0. rewrite ord_write_lines, readlines_unlines.
  - rewrite ord_parse_nl. now apply roundtrip_lines.
  - apply forallb_no_nlcr. now apply file_lines_no_break.
Qed.

(* ... and through a string (splitlines, parse_str) *)
Theorem roundtrip_splitlines i m0 :
  wf_ord_P i -> alt_names m0 = [] -> reserved m0 = [] ->
  ord_parse false false m0 (splitlines (ord_write i)) = Ok (sorted_view i).
Proof.
  intros W A0 R0. rewrite ord_write_lines, splitlines_unlines.
  - now apply roundtrip_lines.
  - now apply file_lines_no_break.
Qed.

(* ================================================================================================ *)
(* 16. C01_idempotent and what sorted_view keeps                                                    *)
(* ================================================================================================ *)
Lemma redecorate (B : list (order * N)) : NoDup (keys B) ->
  forall l, incl l B ->
  map (fun o => (o, match assoc_get order_eqb o B with Some k => k | None => 0%N end)) (keys l) = l.
Proof.
  intros Hn. induction l as [|[o k] r IH]; intros Hi; [reflexivity|].
  cbn [keys map fst]. rewrite (oassoc_get_in o k B Hn) by (apply Hi; now left).
  f_equal. apply IH. intros x Hx. apply Hi. now right.
Qed.

Theorem ballots_sorted_view i : NoDup (o_orders i) -> ballots (sorted_view i) = ballots i.
Proof.
  intros Hd. unfold ballots at 1. unfold sorted_view at 2. cbn [o_orders].
  unfold mult_of. unfold sorted_view. cbn [o_mult].
  fold (keys (ballots i)).
  rewrite (redecorate (ballots i) (ballots_keys_nodup i Hd) (ballots i)) by apply incl_refl.
  apply stable_sort_id, ballots_sorted.
Qed.

Theorem write_sorted_view i : NoDup (o_orders i) -> ord_write (sorted_view i) = ord_write i.
Proof.
  intros Hd. unfold ord_write. rewrite ballots_sorted_view by exact Hd. reflexivity.
Qed.

Lemma oassoc_get_none (o : order) (mu : list (order * N)) : ~ In o (keys mu) -> assoc_get order_eqb o mu = None.
Proof.
  induction mu as [|[o' k'] r IH]; intros H; [reflexivity|]. cbn [assoc_get].
  rewrite order_eqb_neq; [apply IH|]; intros E; apply H; [now right|subst; now left].
Qed.

Lemma oassoc_get_some (o : order) (mu : list (order * N)) :
  In o (keys mu) -> exists k, assoc_get order_eqb o mu = Some k /\ In (o, k) mu.
Proof.
  induction mu as [|[o' k'] r IH]; intros H; [easy|]. cbn [assoc_get].
  destruct (order_eqb o o') eqn:E.
  - apply order_eqb_eq in E. subst. exists k'. split; [reflexivity|now left].
  - destruct H as [H|H]; [cbn in H; subst; now rewrite order_eqb_refl in E|].
    destruct (IH H) as [k [A B]]. exists k. split; [exact A|now right].
Qed.

(* sorted_view differs from i only by the stable sort of the order list: same header, same counts, the order
   list is the stable sort (a permutation), the table is the same function order -> multiplicity *)
Theorem sorted_view_spec i : wf_ord_P i ->
  o_meta (sorted_view i) = o_meta i /\
  o_num_unique (sorted_view i) = o_num_unique i /\
  o_orders (sorted_view i) = map fst (stable_sort key_le (map (fun o => (o, mult_of i o)) (o_orders i))) /\
  Permutation (o_orders (sorted_view i)) (o_orders i) /\
  keys (o_mult (sorted_view i)) = o_orders (sorted_view i) /\
  Permutation (o_mult (sorted_view i)) (o_mult i) /\
  (forall o, assoc_get order_eqb o (o_mult (sorted_view i)) = assoc_get order_eqb o (o_mult i)).
Proof.
  intros W. destruct W as [Wf Wn Wr Ws Wc Wm Wk Wd].
  assert (Dec : decorated i = o_mult i).
  { unfold decorated. rewrite <- Wk. unfold mult_of. apply redecorate; [now rewrite Wk|apply incl_refl]. }
  split; [reflexivity|]. split; [reflexivity|]. split; [reflexivity|].
  split; [apply keys_ballots_perm|]. split; [reflexivity|].
  split.
  - cbn [sorted_view o_mult]. rewrite <- Dec. apply ballots_perm.
  - intros o. cbn [sorted_view o_mult].
    destruct (in_dec (fun a b => match Bool.bool_dec (order_eqb a b) true with
                                  | left e => left (proj1 (order_eqb_eq a b) e)
                                  | right n => right (fun e => n (proj2 (order_eqb_eq a b) e)) end)
                     o (o_orders i)) as [Hin|Hout].
    + assert (Hin' : In o (keys (o_mult i))) by now rewrite Wk.
      destruct (oassoc_get_some o (o_mult i) Hin') as [k [A B]]. rewrite A.
      apply oassoc_get_in; [now apply ballots_keys_nodup|].
      apply (Permutation_in _ (Permutation_sym (ballots_perm i))). now rewrite Dec.
    + rewrite !oassoc_get_none; [reflexivity| |].
      * now rewrite Wk.
      * intros H. apply Hout. now apply (Permutation_in _ (keys_ballots_perm i)).
Qed.

(* ================================================================================================ *)
(* 17. C01_ties on a whole ballot line, with the blanks the writer puts                             *)
(* ================================================================================================ *)
Theorem ballot_line_roundtrip o k : Forall (fun c => c <> []) o ->
  parse_ballot (remove_ws (ballot_line (o, k))) = Ok (k, o).
Proof.
  intros H. rewrite ballot_line_text, remove_ws_app. change (remove_ws nl) with (@nil N).
  rewrite app_nil_r. now apply parse_ballot_text.
Qed.

(* ================================================================================================ *)
(* 18. statements in the form used by Properties/C01.v                                              *)
(* ================================================================================================ *)
Lemma meta0_fresh dt : alt_names (meta0 dt) = [] /\ reserved (meta0 dt) = [].
Proof. split; reflexivity. Qed.

Theorem C01_roundtrip_proof i dt0 : wf_ord i = true ->
  ord_parse false false (meta0 dt0) (readlines (ord_write i)) = Ok (sorted_view i).
Proof. intros W. apply roundtrip_readlines; [now apply wf_ord_prop|reflexivity|reflexivity]. Qed.

Theorem C01_roundtrip_str_proof i dt0 : wf_ord i = true ->
  ord_parse false false (meta0 dt0) (splitlines (ord_write i)) = Ok (sorted_view i).
Proof. intros W. apply roundtrip_splitlines; [now apply wf_ord_prop|reflexivity|reflexivity]. Qed.

(* parse_file stores the basename of the path in file_name before parsing: any initial header is overwritten *)
Theorem C01_roundtrip_any_initial_proof i m0 : wf_ord i = true -> alt_names m0 = [] -> reserved m0 = [] ->
  ord_parse false false m0 (readlines (ord_write i)) = Ok (sorted_view i)
  /\ ord_parse false false m0 (splitlines (ord_write i)) = Ok (sorted_view i).
Proof.
  intros W A R. split; [apply roundtrip_readlines|apply roundtrip_splitlines]; try assumption; now apply wf_ord_prop.
Qed.

Theorem C01_sorted_view_proof i : wf_ord i = true ->
  o_meta (sorted_view i) = o_meta i /\
  o_num_unique (sorted_view i) = o_num_unique i /\
  o_orders (sorted_view i) = map fst (stable_sort key_le (map (fun o => (o, mult_of i o)) (o_orders i))) /\
  Permutation (o_orders (sorted_view i)) (o_orders i) /\
  keys (o_mult (sorted_view i)) = o_orders (sorted_view i) /\
  Permutation (o_mult (sorted_view i)) (o_mult i) /\
  (forall o, assoc_get order_eqb o (o_mult (sorted_view i)) = assoc_get order_eqb o (o_mult i)).
Proof. intros W. now apply sorted_view_spec, wf_ord_prop. Qed.

Lemma mults_in_file_order i : NoDup (o_orders i) ->
  map (mult_of (sorted_view i)) (o_orders (sorted_view i)) = map snd (ballots i).
Proof.
  intros Hd. pose proof (redecorate (ballots i) (ballots_keys_nodup i Hd) (ballots i) (incl_refl _)) as R.
  unfold sorted_view, mult_of. cbn [o_orders o_mult]. fold (keys (ballots i)).
  transitivity (map snd (map (fun o => (o, match assoc_get order_eqb o (ballots i) with Some k => k | None => 0%N end))
                             (keys (ballots i)))); [now rewrite map_map|now rewrite R].
Qed.

Theorem C01_sorted_proof i : wf_ord i = true ->
  ord_write i = write_metadata (o_meta i) ++ count_lines i ++ write_alt_names (alt_names (o_meta i))
                ++ flat_map ballot_line (ballots i)
  /\ non_increasing (map snd (ballots i))
  /\ non_increasing (map (mult_of (sorted_view i)) (o_orders (sorted_view i))).
Proof.
  intros W. apply wf_ord_prop in W. split; [reflexivity|]. split; [apply ballots_non_increasing|].
  rewrite mults_in_file_order by apply W. apply ballots_non_increasing.
Qed.

Theorem C01_idempotent_proof i : wf_ord i = true -> ord_write (sorted_view i) = ord_write i.
Proof. intros W. apply write_sorted_view. now apply wf_ord_prop in W as []. Qed.

Theorem C01_idempotent_parsed_proof i dt0 j : wf_ord i = true ->
  ord_parse false false (meta0 dt0) (readlines (ord_write i)) = Ok j -> ord_write j = ord_write i.
Proof.
  intros W H. rewrite C01_roundtrip_proof in H by exact W. injection H as <-. now apply C01_idempotent_proof.
Qed.

Definition classes_nonempty (o : order) : Prop := Forall (fun c => c <> []) o.

Theorem C01_ties_proof o k : classes_nonempty o ->
  tokenize (remove_ws (order_str o)) = tokenize (cstr o) /\
  order_of_str (remove_ws (order_str o)) = Ok o /\
  parse_ballot (remove_ws (ballot_line (o, k))) = Ok (k, o).
Proof.
  intros H. split; [now rewrite remove_ws_order_str|]. split; [now apply order_roundtrip|now apply ballot_line_roundtrip].
Qed.

(* ================================================================================================ *)
(* 19. for the entry-point / autocorrect packages (C10, C16): the ballot loop only sees the lines   *)
(*     with all whitespace removed                                                                  *)
(* ================================================================================================ *)
Lemma ballot_loop_ws au : forall ls ls' st,
  map remove_ws ls = map remove_ws ls' -> ballot_loop au st ls = ballot_loop au st ls'.
Proof.
  induction ls as [|l r IH]; intros [|l' r'] st E; try discriminate; [reflexivity|].
  cbn [map] in E. injection E as E1 E2. cbn [ballot_loop]. rewrite E1.
  destruct (remove_ws l'); [now apply IH|]. destruct (parse_ballot _); [|reflexivity]. cbn [rbind]. now apply IH.
Qed.
