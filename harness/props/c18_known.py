"""Regenerates the known_findings.json entry KF-C18-a (open finding of property C18).

    cd <verif> && PYTHONPATH=/repo:harness /venv/bin/python -m props.c18_known [--write]

Runs the FIXED brute-force case set of harness/props/c18.py (det_bf_cases('thorough'), which contains the quick set;
constant seeds, independent of VERIF_SEED) and the corpus cases of corpus/C18 through the implementation and the
extracted model (the oracle must be built: bin/check C18 quick does it), keeps the inputs on which the judge reports a
mismatch of the kind described by the finding (every answer is None or a partition accepted by the verified checker
with at most k axes; only minimality / the None contract is wrong; optimum < ceil(m/2)), and prints the entry with
the sha-256 of exactly these inputs.  A failing input that is NOT of that kind is listed separately and left out (it
stays a VIOLATION).  --write replaces / appends the entry in known_findings.json."""
import glob
import json
import os
import sys

from core import check, oracle, proto
from . import c18

ENTRY_ID = "KF-C18-a"
WHERE = ("preflibtools/properties/subdomains/ordinal/singlepeaked/k_alternative_partition.py:63 "
         "(L_segmented = singleton_pair_combinations of each L-set separately)")
WHAT = ("k_alternative_partition_brut_force only pairs alternatives of the same L-set, so it misses partitions in which "
        "an axis receives, as its two next end points, an alternative of one L-set and one of a later L-set: it answers "
        "None or a valid but non-minimum partition; smallest input m = 6 alternatives, 3 orders "
        "([1,2,3,4,5,6], [5,1,4,6,3,2], [2,5,3,4,1,6]: optimum 2 = [[1,5],[2,3,4,6]], answered None for k = 2 and "
        "3 axes for k >= 3)")


def sound_but_not_minimum(c, r, mres):
    """classification of a failing c18.bf case from the model's answers"""
    if not (isinstance(r, list) and r[0] == 0) or not mres or not isinstance(mres[0], list):
        return False
    mn, oks = mres[0]
    m = len(c["payload"][0])
    if mn >= (m + 1) // 2:
        return False
    seen = []
    for k, opt in r[1]:
        if opt and opt[0] not in seen:
            seen.append(opt[0])
    for (k, opt), okk in zip(r[1], oks):
        if opt:
            if mres[1 + seen.index(opt[0])] != 1 or len(opt[0]) > k:
                return False
        elif mn > k and okk != 1:
            return False
    return any(o != 1 for o in oks)


def main(argv):
    cases = []
    for f in sorted(glob.glob(os.path.join(oracle.VERIF, "corpus", "C18", "*.json"))):
        d = json.load(open(f))
        for c in (d if isinstance(d, list) else [d]):
            if c["op"] == "c18.bf":
                cases.append(c)
    cases.extend(c18.det_bf_cases("thorough"))
    res, timing = check.evaluate(c18, cases, c18.TIMEOUT_S, 16)
    shas, other = [], []
    hist = {}
    for c, r, m, f in res:
        if not f:
            continue
        if f.get("kind") == "mismatch" and sound_but_not_minimum(c, r, m):
            h = proto.sha(c["op"], c["payload"])
            if h not in shas:
                shas.append(h)
            key = "m=%d" % len(c["payload"][0])
            hist[key] = hist.get(key, 0) + 1
        else:
            other.append((c, f))
    entry = {"id": ENTRY_ID, "property": "C18", "status": "open", "where": WHERE, "what": WHAT,
             "repro": "notes/c18_bruteforce_not_minimum_repro.py",
             "match": {"ops": ["c18.bf"], "kind": "mismatch", "sha256": sorted(shas)}}
    sys.stderr.write("cases %d  failing-of-this-kind %d %r  other failures %d  %r\n"
                     % (len(cases), len(shas), hist, len(other), timing))
    for c, f in other[:5]:
        sys.stderr.write("OTHER FAILURE (not matched): %s %r\n" % (f.get("reason"), c["payload"][:2]))
    if "--write" in argv:
        path = os.path.join(oracle.VERIF, "known_findings.json")
        doc = json.load(open(path))
        doc["findings"] = [k for k in doc["findings"] if k.get("id") != ENTRY_ID] + [entry]
        json.dump(doc, open(path, "w"), indent=1)
        sys.stderr.write("wrote %s\n" % path)
    else:
        print(json.dumps(entry, indent=1))
    return 0


if __name__ == "__main__":
    sys.exit(main(sys.argv[1:]))
