(* Properties/C07.v — pairwise tables, Condorcet test, Borda table, order_to_pwg (statements only;
   proofs in Proofs/Pairwise.v; the model is Model/Pairwise.v, a mirror of
   preflibtools/properties/pairwisecomparisons.py and preflibtools/instances/convert.py).

   Vocabulary (Model/Pairwise.v):
     above o a b      the voter with order o ranks a strictly above b: BOTH are ranked by o and the
                      indifference class of a comes before the class of b.  An alternative that o does not rank
                      is not compared with anything by that voter (this is what the code does: its loops only
                      visit alternatives that appear in the ballot).
     pw p a b         sum of the multiplicities k of the entries (o, k) of p with above o a b
                      (= number of voters of the expanded profile ranking a strictly above b, pairwise_counts_voters)
     margin p a b     pw p a b - pw p b a
     wf_inst i        at least two alternatives, keys of alternatives_name / multiplicity duplicate-free, every order
                      mentions an alternative at most once, has no empty class and ranks only known alternatives. *)
From Coq Require Import List NArith ZArith Bool Permutation.
From PrefVerif Require Import Lib.Val Model.Pairwise Proofs.Pairwise.
Import ListNotations.
Local Open Scope Z_scope.

(* ---- pairwise_scores ---------------------------------------------------------------------------------- *)
(* every ordered pair of distinct alternatives has an entry, equal to the voter count; there is no other entry
   (in particular none for (a, a)) *)
Theorem pairwise_spec : forall i, wf_inst i -> is_ordinal (data_type i) = true ->
  exists t, pairwise_scores i = Ok t /\
    (forall a b, In a (alts i) -> In b (alts i) -> a <> b -> tget t a b = Some (pw (mult i) a b)) /\
    (forall a b, tget t a b <> None -> In a (alts i) /\ In b (alts i) /\ a <> b).
Proof. exact pairwise_correct. Qed.
Print Assumptions pairwise_spec.

(* pw really is a count of voters of the expanded full profile *)
Theorem pairwise_counts_voters : forall p a b,
  pw p a b = Z.of_nat (length (filter (fun o => above o a b) (expand p))).
Proof. exact pw_voters. Qed.
Print Assumptions pairwise_counts_voters.

(* the whole table, keys in dict insertion order *)
Theorem pairwise_table_spec : forall i, wf_inst i ->
  pairwise_table i
  = map (fun a => (a, map (fun b => (b, pw (mult i) a b)) (others (alts i) a))) (alts i).
Proof.
  intros i H. rewrite (pairwise_table_closed i (wf_alts_nodup i H) (wf_orders_nodup i H)).
  unfold rebuild, shape_of. rewrite map_map. reflexivity.
Qed.
Print Assumptions pairwise_table_spec.

(* ---- copeland_scores ---------------------------------------------------------------------------------- *)
Theorem copeland_spec : forall i, wf_inst i -> is_ordinal (data_type i) = true ->
  exists t, copeland_scores i = Ok t /\
    (forall a b, In a (alts i) -> In b (alts i) -> a <> b ->
       tget t a b = Some (pw (mult i) a b - pw (mult i) b a)) /\
    (forall a b, tget t a b <> None -> In a (alts i) /\ In b (alts i) /\ a <> b).
Proof. exact copeland_correct. Qed.
Print Assumptions copeland_spec.

(* literally: copeland[a][b] = pairwise[a][b] - pairwise[b][a] *)
Theorem copeland_is_pairwise_difference : forall i tp tc a b x y, wf_inst i ->
  pairwise_scores i = Ok tp -> copeland_scores i = Ok tc ->
  tget tp a b = Some x -> tget tp b a = Some y -> tget tc a b = Some (x - y).
Proof. exact copeland_is_difference. Qed.
Print Assumptions copeland_is_pairwise_difference.

(* ---- has_condorcet ------------------------------------------------------------------------------------ *)
(* profiles with ties and unranked alternatives are inside wf_inst *)
Theorem condorcet_spec : forall i w, wf_inst i -> is_ordinal (data_type i) = true ->
  exists v, has_condorcet i w = Ok v /\
    (v = true <->
     exists a, In a (alts i) /\
       forall b, In b (alts i) -> b <> a ->
         if w then 0 <= margin (mult i) a b else 0 < margin (mult i) a b).
Proof. exact condorcet_correct. Qed.
Print Assumptions condorcet_spec.

(* ---- borda_scores ------------------------------------------------------------------------------------- *)
(* borda_pts m o a = m - (number of alternatives in the class of a and in the classes before it), 0 if o does
   not rank a; the table has an entry exactly for the alternatives that some order ranks (defaultdict) *)
Theorem borda_spec : forall i, wf_inst i -> is_complete_type (data_type i) = true ->
  exists r, borda_scores i = Ok r /\
    forall a, rget r a = if ranked (mult i) a
                         then Some (borda_total (Z.of_N (num_alternatives i)) (mult i) a)
                         else None.
Proof. exact borda_correct. Qed.
Print Assumptions borda_spec.

(* summed over voters of the expanded profile *)
Theorem borda_counts_voters : forall m p a,
  borda_total m p a = fold_right (fun o s => borda_pts m o a + s) 0 (expand p).
Proof. exact borda_total_voters. Qed.
Print Assumptions borda_counts_voters.

(* the documented tie convention: on a complete order, with m the number of alternatives, every alternative of a
   class gets the number of alternatives ranked strictly below the class *)
Theorem borda_tie_convention : forall (al : list N) o a j,
  Permutation (concat o) al -> class_index o a = Some j ->
  borda_pts (Z.of_nat (length al)) o a = Z.of_nat (length (concat (skipn (S j) o))).
Proof. exact borda_pts_complete. Qed.
Print Assumptions borda_tie_convention.

(* ---- type guards ---------------------------------------------------------------------------------------- *)
Theorem type_guards : forall i, is_ordinal (data_type i) = false ->
  pairwise_scores i = Err Incompatible /\ copeland_scores i = Err Incompatible /\
  (forall w, has_condorcet i w = Err Incompatible) /\ order_to_pwg i = Err Incompatible.
Proof. exact guards. Qed.
Print Assumptions type_guards.
Theorem borda_type_guard : forall i, is_complete_type (data_type i) = false -> borda_scores i = Err Incompatible.
Proof. exact borda_guard. Qed.
Print Assumptions borda_type_guard.

(* ---- order_to_pwg --------------------------------------------------------------------------------------- *)
(* exactly one line per ordered pair of distinct alternatives (ordered_pairs_spec below), carrying the pairwise
   count; num_unique = m(m-1); total = sum of the counts; header = num_alternatives and the (alt, name) lines *)
Theorem pwg_spec : forall i g, wf_inst i -> order_to_pwg i = Ok g ->
  pwg_lines g = map (fun ab => (pw (mult i) (fst ab) (snd ab), fst ab, snd ab)) (ordered_pairs (alts i))
  /\ pwg_num_unique g = N.of_nat (length (alts i) * (length (alts i) - 1))
  /\ pwg_sum g = fold_right (fun ab s => pw (mult i) (fst ab) (snd ab) + s) 0 (ordered_pairs (alts i))
  /\ pwg_num_alternatives g = num_alternatives i
  /\ pwg_alt_lines g = alts_name i
  /\ pwg_num_voters g = num_voters i.
Proof. exact pwg_correct. Qed.
Print Assumptions pwg_spec.

Theorem pwg_defined_on_ordinal : forall i, is_ordinal (data_type i) = true -> exists g, order_to_pwg i = Ok g.
Proof. exact pwg_defined. Qed.
Print Assumptions pwg_defined_on_ordinal.

Theorem ordered_pairs_spec : forall al, NoDup al ->
  NoDup (ordered_pairs al) /\
  (forall a b, In (a, b) (ordered_pairs al) <-> In a al /\ In b al /\ a <> b).
Proof. intros al H. split; [exact (NoDup_ordered_pairs al H) | intros a b; exact (in_ordered_pairs al a b)]. Qed.
Print Assumptions ordered_pairs_spec.

(* ---- regrouping: only the multiset of voters matters ------------------------------------------------------ *)
Theorem tables_regrouping : forall i i', wf_inst i -> wf_inst i' -> alts i = alts i' ->
  Permutation (expand (mult i)) (expand (mult i')) ->
  pairwise_table i = pairwise_table i' /\ copeland_table i = copeland_table i' /\
  condorcet_table i = condorcet_table i'.
Proof. exact tables_regroup. Qed.
Print Assumptions tables_regrouping.

Theorem borda_regrouping : forall m p p' a,
  Permutation (expand p) (expand p') -> borda_total m p a = borda_total m p' a.
Proof. exact borda_total_regroup. Qed.
Print Assumptions borda_regrouping.

(* ---- non-vacuity: a concrete instance with a tie, an incomplete ballot and an alternative nobody ranks ------ *)
Definition ex_inst : inst :=
  mkInst [(1, [97]); (2, [98]); (3, [99]); (4, [100])]%N 4 5
         [([[1; 2]; [3]], 2); ([[3]; [1]], 3)]%N TOI.

Example ex_inst_wf : wf_inst ex_inst.
Proof.
  unfold wf_inst, wf_order, ex_inst, alts; simpl. repeat split.
  - repeat constructor.
  - repeat (constructor; [simpl; intuition discriminate|]). constructor.
  - repeat (constructor; [simpl; intuition discriminate|]). constructor.
  - constructor; [|constructor; [|constructor]];
      (split; [split; [repeat (constructor; [simpl; intuition discriminate|]); constructor
                      | repeat (constructor; [discriminate|]); constructor]
              | intros x Hx; simpl in *; intuition]).
Qed.

Example ex_inst_values :
  pairwise_scores ex_inst
  = Ok [(1%N, [(2%N, 0); (3%N, 2); (4%N, 0)]); (2%N, [(1%N, 0); (3%N, 2); (4%N, 0)]);
        (3%N, [(1%N, 3); (2%N, 0); (4%N, 0)]); (4%N, [(1%N, 0); (2%N, 0); (3%N, 0)])]
  /\ has_condorcet ex_inst false = Ok false /\ has_condorcet ex_inst true = Ok true.
Proof. vm_compute. repeat split. Qed.

(* the two inputs of the repaired defect (fix 4451d5d): no strict Condorcet winner *)
Example ex_tied_top :
  has_condorcet (mkInst [(1, []); (2, []); (3, [])]%N 3 1 [([[1; 2]; [3]], 1)]%N TOC) false = Ok false.
Proof. reflexivity. Qed.
Example ex_unranked :
  has_condorcet (mkInst [(1, []); (2, []); (3, [])]%N 3 2 [([[1]; [2]], 2)]%N SOI) false = Ok false.
Proof. reflexivity. Qed.

(* Reading decision made explicit: an alternative that a ballot does not rank is NOT compared by that voter.
   Two voters with the ballot 1 > 2 over the alternatives {1,2,3}: pairwise[1][3] = 0 (and [3][1] = 0), although
   under the "unranked alternatives are ranked last" reading of an incomplete order it would be 2.
   pairwise_spec is stated (and holds) for the former reading, which is what the code computes. *)
Example pairwise_unranked_is_not_compared :
  let i := mkInst [(1, []); (2, []); (3, [])]%N 3 2 [([[1]; [2]], 2)]%N SOI in
  wf_inst i /\
  exists t, pairwise_scores i = Ok t /\ tget t 1%N 2%N = Some 2 /\ tget t 1%N 3%N = Some 0 /\ tget t 3%N 1%N = Some 0.
Proof.
  split.
  - unfold wf_inst, wf_order, alts; simpl. repeat split.
    + repeat constructor.
    + repeat (constructor; [simpl; intuition discriminate|]). constructor.
    + repeat (constructor; [simpl; intuition discriminate|]). constructor.
    + constructor; [|constructor].
      split; [split; [repeat (constructor; [simpl; intuition discriminate|]); constructor
                     | repeat (constructor; [discriminate|]); constructor]
             | intros x Hx; simpl in *; intuition].
  - eexists. split; [reflexivity|]. repeat split.
Qed.
