(* Model/PQTree.v — executable MIRROR of the PQ-tree code of preflibtools/properties/subdomains/consecutive_ones.py
   (ported there from Sage): reorder_sets, _set_contiguous, _new_P / _new_Q, _flatten, PQ.reverse, PQ.__contains__,
   PQ.ordering, PQ.simplify, PQ.flatten, P.set_contiguous, Q.set_contiguous.

   How the in-place mutations are mirrored.  The Python objects form a tree (no sharing is ever live: every list
   returned by simplify is spliced into ONE new parent and the old parent is dropped), so "x.method() mutates x"
   becomes "the method returns the new x":
     * set_contiguous(v) returns (new tree, status) — the Python method returns the status and leaves the new tree
       in self;
     * PQ.flatten has two readings, both needed: flat_ret = the value it RETURNS (used by reorder_sets and for the
       children of a node), flat_inplace = the state it leaves SELF in when the return value is discarded (the
       "self.flatten()" inside P/Q.set_contiguous): a node with exactly one child is NOT collapsed in place;
     * every set_contiguous first runs set_contiguous on all children discarding the statuses, flattens in place, and
       then runs set_contiguous on all (new) children AGAIN — mirrored literally (two passes);
     * f_seq = dict(zip(children, statuses)) is keyed by object identity (leaves are pairwise different tuples because
       the family is duplicate-free): the mirror carries the list of statuses parallel to the list of children;
     * Q.set_contiguous reverses self._children (the list only) BEFORE the "Impossible" test;
     * "set_PARTIAL_ALIGNED[0] == self._children[-1]" is an identity test: with exactly one aligned partial child it
       holds iff the status of the last child is (PARTIAL, ALIGNED).
   What is a PARAMETER: reorder_sets iterates "for i in set().union( *sets )", i.e. in CPython's set iteration order.
   The mirror takes that element order as an argument (elems); the harness passes list(set().union( *sets )).
   Recursion: set_contiguous recurses into the children produced by its own first pass, so the mirror recurses on
   explicit fuel (number of sets; Proofs/PQTree.v shows it is never exhausted); ValueError("Impossible") is
   Err ValueErr.  Executable definitions only. *)
From Coq Require Import List Arith Bool.
From PrefVerif Require Import Lib.Val Model.C1P.
Import ListNotations.

Inductive kind := KP | KQ.

(* a leaf is one of the sets (an ascending tuple of elements); P and Q nodes hold their children in order *)
Inductive pq : Type :=
| Leaf (s : list nat)
| Node (k : kind) (cs : list pq).

(* the pair (FULL | PARTIAL | EMPTY, ALIGNED | UNALIGNED); only these four combinations are ever produced *)
Inductive status := SFull | SEmpty | SPartA | SPartU.

Definition status_eqb (a b : status) : bool :=
  match a, b with
  | SFull, SFull | SEmpty, SEmpty | SPartA, SPartA | SPartU, SPartU => true
  | _, _ => false
  end.

(* PQ.__contains__ / "x in tuple" *)
Fixpoint contains (v : nat) (t : pq) : bool :=
  match t with
  | Leaf s => memn v s
  | Node _ cs => existsb (contains v) cs
  end.

(* "isinstance(c, PQ) and v in c and any(v not in cc for cc in c)" *)
Definition is_partial_child (v : nat) (c : pq) : bool :=
  match c with
  | Leaf _ => false
  | Node _ ccs => contains v c && existsb (fun cc => negb (contains v cc)) ccs
  end.

(* _new_P / _new_Q: a list with one entry is that entry (the empty list raises IndexError in Python: never reached) *)
Definition new_node (k : kind) (l : list pq) : pq :=
  match l with
  | [x] => x
  | _ => Node k l
  end.

(* PQ.ordering: the frontier *)
Fixpoint ordering (t : pq) : list (list nat) :=
  match t with
  | Leaf s => [s]
  | Node _ cs => flat_map ordering cs
  end.

(* PQ.reverse: recursively *)
Fixpoint reverse (t : pq) : pq :=
  match t with
  | Leaf _ => t
  | Node k cs => Node k (rev (map reverse cs))
  end.

(* the value returned by _flatten(x) *)
Fixpoint flat_ret (t : pq) : pq :=
  match t with
  | Leaf _ => t
  | Node k cs =>
      match cs with
      | [c] => flat_ret c
      | _ => Node k (map flat_ret cs)
      end
  end.

(* the state of the object x after "x.flatten()" with the return value dropped *)
Fixpoint flat_inplace (t : pq) : pq :=
  match t with
  | Leaf _ => t
  | Node k cs =>
      match cs with
      | [c] => Node k [flat_inplace c]
      | _ => Node k (map flat_ret cs)
      end
  end.

Fixpoint last_some {T} (l : list (option T)) (d : T) : T :=
  match l with
  | [] => d
  | Some x :: t => last_some t x
  | None :: t => last_some t d
  end.

(* PQ.simplify(v, right=right, left=not right) *)
Fixpoint simplify (v : nat) (right : bool) (t : pq) : list pq :=
  match t with
  | Leaf _ => [t]
  | Node KQ cs =>
      flat_map (fun c => if is_partial_child v c then simplify v right c else [c]) cs
  | Node KP cs =>
      let empty := filter (fun c => negb (contains v c)) cs in
      let full := filter (fun c => contains v c && negb (is_partial_child v c)) cs in
      (* "partial = c.simplify(...)" is overwritten by every partial child: the last one stays *)
      let partial := last_some (map (fun c => if is_partial_child v c then Some (simplify v right c) else None) cs) [] in
      let empty' := match empty with [] => [] | _ => [new_node KP empty] end in
      let full' := match full with [] => [] | _ => [new_node KP full] end in
      if right then empty' ++ partial ++ full' else full' ++ partial ++ empty'
  end.

(* sequencing of calls that may raise *)
Fixpoint mapM {X Y} (f : X -> result Y) (l : list X) : result (list Y) :=
  match l with
  | [] => Ok []
  | x :: t => rbind (f x) (fun y => rmap (cons y) (mapM f t))
  end.

Definition count_st (s : status) (seq : list status) : nat := length (filter (status_eqb s) seq).
(* the children whose status is s, in order *)
Definition pick_st (s : status) (cs : list pq) (seq : list status) : list pq :=
  map fst (filter (fun cq => status_eqb s (snd cq)) (combine cs seq)).

(* "if n_PARTIAL_ALIGNED > 2 or (n_PARTIAL_UNALIGNED >= 1 and n_EMPTY != self.number_of_children() - 1)" *)
Definition impossible (n nE nPA nPU : nat) : bool :=
  (2 <? nPA) || ((1 <=? nPU) && negb (S nE =? n)).

(* P.set_contiguous after the two passes: cs = the children, seq = their statuses *)
Definition p_cases (v : nat) (cs : list pq) (seq : list status) : result (pq * status) :=
  let n := length cs in
  let nF := count_st SFull seq in
  let nE := count_st SEmpty seq in
  let nPA := count_st SPartA seq in
  let nPU := count_st SPartU seq in
  let setF := pick_st SFull cs seq in
  let setE := pick_st SEmpty cs seq in
  let setPA := pick_st SPartA cs seq in
  if impossible n nE nPA nPU then Err ValueErr
  else if nF =? n then Ok (Node KP cs, SFull)
  else if nE =? n then Ok (Node KP cs, SEmpty)
  else if nPU =? 1 then Ok (Node KP cs, SPartU)
  else if (nPA =? 1) && (S nE =? n) then Ok (Node KP (setE ++ setPA), SPartA)
  else
    let fullp := match setF with [] => [] | _ => [new_node KP setF] end in
    if nPA <? 2 then
      let new := match setPA with c :: _ => simplify v true c | [] => [] end ++ fullp in
      Ok (Node KP (setE ++ [new_node KQ new]), SPartA)
    else
      let pa0 := nth 0 setPA (Leaf []) in
      let pa1 := reverse (nth 1 setPA (Leaf [])) in
      let new := simplify v true pa0 ++ fullp ++ simplify v false pa1 in
      Ok (Node KP (setE ++ [new_node KQ new]), SPartU).

(* the scan of Q.set_contiguous: state = (new_children, seen_nonempty, seen_right_end) *)
Fixpoint q_scan (v : nat) (l : list (pq * status)) (acc : list pq) (seen_nonempty seen_right_end : bool)
  : result (list pq * bool) :=
  match l with
  | [] => Ok (acc, seen_right_end)
  | (c, st) :: t =>
      match st with
      | SEmpty => q_scan v t (acc ++ [c]) seen_nonempty (if seen_nonempty then true else seen_right_end)
      | SFull => if seen_right_end then Err ValueErr else q_scan v t (acc ++ [c]) true seen_right_end
      | SPartA =>
          if seen_right_end then Err ValueErr
          else if seen_nonempty then q_scan v t (acc ++ simplify v false (reverse c)) true true
          else q_scan v t (acc ++ simplify v true c) true seen_right_end
      | SPartU => Err ValueErr        (* "Impossible" after a non-empty child, "Bon, ben ca arrive O_o" before *)
      end
  end.

(* Q.set_contiguous after the two passes *)
Definition q_cases (v : nat) (cs0 : list pq) (seq0 : list status) : result (pq * status) :=
  let n := length cs0 in
  let nF := count_st SFull seq0 in
  let nE := count_st SEmpty seq0 in
  let nPA := count_st SPartA seq0 in
  let nPU := count_st SPartU seq0 in
  let st_last := last seq0 SFull in
  let flip := status_eqb st_last SEmpty || (status_eqb st_last SPartA && (S nF =? n)) in
  let cs := if flip then rev cs0 else cs0 in
  let seq := if flip then rev seq0 else seq0 in
  if impossible n nE nPA nPU then Err ValueErr
  else if nF =? n then Ok (Node KQ cs, SFull)
  else if nE =? n then Ok (Node KQ cs, SEmpty)
  else if nPU =? 1 then Ok (Node KQ cs, SPartU)
  else if (nPA =? 1) && (S nE =? n) then
    Ok (Node KQ cs, if status_eqb (last seq SFull) SPartA then SPartA else SPartU)
  else
    match q_scan v (combine cs seq) [] false false with
    | Err e => Err e
    | Ok (new_children, seen_right_end) => Ok (Node KQ new_children, if seen_right_end then SPartU else SPartA)
    end.

(* _set_contiguous(tree, v): the new tree and the status *)
Fixpoint set_contiguous (fuel : nat) (v : nat) (t : pq) : result (pq * status) :=
  match t with
  | Leaf s => Ok (t, if memn v s then SFull else SEmpty)
  | Node k cs =>
      match fuel with
      | 0 => Err OutOfFuel
      | S f =>
          (* "for x in self: _set_contiguous(x, v)" *)
          rbind (mapM (fun c => rmap fst (set_contiguous f v c)) cs) (fun cs1 =>
          (* "self.flatten()" *)
          let cs2 := match cs1 with [c] => [flat_inplace c] | _ => map flat_ret cs1 end in
          (* "seq = [_set_contiguous(x, v) for x in self]" *)
          rbind (mapM (set_contiguous f v) cs2) (fun res =>
          match k with
          | KP => p_cases v (map fst res) (map snd res)
          | KQ => q_cases v (map fst res) (map snd res)
          end))
      end
  end.

(* the loop of reorder_sets: "tree.set_contiguous(i); tree = _flatten(tree)" *)
Fixpoint pq_loop (fuel : nat) (elems : list nat) (t : pq) : result pq :=
  match elems with
  | [] => Ok t
  | i :: rest =>
      match t with
      | Leaf _ => Err OtherErr           (* a tuple has no set_contiguous: never reached *)
      | Node _ _ => rbind (set_contiguous fuel i t) (fun r => pq_loop fuel rest (flat_ret (fst r)))
      end
  end.

(* reorder_sets(sets), elems = list(set().union( *sets )) *)
Definition pq_reorder (elems : list nat) (F : list (list nat)) : result (list (list nat)) :=
  if length F <=? 2 then Ok F
  else
    match pq_loop (length F) elems (Node KP (map Leaf F)) with
    | Err e => Err e
    | Ok (Leaf _) => Err OtherErr        (* tuple.ordering: never reached *)
    | Ok t => Ok (ordering t)
    end.

(* ------------------------------------------------------------------------------------------------ *)
(* structural invariants (boolean), used by Proofs/PQTree.v and checked on the whole campaign by op c05.pq_inv.
   All of them are relative to the element v that has just been processed. *)
Definition pureF (v : nat) (t : pq) : bool := forallb (memn v) (ordering t).          (* every set contains v *)
Definition pureE (v : nat) (t : pq) : bool := forallb (fun s => negb (memn v s)) (ordering t).

Inductive cls := CE | CF | CX.
Definition cls_of (v : nat) (t : pq) : cls := if pureE v t then CE else if pureF v t then CF else CX.
Definition is_CE (c : cls) : bool := match c with CE => true | _ => false end.
Definition is_CF (c : cls) : bool := match c with CF => true | _ => false end.

Fixpoint drop_E {T} (l : list (cls * T)) : list (cls * T) :=
  match l with
  | (CE, _) :: t => drop_E t
  | _ => l
  end.

(* a run of children (class, flag) that is  F+  or a single  X  whose flag holds *)
Definition core_ok (l : list (cls * bool)) : bool :=
  match l with
  | [(CX, b)] => b
  | [] => false
  | _ => forallb (fun cb => is_CF (fst cb)) l
  end.

(* every node has at least two children *)
Fixpoint proper (t : pq) : bool :=
  match t with
  | Leaf _ => true
  | Node _ cs => (2 <=? length cs) && forallb proper cs
  end.

(* right-aligned: the sets containing v are at the right end of the frontier and simplify(right) splits the tree
   into blocks without v followed by blocks with v.  la = false: right aligned, la = true: left aligned *)
Fixpoint aligned (la : bool) (v : nat) (t : pq) : bool :=
  match t with
  | Leaf _ => false
  | Node KP cs =>
      (length (filter (fun c => negb (pureE v c)) cs) =? 1) &&
      forallb (fun c => pureE v c || pureF v c || aligned la v c) cs
  | Node KQ cs =>
      let l := map (fun c => (cls_of v c, aligned la v c)) cs in
      core_ok (drop_E (if la then rev l else l))
  end.

(* v-contiguous form: in every frontier the tree represents, the sets containing v are consecutive *)
Fixpoint cform (v : nat) (t : pq) : bool :=
  pureE v t || pureF v t ||
  match t with
  | Leaf _ => false
  | Node KP cs =>
      (length (filter (fun c => negb (pureE v c)) cs) =? 1) && forallb (fun c => pureE v c || cform v c) cs
  | Node KQ cs =>
      let l := map (fun c => (cls_of v c, cform v c)) cs in
      core_ok (rev (drop_E (rev (drop_E l))))
  end.

Definition status_ok (v : nat) (t : pq) (st : status) : bool :=
  match st with
  | SFull => pureF v t
  | SEmpty => pureE v t
  | SPartA => negb (pureE v t) && negb (pureF v t) && aligned false v t
  | SPartU => negb (pureE v t) && negb (pureF v t) && cform v t
  end.

(* the loop of reorder_sets with the invariants checked after every element: true = all hold (or ValueError) *)
Fixpoint pq_loop_inv (fuel : nat) (elems : list nat) (t : pq) : bool :=
  match elems with
  | [] => true
  | i :: rest =>
      match set_contiguous fuel i t with
      | Err ValueErr => true
      | Err _ => false
      | Ok (t', st) =>
          let t2 := flat_ret t' in
          status_ok i t' st && cform i t' && proper t2 &&
          (* a second application on the processed tree keeps it proper without flattening *)
          match set_contiguous fuel i t2 with
          | Ok (t3, st3) => proper t3 && status_ok i t3 st3
          | Err _ => false
          end &&
          pq_loop_inv fuel rest t2
      end
  end.
Definition pq_inv (elems : list nat) (F : list (list nat)) : bool :=
  (length F <=? 2) || pq_loop_inv (length F) elems (Node KP (map Leaf F)).

(* ------------------------------------------------------------------------------------------------ *)
(* diagnostics for small trees: the list of all frontiers a tree represents, and the check of the completeness
   step  "a frontier in which the sets containing v are consecutive survives set_contiguous v; an error only if there
   is no such frontier"  on a tree and all its subtrees (op c05.pq_complete_chk; not used by the theorems) *)
From PrefVerif Require Import Lib.Perms.

Fixpoint prod_concat (l : list (list (list (list nat)))) : list (list (list nat)) :=
  match l with
  | [] => [[]]
  | A :: rest => flat_map (fun a => map (app a) (prod_concat rest)) A
  end.

Fixpoint orders (t : pq) : list (list (list nat)) :=
  match t with
  | Leaf s => [[s]]
  | Node KP cs => flat_map prod_concat (perms (map orders cs))
  | Node KQ cs => prod_concat (map orders cs) ++ prod_concat (rev (map orders cs))
  end.

Fixpoint order_eqb (a b : list (list nat)) : bool :=
  match a, b with
  | [], [] => true
  | x :: a', y :: b' => lnat_eqb x y && order_eqb a' b'
  | _, _ => false
  end.

Fixpoint subtrees (t : pq) : list pq :=
  t :: match t with Leaf _ => [] | Node _ cs => flat_map subtrees cs end.

Definition complete_step (fuel v : nat) (s : pq) : bool :=
  let good := filter (fun o => contig01 (map (memn v) o)) (orders s) in
  match set_contiguous fuel v s with
  | Ok (s', _) =>
      let os' := orders s' in
      forallb (fun o => existsb (order_eqb o) os') good &&
      (* second application (the second pass works on such trees): nothing is lost either *)
      match set_contiguous fuel v (flat_ret s') with
      | Ok (s'', _) => let os'' := orders s'' in forallb (fun o => existsb (order_eqb o) os'') os'
      | Err _ => false
      end
  | Err ValueErr => match good with [] => true | _ => false end
  | Err _ => false
  end.

Fixpoint pq_complete_loop (fuel : nat) (elems : list nat) (t : pq) : bool :=
  match elems with
  | [] => true
  | i :: rest =>
      forallb (complete_step fuel i) (subtrees t) &&
      match set_contiguous fuel i t with
      | Ok (t', _) => pq_complete_loop fuel rest (flat_ret t')
      | Err _ => true
      end
  end.
Definition pq_complete_chk (elems : list nat) (F : list (list nat)) : bool :=
  (length F <=? 2) || pq_complete_loop (length F) elems (Node KP (map Leaf F)).
