(* Properties/C10.v — all parsing entry points agree and dispatch on the declared type; header_only; TypeError gate.
   Statements only; the proofs are in Proofs/Entry.v (model-independent part: gate, dispatch, splitters, parsers
   respect line equivalence, restyling, header_only) and Proofs/EntryFiles.v (the written files of C01 / C08 / C09).

   Model (Model/Entry.v):
     parse_lines c dt f ls           PrefLibInstance.parse_lines on a fresh instance of class c whose data_type is dt
                                     (the extension of the path / URL, or the data_type argument of parse_str)
     parse_entry e c dt f content    the entry point e (EFile = parse_file: readlines with universal newlines,
                                     EStr = parse_str: splitlines, EUrl = parse_url: stripped splitlines) + parse_lines
     get_parsed_instance_model       class from the extension (class_of_ext), TypeError otherwise, then parse_file
     restyle pads t                  the canonical text t (LF-terminated lines) with, per line, another terminator
                                     (LF / CR LF / CR), arbitrary padding before and after (whitespace that is no
                                     line boundary: U+0020, TAB, U+001F, U+00A0, U+1680, U+2000-200A, U+202F, U+205F,
                                     U+3000) and, in lines that are not "#" lines, runs of U+0020 inserted at any
                                     character boundary except between two digits
   "The same instance" = the same value of type inst: every attribute the three classes have except file_path
   (never read) and the entry-point specific INITIAL value of file_name (overwritten by the "# FILE NAME" line that
   every written file has; the model starts from the empty string).  The weight of a matching edge is its token.

   Reading decisions (DESIGN 7.0): line-ending style = LF, CRLF or lone CR; "spaces inside ballot lines" = U+0020
   (tabs inside a categorical / matching ballot line are not removed by the code and are not claimed); "whitespace
   on lines" = characters that are whitespace for str.strip() and belong to the line for every entry point: the
   six whitespace characters U+001C-1E, U+0085, U+2028, U+2029, VT and FF are line boundaries for str.splitlines
   (parse_str, parse_url) but not for readlines (parse_file) - a "line" containing one of them is two lines for
   parse_str; see C10_note_splitlines_only_boundary. *)
From Coq Require Import List NArith ZArith Bool String.
From PrefVerif Require Import Lib.Val Lib.Dec Lib.PyStr Model.Meta Model.OrdIO Model.CatIO Model.WmdIO Model.Entry.
From PrefVerif Require Import Proofs.Meta Proofs.Entry Proofs.EntryFiles.
From PrefVerif Require Proofs.OrdIO Proofs.CatIO Proofs.WmdIO.
Import ListNotations.
Open Scope N_scope.

(* ================================================================================================ *)
(* the gate                                                                                         *)
(* ================================================================================================ *)
(* a data type outside the class's set: TypeError, for every content and every flag combination.  The result is
   [Err TypeErr] - no instance at all: in the Python code the raise is the first thing parse_lines does when the
   validator fails, nothing of the content has been looked at and the object keeps its empty ballot list / graph
   (the harness inspects the object after the exception). *)
Theorem C10_gate : forall c dt f ls, type_validator c dt = false -> parse_lines c dt f ls = Err TypeErr.
Proof. exact gate_proof. Qed.
Print Assumptions C10_gate.

Theorem C10_gate_entry : forall e c dt f content,
  type_validator c dt = false -> parse_entry e c dt f content = Err TypeErr.
Proof. exact gate_entry_proof. Qed.
Print Assumptions C10_gate_entry.

(* the validators accept exactly: soc soi toc toi | cat | wmd *)
Theorem C10_validators : forall dt,
  (type_validator COrd dt = true <-> dt = lit "soc" \/ dt = lit "soi" \/ dt = lit "toc" \/ dt = lit "toi") /\
  (type_validator CCat dt = true <-> dt = lit "cat") /\
  (type_validator CWmd dt = true <-> dt = lit "wmd").
Proof. intros dt. split; [apply valid_ord_iff|]. split; [apply valid_cat_iff|apply valid_wmd_iff]. Qed.
Print Assumptions C10_validators.

(* every mismatched (class, extension) pair: an extension that belongs to another class is refused *)
Theorem C10_gate_mismatch : forall c c' ext f ls,
  class_of_ext ext = Some c' -> c <> c' -> parse_lines c ext f ls = Err TypeErr.
Proof.
  intros c c' ext f ls H N. apply gate_proof. destruct (type_validator c ext) eqn:E; [|reflexivity].
  apply dispatch_valid in E. congruence.
Qed.
Print Assumptions C10_gate_mismatch.

(* get_parsed_instance on an extension of no class: TypeError *)
Theorem C10_gate_get : forall ext f content,
  class_of_ext ext = None -> get_parsed_instance_model ext f content = Err TypeErr.
Proof. exact gate_get_proof. Qed.
Print Assumptions C10_gate_get.

(* conversely an instance only ever comes back through an open gate, and it has the class of the parsing object *)
Theorem C10_gate_converse : forall c dt f ls i,
  parse_lines c dt f ls = Ok i -> type_validator c dt = true /\ inst_cls i = c.
Proof. intros c dt f ls i H. split; [eapply parse_ok_valid|eapply parse_lines_cls]; exact H. Qed.
Print Assumptions C10_gate_converse.

(* ================================================================================================ *)
(* dispatch                                                                                         *)
(* ================================================================================================ *)
Theorem C10_dispatch : forall ext,
  (ord_ext ext -> class_of_ext ext = Some COrd) /\
  (ext = lit "cat" -> class_of_ext ext = Some CCat) /\
  (ext = lit "wmd" -> class_of_ext ext = Some CWmd) /\
  (~ ord_ext ext -> ext <> lit "cat" -> ext <> lit "wmd" -> class_of_ext ext = None).
Proof. exact dispatch_proof. Qed.
Print Assumptions C10_dispatch.

(* the class picked is the one whose validator accepts the extension, and get_parsed_instance is that class's
   parse_file; the instance that comes back has that class *)
Theorem C10_dispatch_agrees : forall ext c f content,
  (class_of_ext ext = Some c <-> type_validator c ext = true) /\
  (class_of_ext ext = Some c -> get_parsed_instance_model ext f content = parse_file_model c ext f content) /\
  (forall i, get_parsed_instance_model ext f content = Ok i -> class_of_ext ext = Some (inst_cls i)).
Proof.
  intros ext c f content. split; [apply dispatch_valid|]. split; [apply get_is_parse_file|].
  intros i H. unfold get_parsed_instance_model in H. destruct (class_of_ext ext) as [c'|]; [|discriminate].
  unfold parse_file_model in H. apply parse_lines_cls in H. now rewrite H.
Qed.
Print Assumptions C10_dispatch_agrees.

(* ================================================================================================ *)
(* the declared type: file extension as each entry point derives it                                 *)
(* ================================================================================================ *)
(* splitext_ext = os.path.splitext(path)[1][1:] (parse_file, get_parsed_instance), url_ext = url.split(".")[-1]
   (parse_url).  For a path dir/stem.ext - dir empty or ending in "/", no "/" in stem and ext, no "." in ext, stem
   not made of dots only - both are ext, whatever precedes the path in the URL and however many dots stem and
   the directories contain ("dir.v1/00002-00000001.v2.soi", "x..wmd").  Outside this shape they differ on the
   unchanged code (".soc", "...soc": no extension for os.path.splitext; "dir.v1/inst": "v1/inst" for parse_url) -
   see C10_note_declared_type; no validator accepts a type containing "/" or the empty type, so on a base name
   without dot all entry points still agree on TypeError. *)
Theorem C10_declared_type : forall pre d stem e,
  (d = [] \/ exists d', d = d' ++ [47]) ->
  has_char 47 stem = false -> has_char 47 e = false -> has_char 46 e = false ->
  forallb (N.eqb 46) stem = false ->
  splitext_ext (d ++ stem ++ 46 :: e) = e /\ url_ext (pre ++ d ++ stem ++ 46 :: e) = e.
Proof. exact declared_type_proof. Qed.
Print Assumptions C10_declared_type.

(* hence the path-based entry points are the extension-based ones the other theorems speak of *)
Theorem C10_paths : forall c pre d stem e f t,
  (d = [] \/ exists d', d = d' ++ [47]) ->
  has_char 47 stem = false -> has_char 47 e = false -> has_char 46 e = false ->
  forallb (N.eqb 46) stem = false ->
  let p := d ++ stem ++ 46 :: e in
  parse_file_path c p f t = parse_file_model c e f t /\
  parse_url_url c (pre ++ p) f t = parse_url_model c e f t /\
  get_parsed_instance_path p f t = get_parsed_instance_model e f t.
Proof. exact paths_proof. Qed.
Print Assumptions C10_paths.

Example C10_note_declared_type :
  splitext_ext (lit "/d/.soc") = [] /\ url_ext (lit "file:///d/.soc") = lit "soc" /\
  splitext_ext (lit "/d/...soc") = [] /\ url_ext (lit "file:///d/...soc") = lit "soc" /\
  splitext_ext (lit "/dir.v1/inst") = [] /\ url_ext (lit "file:///dir.v1/inst") = lit "v1/inst" /\
  splitext_ext (lit "/dir.v1/00002-00000001.v2.soi") = lit "soi" /\ url_ext (lit "file:///dir.v1/00002-00000001.v2.soi") = lit "soi" /\
  splitext_ext (lit "/d/x..wmd") = lit "wmd" /\ url_ext (lit "file:///d/x..wmd") = lit "wmd".
Proof. exact declared_type_hidden. Qed.

(* ================================================================================================ *)
(* the splitters                                                                                    *)
(* ================================================================================================ *)
(* a text given as lines without line-boundary characters, each with its own terminator LF / CRLF / CR (same style
   or mixed): the three entry points hand the same stripped lines to the parser.  Side condition cr_safe: a
   lone CR is not directly followed by a LF, i.e. no CR-terminated line is followed by an EMPTY line terminated by
   LF (that byte sequence IS a CR LF); it holds whenever no line is empty (cr_safe_nonempty). *)
Theorem C10_splitters : forall segs, Forall seg_ok segs -> cr_safe segs = true ->
  let t := assemble segs in
  readlines t = map (fun p => fst p ++ nl) segs /\
  splitlines t = map fst segs /\
  urllines t = map strip (map fst segs) /\
  map strip (readlines t) = map strip (map fst segs) /\
  map strip (splitlines t) = map strip (map fst segs).
Proof. exact splitters_proof. Qed.
Print Assumptions C10_splitters.

Theorem C10_splitters_nonempty : forall segs,
  Forall seg_ok segs -> Forall (fun p => fst p <> []) segs -> cr_safe segs = true.
Proof. exact cr_safe_nonempty. Qed.
Print Assumptions C10_splitters_nonempty.

(* ... and the parsers (all three classes, all flags, ANY lines - well-formed or not) depend on a line only through
   line.strip(), and for lines that are no "#" lines only through line.strip().replace(" ", ""):
   line_equiv l l' := strip l = strip l' \/ (neither is a "#" line /\ remove_sp (strip l) = remove_sp (strip l')) *)
Theorem C10_lines_equiv : forall c dt f ls ls',
  Forall2 line_equiv ls ls' -> parse_lines c dt f ls = parse_lines c dt f ls'.
Proof. exact parse_lines_equiv. Qed.
Print Assumptions C10_lines_equiv.

Theorem C10_lines_strip : forall c dt f ls ls',
  map strip ls = map strip ls' -> parse_lines c dt f ls = parse_lines c dt f ls'.
Proof. exact parse_lines_strip. Qed.
Print Assumptions C10_lines_strip.

(* ================================================================================================ *)
(* the entry points on restyled content                                                             *)
(* ================================================================================================ *)
(* General form, for ANY text made of non-empty LF-terminated lines without line-boundary characters (not only
   written files), any class, data type and flags - so it also covers contents on which parsing fails: every
   entry point on every restyling returns what parse_file returns on the text itself. *)
Theorem C10_entrypoints_text : forall e c dt f pads ls,
  wf_pad pads = true -> Forall line_ok ls ->
  parse_entry e c dt f (restyle pads (unlines ls)) = parse_file_model c dt f (unlines ls).
Proof. exact entrypoints_text_proof. Qed.
Print Assumptions C10_entrypoints_text.

(* ordinal: the file written from a well-formed instance, restyled, read through any entry point under any of the
   four ordinal extensions, is the instance that was written (sorted_view = ballots in file order, C01) *)
Theorem C10_entrypoints_ord : forall e dt pads i,
  wf_ord i = true -> wf_pad pads = true -> type_validator COrd dt = true ->
  parse_entry e COrd dt (mkFlags false false) (restyle pads (ord_write i)) = Ok (IOrd (OrdIO.sorted_view i)).
Proof. exact entrypoints_ord. Qed.
Print Assumptions C10_entrypoints_ord.

(* ... and with any flags (autocorrect, header_only) all entry points still agree with parse_file on the canonical file *)
Theorem C10_entrypoints_ord_flags : forall e dt f pads i,
  wf_ord i = true -> wf_pad pads = true ->
  parse_entry e COrd dt f (restyle pads (ord_write i)) = parse_file_model COrd dt f (ord_write i).
Proof. exact entrypoints_ord_flags. Qed.
Print Assumptions C10_entrypoints_ord_flags.

Theorem C10_entrypoints_ord_get : forall dt pads i,
  wf_ord i = true -> wf_pad pads = true -> type_validator COrd dt = true ->
  get_parsed_instance_model dt (mkFlags false false) (restyle pads (ord_write i)) = Ok (IOrd (OrdIO.sorted_view i)).
Proof. exact entrypoints_ord_get. Qed.
Print Assumptions C10_entrypoints_ord_get.

(* matching (weights as tokens; wf_tok = wf_core of C09 + every token non-empty, without comma and whitespace):
   the instance that C09's round trip describes (reparsed: same edges and weights, isolated nodes dropped) *)
Theorem C10_entrypoints_wmd : forall e pads i,
  Proofs.WmdIO.wf_tok i -> wf_pad pads = true ->
  parse_entry e CWmd (lit "wmd") (mkFlags false false) (restyle pads (wmd_write_tok i)) =
  Ok (IWmd (Proofs.WmdIO.reparsed text i)).
Proof. exact entrypoints_wmd. Qed.
Print Assumptions C10_entrypoints_wmd.

Theorem C10_entrypoints_wmd_flags : forall e dt f pads i,
  Proofs.WmdIO.wf_tok i -> wf_pad pads = true ->
  parse_entry e CWmd dt f (restyle pads (wmd_write_tok i)) = parse_file_model CWmd dt f (wmd_write_tok i).
Proof. exact entrypoints_wmd_flags. Qed.
Print Assumptions C10_entrypoints_wmd_flags.

Theorem C10_entrypoints_wmd_get : forall pads i,
  Proofs.WmdIO.wf_tok i -> wf_pad pads = true ->
  get_parsed_instance_model (lit "wmd") (mkFlags false false) (restyle pads (wmd_write_tok i)) =
  Ok (IWmd (Proofs.WmdIO.reparsed text i)).
Proof. exact entrypoints_wmd_get. Qed.
Print Assumptions C10_entrypoints_wmd_get.

(* categorical (wf_cat: the well-formedness of C08, Proofs/CatIO.v): the instance that was written, ballots in
   file order (CatIO.sorted_view, C08) *)
Theorem C10_entrypoints_cat : forall e pads i,
  Proofs.CatIO.wf_cat i -> wf_pad pads = true ->
  parse_entry e CCat (lit "cat") (mkFlags false false) (restyle pads (cat_write i)) = Ok (ICat (CatIO.sorted_view i)).
Proof. exact entrypoints_cat. Qed.
Print Assumptions C10_entrypoints_cat.

Theorem C10_entrypoints_cat_get : forall pads i,
  Proofs.CatIO.wf_cat i -> wf_pad pads = true ->
  get_parsed_instance_model (lit "cat") (mkFlags false false) (restyle pads (cat_write i)) = Ok (ICat (CatIO.sorted_view i)).
Proof. exact entrypoints_cat_get. Qed.
Print Assumptions C10_entrypoints_cat_get.

(* any flags, and under the weaker hypothesis cat_text_ok (header values and names single-line without outer
   whitespace, every ballot has at least one category): all entry points agree with parse_file on the canonical file *)
Theorem C10_entrypoints_cat_flags : forall e dt f pads i,
  cat_text_ok i -> wf_pad pads = true ->
  parse_entry e CCat dt f (restyle pads (cat_write i)) = parse_file_model CCat dt f (cat_write i).
Proof. exact entrypoints_cat_flags. Qed.
Print Assumptions C10_entrypoints_cat_flags.

(* ================================================================================================ *)
(* header_only                                                                                      *)
(* ================================================================================================ *)
(* For ANY lines on which the full parse succeeds: the header-only parse succeeds too, loads no ballot / edge,
   leaves the nine header fields and alternatives_name as the full parse does (meta_texts) and - autocorrect off -
   is exactly the header part of the full parse: the same instance with the ballot list / multiplicity table
   emptied (ordinal, categorical: num_alternatives, num_voters, num_unique_*, num_categories, categories_name
   included).  For a matching instance the metadata are the same and the graph is empty; num_edges is the DECLARED
   number whereas the full parse stores the number of edges read (equal for every written file:
   C10_header_only_wmd).  With autocorrect on, the full parse recomputes the counts from the ballots (C16), the
   header-only parse cannot; only meta_texts is claimed then. *)
Theorem C10_header_only : forall c dt ac ls i,
  parse_lines c dt (mkFlags ac false) ls = Ok i ->
  exists h, parse_lines c dt (mkFlags ac true) ls = Ok h /\
            inst_empty h = true /\
            meta_texts (inst_meta h) = meta_texts (inst_meta i) /\
            (ac = false -> header_agrees h i).
Proof. exact header_only_proof. Qed.
Print Assumptions C10_header_only.

(* through every entry point and every restyling, relative to the full parse of the canonical text (any class, any
   text made of proper lines) *)
Theorem C10_header_only_restyled : forall e c dt pads ls i,
  wf_pad pads = true -> Forall line_ok ls ->
  parse_file_model c dt (mkFlags false false) (unlines ls) = Ok i ->
  exists h, parse_entry e c dt (mkFlags false true) (restyle pads (unlines ls)) = Ok h /\
            inst_empty h = true /\ header_agrees h i.
Proof. exact header_only_restyled_proof. Qed.
Print Assumptions C10_header_only_restyled.

(* written ordinal files: the header part of the instance that was written (all counts as declared) *)
Theorem C10_header_only_ord : forall e dt pads i,
  wf_ord i = true -> wf_pad pads = true -> type_validator COrd dt = true ->
  parse_entry e COrd dt (mkFlags false true) (restyle pads (ord_write i)) = Ok (header_of (IOrd (OrdIO.sorted_view i))).
Proof. exact header_only_ord. Qed.
Print Assumptions C10_header_only_ord.

Theorem C10_header_only_cat : forall e pads i,
  Proofs.CatIO.wf_cat i -> wf_pad pads = true ->
  parse_entry e CCat (lit "cat") (mkFlags false true) (restyle pads (cat_write i)) = Ok (header_of (ICat (CatIO.sorted_view i))).
Proof. exact header_only_cat. Qed.
Print Assumptions C10_header_only_cat.

Theorem C10_header_only_wmd : forall e pads i,
  Proofs.WmdIO.wf_tok i -> wf_pad pads = true ->
  parse_entry e CWmd (lit "wmd") (mkFlags false true) (restyle pads (wmd_write_tok i)) =
  Ok (header_of (IWmd (Proofs.WmdIO.reparsed text i))).
Proof. exact header_only_wmd. Qed.
Print Assumptions C10_header_only_wmd.

(* ================================================================================================ *)
(* non-vacuity and notes                                                                            *)
(* ================================================================================================ *)
Definition ex_meta : meta :=
  mkMeta (lit "f.toi") (lit "T") [] (lit "toi") [] [] [] (lit "2020-01-01") [] 3 7
         [(1, lit "a b"); (2, []); (1000000000000000000, lit "#:{,}")] [].
Definition ex_ord : oinst :=
  mkOinst ex_meta 3
    [ [[1];[2;1000000000000000000]]; [[2;1000000000000000000;1]]; [[1000000000000000000;1];[2]] ]
    [ ([[1];[2;1000000000000000000]], 2); ([[2;1000000000000000000;1]], 3); ([[1000000000000000000;1];[2]], 2) ].

(* CR / CRLF / LF mixed, padding with TAB, NBSP and ideographic space, spaces around every token of ballot lines *)
Definition ex_pads : list linestyle :=
  [ mkStyle [9; 32] [] [160] CR; mkStyle [] [] [32; 32] CRLF; mkStyle [12288] [] [] CR; mkStyle [] [] [] LF;
    mkStyle [] [] [9] CR; mkStyle [] [] [] CR; mkStyle [] [] [] CR; mkStyle [] [] [] CRLF; mkStyle [] [] [] CR;
    mkStyle [] [] [] CR; mkStyle [] [] [] CR; mkStyle [] [] [] CR; mkStyle [] [] [] LF; mkStyle [] [] [] CR;
    mkStyle [] [] [] CR;
    mkStyle [32] [2; 1; 1; 3; 1; 1; 1; 1; 1; 1; 1; 1; 1; 1; 1; 1; 1; 1; 1; 1; 1; 1; 1; 1; 1; 1; 1; 1; 1; 1]%nat [9] CR;
    mkStyle [] [0; 0; 4; 0; 2]%nat [32] CRLF;
    mkStyle [8195] [1; 1; 1; 1; 1; 1; 1; 1]%nat [] CR ].

Example C10_example_hypotheses : wf_ord ex_ord = true /\ wf_pad ex_pads = true.
Proof. split; vm_compute; reflexivity. Qed.

(* the restyled file really differs from the canonical one, all three entry points and get_parsed_instance read
   it back, as theorem C10_entrypoints_ord says *)
Example C10_example_entrypoints :
  restyle ex_pads (ord_write ex_ord) <> ord_write ex_ord /\
  parse_entry EFile COrd (lit "toi") (mkFlags false false) (restyle ex_pads (ord_write ex_ord)) = Ok (IOrd (OrdIO.sorted_view ex_ord)) /\
  parse_entry EStr COrd (lit "soc") (mkFlags false false) (restyle ex_pads (ord_write ex_ord)) = Ok (IOrd (OrdIO.sorted_view ex_ord)) /\
  parse_entry EUrl COrd (lit "toi") (mkFlags false false) (restyle ex_pads (ord_write ex_ord)) = Ok (IOrd (OrdIO.sorted_view ex_ord)) /\
  get_parsed_instance_model (lit "toi") (mkFlags false false) (restyle ex_pads (ord_write ex_ord)) = Ok (IOrd (OrdIO.sorted_view ex_ord)).
Proof. repeat split; try (vm_compute; reflexivity). vm_compute. discriminate. Qed.

Example C10_example_header_only :
  parse_entry EUrl COrd (lit "toi") (mkFlags false true) (restyle ex_pads (ord_write ex_ord)) =
  Ok (header_of (IOrd (OrdIO.sorted_view ex_ord))) /\
  header_of (IOrd (OrdIO.sorted_view ex_ord)) <> IOrd (OrdIO.sorted_view ex_ord).
Proof. split; [vm_compute; reflexivity|vm_compute; discriminate]. Qed.

Example C10_example_gate :
  parse_entry EFile CCat (lit "toi") (mkFlags false false) (ord_write ex_ord) = Err TypeErr /\
  parse_entry EStr CWmd (lit "soc") (mkFlags true true) (ord_write ex_ord) = Err TypeErr /\
  parse_entry EUrl COrd (lit "cat") (mkFlags false false) (ord_write ex_ord) = Err TypeErr /\
  get_parsed_instance_model (lit "txt") (mkFlags false false) (ord_write ex_ord) = Err TypeErr /\
  class_of_ext (lit "toi") = Some COrd /\ class_of_ext (lit "cat") = Some CCat /\ class_of_ext (lit "wmd") = Some CWmd.
Proof. repeat split; vm_compute; reflexivity. Qed.

(* a categorical and a matching instance satisfying the hypotheses *)
Definition ex_cat : cinst :=
  mkCinst (mkMeta (lit "f.cat") (lit "T") [] (lit "cat") [] [] [] [] [] 3 5 [(1, lit "a"); (2, []); (3, lit "c c")] [])
          2 2 [(1, lit "yes"); (2, [])]
          [ [[1; 2]; [3]]; [[]; [1; 2; 3]] ] [ ([[1; 2]; [3]], 3); ([[]; [1; 2; 3]], 2) ].

Example C10_example_cat_wf : Proofs.CatIO.wf_cat ex_cat.
Proof.
  constructor; unfold ex_cat; cbn [c_prefs c_num_categories c_mult c_meta c_cat_names alt_names data_type reserved].
  - discriminate.
  - discriminate.
  - repeat constructor.
  - repeat constructor; discriminate.
  - reflexivity.
  - repeat constructor; cbn; intuition discriminate.
  - unfold wf_fields, wf_field, wf_value. cbn [file_name title description data_type modification_type relates_to
      related_files publication_date modification_date]. repeat split; vm_compute; reflexivity.
  - reflexivity.
  - reflexivity.
  - split; [repeat constructor; vm_compute; reflexivity|repeat constructor; cbn; intuition discriminate].
  - split; [repeat constructor; vm_compute; reflexivity|repeat constructor; cbn; intuition discriminate].
Qed.

(* the categorical file has 20 lines; its two ballot lines get blanks at every token boundary, e.g. "3 :    { 1 ,   2 } ,   3" *)
Definition ex_pads_cat : list linestyle :=
  ex_pads ++ [ mkStyle [9] [0; 1; 2; 1; 1; 1; 1; 1; 1; 1; 1; 1; 1; 1; 1; 1]%nat [32] CR;
               mkStyle [] [0; 2; 1; 1; 1; 1; 3; 1; 1; 1; 1; 1; 1; 1; 1; 1; 1; 1; 1]%nat [] CRLF ].

Example C10_example_cat :
  wf_pad ex_pads_cat = true /\
  parse_entry EUrl CCat (lit "cat") (mkFlags false false) (restyle ex_pads_cat (cat_write ex_cat)) = Ok (ICat (CatIO.sorted_view ex_cat)) /\
  parse_entry EStr CCat (lit "cat") (mkFlags false true) (restyle ex_pads_cat (cat_write ex_cat)) = Ok (header_of (ICat (CatIO.sorted_view ex_cat))) /\
  lf_lines (restyle [mkStyle [] [0; 1; 2; 1; 1; 1; 1; 1; 1; 1; 1; 1; 1; 1; 1; 1]%nat [] LF] (lit "3: {1, 2}, 3" ++ nl)) = [lit "3 :    { 1 ,   2 } ,   3"].
Proof. repeat split; vm_compute; reflexivity. Qed.

Definition ex_wmd : twinst :=
  mkW (mkMeta (lit "g.wmd") (lit "T") [] (lit "wmd") [] [] [] [] [] 2 0 [(2, lit "b"); (1, [])] [])
      3 [(2, [2; 1]); (1, [2])]%Z [((2, 2)%Z, lit "0.5"); ((1, 2)%Z, lit "-1e-05"); ((2, 1)%Z, lit "7.0")].

Example C10_example_wmd : Proofs.WmdIO.wf_tok ex_wmd.
Proof.
  split.
  - unfold Proofs.WmdIO.wf_core, ex_wmd. cbn [w_meta w_nodes w_weights w_num_edges data_type alt_names].
    split; [reflexivity|]. split.
    { unfold wf_fields, wf_field, wf_value. cbn [file_name title description data_type modification_type relates_to
        related_files publication_date modification_date]. repeat split; vm_compute; reflexivity. }
    split.
    { split.
      - repeat constructor; vm_compute; reflexivity.
      - repeat constructor; cbn; intuition discriminate. }
    split.
    { split; [repeat constructor; cbn; intuition discriminate|]. split.
      - intros n. unfold nbrs. cbn [assoc_get].
        destruct (Z.eqb n 2); [repeat constructor; cbn; intuition discriminate|].
        destruct (Z.eqb n 1); [repeat constructor; cbn; intuition discriminate|]. constructor.
      - intros n m. unfold nbrs. cbn [assoc_get keys map fst].
        destruct (Z.eqb n 2); [cbn; intuition|]. destruct (Z.eqb n 1); cbn; intuition. }
    split.
    { split; [repeat constructor; cbn; intuition discriminate|].
      intros n m. unfold nbrs. cbn [w_nodes w_weights assoc_get keys map fst]. split.
      - intros [H|[H|[H|[]]]]; injection H as <- <-; cbn; auto.
      - destruct (Z.eqb_spec n 2) as [->|]; [cbn; intuition (subst; auto)|].
        destruct (Z.eqb_spec n 1) as [->|]; cbn; intuition (subst; auto). }
    split; [reflexivity|discriminate].
  - repeat constructor.
Qed.

Example C10_example_wmd_entrypoints :
  parse_entry EUrl CWmd (lit "wmd") (mkFlags false false) (restyle ex_pads (wmd_write_tok ex_wmd)) =
  Ok (IWmd (mkW (set_num_voters (w_meta ex_wmd) 2) 3 [(1, [2]); (2, [1; 2])]%Z
                [((1, 2)%Z, lit "-1e-05"); ((2, 1)%Z, lit "7.0"); ((2, 2)%Z, lit "0.5")])) /\
  parse_entry EUrl CWmd (lit "wmd") (mkFlags false true) (restyle ex_pads (wmd_write_tok ex_wmd)) =
  Ok (IWmd (mkW (set_num_voters (w_meta ex_wmd) 2) 3 [] [])).
Proof. split; vm_compute; reflexivity. Qed.

(* ---- notes: what is NOT inside the quantifier, and how the three classes differ there ---- *)
(* (1) A blank or whitespace-only line (e.g. a second newline at the end of the file) is no restyling of a line.
   The ordinal parser skips such lines; the categorical and matching parsers raise ValueError on them - through
   every entry point alike. *)
Example C10_note_blank_line :
  let f := mkFlags false false in
  (forall e, parse_entry e COrd (lit "toi") f (ord_write ex_ord ++ [32; 10]) = Ok (IOrd (OrdIO.sorted_view ex_ord))) /\
  (forall e, parse_entry e CCat (lit "cat") f (cat_write ex_cat ++ [32; 10]) = Err ValueErr) /\
  (forall e, parse_entry e CWmd (lit "wmd") f (wmd_write_tok ex_wmd ++ [10]) = Err ValueErr).
Proof. repeat split; intros e; destruct e; vm_compute; reflexivity. Qed.

(* (2) U+001C (FILE SEPARATOR) is whitespace for str.strip() and a line boundary for str.splitlines() but not for
   readlines(): "padding" a header line with it makes parse_str / parse_url see an extra empty line (the header
   loop stops there), while parse_file strips it.  Such characters are excluded from padding (is_pad). *)
Example C10_note_splitlines_only_boundary :
  let f := mkFlags false false in
  let t := restyle [mkStyle [28] [] [] LF] (ord_write ex_ord) in
  parse_entry EFile COrd (lit "toi") f t = Ok (IOrd (OrdIO.sorted_view ex_ord)) /\
  parse_entry EStr COrd (lit "toi") f t = Err ValueErr /\
  parse_entry EUrl COrd (lit "toi") f t = Err ValueErr /\
  wf_pad [mkStyle [28] [] [] LF] = false.
Proof. repeat split; vm_compute; reflexivity. Qed.

(* (3) the side condition of C10_splitters is needed: CR, then an empty line ended by LF, is one CR LF *)
Example C10_note_cr_then_empty_line :
  let segs := [(lit "a", CR); ([], LF)] in
  cr_safe segs = false /\ splitlines (assemble segs) = [lit "a"] /\ readlines (assemble segs) = [lit "a" ++ nl].
Proof. repeat split; reflexivity. Qed.
