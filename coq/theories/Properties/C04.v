(* Properties/C04.v — placeholder while Proofs/SC.v is being built *)
From Coq Require Import List Arith NArith Permutation.
From PrefVerif Require Import Model.SC Proofs.SC.
Import ListNotations.
Theorem sc_decide_enumerates : forall alts orders,
  sc_decide alts orders = true <-> exists s, Permutation orders s /\ sc_seq_check alts s = true.
Proof. exact sc_decide_correct. Qed.
Print Assumptions sc_decide_enumerates.
