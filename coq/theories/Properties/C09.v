(* Properties/C09.v — placeholder until Proofs/WmdIO.v is complete *)
From Coq Require Import List NArith String.
Open Scope string_scope.
From PrefVerif Require Import Lib.Val Lib.Dec Lib.PyStr Model.Meta Model.WmdIO.
Theorem C09_type_gate : forall W read_w ac ho m ls,
  teqb (data_type m) (lit "wmd") = false -> wmd_parse W read_w ac ho m ls = Err TypeErr.
Proof. intros W read_w ac ho m ls H. unfold wmd_parse. now rewrite H. Qed.
Print Assumptions C09_type_gate.
