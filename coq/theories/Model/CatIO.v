(* Model/CatIO.v — mirror model of CategoricalInstance.write / CategoricalInstance.parse and of
   PrefLibInstance.parse_lines for the categorical class
   (preflibtools/instances/preflibinstance/categorical.py, instance.py).
   Executable definitions only; the lemmas are in Proofs/CatIO.v, the theorems in Properties/C08.v.

   Conventions (DESIGN §3): alternatives, category ids, multiplicities and header numbers are N; text is a
   list of code points; Python dicts are association lists in insertion order; exceptions are [result]
   values.  Limits of the model, all stated where they apply:
   - numbers are read with [py_int] / [read_N]: ASCII digits only (Python's int() and \d also accept a
     sign, underscores and non-ASCII decimal digits);
   - [cat_write] looks the multiplicity of a ballot up with default 0 where Python raises KeyError;
     [cat_write_checked] makes that case visible as [Err OtherErr]. *)
From Coq Require Import List Arith NArith Bool String.
From PrefVerif Require Import Lib.Val Lib.Dec Lib.PyStr Model.Meta.
Import ListNotations.

(* ---------------------------------------------------------------------------------------------- *)
(* instances                                                                                      *)

(* a ballot is a tuple of categories, a category a tuple of alternatives (possibly empty) *)
Definition ballot := list (list N).

Fixpoint list_eqb {A} (eqb : A -> A -> bool) (a b : list A) : bool :=
  match a, b with
  | [], [] => true
  | x :: a', y :: b' => eqb x y && list_eqb eqb a' b'
  | _, _ => false
  end.
Definition cat_eqb : list N -> list N -> bool := list_eqb N.eqb.
Definition ballot_eqb : ballot -> ballot -> bool := list_eqb cat_eqb.

Record cinst := mkCinst {
  c_meta : meta;                          (* the PrefLibInstance fields, alternatives_name included *)
  c_num_unique : N;                       (* num_unique_preferences *)
  c_num_categories : N;                   (* num_categories *)
  c_cat_names : list (N * text);          (* categories_name, int keys, insertion order *)
  c_prefs : list ballot;                  (* preferences *)
  c_mult : list (ballot * N)              (* multiplicity, insertion order *)
}.

(* a fresh CategoricalInstance() whose PrefLibInstance fields are [m] *)
Definition cinst0 (m : meta) : cinst := mkCinst m 0 0 [] [] [].

Definition set_c_meta (i : cinst) (m : meta) : cinst :=
  mkCinst m (c_num_unique i) (c_num_categories i) (c_cat_names i) (c_prefs i) (c_mult i).
Definition set_c_num_unique (i : cinst) (n : N) : cinst :=
  mkCinst (c_meta i) n (c_num_categories i) (c_cat_names i) (c_prefs i) (c_mult i).
Definition set_c_num_categories (i : cinst) (n : N) : cinst :=
  mkCinst (c_meta i) (c_num_unique i) n (c_cat_names i) (c_prefs i) (c_mult i).
Definition set_c_cat_names (i : cinst) (d : list (N * text)) : cinst :=
  mkCinst (c_meta i) (c_num_unique i) (c_num_categories i) d (c_prefs i) (c_mult i).
Definition set_c_ballots (i : cinst) (p : list ballot) (mu : list (ballot * N)) : cinst :=
  mkCinst (c_meta i) (c_num_unique i) (c_num_categories i) (c_cat_names i) p mu.

(* self.multiplicity[b]  (default 0 where Python raises KeyError) *)
Definition mult_of (mu : list (ballot * N)) (b : ballot) : N :=
  match assoc_get ballot_eqb b mu with Some k => k | None => 0%N end.

(* ---------------------------------------------------------------------------------------------- *)
(* CategoricalInstance.write                                                                      *)

(* one category: "{}" when empty, the bare id when it holds one alternative, "{a, b, c}" otherwise *)
Definition cat_str (c : list N) : text :=
  match c with
  | [] => lit "{}"
  | [a] => show_N a
  | _ => lit "{" ++ join (lit ", ") (map show_N c) ++ lit "}"
  end.

(* pref_str after the inner loop: every category followed by ", " *)
Definition pref_str (b : ballot) : text := flat_map (fun c => cat_str c ++ lit ", ") b.

(* "{}: {}\n".format(self.multiplicity[pref], pref_str.strip(", ")) *)
Definition ballot_line (mu : list (ballot * N)) (b : ballot) : text :=
  show_N (mult_of mu b) ++ lit ": " ++ strip_chars (lit ", ") (pref_str b) ++ nl.

(* preferences.sort(key=lambda o: (-multiplicity[o], -len(o))) : list.sort is stable, and a stable sort
   is determined by its key, so insertion sort (insert before the first element with a key that is not
   smaller) gives the same list.  [key_lt mu y x] is  key(y) < key(x). *)
Definition key_lt (mu : list (ballot * N)) (y x : ballot) : bool :=
  let my := mult_of mu y in let mx := mult_of mu x in
  (mx <? my)%N || ((my =? mx)%N && Nat.ltb (List.length x) (List.length y)).
Fixpoint insert_by {A} (lt : A -> A -> bool) (x : A) (l : list A) : list A :=
  match l with
  | [] => [x]
  | y :: r => if lt y x then y :: insert_by lt x r else x :: l
  end.
Definition stable_sort {A} (lt : A -> A -> bool) (l : list A) : list A :=
  fold_right (insert_by lt) [] l.
Definition sorted_prefs (i : cinst) : list ballot := stable_sort (key_lt (c_mult i)) (c_prefs i).

Definition write_cat_names (d : list (N * text)) : text :=
  flat_map (fun '(c, nm) => lit "# CATEGORY NAME " ++ show_N c ++ lit ": " ++ nm ++ nl) d.

Definition write_counts (i : cinst) : text :=
  lit "# NUMBER ALTERNATIVES: " ++ show_N (num_alternatives (c_meta i)) ++ nl ++
  lit "# NUMBER VOTERS: " ++ show_N (num_voters (c_meta i)) ++ nl ++
  lit "# NUMBER UNIQUE PREFERENCES: " ++ show_N (c_num_unique i) ++ nl ++
  lit "# NUMBER CATEGORIES: " ++ show_N (c_num_categories i) ++ nl.

Definition cat_write (i : cinst) : text :=
  write_metadata (c_meta i) ++ write_counts i ++
  write_cat_names (c_cat_names i) ++ write_alt_names (alt_names (c_meta i)) ++
  flat_map (ballot_line (c_mult i)) (sorted_prefs i).

(* the same, with the KeyError of self.multiplicity[o] (sort key / ballot line) made visible *)
Definition cat_write_checked (i : cinst) : result text :=
  if forallb (fun b => match assoc_get ballot_eqb b (c_mult i) with Some _ => true | None => false end)
             (c_prefs i)
  then Ok (cat_write i) else Err OtherErr.

(* the instance as the parser rebuilds it from the written file: ballot list in file order (= stably
   sorted), the table re-inserted in that order; everything else unchanged *)
Definition sorted_view (i : cinst) : cinst :=
  set_c_ballots i (sorted_prefs i) (map (fun b => (b, mult_of (c_mult i) b)) (sorted_prefs i)).

(* ---------------------------------------------------------------------------------------------- *)
(* the ballot tokenizer: re.findall(r"{[\d,]+?}|[\d,]+|{}", s)                                     *)

(* Equivalence with the regular expression (leftmost match, alternatives tried in order, scan resumes
   after each match, an unmatched character is skipped):
   - [\d,] is the class [is_run]; it contains neither brace, so "lazy" and "greedy" coincide for the first
     alternative: at a "{" it matches iff the maximal run of [is_run] characters that follows is non-empty
     and is followed by "}"; the third alternative matches iff that run is empty and "}" follows; the second
     alternative matches the maximal non-empty run at a run character.
   - if neither brace alternative matches at a "{", the regex skips that one character; the characters of the
     run after it (if any) are then matched by the second alternative as one bare token, which ends where the
     run ends.  So a failed brace group yields exactly the token "run" (if non-empty).
   The state machine below reads one character at a time.  State: [in_brace] (an opening brace was seen and
   only run characters since) and [acc] (the run read so far, reversed).
     run character          -> extend acc
     "{"                    -> flush acc as a bare token (if non-empty), start a brace group
     "}" while in_brace     -> emit "{" ++ run ++ "}"  (this is "{}" when the run is empty)
     any other character    -> flush acc as a bare token (if non-empty)
     end of input           -> flush acc as a bare token (if non-empty)
   Digits are ASCII only (Python's \d also matches other Unicode decimal digits). *)
Definition is_run (c : N) : bool := is_digit c || (c =? 44)%N.          (* [\d,] *)
Definition flush (acc : text) : list text := match acc with [] => [] | _ => [rev acc] end.
Fixpoint tok_go (in_brace : bool) (acc : text) (s : text) : list text :=
  match s with
  | [] => flush acc
  | c :: r =>
    if is_run c then tok_go in_brace (c :: acc) r
    else if (c =? 123)%N then flush acc ++ tok_go true [] r                          (* { *)
    else if (c =? 125)%N && in_brace then (123%N :: rev (125%N :: acc)) :: tok_go false [] r   (* } *)
    else flush acc ++ tok_go false [] r
  end.
Definition tokenize (s : text) : list text := tok_go false [] s.

(* A second, declarative reading of the same regular expression, used only as the specification of [tokenize]
   (Proofs/CatIO.v: tokenize_findall): at each position try the alternatives in order, take the first that
   matches, resume after the match; if none matches skip one character.
     "{" followed by the maximal run d of [\d,] and "}"  : alternative 1 when d is non-empty, alternative 3
                                                            ("{}") when d is empty — the same token shape;
     a run character                                      : alternative 2, the maximal run;
     anything else (including a "{" not closed after its run): no alternative matches here.
   Fuel = number of characters + 1 is never exhausted. *)
Fixpoint span_run (s : text) : text * text :=
  match s with
  | c :: r => if is_run c then let '(d, t) := span_run r in (c :: d, t) else ([], s)
  | [] => ([], [])
  end.
Fixpoint findall_ref (fuel : nat) (s : text) : list text :=
  match fuel with
  | O => []
  | S f =>
    match s with
    | [] => []
    | c :: r =>
      if (c =? 123)%N then
        let '(d, t) := span_run r in
        match t with
        | 125%N :: t' => (123%N :: d ++ [125%N]) :: findall_ref f t'
        | _ => findall_ref f r
        end
      else if is_run c then
        let '(d, t) := span_run s in d :: findall_ref f t
      else findall_ref f r
    end
  end.
Definition findall (s : text) : list text := findall_ref (S (List.length s)) s.

(* sequence a list of results *)
Fixpoint rseq {T} (l : list (result T)) : result (list T) :=
  match l with
  | [] => Ok []
  | r :: l' => rbind r (fun x => rmap (cons x) (rseq l'))
  end.

(* [int(alt.strip()) for alt in group.split(",") if len(alt) > 0] *)
Definition ints_of (g : text) : result (list N) :=
  rseq (map py_int (filter (fun a => negb (match a with [] => true | _ => false end)) (split_on 44 g))).

(* the categories one token contributes (body of "for group in re.findall(...)") *)
Definition cats_of_token (g : text) : result (list (list N)) :=
  if teqb g (lit "{}") then Ok [[]]
  else if startswith (lit "{") g then rmap (fun c => [c]) (ints_of (removelast (drop 1 g)))   (* group[1:-1] *)
  else rmap (map (fun a => [a])) (ints_of g).

Definition parse_pref (s : text) : result ballot :=
  rmap (@List.concat (list N)) (rseq (map cats_of_token (tokenize s))).

(* ---------------------------------------------------------------------------------------------- *)
(* CategoricalInstance.parse                                                                      *)

Definition hash_prefix : text := lit "#".

(* body of the header loop for one stripped line that starts with "#".  Note the shape
       if A: ...          (# NUMBER UNIQUE PREFERENCES)
       if B: ... elif C: ... else: parse_metadata
   : a line matching A also runs the second chain (and ends in parse_metadata, which ignores it). *)
Definition header_line (autocorrect : bool) (resv_cats : list text) (i : cinst) (line : text)
  : result cinst :=
  rbind (if startswith (lit "# NUMBER UNIQUE PREFERENCES") line
         then rmap (set_c_num_unique i) (py_int (drop 28 line)) else Ok i)
  (fun i1 =>
     if startswith (lit "# NUMBER CATEGORIES") line
     then rmap (set_c_num_categories i1) (py_int (drop 20 line))
     else if startswith (lit "# CATEGORY NAME") line then
       match match_name cat_name_prefix line with
       | Some (cat, nm) =>
         rmap (fun nm' => set_c_cat_names i1 (assoc_set N.eqb cat nm' (c_cat_names i1)))
              (corrected_name autocorrect nm (values (c_cat_names i1)) resv_cats)
       | None => Ok i1
       end
     else rmap (set_c_meta i1) (parse_metadata autocorrect (c_meta i1) line)).

(* for i in range(len(lines)): ... else: break      followed by   lines[i:]
   Returns the state after the header and the list lines[i:].  [i] keeps its last value when the loop is
   not left by break: if every line is a header line, lines[i:] is the LAST header line (and the ballot loop
   then fails on it); with no line at all i = 0 and lines[i:] = []. *)
Fixpoint header_loop (autocorrect : bool) (resv_cats : list text) (i : cinst) (lines : list text)
  : result (cinst * list text) :=
  match lines with
  | [] => Ok (i, [])
  | l :: r =>
    let line := strip l in
    if startswith hash_prefix line then
      rbind (header_line autocorrect resv_cats i line)
            (fun i' => match r with
                       | [] => Ok (i', [l])
                       | _ :: _ => header_loop autocorrect resv_cats i' r
                       end)
    else Ok (i, lines)
  end.

(* one ballot line *)
Definition ballot_of_line (l : text) : result (N * ballot) :=
  match split_on 58 (remove_sp (strip l)) with             (* .strip().replace(" ", "").split(":") *)
  | [m; p] => rbind (py_int m) (fun k => rmap (fun b => (k, b)) (parse_pref p))
  | _ => Err ValueErr                                      (* unpacking into two names fails *)
  end.

Definition add_ballot (autocorrect : bool) (i : cinst) (k : N) (b : ballot) : cinst :=
  match (if autocorrect then assoc_get ballot_eqb b (c_mult i) else None) with
  | Some k0 => set_c_ballots i (c_prefs i) (assoc_set ballot_eqb b (k0 + k)%N (c_mult i))
  | None => set_c_ballots i (c_prefs i ++ [b]) (assoc_set ballot_eqb b k (c_mult i))
  end.

Fixpoint ballot_loop (autocorrect : bool) (i : cinst) (lines : list text) : result cinst :=
  match lines with
  | [] => Ok i
  | l :: r => rbind (ballot_of_line l)
                    (fun '(k, b) => ballot_loop autocorrect (add_ballot autocorrect i k b) r)
  end.

(* len(set(preferences)) *)
Fixpoint dedup (l : list ballot) : list ballot :=
  match l with
  | [] => []
  | b :: r => if existsb (ballot_eqb b) r then dedup r else b :: dedup r
  end.
Definition sum_N (l : list N) : N := fold_right N.add 0%N l.

(* if autocorrect: num_alternatives = len(alternatives_name); recompute_cardinality_param() *)
Definition recompute (i : cinst) : cinst :=
  let m := c_meta i in
  let m' := set_num_voters (set_num_alternatives m (N.of_nat (List.length (alt_names m))))
                           (sum_N (values (c_mult i))) in
  set_c_num_unique (set_c_meta i m') (N.of_nat (List.length (dedup (c_prefs i)))).

(* CategoricalInstance.parse(lines, autocorrect, header_only) on the object state [i] *)
Definition cat_parse_body (autocorrect header_only : bool) (i : cinst) (lines : list text)
  : result cinst :=
  let resv_cats := if autocorrect then reserved_of cat_name_prefix lines else [] in
  rbind (header_loop autocorrect resv_cats i lines)
  (fun '(i1, rest) =>
     if header_only then Ok i1
     else rmap (fun i2 => if autocorrect then recompute i2 else i2)
               (ballot_loop autocorrect i1 rest)).

(* PrefLibInstance.parse_lines on a fresh CategoricalInstance whose inherited fields are [m]
   (parse_file / parse_str set file_path, file_name, data_type before calling it):
   the type gate, the names reserved for autocorrect, then parse. *)
Definition cat_parse (autocorrect header_only : bool) (m : meta) (lines : list text) : result cinst :=
  if teqb (data_type m) (lit "cat") then
    let m1 := if autocorrect then set_reserved m (reserved_of alt_name_prefix lines) else m in
    cat_parse_body autocorrect header_only (cinst0 m1) lines
  else Err TypeErr.

(* the three entry points' line splitters are in Lib.PyStr: readlines (parse_file), splitlines
   (parse_str), urllines (parse_url) *)
