(* Proofs/Euclid.v — 1-Euclidean profiles (C19): specification, correctness of the witness checker,
   necessary conditions (single-peaked on the position order, single-crossing on the voter order).

   Specification (copied from the property text): voters and alternatives are placed on the line (exact
   rationals) so that every voter ranks the alternatives by STRICTLY increasing distance from its own position. *)
From Coq Require Import List Arith NArith ZArith QArith Qabs Bool Lia Lqa Permutation Sorted.
From PrefVerif Require Import Lib.Perms Lib.Contig Model.SP Model.SC Model.Euclid Proofs.SP Proofs.SC.
Import ListNotations.
Open Scope Q_scope.

(* ============================================================================================== *)
(* 0. specification                                                                                *)
(* ============================================================================================== *)

(* alternative a is strictly closer to the point v than alternative b, under the placement x *)
Definition closer (x : N -> Q) (v : Q) (a b : N) : Prop := qdist v (x a) < qdist v (x b).

(* the voter at v ranks r by strictly increasing distance: whoever is listed earlier is strictly closer *)
Definition vote_realised (x : N -> Q) (v : Q) (r : list N) : Prop :=
  forall i j a b, (i < j)%nat -> nth_error r i = Some a -> nth_error r j = Some b -> closer x v a b.

(* voter i (position i of vpos) realises ranking i of the profile *)
Definition realises (x : N -> Q) (vpos : list Q) (profile : list (list N)) : Prop :=
  Forall2 (vote_realised x) vpos profile.

Definition Euclidean (profile : list (list N)) : Prop :=
  exists x vpos, realises x vpos profile.

(* the total placement read off an association list (unplaced alternatives: 0, never used below) *)
Definition posf (apos : list (N * Q)) (a : N) : Q :=
  match apos_lookup apos a with Some q => q | None => 0 end.

(* what the checker establishes about a map: every alternative of alts and of every ranking is placed,
   there is one voter position per ranking, and every voter realises its ranking *)
Definition Realised (alts : list N) (profile : list (list N)) (vpos : list Q) (apos : list (N * Q)) : Prop :=
  (forall a, In a alts -> exists q, apos_lookup apos a = Some q) /\
  (forall r a, In r profile -> In a r -> exists q, apos_lookup apos a = Some q) /\
  realises (posf apos) vpos profile.

(* ============================================================================================== *)
(* 1. rational distances                                                                           *)
(* ============================================================================================== *)
Lemma qdist_cases p x : (x <= p /\ qdist p x == p - x) \/ (p <= x /\ qdist p x == x - p).
Proof.
  unfold qdist. destruct (Qlt_le_dec p x) as [H|H].
  - right. split; [lra|]. rewrite Qabs_neg; lra.
  - left. split; [assumption|]. rewrite Qabs_pos; lra.
Qed.

Lemma Qltb_lt x y : Qltb x y = true <-> x < y.
Proof.
  unfold Qltb. rewrite negb_true_iff. split.
  - intros H. apply Qnot_le_lt. intros Hle. apply Qle_bool_iff in Hle. congruence.
  - intros H. destruct (Qle_bool y x) eqn:E; [|reflexivity].
    apply Qle_bool_iff in E. exfalso. apply (Qlt_not_le _ _ H E).
Qed.

(* a < b on the line: the points strictly closer to a than to b are those left of the midpoint *)
Lemma closer_left_iff p xa xb : xa < xb -> (qdist p xa < qdist p xb <-> 2 * p < xa + xb).
Proof.
  intros H. destruct (qdist_cases p xa) as [[? Ea]|[? Ea]], (qdist_cases p xb) as [[? Eb]|[? Eb]];
    rewrite Ea, Eb; split; intros; lra.
Qed.

Lemma closer_right_iff p xa xb : xa < xb -> (qdist p xb < qdist p xa <-> xa + xb < 2 * p).
Proof.
  intros H. destruct (qdist_cases p xa) as [[? Ea]|[? Ea]], (qdist_cases p xb) as [[? Eb]|[? Eb]];
    rewrite Ea, Eb; split; intros; lra.
Qed.

(* the key geometric fact: a point between two others is at most as far from p as the farther of them,
   i.e. balls are intervals of the position order *)
Lemma between_not_farther p xa xb xc : xa <= xb -> xb <= xc ->
  qdist p xb <= qdist p xa \/ qdist p xb <= qdist p xc.
Proof.
  intros H1 H2.
  destruct (qdist_cases p xa) as [[? Ea]|[? Ea]], (qdist_cases p xb) as [[? Eb]|[? Eb]],
           (qdist_cases p xc) as [[? Ec]|[? Ec]]; rewrite Ea, Eb, Ec;
    solve [left; lra | right; lra].
Qed.

Lemma qdist_eq p xa xb : xa == xb -> qdist p xa == qdist p xb.
Proof. intros H. unfold qdist. now rewrite H. Qed.

(* ============================================================================================== *)
(* 2. sorted lists                                                                                 *)
(* ============================================================================================== *)
Lemma SS_nth {T} (R : T -> T -> Prop) (l : list T) :
  StronglySorted R l <->
  (forall i j a b, (i < j)%nat -> nth_error l i = Some a -> nth_error l j = Some b -> R a b).
Proof.
  split.
  - induction 1 as [|x t Ht IH Hall]; intros i j a b Hij Hi Hj.
    + destruct i; discriminate.
    + destruct j as [|j]; [lia|]. cbn in Hj. destruct i as [|i]; cbn in Hi.
      * injection Hi as <-. rewrite Forall_forall in Hall. apply Hall. eapply nth_error_In; eassumption.
      * apply (IH i j); [lia|assumption|assumption].
  - induction l as [|x t IH]; intros H; [constructor|]. constructor.
    + apply IH. intros i j a b Hij Hi Hj. apply (H (S i) (S j)); [lia|assumption|assumption].
    + rewrite Forall_forall. intros y Hy. apply In_nth_error in Hy. destruct Hy as (j & Hj).
      apply (H 0%nat (S j)); [lia|reflexivity|assumption].
Qed.

Lemma vote_realised_SS x v r : vote_realised x v r <-> StronglySorted (closer x v) r.
Proof. unfold vote_realised. symmetry. apply SS_nth. Qed.

Lemma SS_total {T} (R : T -> T -> Prop) l a b :
  StronglySorted R l -> In a l -> In b l -> a <> b -> R a b \/ R b a.
Proof.
  induction 1 as [|x t Ht IH Hall]; intros Ha Hb Hne; [destruct Ha|].
  rewrite Forall_forall in Hall. destruct Ha as [->|Ha], Hb as [->|Hb].
  - congruence.
  - left. now apply Hall.
  - right. now apply Hall.
  - now apply IH.
Qed.

Lemma SS_app {T} (R : T -> T -> Prop) l1 l2 a b :
  StronglySorted R (l1 ++ l2) -> In a l1 -> In b l2 -> R a b.
Proof.
  induction l1 as [|x t IH]; intros H Ha Hb; [destruct Ha|].
  cbn in H. inversion H as [|? ? Ht Hall]; subst. destruct Ha as [->|Ha].
  - rewrite Forall_forall in Hall. apply Hall. apply in_or_app. now right.
  - now apply IH.
Qed.

Lemma SS_sub3 {T} (R : T -> T -> Prop) l a b c :
  StronglySorted R l -> sub3 a b c l -> R a b /\ R b c.
Proof.
  intros H (l1 & l2 & l3 & l4 & ->). split.
  - apply (SS_app R (l1 ++ [a]) (l2 ++ b :: l3 ++ c :: l4)).
    + rewrite <- app_assoc. exact H.
    + apply in_or_app. right. now left.
    + apply in_or_app. right. now left.
  - apply (SS_app R (l1 ++ a :: l2 ++ [b]) (l3 ++ c :: l4)).
    + rewrite <- app_assoc. cbn. rewrite <- app_assoc. exact H.
    + apply in_or_app. right. right. apply in_or_app. right. now left.
    + apply in_or_app. right. now left.
Qed.

Lemma SS_weaken {T} (R1 R2 : T -> T -> Prop) l :
  (forall a b, In a l -> In b l -> R1 a b -> R2 a b) -> StronglySorted R1 l -> StronglySorted R2 l.
Proof.
  intros Himp H. induction H as [|x t Ht IH Hall]; [constructor|]. constructor.
  - apply IH. intros a b Ha Hb. apply Himp; now right.
  - rewrite Forall_forall in *. intros y Hy. apply Himp; [now left|now right|now apply Hall].
Qed.

Lemma SS_map {T U} (f : T -> U) (R : U -> U -> Prop) l :
  StronglySorted (fun p q => R (f p) (f q)) l -> StronglySorted R (map f l).
Proof.
  induction 1 as [|x t Ht IH Hall]; [constructor|]. cbn. constructor; [assumption|].
  rewrite Forall_forall in *. intros y Hy. apply in_map_iff in Hy. destruct Hy as (z & <- & Hz). now apply Hall.
Qed.

(* ============================================================================================== *)
(* 3. the checker                                                                                  *)
(* ============================================================================================== *)
Lemma has_pos_iff apos a : has_pos apos a = true <-> exists q, apos_lookup apos a = Some q.
Proof.
  unfold has_pos. destruct (apos_lookup apos a) as [q|]; split.
  - intros _. now exists q.
  - reflexivity.
  - discriminate.
  - intros (q & Hq). discriminate.
Qed.

Lemma dists_spec v apos r :
  match dists v apos r with
  | Some l => l = map (fun a => qdist v (posf apos a)) r /\ forall a, In a r -> has_pos apos a = true
  | None => exists a, In a r /\ has_pos apos a = false
  end.
Proof.
  induction r as [|a t IH]; cbn [dists].
  - split; [reflexivity|]. intros a [].
  - unfold has_pos, posf in *. destruct (apos_lookup apos a) as [q|] eqn:Ea.
    + destruct (dists v apos t) as [l|].
      * destruct IH as (-> & IH). split.
        -- cbn. now rewrite Ea.
        -- intros b [<-|Hb]; [now rewrite Ea|now apply IH].
      * destruct IH as (b & Hb & Hn). exists b. split; [now right|assumption].
    + exists a. split; [now left|]. now rewrite Ea.
Qed.

Lemma strictly_increasing_map {T} (f : T -> Q) (r : list T) :
  strictly_increasing (map f r) = true <-> StronglySorted (fun a b => f a < f b) r.
Proof.
  induction r as [|a t IH].
  - split; [constructor|reflexivity].
  - destruct t as [|b t'].
    + split; [|reflexivity]. intros _. constructor; constructor.
    + change (strictly_increasing (map f (a :: b :: t')))
        with (Qltb (f a) (f b) && strictly_increasing (map f (b :: t'))).
      rewrite andb_true_iff, Qltb_lt, IH. split.
      * intros (Hab & Hs). constructor; [assumption|]. constructor; [assumption|].
        inversion Hs as [|? ? _ Hall]; subst. rewrite Forall_forall in *. intros c Hc.
        apply Qlt_trans with (f b); [assumption|now apply Hall].
      * intros Hs. inversion Hs as [|? ? Ht Hall]; subst. split; [|assumption].
        rewrite Forall_forall in Hall. apply Hall. now left.
Qed.

Theorem eucl_vote_ok_correct v apos r :
  eucl_vote_ok v apos r = true <->
  (forall a, In a r -> exists q, apos_lookup apos a = Some q) /\ vote_realised (posf apos) v r.
Proof.
  unfold eucl_vote_ok. rewrite vote_realised_SS. pose proof (dists_spec v apos r) as Hd.
  destruct (dists v apos r) as [l|].
  - destruct Hd as (-> & Hp). rewrite strictly_increasing_map. unfold closer. split.
    + intros Hs. split; [|assumption]. intros a Ha. apply has_pos_iff. now apply Hp.
    + now intros (_ & Hs).
  - destruct Hd as (a & Ha & Hn). split; [discriminate|]. intros (Hp & _).
    apply Hp, has_pos_iff in Ha. congruence.
Qed.

Lemma forallb2_Forall2 {T U} (f : T -> U -> bool) l1 l2 :
  forallb2 f l1 l2 = true <-> Forall2 (fun a b => f a b = true) l1 l2.
Proof.
  revert l2. induction l1 as [|x t IH]; intros [|y t2]; cbn; split; intros H;
    try discriminate; try constructor; try (inversion H; fail).
  - apply andb_true_iff in H. tauto.
  - apply IH. apply andb_true_iff in H. tauto.
  - inversion H; subst. apply andb_true_iff. split; [assumption|now apply IH].
Qed.

Lemma Forall2_impl {T U} (P Q : T -> U -> Prop) l1 l2 :
  (forall a b, In a l1 -> In b l2 -> P a b -> Q a b) -> Forall2 P l1 l2 -> Forall2 Q l1 l2.
Proof.
  intros Himp H. induction H as [|a b t1 t2 Hab Ht IH]; constructor.
  - apply Himp; [now left|now left|assumption].
  - apply IH. intros x y Hx Hy. apply Himp; now right.
Qed.

Lemma Forall2_In_r {T U} (P : T -> U -> Prop) l1 l2 b :
  Forall2 P l1 l2 -> In b l2 -> exists a, In a l1 /\ P a b.
Proof.
  induction 1 as [|x y t1 t2 Hxy Ht IH]; intros Hb; [destruct Hb|].
  destruct Hb as [<-|Hb].
  - exists x. split; [now left|assumption].
  - destruct (IH Hb) as (a & Ha & Hp). exists a. split; [now right|assumption].
Qed.

Lemma Forall2_combine {T U} (P : T -> U -> Prop) l1 l2 a b :
  Forall2 P l1 l2 -> In (a, b) (combine l1 l2) -> P a b.
Proof.
  induction 1 as [|x y t1 t2 Hxy Ht IH]; cbn; intros Hin; [destruct Hin|].
  destruct Hin as [E|Hin]; [injection E as <- <-; assumption|now apply IH].
Qed.

Lemma Forall2_length {T U} (P : T -> U -> Prop) l1 l2 : Forall2 P l1 l2 -> length l1 = length l2.
Proof. induction 1; cbn; congruence. Qed.

(* ---- the witness checker accepts exactly the maps that realise the profile ---- *)
Theorem eucl_check_correct alts profile vpos apos :
  eucl_check alts profile vpos apos = true <-> Realised alts profile vpos apos.
Proof.
  unfold eucl_check, Realised, realises. rewrite !andb_true_iff, forallb_forall, forallb2_Forall2. split.
  - intros ((Ha & Hlen) & Hf). split; [|split].
    + intros a Hin. apply has_pos_iff. now apply Ha.
    + intros r a Hr Hin. destruct (Forall2_In_r _ _ _ r Hf Hr) as (v & _ & Hv).
      apply eucl_vote_ok_correct in Hv. now apply Hv.
    + eapply Forall2_impl; [|exact Hf]. cbn. intros v r _ _ Hv. now apply eucl_vote_ok_correct in Hv.
  - intros (Ha & Hr & Hf). split; [split|].
    + intros a Hin. apply has_pos_iff. now apply Ha.
    + apply Nat.eqb_eq. eapply Forall2_length; eassumption.
    + eapply Forall2_impl; [|exact Hf]. cbn. intros v r _ Hin Hv. apply eucl_vote_ok_correct.
      split; [|assumption]. intros a Hain. now apply (Hr r).
Qed.

(* a map accepted by the checker proves the profile 1-Euclidean: the justification of the positive oracle
   (planted profiles: the generator's own integer embedding is accepted) and of "True answers are sound" *)
Theorem planted_sound alts profile vpos apos :
  eucl_check alts profile vpos apos = true -> Euclidean profile.
Proof.
  intros H. apply eucl_check_correct in H. destruct H as (_ & _ & H). now exists (posf apos), vpos.
Qed.

(* ============================================================================================== *)
(* 4. the specification does not depend on the storage order of the ballots                        *)
(* ============================================================================================== *)
Lemma Forall2_perm_r {T U} (P : T -> U -> Prop) l1 l2 l2' :
  Forall2 P l1 l2 -> Permutation l2 l2' -> exists l1', Permutation l1 l1' /\ Forall2 P l1' l2'.
Proof.
  intros H HP. revert l1 H. induction HP as [|y t t' HP IH|y z t|l l' l'' HP1 IH1 HP2 IH2]; intros l1 H.
  - inversion H; subst. exists []. split; constructor.
  - inversion H as [|x ? t1 ? Hxy Ht]; subst. destruct (IH _ Ht) as (t1' & Hp & Hf).
    exists (x :: t1'). split; [now constructor|now constructor].
  - inversion H as [|x ? t1 ? Hxy Ht]; subst. inversion Ht as [|x2 ? t2 ? Hxz Ht2]; subst.
    exists (x2 :: x :: t2). split; [apply perm_swap|]. constructor; [assumption|]. now constructor.
  - destruct (IH1 _ H) as (m1 & Hp1 & Hf1). destruct (IH2 _ Hf1) as (m2 & Hp2 & Hf2).
    exists m2. split; [eapply Permutation_trans; eassumption|assumption].
Qed.

Theorem Euclidean_perm profile profile' : Permutation profile profile' -> Euclidean profile -> Euclidean profile'.
Proof.
  intros HP (x & vpos & H). destruct (Forall2_perm_r _ _ _ _ H HP) as (vpos' & _ & H').
  now exists x, vpos'.
Qed.

(* ============================================================================================== *)
(* 5. necessary condition 1: single-peaked on the alternatives sorted by position                  *)
(* ============================================================================================== *)
Definition ranked_on (alts : list N) (profile : list (list N)) : Prop :=
  Forall (fun r => Permutation alts r) profile.

(* distinct alternatives sit at distinct points as soon as one voter ranks them all strictly *)
Lemma realised_distinct x v r a b :
  vote_realised x v r -> In a r -> In b r -> a <> b -> ~ x a == x b.
Proof.
  intros Hr Ha Hb Hne E. apply vote_realised_SS in Hr.
  pose proof (qdist_eq v _ _ E) as Ed.
  destruct (SS_total _ _ _ _ Hr Ha Hb Hne) as [H|H]; unfold closer in H; lra.
Qed.

(* core geometric lemma: every top-k set of a realised vote is an interval of any axis sorted by position *)
Lemma topk_contiguous x v r axis k :
  NoDup axis -> Permutation axis r -> StronglySorted (fun a b => x a <= x b) axis ->
  vote_realised x v r -> contiguous (firstn k r) axis.
Proof.
  intros Hnd HP Hax Hr. apply vote_realised_SS in Hr.
  apply contiguous_iff_ones; [assumption|]. split.
  - apply ones_consec_iff_no_tft. intros Hs.
    apply sub3_map_inv in Hs. destruct Hs as (a & b & c & Hs & Ha & Hb & Hc).
    destruct (SS_sub3 _ _ _ _ _ Hax Hs) as (Hab & Hbc).
    apply Contig.memN_In in Ha, Hc. apply Contig.memN_false in Hb.
    assert (Hbr : In b (skipn k r)).
    { assert (Hin : In b r).
      { eapply Permutation_in; [exact HP|]. destruct Hs as (l1 & l2 & l3 & l4 & ->).
        apply in_or_app. right. right. apply in_or_app. right. now left. }
      rewrite <- (firstn_skipn k r) in Hin. apply in_app_or in Hin. tauto. }
    rewrite <- (firstn_skipn k r) in Hr.
    pose proof (SS_app _ _ _ _ _ Hr Ha Hbr) as H1. pose proof (SS_app _ _ _ _ _ Hr Hc Hbr) as H2.
    unfold closer in H1, H2.
    destruct (between_not_farther v _ _ _ Hab Hbc); lra.
  - intros a Ha. eapply Permutation_in; [apply Permutation_sym; exact HP|].
    rewrite <- (firstn_skipn k r). apply in_or_app. now left.
Qed.

Lemma sorted_axis_exists (x : N -> Q) (alts : list N) :
  exists axis, Permutation alts axis /\ StronglySorted (fun a b => x a <= x b) axis.
Proof.
  apply sort_exists.
  - intros a b c. apply Qle_trans.
  - intros a b _ _. destruct (Qlt_le_dec (x a) (x b)); [left; lra|now right].
Qed.

Theorem eucl_implies_sp alts profile x vpos :
  NoDup alts -> ranked_on alts profile -> profile <> [] -> realises x vpos profile ->
  (forall a b, In a alts -> In b alts -> a <> b -> ~ x a == x b) /\
  exists axis, Permutation alts axis /\ StronglySorted (fun a b => x a < x b) axis /\ SP_axis profile axis.
Proof.
  intros Hnd Hrk Hne Hre. unfold ranked_on in Hrk. rewrite Forall_forall in Hrk.
  assert (Hdist : forall a b, In a alts -> In b alts -> a <> b -> ~ x a == x b).
  { destruct profile as [|r0 t]; [congruence|].
    destruct (Forall2_In_r _ _ _ r0 Hre (or_introl eq_refl)) as (v0 & _ & Hv0).
    intros a b Ha Hb. apply (realised_distinct x v0 r0); [assumption| |];
      (eapply Permutation_in; [apply Hrk; now left|assumption]). }
  split; [exact Hdist|].
  destruct (sorted_axis_exists x alts) as (axis & HP & Hs). exists axis. split; [assumption|].
  assert (Hnda : NoDup axis) by (eapply Permutation_NoDup; eassumption).
  split.
  - clear Hre Hrk. revert Hnda. assert (Hin : incl axis alts).
    { intros a Ha. eapply Permutation_in; [apply Permutation_sym; exact HP|assumption]. }
    clear HP. induction Hs as [|a t Ht IH Hall]; intros Hnda; [constructor|].
    inversion Hnda as [|? ? Hnin Hnd']; subst. constructor.
    + apply IH; [|assumption]. intros b Hb. apply Hin. now right.
    + rewrite Forall_forall in *. intros b Hb. specialize (Hall b Hb).
      assert (Hab : a <> b) by (intros ->; contradiction).
      assert (Hd : ~ x a == x b) by (apply Hdist; [apply Hin; now left|apply Hin; now right|assumption]).
      destruct (Qlt_le_dec (x a) (x b)) as [Hlt|Hle]; [assumption|]. exfalso. apply Hd. lra.
  - intros r Hr k. destruct (Forall2_In_r _ _ _ r Hre Hr) as (v & _ & Hv).
    apply (topk_contiguous x v); try assumption.
    eapply Permutation_trans; [apply Permutation_sym; exact HP|now apply Hrk].
Qed.

Corollary Euclidean_SP alts profile : NoDup alts -> ranked_on alts profile -> Euclidean profile -> SP alts profile.
Proof.
  intros Hnd Hrk (x & vpos & H). destruct profile as [|r0 t].
  - exists alts. split; [apply Permutation_refl|]. intros r [].
  - destruct (eucl_implies_sp alts (r0 :: t) x vpos Hnd Hrk) as (_ & axis & HP & _ & Hsp);
      [discriminate|assumption|]. now exists axis.
Qed.

(* ============================================================================================== *)
(* 6. necessary condition 2: single-crossing on the voters sorted by position                      *)
(* ============================================================================================== *)
Lemma prefers_closer (R : N -> N -> Prop) r a b :
  StronglySorted R r -> In b r -> prefers r a b = true -> R a b.
Proof.
  induction 1 as [|y t Ht IH Hall]; intros Hb Hp; [destruct Hb|].
  cbn in Hp. destruct (N.eqb y a) eqn:Eya.
  - apply N.eqb_eq in Eya. subst y. destruct (N.eqb a b) eqn:Eab; [discriminate|].
    apply N.eqb_neq in Eab. destruct Hb as [->|Hb]; [congruence|].
    rewrite Forall_forall in Hall. now apply Hall.
  - destruct (N.eqb y b) eqn:Eyb; [discriminate|]. apply N.eqb_neq in Eyb.
    destruct Hb as [->|Hb]; [congruence|]. now apply IH.
Qed.

Lemma prefers_total r a b : In a r -> In b r -> a <> b -> prefers r a b = false -> prefers r b a = true.
Proof.
  induction r as [|y t IH]; intros Ha Hb Hne Hp; [destruct Ha|].
  cbn in *. destruct (N.eqb y a) eqn:Eya.
  - apply N.eqb_eq in Eya. subst y. destruct (N.eqb a b) eqn:Eab; [|discriminate].
    apply N.eqb_eq in Eab. congruence.
  - apply N.eqb_neq in Eya. destruct (N.eqb y b) eqn:Eyb.
    + reflexivity.
    + apply N.eqb_neq in Eyb. apply IH; try assumption.
      * destruct Ha; [congruence|assumption].
      * destruct Hb; [congruence|assumption].
Qed.

Lemma map_snd_combine {T U} (l1 : list T) (l2 : list U) : length l1 = length l2 -> map snd (combine l1 l2) = l2.
Proof.
  revert l2. induction l1 as [|x t IH]; intros [|y t2] H; cbn in *; try congruence; try discriminate.
  f_equal. apply IH. congruence.
Qed.

(* the voters sorted by position form a single-crossing sequence: for x_a < x_b a voter prefers a to b
   iff it sits left of the midpoint, so "prefers b" is upward closed along the sorted voters *)
Theorem eucl_implies_sc alts profile x vpos :
  NoDup alts -> ranked_on alts profile -> realises x vpos profile ->
  exists ps, Permutation (combine vpos profile) ps /\
             StronglySorted (fun p q => fst p <= fst q) ps /\
             Permutation profile (map snd ps) /\
             single_crossing_seq alts (map snd ps).
Proof.
  intros Hnd Hrk Hre. unfold ranked_on in Hrk. rewrite Forall_forall in Hrk.
  destruct (sort_exists (fun p q : Q * list N => fst p <= fst q) (combine vpos profile)) as (ps & HP & Hs).
  { intros a b c. apply Qle_trans. }
  { intros a b _ _. destruct (Qlt_le_dec (fst a) (fst b)); [left; lra|now right]. }
  exists ps. split; [assumption|]. split; [assumption|].
  assert (Hperm : Permutation profile (map snd ps)).
  { rewrite <- (map_snd_combine vpos profile) at 1; [now apply Permutation_map|].
    eapply Forall2_length; eassumption. }
  split; [assumption|].
  assert (Hps : forall p r, In (p, r) ps -> Permutation alts r /\ StronglySorted (closer x p) r).
  { intros p r Hin. apply (Permutation_in _ (Permutation_sym HP)) in Hin. split.
    - apply Hrk. eapply in_combine_r; eassumption.
    - apply vote_realised_SS. eapply Forall2_combine; eassumption. }
  destruct ps as [|[p0 r0] ps'].
  { intros a b _ _ _. cbn. lia. }
  assert (Hdist : forall a b, In a alts -> In b alts -> a <> b -> ~ x a == x b).
  { destruct (Hps p0 r0 (or_introl eq_refl)) as (Hp0 & Hr0). intros a b Ha Hb.
    apply (realised_distinct x p0 r0); [now apply vote_realised_SS| |]; eapply Permutation_in; eassumption. }
  apply sc_seq_of_monotone. intros a b Ha Hb Hne.
  assert (Hkey : forall v : bool, (if v then x b < x a else x a < x b) ->
            StronglySorted (fun o1 o2 => prefers o1 a b = v -> prefers o2 a b = v) (map snd (((p0, r0)) :: ps'))).
  { intros v Hv. apply SS_map. eapply SS_weaken; [|exact Hs]. cbn beta.
    intros [p1 r1] [p2 r2] H1 H2 Hle E1. cbn [fst snd] in *.
    destruct (Hps _ _ H1) as (HP1 & HS1). destruct (Hps _ _ H2) as (HP2 & HS2).
    assert (Ha1 : In a r1) by (eapply Permutation_in; eassumption).
    assert (Hb1 : In b r1) by (eapply Permutation_in; eassumption).
    assert (Ha2 : In a r2) by (eapply Permutation_in; eassumption).
    assert (Hb2 : In b r2) by (eapply Permutation_in; eassumption).
    destruct v.
    - (* x b < x a : preferring a means sitting right of the midpoint *)
      apply (prefers_closer _ _ _ _ HS1 Hb1) in E1. unfold closer in E1.
      apply (closer_right_iff p1 _ _ Hv) in E1.
      destruct (prefers r2 a b) eqn:E2; [reflexivity|]. exfalso.
      apply (prefers_total _ _ _ Ha2 Hb2 Hne) in E2.
      apply (prefers_closer _ _ _ _ HS2 Ha2) in E2. unfold closer in E2.
      apply (closer_left_iff p2 _ _ Hv) in E2. lra.
    - (* x a < x b : not preferring a means sitting right of the midpoint *)
      apply (prefers_total _ _ _ Ha1 Hb1 Hne) in E1.
      apply (prefers_closer _ _ _ _ HS1 Ha1) in E1. unfold closer in E1.
      apply (closer_right_iff p1 _ _ Hv) in E1.
      destruct (prefers r2 a b) eqn:E2; [|reflexivity]. exfalso.
      apply (prefers_closer _ _ _ _ HS2 Hb2) in E2. unfold closer in E2.
      apply (closer_left_iff p2 _ _ Hv) in E2. lra. }
  destruct (Q_dec (x a) (x b)) as [[Hlt|Hgt]|Heq].
  - exists false. now apply Hkey.
  - exists true. now apply Hkey.
  - exfalso. now apply (Hdist a b).
Qed.

Corollary Euclidean_SC alts profile : NoDup alts -> ranked_on alts profile -> Euclidean profile -> SC alts profile.
Proof.
  intros Hnd Hrk (x & vpos & H). destruct (eucl_implies_sc alts profile x vpos Hnd Hrk H) as (ps & _ & _ & HP & Hsc).
  now exists (map snd ps).
Qed.

(* ============================================================================================== *)
(* 7. the refuter                                                                                  *)
(* ============================================================================================== *)
Theorem C19_refute_sound alts profile :
  NoDup alts -> ranked_on alts profile ->
  sp_decide alts profile = false \/ sc_decide alts profile = false -> ~ Euclidean profile.
Proof.
  intros Hnd Hrk [H|H] HE.
  - apply (Euclidean_SP alts profile Hnd Hrk) in HE. apply (sp_decide_correct alts profile Hnd Hrk) in HE. congruence.
  - apply (Euclidean_SC alts profile Hnd Hrk) in HE. apply sc_decide_correct in HE. congruence.
Qed.

Theorem eucl_refuted_sound alts profile :
  NoDup alts -> ranked_on alts profile -> eucl_refuted alts profile = true -> ~ Euclidean profile.
Proof.
  intros Hnd Hrk H. apply (C19_refute_sound alts profile Hnd Hrk).
  unfold eucl_refuted in H. apply orb_true_iff in H. rewrite !negb_true_iff in H. exact H.
Qed.

Theorem eucl_refuted_fast_eq alts profile : eucl_refuted_fast alts profile = eucl_refuted alts profile.
Proof. unfold eucl_refuted_fast, eucl_refuted. now rewrite sc_conflict_decide_eq. Qed.

(* no map can be accepted for a refuted profile: the two oracles of the correspondence are consistent *)
Corollary refuted_no_witness alts profile vpos apos :
  NoDup alts -> ranked_on alts profile -> eucl_refuted alts profile = true ->
  eucl_check alts profile vpos apos = false.
Proof.
  intros Hnd Hrk H. destruct (eucl_check alts profile vpos apos) eqn:E; [|reflexivity].
  exfalso. apply (eucl_refuted_sound alts profile Hnd Hrk H). eapply planted_sound; eassumption.
Qed.

(* ============================================================================================== *)
(* 8. relabeling (for C15): the specification only depends on the labels through the placement     *)
(* ============================================================================================== *)
Lemma vote_realised_relabel (f : N -> N) x v r :
  vote_realised x v (map f r) -> vote_realised (fun a => x (f a)) v r.
Proof.
  intros H i j a b Hij Hi Hj. unfold closer. apply (H i j (f a) (f b) Hij).
  - rewrite nth_error_map, Hi. reflexivity.
  - rewrite nth_error_map, Hj. reflexivity.
Qed.

Theorem Euclidean_relabel (f : N -> N) profile : Euclidean (map (map f) profile) -> Euclidean profile.
Proof.
  intros (x & vpos & H). exists (fun a => x (f a)), vpos. unfold realises in *.
  remember (map (map f) profile) as q eqn:Eq. revert profile Eq.
  induction H as [|v r' vs q' Hv Hq IH]; intros profile Eq.
  - destruct profile; [constructor|discriminate].
  - destruct profile as [|r t]; [discriminate|]. cbn in Eq. injection Eq as -> ->.
    constructor; [now apply vote_realised_relabel|now apply IH].
Qed.

Corollary Euclidean_relabel_iff (f g : N -> N) profile :
  (forall a, g (f a) = a) -> (Euclidean (map (map f) profile) <-> Euclidean profile).
Proof.
  intros Hgf. split; [apply Euclidean_relabel|]. intros H. apply (Euclidean_relabel g).
  rewrite map_map. rewrite (map_ext _ (fun r => r)); [now rewrite map_id|].
  intros r. rewrite map_map. rewrite (map_ext _ (fun a => a)); [apply map_id|assumption].
Qed.
