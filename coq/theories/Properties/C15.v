(* Properties/C15.v — results do not depend on alternative labels or on ballot storage order.
   Statements only.  (first version: re-exports of the invariance lemmas of the owners' proof files) *)
From Coq Require Import List Arith NArith ZArith Bool Permutation.
From PrefVerif Require Import Lib.Val Model.Relabel.
From PrefVerif Require Model.SP Model.SC Model.Tree Model.Deletion Model.Partition.
From PrefVerif Require Proofs.SP Proofs.SC Proofs.Tree Proofs.Deletion Proofs.Partition Proofs.Relabel.
Import ListNotations.

Definition injective (f : N -> N) : Prop := forall x y, f x = f y -> x = y.

(* ---- single-peaked (strict: sp_decide; weak orders: spw_decide) ---- *)
Theorem sp_decide_relabel : forall f, injective f -> forall alts rs,
  SP.sp_decide (map_alts f alts) (map_rankings f rs) = SP.sp_decide alts rs.
Proof. exact Proofs.SP.sp_decide_relabel. Qed.
Print Assumptions sp_decide_relabel.
