"""C01 — ordinal files survive write -> parse unchanged (OrdinalInstance.write / parse, parse_metadata).

The extracted model (Model/OrdIO.v: ord_write, ord_parse, tokenize) is the independent reader / writer of the
documented format.  Kinds of cases:
  c01.file       payload = instance;       write / re-parse through the four entry points (constructor with path,
                 parse_file, get_parsed_instance, parse_str; each twice) / write each re-parsed object again /
                 accessors called and their results spoiled / second write of the same object; model on the same data
  c01.pair       payload = (A B), two different instances of one extension over the same ids: inside ONE worker call
                 and per entry point: a malformed file is rejected, A is written + parsed, B is written + parsed, A's
                 parsed object is looked at and written again (shared state between objects of one process)
  c01.tokenize   payload = text;           re.findall(order_pattern) against the model's state machine
  c01.history    payload = (instance steps); one object: write, then change multiplicities / append_order(_list) /
                 re-parse the last file, write again after every step: each file = model-write of the current fields
  c01.parse_text payload = (autocorrect header_only mode data_type text); parse_str / parse_file with flags on
                 clean and dirty content against ord_parse (prepares C10 / C16)
"""
import os
import random
import re
import shutil
import tempfile

from core import proto, oracle
from .common import case, guarded, weak_orders, snapshot, snap_diff

ID = "C01"
COVER_FILES = ['instances/preflibinstance/ordinal.py', 'instances/preflibinstance/instance.py']
RULE = ("exhaustive: every weak order (ordered partition) of every non-empty subset of {1..m}, m <= 3 (quick) / 4 "
        "(thorough), as a one-ballot instance x the four data types, and every ordered pair of distinct such orders "
        "(m <= 3) with equal multiplicities (stability of the sort); random: up to 12 alternatives, ids up to 10^18, "
        "multiplicities from a small pool (ties in the sort key), Unicode names / metadata incl. '#', ':', '{', ',', "
        "'}', colons with and without blanks ('closed 18:00', 'key: value', 'a :b'), header look-alikes, empty names and "
        "fields; stability blocks (equal multiplicity and equal number of classes in every insertion order); histories "
        "on one object (set multiplicities / append_order / append_order_list / re-parse through any entry point / "
        "accessors with spoiled results / recompute_cardinality_param / storage orders decoupled; write after every "
        "step); pairs of instances of one extension in one process through all four entry points; names not in "
        "ascending id order, multiplicity keys not in list order, numpy.int64 ids and multiplicities, double blanks / "
        "tabs / U+00A0 inside values; "
        "tokenizer on well-formed and malformed ballot strings; parse with "
        "autocorrect / header_only on clean and dirty content. non-trivial = a file case with >= 2 ballots and at "
        "least one class of size != 1")
EXHAUSTIVE = {"quick": "all tie arrangements over subsets of {1..3}: 25 orders x 4 types, all 600 ordered pairs",
              "thorough": "all tie arrangements over subsets of {1..4}: 149 orders x 4 types; all ordered pairs for "
                          "m <= 3 x 4 types; pairs for m = 4 sampled"}
TRUSTED = ["modelled: OrdinalInstance.write / parse, PrefLibInstance.parse_lines / parse_metadata / write_metadata; "
           "the UTF-8 codec and universal-newline reading of open() are exercised (files are really written and "
           "read) but not modelled below code points; CPython's regex engine is compared with the model's tokenizer "
           "on generated strings",
           "int() / \\d are modelled on ASCII digits only (no sign, underscore, non-ASCII decimal digit)"]
ASSUMPTIONS = ["well-formed instance: >= 1 order, non-empty classes, multiplicity keys = orders (duplicate-free), "
               "multiplicities >= 1, metadata / names single-line without outer whitespace (may be empty), distinct "
               "alternative ids, data_type in soc/soi/toc/toi",
               "an instance whose multiplicity dict lists its keys in another order than the orders list is the same "
               "instance: the model is asked about the aligned listing (its wf_ord wants the two lists aligned), the "
               "implementation gets the decoupled one",
               "write(filepath) replaces an empty file_name by the basename of the path (documented); the round trip "
               "is stated for the instance as it is after that step",
               "generated text excludes the ten line-boundary characters, outer whitespace, lone surrogates and "
               "non-ASCII decimal digits in numeric positions"]
TIMEOUT_S = 60.0
CHUNK = 20

WORK = os.path.join(oracle.VERIF, ".work")
TYPES = ["soc", "soi", "toc", "toi"]
PATTERN = re.compile(r"\{[\d,]+?\}|[\d,]+")
FIELDS = ["file_name", "title", "description", "data_type", "modification_type", "relates_to", "related_files",
          "publication_date", "modification_date"]

T = proto.text
U = proto.untext
ENTRIES = ["constructor", "parse_file", "get_parsed_instance", "parse_str"]


# ---------------------------------------------------------------------------------------------------
# instance <-> payload
# ---------------------------------------------------------------------------------------------------
def payload_instance(fields, na, nv, names, nu, orders, mult):
    """fields: dict name -> str"""
    return [[T(fields.get(f, "")) for f in FIELDS], na, nv, [[a, T(n)] for a, n in names], nu,
            [[list(c) for c in o] for o in orders], [[[list(c) for c in o], m] for o, m in mult]]


def build_instance(pl, np_numbers=False):
    """direct field assignment, the way the parser leaves an instance (np_numbers: ids and multiplicities are
    numpy.int64, as a tally made with numpy hands them over)"""
    from preflibtools.instances import OrdinalInstance
    inst = OrdinalInstance()
    f, na, nv, names, nu, orders, mult = pl
    if np_numbers:
        import numpy as np
        orders = [[[np.int64(a) for a in cl] for cl in o] for o in orders]
        mult = [[[[np.int64(a) for a in cl] for cl in o], np.int64(m)] for o, m in mult]
        names = [[np.int64(a), n] for a, n in names]
    for name, v in zip(FIELDS, f):
        setattr(inst, name, U(v))
    inst.num_alternatives = na
    inst.num_voters = nv
    for a, n in names:
        inst.alternatives_name[a] = U(n)
    inst.num_unique_orders = nu
    for o in orders:
        inst.orders.append(tuple(tuple(c) for c in o))
    for o, m in mult:
        inst.multiplicity[tuple(tuple(c) for c in o)] = m
    return inst


def dump_instance(inst):
    return proto.norm([[T(getattr(inst, f)) for f in FIELDS], inst.num_alternatives, inst.num_voters,
                       [[a, T(n)] for a, n in inst.alternatives_name.items()], inst.num_unique_orders,
                       [[list(c) for c in o] for o in inst.orders],
                       [[[list(c) for c in o], m] for o, m in inst.multiplicity.items()]])


def canon(d):
    """observable content of a dumped instance: names and multiplicity as dicts (sorted items)"""
    f, na, nv, names, nu, orders, mult = d
    return [f, na, nv, sorted(names), nu, orders, sorted(mult)]


def canon_noorder(d):
    c = canon(d)
    c[5] = sorted(c[5])
    return c


def norm_mult(pl):
    """the same instance with the multiplicity items listed in the order of the orders list (a dict has no
    order as far as its content goes; the model's wf_ord wants the two lists aligned)"""
    pos = {repr(o): k for k, o in enumerate(pl[5])}
    return list(pl[:6]) + [sorted(pl[6], key=lambda it: pos.get(repr(it[0]), len(pos)))]


def with_default_name(pl, base):
    pl = [list(pl[0])] + list(pl[1:])
    if not pl[0][0]:
        pl[0][0] = T(base)
    return pl


# ---------------------------------------------------------------------------------------------------
# generators
# ---------------------------------------------------------------------------------------------------
SPECIAL = list("#:{,}") + list("#:{,}") + list("abcXYZ019_-./()'\"!?*") + list("éßλЖ漢字")
SPECIAL += ["\U0001F600", " ", " ", " ", "\t", "\x1f", "\u00a0", "\u0663", "\ufeff", "\u200b", "\u3000", "\u2003"]



TRICKY = ["closed 18:00", "https://x.y/z", "a :b", "3:1", "key: value", ":", "::", ": x", "x :", "a:", "# x", "#",
          "# TITLE: t", "# ALTERNATIVE NAME 1: z", "# NUMBER VOTERS: 9", "{1,2}", "{", "}", "{}", "a, b", ",", "1, 2",
          "1: 1, 2", "2: {1, 2}", "x__1", "X__1", "  inner  spaces ".strip(), "First sentence.  Second sentence", "Poll\t2024",
          "10\u00a0000 voters", "a  b\t\tc", "thin\u2009space", "wide\u3000gap", "x \t y", "tab\there", "0", "007", "-1"]


def rand_text(rng, maxlen=12, p_empty=0.15):
    if rng.random() < p_empty:
        return ""
    if rng.random() < 0.25:
        return rng.choice(TRICKY)
    n = rng.randint(1, maxlen)
    s = "".join(rng.choice(SPECIAL) for _ in range(n))
    s = s.strip()
    # str.strip() is exactly "no outer whitespace"
    return s


def all_orders(m):
    import itertools
    out = []
    for k in range(1, m + 1):
        for sub in itertools.combinations(range(1, m + 1), k):
            out.extend(weak_orders(sub))
    return out


def simple_instance(orders_mult, dt, rng=None, names=None, fields=None, counts=None):
    alts = []
    for o, _ in orders_mult:
        for c in o:
            for a in c:
                if a not in alts:
                    alts.append(a)
    if names is None:
        names = [(a, "Alternative %d" % a) for a in sorted(alts)]
    f = {"file_name": "x." + dt, "title": "T", "data_type": dt}
    if fields:
        f.update(fields)
    na, nv, nu = len(names), sum(m for _, m in orders_mult), len(orders_mult)
    if counts:
        na, nv, nu = counts
    return payload_instance(f, na, nv, names, nu, [o for o, _ in orders_mult], orders_mult)


def rand_order(rng, ids):
    a = list(ids)
    rng.shuffle(a)
    a = a[: rng.randint(1, len(a))]
    p_tie = rng.choice([0.0, 0.3, 0.6, 1.0])
    out = [[a[0]]]
    for x in a[1:]:
        if rng.random() < p_tie:
            out[-1].append(x)
        else:
            out.append([x])
    return out


def rand_instance(rng):
    m = rng.randint(1, 12)
    top = 10 ** rng.choice([1, 2, 6, 18])
    ids = rng.sample(range(0, top + 20), m)
    n = rng.randint(1, 8)
    pool = rng.choice([[1], [1, 2], [3, 3, 7], [1, 10 ** 12, 5]])
    orders = []
    for _ in range(n * 2):
        o = rand_order(rng, ids)
        if o not in orders:
            orders.append(o)
        if len(orders) >= n:
            break
    om = [(o, rng.choice(pool)) for o in orders]
    dt = rng.choice(TYPES)
    fields = {k: rand_text(rng, 14, 0.3) for k in FIELDS}
    fields["data_type"] = dt
    if rng.random() < 0.5:
        fields["file_name"] = rand_text(rng, 8, 0.3)
    nameids = list(ids)
    if rng.random() < 0.3:
        nameids = nameids[: rng.randint(0, len(nameids))]
    if rng.random() < 0.3:
        rng.shuffle(nameids)
    names = [(a, rand_text(rng, 10, 0.2)) for a in nameids]
    counts = None
    if rng.random() < 0.2:   # the three counts are copied, they need not agree with the ballots
        # (num_alternatives stays small: a writer that loops over range(num_alternatives) must not cost gigabytes)
        counts = (rng.randint(0, 40), rng.randint(0, 10 ** 20), rng.randint(0, 50))
    pl = simple_instance(om, dt, names=names, fields=fields, counts=counts)
    if rng.random() < 0.35 and len(pl[6]) > 1:     # multiplicity key order decoupled from the orders list
        mu = list(pl[6])
        rng.shuffle(mu)
        pl[6] = mu
    return pl


def rand_pair(rng):
    """two different instances of the same extension over the same ids, sharing at least one order with a different
    multiplicity, different names"""
    m = rng.randint(2, 5)
    ids = rng.sample(range(1, 20), m)
    dt = rng.choice(TYPES)

    def one(tag, shared):
        orders = [shared]
        for _ in range(rng.randint(0, 3)):
            o = rand_order(rng, ids)
            if o not in orders:
                orders.append(o)
        rng.shuffle(orders)
        nameids = list(ids)
        rng.shuffle(nameids)
        return simple_instance([(o, rng.choice([1, 2, 3, 7])) for o in orders], dt,
                               names=[(a, "%s%d" % (tag, a)) for a in nameids],
                               fields={"title": (tag + " " + rand_text(rng, 6)).strip(), "file_name": tag + "." + dt})
    shared = rand_order(rng, ids)
    a = one("A", shared)
    b = one("B", shared)
    for it in b[6]:
        if it[0] == shared:
            it[1] = 11
    b[2] = sum(mu for _, mu in b[6])
    return [a, b]


def rand_history(rng):
    """instance + steps: [0, [[order, mult], ...]] set multiplicities (ranking changes); [1, order] append_order_list;
    [2, ids] append_order (strict); [3, e] replace the object by a re-parse of the last written file through entry
    point e; [4] call the accessors vote_map / full_profile / flatten_strict and poison what they return;
    [5] recompute_cardinality_param(); [6] decouple the storage orders (reverse the orders list, pop and re-insert the
    first multiplicity key, rebuild alternatives_name in reverse)"""
    m = rng.randint(2, 5)
    ids = rng.sample(range(1, 12), m)
    orders = []
    for _ in range(rng.randint(1, 4)):
        o = rand_order(rng, ids)
        if o not in orders:
            orders.append(o)
    base = simple_instance([(o, rng.choice([1, 2, 2, 5])) for o in orders], rng.choice(TYPES),
                           fields={"title": rand_text(rng, 8), "description": rand_text(rng, 8)})
    steps = []
    cur = list(orders)
    for _ in range(rng.randint(2, 5)):
        r = rng.random()
        if r < 0.35:
            steps.append([0, [[o, rng.choice([1, 2, 3, 9])] for o in cur]])
        elif r < 0.5:
            o = rand_order(rng, ids + [rng.randint(12, 15)])
            steps.append([1, o])
            if o not in cur:
                cur.append(o)
        elif r < 0.65:
            a = list(ids)
            rng.shuffle(a)
            a = a[: rng.randint(1, len(a))]
            steps.append([2, a])
            o = [[x] for x in a]
            if o not in cur:
                cur.append(o)
        elif r < 0.86:
            steps.append([3, rng.randrange(4)])
            # parsing lists the ballots in file order; the generator does not need to track that
        elif r < 0.93:
            steps.append([4])
        elif r < 0.96:
            steps.append([5])
        else:
            steps.append([6])
    return [base, steps]


TOK_ALPHA = list("0123456789") + list(",,,,{{{}}}") + list(":x #-")


def rand_ballot_string(rng):
    n = rng.randint(0, 14)
    return "".join(rng.choice(TOK_ALPHA) for _ in range(n))


def wf_ballot_string(rng):
    ids = rng.sample(range(0, 10 ** rng.choice([1, 3, 18])), rng.randint(1, 6))
    o = rand_order(rng, ids)
    s = ""
    for c in o:
        s += (str(c[0]) if len(c) == 1 else "{" + ",".join(map(str, c)) + "}") + ","
    return s.strip(",")


PAD = ["", "", "", "", "", " ", "  ", "\t", "\u00a0", "\u2003 ", "\x1f", "\u3000"]
PAD_BREAKS = PAD + ["\x0c", "\x1c", "\u2028", "\x85"]      # line boundaries for splitlines() only


def dirty_text(rng):
    """file content with repeated ballot lines, wrong counts, repeated names (incl. X__1 look-alikes), odd
    spacing / line endings, and sometimes malformed lines"""
    dt = rng.choice(TYPES)
    m = rng.randint(1, 5)
    ids = rng.sample(range(1, 30), m)
    namepool = ["X", "X", "X__1", "X__2", "Y", "", "X__1__1", "Y__1"]
    lines = []
    hdr = [("# FILE NAME: ", "f." + dt), ("# TITLE: ", rand_text(rng, 6)), ("# DESCRIPTION: ", rand_text(rng, 6)),
           ("# DATA TYPE: ", dt), ("# MODIFICATION TYPE: ", "original"), ("# RELATES TO: ", ""),
           ("# RELATED FILES: ", ""), ("# PUBLICATION DATE: ", "2020-01-01"), ("# MODIFICATION DATE: ", "")]
    for k, v in hdr:
        if rng.random() < 0.9:
            lines.append(k + v)
    if rng.random() < 0.1:
        lines.append("# SOMETHING ELSE: 3")
    lines.append("# NUMBER ALTERNATIVES: %d" % rng.choice([m, m, 0, 99]))
    lines.append("# NUMBER VOTERS: %d" % rng.randint(0, 40))
    lines.append("# NUMBER UNIQUE ORDERS: %s" % rng.choice(["3", "0", "12", "007", " 5"]))
    nameids = list(ids)
    if rng.random() < 0.3:
        nameids.append(rng.choice(ids))       # an id named twice
    for a in nameids:
        sep = rng.choice([": ", ": ", ":", ":  ", ":\t", ": \t", ":\u00a0"])
        lines.append("# ALTERNATIVE NAME %d%s%s" % (a, sep, rng.choice(namepool)))
    if rng.random() < 0.05:
        lines.append("# ALTERNATIVE NAME x: broken")
    ballots = []
    nb = rng.choice([0, 1, 2, 3, 4, 6])
    pool = [rand_order(rng, ids) for _ in range(max(1, nb // 2 + 1))]
    for _ in range(nb):
        o = rng.choice(pool)
        s = ""
        for c in o:
            s += (str(c[0]) if len(c) == 1 else "{" + ", ".join(map(str, c)) + "}") + ", "
        s = s.strip(", ")
        mult = rng.choice([1, 2, 5, 10 ** 15])
        sp = rng.choice([" ", "", "   "])
        ballots.append("%d:%s%s" % (mult, sp, s.replace(" ", sp) if rng.random() < 0.3 else s))
    r = rng.random()
    if r < 0.06 and ballots:
        ballots[rng.randrange(len(ballots))] = rng.choice(["3 1,2", "1:2:3", "x: 1", ": 1", "2: {1,2", "2: {}", "2:",
                                                           "2: 1,,2", "2: {,}", "1: a,b", "4: 1}{2"])
    if rng.random() < 0.15:
        ballots.insert(rng.randrange(len(ballots) + 1), rng.choice(["", "   ", "\t"]))
    if rng.random() < 0.05:
        ballots.insert(rng.randrange(len(ballots) + 1), "# TITLE: late header")
    lines += ballots
    eol = rng.choice(["\n", "\n", "\r\n", "\r"])
    pad = PAD_BREAKS if rng.random() < 0.08 else PAD
    body = eol.join(rng.choice(pad) + l + rng.choice(pad) for l in lines)
    if rng.random() < 0.8:
        body += eol
    return dt, body


def _sweep_stale_tmp(max_age_s=900):
    """workers killed by the watchdog cannot remove their scratch directory; remove old ones here"""
    import glob
    import time
    now = time.time()
    for d in glob.glob(os.path.join(WORK, "c01_*")):
        try:
            if now - os.path.getmtime(d) > max_age_s:
                shutil.rmtree(d, ignore_errors=True)
        except OSError:
            pass


def generate(tier, seed):
    _sweep_stale_tmp()
    out = _generate(tier, seed)
    only = os.environ.get("VERIF_C01_OPS")          # debugging aid: comma-separated ops to keep
    if only:
        out = [c for c in out if c["op"] in only.split(",")]
    return out


def _generate(tier, seed):
    rng = random.Random(1000003 * seed + 1)
    out = []
    quick = tier == "quick"
    # (1) exhaustive tie arrangements
    m_exh = 3 if quick else 4
    orders = all_orders(m_exh)
    for k, o in enumerate(orders):
        for dt in TYPES:
            out.append(case("c01.file", simple_instance([(o, 1 + k % 3)], dt), exh=1))
    small = all_orders(3)
    for a, o1 in enumerate(small):
        for b, o2 in enumerate(small):
            if a != b:
                for dt in ([TYPES[(a + b) % 4]] if quick else TYPES):
                    out.append(case("c01.file", simple_instance([(o1, 2), (o2, 2)], dt), exh=2))
    if not quick:
        for _ in range(6000):
            o1, o2, o3 = rng.choice(orders), rng.choice(orders), rng.choice(orders)
            if o1 != o2 and o2 != o3 and o1 != o3:
                out.append(case("c01.file", simple_instance([(o1, rng.choice([1, 2])), (o2, 2), (o3, rng.choice([2, 3]))],
                                                            rng.choice(TYPES)), exh=3))
    # (1b) stability of the sort: distinct ballots with EQUAL multiplicity and EQUAL number of classes, every
    # insertion order
    import itertools
    stab_sets = [[[[1], [2]], [[2], [1]], [[1, 2], [3]]],
                 [[[1, 2]], [[3]], [[2, 3, 1]]],
                 [[[1], [2], [3]], [[3], [2], [1]], [[2], [1, 3], [4]], [[1, 2], [3], [4]]],
                 [[[5]], [[6]], [[5, 6]], [[7, 5]]]]
    for ss in (stab_sets[:3] if quick else stab_sets):
        for k in range(2, len(ss) + 1):
            for sub in itertools.combinations(ss, k):
                for perm in itertools.permutations(sub):
                    out.append(case("c01.file", simple_instance([(o, 3) for o in perm], TYPES[k % 4]), stab=1))
                    # plus one heavier and one lighter ballot around the tied block
                    out.append(case("c01.file", simple_instance([([[9]], 1)] + [(o, 3) for o in perm] + [([[8], [9]], 7)],
                                                                TYPES[(k + 1) % 4]), stab=1))
    # (1c) separators inside metadata values and names: every tricky text in every field / as a name
    for t in TRICKY:
        for f in FIELDS:
            if f != "data_type":
                out.append(case("c01.file", simple_instance([([[1], [2]], 2), ([[2, 1]], 1)], "toc", fields={f: t}), tricky=1))
        out.append(case("c01.file", simple_instance([([[1], [2]], 2), ([[2, 1]], 1)], "toc", names=[(1, t), (2, "b")]), tricky=1))
        out.append(case("c01.file", simple_instance([([[1], [2]], 2), ([[2, 1]], 1)], "toc", names=[(2, "a"), (1, t)]), tricky=1))
    # (1d) histories on one object
    for _ in range(250 if quick else 4000):
        out.append(case("c01.history", rand_history(rng), hist=1))
    # (1e) two instances of one extension in one process, through every entry point
    for _ in range(120 if quick else 2500):
        out.append(case("c01.pair", rand_pair(rng), pair=1))
    # (1f) ids and multiplicities as numpy.int64
    for _ in range(60 if quick else 1000):
        out.append(case("c01.file", rand_instance(rng), np=1))
    # (2) random instances
    for _ in range(550 if quick else 12000):
        out.append(case("c01.file", rand_instance(rng), rnd=1))
    # (3) tokenizer
    for _ in range(3000 if quick else 30000):
        s = wf_ballot_string(rng) if rng.random() < 0.3 else rand_ballot_string(rng)
        out.append(case("c01.tokenize", T(s)))
    # (4) flags on clean and dirty content
    for k in range(900 if quick else 12000):
        dt, body = dirty_text(rng)
        au, ho, mode = rng.random() < 0.6, rng.random() < 0.25, rng.choice([0, 1])
        out.append(case("c01.parse_text", [au, ho, mode, T(dt), T(body)], dirty=1))
    for k in range(150 if quick else 1500):
        pl = rand_instance(rng)
        out.append(case("c01.parse_text", [rng.random() < 0.5, rng.random() < 0.5, rng.choice([0, 1]),
                                           pl[0][3], [], pl], clean=1))
    return out


# ---------------------------------------------------------------------------------------------------
# implementation side
# ---------------------------------------------------------------------------------------------------
def _tmpdir():
    os.makedirs(WORK, exist_ok=True)
    return tempfile.mkdtemp(prefix="c01_", dir=WORK)


def _read(path):
    with open(path, "r", encoding="utf-8", newline="") as f:
        return f.read()


def _write_raw(path, s):
    with open(path, "w", encoding="utf-8", newline="") as f:
        f.write(s)


def _parse_file(path, **kw):
    from preflibtools.instances import OrdinalInstance
    inst = OrdinalInstance()
    inst.parse_file(path, **kw)
    return dump_instance(inst)


def _parse_str(s, dt, **kw):
    from preflibtools.instances import OrdinalInstance
    inst = OrdinalInstance()
    inst.parse_str(s, dt, **kw)
    return dump_instance(inst)


def _parse_via(entry, path, text, dt):
    """a fresh parse of the file through one of the four entry points; returns the instance object"""
    from preflibtools.instances import OrdinalInstance
    if entry == "constructor":
        return OrdinalInstance(path)
    if entry == "parse_file":
        inst = OrdinalInstance()
        inst.parse_file(path)
        return inst
    if entry == "get_parsed_instance":
        from preflibtools.instances.preflibinstance import get_parsed_instance
        return get_parsed_instance(path)
    inst = OrdinalInstance()
    inst.parse_str(text, dt)
    return inst


def _dump_via(entry, path, text, dt):
    return dump_instance(_parse_via(entry, path, text, dt))


def _poison(x, depth=0):
    """spoil a returned container in place (a result must not be a view of the instance)"""
    try:
        if isinstance(x, list):
            for y in x:
                if depth < 2:
                    _poison(y, depth + 1)
            x.reverse()
            x.append(("poison",))
            del x[:1]
        elif isinstance(x, dict):
            for k in list(x):
                x[k] = -7
            x[(("poison",),)] = 1
        elif isinstance(x, set):
            x.add("poison")
    except Exception:
        pass


def _accessors_and_poison(inst):
    """vote_map(), full_profile(), flatten_strict(): call, spoil the result, call again. Returns a reason if the
    instance (semantic snapshot) changed."""
    before = snapshot(inst)
    for name in ("vote_map", "full_profile", "flatten_strict", "vote_map"):
        fn = getattr(inst, name, None)
        if fn is None:
            continue
        try:
            res = fn()
        except Exception:
            continue
        _poison(res)
        d = snap_diff(before, snapshot(inst))
        if d:
            return "after %s() and spoiling its result: %s" % (name, d)
    return None


def impl_pair(c):
    """A written + parsed, B (same extension, same ids, other content) written + parsed, then A's parsed object is
    looked at again and written again; before that, a malformed file of the same extension is parsed (and rejected).
    All inside this one call, once per entry point."""
    pla, plb = c["payload"]
    dt = U(pla[0][3])
    out = {}
    d = _tmpdir()
    try:
        base = "w." + dt
        for entry in ENTRIES:
            dd = os.path.join(d, entry)
            for sub in ("a", "b", "x", "a2"):
                os.makedirs(os.path.join(dd, sub))
            pa, pb, px, pa2 = (os.path.join(dd, sub, base) for sub in ("a", "b", "x", "a2"))
            build_instance(pla).write(pa)
            build_instance(plb).write(pb)
            ta, tb = _read(pa), _read(pb)
            _write_raw(px, ta + "3: 1, {2\nnot a ballot\n")
            first = guarded(_dump_via, entry, px, _read(px), dt)
            ia = _parse_via(entry, pa, ta, dt)
            da1 = dump_instance(ia)
            ib = _parse_via(entry, pb, tb, dt)
            db = dump_instance(ib)
            da2 = dump_instance(ia)
            ia.write(pa2)
            out[entry] = {"rejected": first[0], "ta": T(ta), "tb": T(tb), "da1": da1, "db": db, "da2": da2,
                          "ra": T(_read(pa2))}
        return {"base": base, "entries": out}
    finally:
        shutil.rmtree(d, ignore_errors=True)


def impl_file(c):
    pl = c["payload"]
    dt = U(pl[0][3])
    d = _tmpdir()
    try:
        inst = build_instance(pl, np_numbers=bool(c.get("tags", {}).get("np")))
        base = "w." + dt
        p1 = os.path.join(d, base)
        inst.write(p1)
        if os.path.getsize(p1) > 2000000:
            return {"crash": "write() produced a file of %d bytes for an instance with %d ballots and %d names"
                             % (os.path.getsize(p1), len(inst.orders), len(inst.alternatives_name))}
        text1 = _read(p1)
        after = dump_instance(inst)
        # (b) re-parse through every entry point, (c) write each re-parsed instance again
        parsed, rewrites, twice = {}, {}, {}
        for entry in ENTRIES:
            try:
                again = _parse_via(entry, p1, text1, dt)
            except Exception as e:  # noqa
                parsed[entry] = guarded(_dump_via, entry, p1, text1, dt)
                if parsed[entry][0] == 0:
                    parsed[entry] = [1, 5, T("not reproducible: " + repr(e)[:80])]
                continue
            parsed[entry] = [0, dump_instance(again)]
            # the same file parsed a second time in this process: a fresh, equal object; the first one untouched
            try:
                second = dump_instance(_parse_via(entry, p1, text1, dt))
            except Exception as e:  # noqa
                second = "raised " + repr(e)[:120]
            if second != parsed[entry][1]:
                twice[entry] = "second parse gives %r, first gave %r" % (second, parsed[entry][1])
            elif dump_instance(again) != parsed[entry][1]:
                twice[entry] = "the object returned by the first parse changed when the file was parsed again: %r -> %r" % (
                    parsed[entry][1], dump_instance(again))
            os.makedirs(os.path.join(d, "again_" + entry))
            p2 = os.path.join(d, "again_" + entry, base)
            again.write(p2)
            rewrites[entry] = T(_read(p2))
        # accessors called on the written instance, their results spoiled, then a second write
        poison_diff = _accessors_and_poison(inst)
        os.makedirs(os.path.join(d, "second"))
        p4 = os.path.join(d, "second", base)
        inst.write(p4)
        text_second = _read(p4)
        # (d) the model's writer as independent writer
        mtext = oracle.run([("c01.write", norm_mult(with_default_name(pl, base)))])[0]
        if isinstance(mtext, dict):
            return {"crash": "oracle error in c01.write: %r" % (mtext,)}
        os.makedirs(os.path.join(d, "model"))
        p3 = os.path.join(d, "model", base)
        _write_raw(p3, U(mtext))
        parsed_model_file = guarded(_parse_file, p3)
        return {"base": base, "text1": T(text1), "after": after, "parsed": parsed, "rewrites": rewrites,
                "poison_diff": poison_diff, "text_second": T(text_second), "twice": twice,
                "mtext": mtext, "parsed_model_file": parsed_model_file}
    finally:
        shutil.rmtree(d, ignore_errors=True)


def impl_history(c):
    from preflibtools.instances import OrdinalInstance
    base_pl, steps = c["payload"]
    d = _tmpdir()
    try:
        inst = build_instance(base_pl)
        path = os.path.join(d, "h." + U(base_pl[0][3]))
        texts, dumps = [], []
        inst.write(path)
        texts.append(T(_read(path)))
        dumps.append(dump_instance(inst))
        notes = [None]
        for st in steps:
            note = None
            if st[0] == 0:
                for o, mu in st[1]:
                    t = tuple(tuple(cl) for cl in o)
                    if t in inst.multiplicity:
                        inst.multiplicity[t] = mu
                inst.num_voters = sum(inst.multiplicity.values())
            elif st[0] == 1:
                inst.append_order_list([tuple(tuple(cl) for cl in st[1])])
            elif st[0] == 2:
                inst.append_order(tuple(st[1]))
            elif st[0] == 3:
                e = ENTRIES[st[1] if len(st) > 1 else 1]
                inst = _parse_via(e, path, _read(path), str(inst.data_type))
            elif st[0] == 4:
                note = _accessors_and_poison(inst)
            elif st[0] == 5:
                inst.recompute_cardinality_param()
            else:
                inst.orders.reverse()
                if inst.multiplicity:
                    k0 = next(iter(inst.multiplicity))
                    v0 = inst.multiplicity.pop(k0)
                    inst.multiplicity[k0] = v0
                items = list(inst.alternatives_name.items())
                inst.alternatives_name.clear()
                for a, nm in reversed(items):
                    inst.alternatives_name[a] = nm
            inst.write(path)
            texts.append(T(_read(path)))
            dumps.append(dump_instance(inst))
            notes.append(note)
        return {"texts": texts, "dumps": dumps, "notes": notes, "base": "h." + U(base_pl[0][3])}
    finally:
        shutil.rmtree(d, ignore_errors=True)


def _flag_text(c):
    pl = c["payload"]
    if len(pl) == 6:      # clean content: written by the implementation from an instance
        d = _tmpdir()
        try:
            inst = build_instance(pl[5])
            p = os.path.join(d, "w." + U(pl[3]))
            inst.write(p)
            return _read(p)
        finally:
            shutil.rmtree(d, ignore_errors=True)
    return U(pl[4])


def impl_parse_text(c):
    au, ho, mode, dt = c["payload"][:4]
    dt = U(dt)
    s = _flag_text(c)
    kw = {"autocorrect": bool(au), "header_only": bool(ho)}
    if mode == 1:
        return {"text": T(s), "fname": [], "res": guarded(_parse_str, s, dt, **kw)}
    d = _tmpdir()
    try:
        p = os.path.join(d, "r." + dt)
        _write_raw(p, s)
        return {"text": T(s), "fname": T("r." + dt), "res": guarded(_parse_file, p, **kw)}
    finally:
        shutil.rmtree(d, ignore_errors=True)


def impl(c):
    op = c["op"]
    if op == "c01.file":
        return impl_file(c)
    if op == "c01.tokenize":
        s = U(c["payload"])
        # the pattern the parser really uses is a local of OrdinalInstance.parse; read it through a ballot line too
        toks = re.findall(PATTERN, s)
        return {"tokens": [T(t) for t in toks], "via_parse": guarded(_order_via_parse, s)}
    if op == "c01.parse_text":
        return impl_parse_text(c)
    if op == "c01.history":
        return impl_history(c)
    if op == "c01.pair":
        return impl_pair(c)
    return {"crash": "unknown op " + op}


def _order_via_parse(s):
    """the order the real parser builds from the ballot text s (only when s survives the line handling:
    no whitespace, no ':')"""
    if any(ch.isspace() for ch in s) or ":" in s:
        return None
    from preflibtools.instances import OrdinalInstance
    inst = OrdinalInstance()
    inst.parse_str("1:" + s + "\n", "toi")
    return [[list(cl) for cl in o] for o in inst.orders]


# ---------------------------------------------------------------------------------------------------
# model side and judgement
# ---------------------------------------------------------------------------------------------------
def oracle_requests(c, r):
    op, pl = c["op"], c["payload"]
    if op == "c01.file":
        if not isinstance(r, dict) or "text1" not in r:
            return [("c01.roundtrip", pl)]
        base = r["base"]
        pl2 = norm_mult(with_default_name(pl, base))
        dt = pl[0][3]
        return [("c01.roundtrip", pl2),
                ("c01.parse_text", [0, 0, 0, dt, r["text1"], T(base)]),
                ("c01.parse_text", [0, 0, 1, dt, r["text1"]]),
                ("c01.with_default_file_name", [T(base), pl])]
    if op == "c01.tokenize":
        return [("c01.tokenize", pl), ("c01.order_of_str", pl)]
    if op == "c01.history":
        if not isinstance(r, dict) or "texts" not in r:
            return [("c01.tokenize", [])]
        reqs = []
        for t, dmp in zip(r["texts"], r["dumps"]):
            reqs.append(("c01.write", dmp))
            reqs.append(("c01.parse_text", [0, 0, 0, dmp[0][3], t, T(r["base"])]))
            reqs.append(("c01.roundtrip", norm_mult(dmp)))
        return reqs
    if op == "c01.pair":
        if not isinstance(r, dict) or "entries" not in r:
            return [("c01.tokenize", [])]
        return [("c01.roundtrip", norm_mult(with_default_name(pl[0], r["base"]))),
                ("c01.roundtrip", norm_mult(with_default_name(pl[1], r["base"])))]
    if op == "c01.parse_text":
        if not isinstance(r, dict) or "text" not in r:
            return [("c01.tokenize", [])]
        return [("c01.parse_text", [pl[0], pl[1], pl[2], pl[3], r["text"], r["fname"]])]
    return [(op, pl)]


def _non_increasing(xs):
    return all(a >= b for a, b in zip(xs, xs[1:]))


def judge_file(c, r, mres):
    rt, mp_file, mp_str, mdef = mres
    wf, sview, m_rt_file, m_rt_str = rt
    if wf != 1:
        return {"kind": "broken-correspondence", "reason": "generator produced an instance outside wf_ord"}
    # the model's own round trip (theorem C01_roundtrip; sanity of the extracted code)
    if m_rt_file != [0, sview] or m_rt_str != [0, sview]:
        return {"kind": "broken-correspondence", "reason": "extracted model does not round-trip: %r vs %r" % (m_rt_file, sview)}
    expect = canon(sview)
    # file_name defaulting
    if canon(r["after"]) != canon(mdef):
        return "instance after write() differs from the instance handed to write() (beyond the documented file_name default): %r vs %r" % (r["after"], mdef)
    # (a) independent reader on the written file
    for nm, mp in (("readlines", mp_file), ("splitlines", mp_str)):
        if mp[0] != 0:
            return "(a) independent reader (%s) rejects the written file: error %r" % (nm, mp[1:])
        if canon_noorder(mp[1]) != canon_noorder(sview):
            return "(a) independent reader (%s) sees different content in the written file: %r, expected %r" % (nm, mp[1], sview)
        if not _non_increasing([m for _, m in mp[1][6]]) or [o for o, _ in mp[1][6]] != mp[1][5]:
            return "(a) ballots in the written file are not listed by non-increasing multiplicity: %r" % (mp[1][6],)
    # (b) parse(write(i)) = i
    for nm in ENTRIES:
        p = r["parsed"][nm]
        if p[0] != 0:
            return "(b) %s of the written file raised: %r" % (nm, p[1:])
        if canon_noorder(p[1]) != canon_noorder(sview):
            return "(b) %s: re-parsed instance differs: %r, expected %r" % (nm, p[1], sview)
        if p[1][5] != sview[5]:
            return "(b) %s: orders are not the stable sort by (-multiplicity, -len): %r, expected %r" % (nm, p[1][5], sview[5])
    for nm in ENTRIES:
        if r["twice"].get(nm):
            return "(b) parsing the same file twice through %s: %s" % (nm, r["twice"][nm])
    # (c) byte-identical rewrite
    for nm in ENTRIES:
        if r["rewrites"].get(nm) != r["text1"]:
            return "(c) writing the instance re-parsed through %s does not reproduce the file: %r vs %r" % (
                nm, U(r["rewrites"].get(nm) or []), U(r["text1"]))
    # purity: accessors + spoiled results leave the instance and its file alone
    if r["poison_diff"]:
        return "the written instance changed " + r["poison_diff"]
    if r["text_second"] != r["text1"]:
        return "second write of the same instance (after calling vote_map / full_profile / flatten_strict and spoiling "\
               "their results) differs from the first: %r vs %r" % (U(r["text_second"]), U(r["text1"]))
    # (d) model writer -> implementation parser
    p = r["parsed_model_file"]
    if p[0] != 0:
        return "(d) parse_file rejects the file written by the model's writer: %r" % (p[1:],)
    if canon(p[1]) != expect:
        return "(d) parse_file of the model-written file: %r, expected %r" % (p[1], sview)
    # (e) same bytes
    if r["mtext"] != r["text1"]:
        return "(e) written file differs from the documented format (model writer): %r vs %r" % (U(r["text1"]), U(r["mtext"]))
    return None


def judge(c, r, mres):
    op = c["op"]
    if op == "c01.file":
        if len(mres) != 4:
            return {"kind": "broken-correspondence", "reason": "implementation side returned %r" % (r,)}
        return judge_file(c, r, mres)
    if op == "c01.tokenize":
        mt, mo = mres
        if r["tokens"] != mt:
            return {"kind": "broken-correspondence",
                    "reason": "tokenizer differs from re.findall: model %r, regex %r" % (mt, r["tokens"])}
        v = r["via_parse"]
        if v[0] == 0 and v[1] is not None:
            if len(v[1]) != 1 or mo != [0, v[1][0]]:
                return "ballot text %r: parser builds %r, model %r" % (U(c["payload"]), v[1], mo)
        elif v[0] == 1 and mo != v:
            return "ballot text %r: parser raises %r, model gives %r" % (U(c["payload"]), v[1:], mo)
        return None
    if op == "c01.pair":
        if len(mres) != 2:
            return {"kind": "broken-correspondence", "reason": "pair: implementation side returned %r" % (r,)}
        (wfa, sva, rta, _), (wfb, svb, rtb, _) = mres
        if wfa != 1 or wfb != 1:
            return {"kind": "broken-correspondence", "reason": "generator produced a pair outside wf_ord"}
        for e in ENTRIES:
            x = r["entries"][e]
            if x["rejected"] != 1:
                return {"kind": "broken-correspondence", "reason": "the malformed warm-up file was accepted via " + e}
            if canon(x["da1"]) != canon(sva):
                return "two files of one extension via %s: first instance parsed as %r, expected %r" % (e, x["da1"], sva)
            if canon(x["db"]) != canon(svb):
                return "two files of one extension via %s: SECOND instance parsed as %r, expected %r" % (e, x["db"], svb)
            if x["da2"] != x["da1"]:
                return "two files of one extension via %s: the object returned for the first file changed when the " \
                       "second file was parsed: %r -> %r" % (e, x["da1"], x["da2"])
            if x["ra"] != x["ta"]:
                return "two files of one extension via %s: re-writing the first parsed object does not reproduce " \
                       "its file: %r vs %r" % (e, U(x["ra"]), U(x["ta"]))
        return None
    if op == "c01.history":
        steps = c["payload"][1]
        n = len(r["texts"])
        if len(mres) != 3 * n:
            return {"kind": "broken-correspondence", "reason": "history: implementation side returned %r" % (r,)}
        for k in range(n):
            mw, mp, rt = mres[3 * k: 3 * k + 3]
            what = "initial write" if k == 0 else "write after step %d %r" % (k, steps[k - 1][:1])
            if rt[0] != 1:
                return {"kind": "broken-correspondence", "reason": "history state outside wf_ord at " + what}
            if mw != r["texts"][k]:
                return "history, %s: file differs from the documented format for the current fields: %r vs %r" % (
                    what, U(r["texts"][k]), U(mw))
            if mp[0] != 0 or canon_noorder(mp[1]) != canon_noorder(r["dumps"][k]):
                return "history, %s: independent reader sees %r, instance is %r" % (what, mp, r["dumps"][k])
            if k > 0 and steps[k - 1][0] == 3 and r["texts"][k] != r["texts"][k - 1]:
                return "history, parse (%s) -> write does not reproduce the file at step %d" % (
                    ENTRIES[steps[k - 1][1] if len(steps[k - 1]) > 1 else 1], k)
            if k > 0 and steps[k - 1][0] == 4:
                if r["notes"][k]:
                    return "history, step %d: the instance changed %s" % (k, r["notes"][k])
                if r["texts"][k] != r["texts"][k - 1]:
                    return "history, step %d: calling accessors and spoiling their results changed the written file" % k
        return None
    if op == "c01.parse_text":
        m = mres[0]
        res = r["res"]
        if res[0] != m[0]:
            return "parse with flags %r: implementation %r, model %r" % (c["payload"][:3], res, m)
        if res[0] == 1:
            if res[1] != m[1]:
                return "parse with flags %r: implementation error %r, model error %r" % (c["payload"][:3], res, m)
            return None
        if canon(res[1]) != canon(m[1]):
            return "parse with flags %r: implementation %r, model %r" % (c["payload"][:3], res[1], m[1])
        return None
    return {"kind": "broken-correspondence", "reason": "unknown op"}


def nontrivial(c, r, m):
    if c["op"] != "c01.file":
        return False
    orders = c["payload"][5]
    return len(orders) >= 2 and any(len(cl) != 1 for o in orders for cl in o)


def stats(c, r, m):
    op = c["op"]
    if op == "c01.file":
        pl = c["payload"]
        n = len(pl[5])
        mults = [mu for _, mu in pl[6]]
        lab = ["file ballots=%s" % (n if n <= 3 else ">3"), "file type=" + U(pl[0][3])]
        keys = [(mu, len(o)) for o, mu in pl[6]]
        if len(set(keys)) < len(keys):
            lab.append("file sort-key tie")
        if any(not nm for _, nm in pl[3]):
            lab.append("file empty name")
        if [o for o, _ in pl[6]] != pl[5]:
            lab.append("file multiplicity keys not in list order")
        if [a for a, _ in pl[3]] != sorted(a for a, _ in pl[3]):
            lab.append("file names not in ascending id order")
        if c["tags"].get("np"):
            lab.append("file numpy numbers")
        if any(len(o[0]) > 1 for o in pl[5] if o):
            lab.append("file tie first")
        if any(len(o[-1]) > 1 for o in pl[5] if o):
            lab.append("file tie last")
        if any(len(o) == 1 and len(o[0]) > 1 for o in pl[5]):
            lab.append("file tie only")
        return lab
    if op == "c01.tokenize":
        return ["tokenize tokens=%s" % (len(m[0]) if len(m[0]) <= 3 else ">3")]
    if op == "c01.pair":
        return ["pair (two instances, one extension, 4 entry points)"]
    if op == "c01.history":
        return ["history steps=%d" % len(c["payload"][1])] + ["history step kind %d" % st[0] for st in c["payload"][1]]
    if op == "c01.parse_text":
        pl = c["payload"]
        verdict = "ok" if m[0][0] == 0 else "error%d" % m[0][1]
        return ["flags au=%d ho=%d mode=%d %s %s" % (pl[0], pl[1], pl[2], "clean" if len(pl) == 6 else "dirty", verdict)]
    return [op]


def describe(c):
    op, pl = c["op"], c["payload"]
    if op == "c01.file":
        return {"op": op, "fields": {k: U(v) for k, v in zip(FIELDS, pl[0])}, "num_alternatives": pl[1],
                "num_voters": pl[2], "alternatives_name": [[a, U(n)] for a, n in pl[3]], "num_unique_orders": pl[4],
                "orders": pl[5], "multiplicity": pl[6]}
    if op == "c01.tokenize":
        return {"op": op, "ballot_text": U(pl)}
    if op == "c01.pair":
        return {"op": op, "A": describe({"op": "c01.file", "payload": pl[0]}),
                "B": describe({"op": "c01.file", "payload": pl[1]}), "entry_points": ENTRIES}
    if op == "c01.history":
        return {"op": op, "start": describe({"op": "c01.file", "payload": pl[0]}),
                "steps": [{0: "set multiplicities", 1: "append_order_list", 2: "append_order",
                           3: "re-parse last file via entry", 4: "accessors + spoil results",
                           5: "recompute_cardinality_param", 6: "decouple storage orders"}[st[0]]
                          + (" " + repr(st[1]) if len(st) > 1 else "") for st in pl[1]]}
    if op == "c01.parse_text":
        d = {"op": op, "autocorrect": pl[0], "header_only": pl[1], "entry": ["parse_file", "parse_str"][pl[2]],
             "data_type": U(pl[3])}
        if len(pl) == 6:
            d["content_written_from"] = describe({"op": "c01.file", "payload": pl[5]})
        else:
            d["content"] = U(pl[4])
        return d
    return {"op": op}


def shrink(c):
    op, pl = c["op"], c["payload"]
    if op == "c01.file":
        f, na, nv, names, nu, orders, mult = pl
        if len(orders) > 1:
            for k in range(len(orders)):
                o = orders[k]
                yield dict(c, payload=[f, na, nv, names, nu, orders[:k] + orders[k + 1:], [x for x in mult if x[0] != o]])
        for k in range(len(names)):
            yield dict(c, payload=[f, na, nv, names[:k] + names[k + 1:], nu, orders, mult])
        for k in range(len(f)):
            if f[k] and k != 3:
                yield dict(c, payload=[f[:k] + [[]] + f[k + 1:], na, nv, names, nu, orders, mult])
        for k in range(len(names)):
            if len(names[k][1]) > 1:
                yield dict(c, payload=[f, na, nv, names[:k] + [[names[k][0], names[k][1][:1]]] + names[k + 1:], nu, orders, mult])
    elif op == "c01.tokenize":
        for k in range(len(pl)):
            yield dict(c, payload=pl[:k] + pl[k + 1:])
    elif op == "c01.history":
        base, steps = pl
        for k in range(len(steps)):
            yield dict(c, payload=[base, steps[:k] + steps[k + 1:]])
    elif op == "c01.parse_text" and len(pl) == 5:
        s = U(pl[4])
        ls = s.splitlines(True)
        for k in range(len(ls)):
            yield dict(c, payload=pl[:4] + [T("".join(ls[:k] + ls[k + 1:]))])
