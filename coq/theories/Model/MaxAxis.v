(* Model/MaxAxis.v — a fast verified reference for the alternative-deletion optimum of STRICT profiles (C12).

   min_alt_del (Model/Deletion.v) enumerates deletion sets and, for each, all axes of the remaining alternatives:
   fine up to 6-7 alternatives.  Here the longest single-peaked axis over any subset of the alternatives is found by
   a depth-first search over the lists of distinct alternatives on which every vote is single-peaked, extended one
   alternative at a time (at the front): single-peakedness is hereditary (every suffix of such a list is such a list),
   so the search visits exactly those lists, and
        fast_min_alt alts votes = |alts| - (length of a longest one) = min_alt_del alts (map strictify votes)
   (Proofs/MaxAxis.v: fast_min_alt_correct).  It is NOT a model of any function of /repo: it is the exact reference
   against which k_alternative_deletion and the mirrored dynamic programme are compared at 7-10 alternatives.
   votes = flat rankings (best first), each a permutation of alts.  Executable definitions only. *)
From Coq Require Import List Arith NArith Bool.
From PrefVerif Require Import Lib.Val Lib.Contig Model.SP Model.ELPDP.
Import ListNotations.

(* every vote is single-peaked on the list P (the scan of is_single_peaked_axis on the ranks) *)
Definition list_okb (votes : list (list N)) (P : list N) : bool :=
  forallb (fun v => sp_scan_ok (map (rk v) P)) votes.

(* the length of a longest such list that extends P at the front *)
Fixpoint max_axis_from (alts : list N) (votes : list (list N)) (fuel : nat) (P : list N) : nat :=
  match fuel with
  | 0 => length P
  | S f =>
    fold_left (fun best a =>
                 if memN a P then best
                 else if list_okb votes (a :: P) then Nat.max best (max_axis_from alts votes f (a :: P))
                 else best)
              alts (length P)
  end.

Definition max_axis_len (alts : list N) (votes : list (list N)) : nat :=
  max_axis_from alts votes (length alts) [].

Definition fast_min_alt (alts : list N) (votes : list (list N)) : nat :=
  length alts - max_axis_len alts votes.
