(* Proofs/FromOrdinal.v — specification vocabulary and lemmas for Model/FromOrdinal.v (property C17). *)
From Coq Require Import List Arith NArith Bool Lia Permutation.
From PrefVerif Require Import Lib.Val Model.FromOrdinal.
Import ListNotations.
Open Scope N_scope.

(* ================================================================================================ *)
(* Specification vocabulary                                                                        *)
(* ================================================================================================ *)

Definition ballot_eq_dec : forall a b : ballot, {a = b} + {a <> b} :=
  list_eq_dec (list_eq_dec N.eq_dec).

(* number of occurrences of b in l, as an N *)
Definition countN (b : ballot) (l : list ballot) : N := N.of_nat (count_occ ballot_eq_dec l b).

(* d.get(b, 0) *)
Definition lk (b : ballot) (d : list (ballot * N)) : N :=
  match lookup b d with Some v => v | None => 0 end.

(* sum of the weights of the items whose key is b *)
Fixpoint wsum (b : ballot) (items : list (ballot * N)) : N :=
  match items with
  | [] => 0
  | (k, m) :: items' => (if ballot_eq_dec b k then m else 0) + wsum b items'
  end.

(* the distinct elements of l in the order of their first occurrence *)
Fixpoint first_occ (l : list ballot) : list ballot :=
  match l with
  | [] => []
  | x :: l' => x :: filter (fun y => negb (ballot_eqb y x)) (first_occ l')
  end.

(* well-formed order: non-empty classes, no alternative twice *)
Definition wf_order (o : order) : Prop := NoDup (concat o) /\ Forall (fun c => c <> []) o.

(* b's categories are consecutive groups of whole classes of o (empty groups allowed) *)
Definition Partition (o : order) (b : ballot) : Prop :=
  exists groups : list (list (list N)), concat groups = o /\ b = map (@concat N) groups.

(* g is the SHORTEST run of leading classes of o whose size reaches t — or all of o when t cannot be
   reached; rest is what follows *)
Definition shortest_reaching (t : N) (o g rest : order) : Prop :=
  o = g ++ rest /\
  (forall g1 x g2, g = g1 ++ x :: g2 -> lenN (concat g1) < t) /\
  (t <= lenN (concat g) \/ rest = []).

(* the documented rule for absolute truncators: category j is the shortest run of whole classes,
   starting where category j-1 stopped, whose size reaches t_j (everything left if it cannot be
   reached); no further category once the order is exhausted; one extra category with the rest *)
Fixpoint size_rule (ts : list N) (o : order) (r : ballot) : Prop :=
  match ts with
  | [] => match o with [] => r = [] | _ :: _ => r = [concat o] end
  | t :: ts' =>
      exists g rest, shortest_reaching t o g rest /\
        match rest with
        | [] => r = [concat g]
        | _ :: _ => exists r', r = concat g :: r' /\ size_rule ts' rest r'
        end
  end.

(* num_indif_classes: category j is made of exactly num_j classes while they last (fewer / none when
   the order runs out); one extra category with the rest *)
Fixpoint classes_rule (ns : list N) (o : order) (r : ballot) : Prop :=
  match ns with
  | [] => match o with [] => r = [] | _ :: _ => r = [concat o] end
  | n :: ns' =>
      exists r', r = concat (firstn (N.to_nat n) o) :: r' /\ classes_rule ns' (skipn (N.to_nat n) o) r'
  end.

(* the unpadded ballot of one order, as a function of the parameters only *)
Definition raw_pref (nic st : option (list N)) (rst : option (list (list N))) (o : order) : ballot :=
  if truthy rst then size_pref (rel_sizes (olist rst) o) o
  else if truthy st then size_pref (olist st) o
  else if truthy nic then classes_pref (olist nic) o
  else [].

(* ================================================================================================ *)
(* Equality tests, dictionaries                                                                    *)
(* ================================================================================================ *)

Lemma list_eqb_spec {T} (e : T -> T -> bool) :
  (forall x y, e x y = true <-> x = y) -> forall a b, list_eqb e a b = true <-> a = b.
Proof.
  intros He a. induction a as [|x a IH]; intros [|y b]; simpl; split; intro H; try congruence; auto.
  - apply andb_true_iff in H. destruct H as [H1 H2]. apply He in H1. apply IH in H2. congruence.
  - inversion H; subst. apply andb_true_iff. split; [apply He | apply IH]; reflexivity.
Qed.

Lemma cat_eqb_iff a b : cat_eqb a b = true <-> a = b.
Proof. apply list_eqb_spec. intros x y. apply N.eqb_eq. Qed.

Lemma ballot_eqb_iff a b : ballot_eqb a b = true <-> a = b.
Proof. apply list_eqb_spec. apply cat_eqb_iff. Qed.

Lemma ballot_eqb_spec a b : reflect (a = b) (ballot_eqb a b).
Proof. apply iff_reflect. symmetry. apply ballot_eqb_iff. Qed.

Lemma ballot_eqb_refl a : ballot_eqb a a = true.
Proof. apply ballot_eqb_iff. reflexivity. Qed.

Lemma mem_iff b l : mem b l = true <-> In b l.
Proof.
  induction l as [|x l IH]; simpl.
  - split; [discriminate | tauto].
  - rewrite orb_true_iff, IH, ballot_eqb_iff. split; intros [H|H]; auto.
Qed.

Lemma mem_false_iff b l : mem b l = false <-> ~ In b l.
Proof. rewrite <- mem_iff. destruct (mem b l); split; congruence. Qed.

Lemma lookup_none_iff b d : lookup b d = None <-> ~ In b (map fst d).
Proof.
  induction d as [|[k v] d IH]; simpl.
  - tauto.
  - destruct (ballot_eqb_spec b k) as [E|E].
    + split; [discriminate | intros H; exfalso; apply H; left; congruence].
    + rewrite IH. split; intros H; [intros [H1|H1]; [congruence | tauto] | tauto].
Qed.

Lemma lookup_some_in b d v : lookup b d = Some v -> In b (map fst d).
Proof.
  intros H. destruct (in_dec ballot_eq_dec b (map fst d)) as [Hi|Hn]; auto.
  apply lookup_none_iff in Hn. congruence.
Qed.

Lemma lookup_app b d1 d2 :
  lookup b (d1 ++ d2) = match lookup b d1 with Some v => Some v | None => lookup b d2 end.
Proof.
  induction d1 as [|[k v] d1 IH]; simpl; auto.
  destruct (ballot_eqb b k); auto.
Qed.

Lemma add_to_keys b n d : map fst (add_to b n d) = map fst d.
Proof.
  induction d as [|[k v] d IH]; simpl; auto.
  destruct (ballot_eqb b k); simpl; congruence.
Qed.

Lemma lookup_add_to b n d b' :
  lookup b' (add_to b n d) =
  match lookup b' d with
  | Some v => if ballot_eq_dec b' b then Some (v + n) else Some v
  | None => None
  end.
Proof.
  induction d as [|[k v] d IH]; simpl; auto.
  destruct (ballot_eqb_spec b k) as [E|E]; simpl.
  - subst k. destruct (ballot_eqb_spec b' b) as [E'|E'].
    + destruct (ballot_eq_dec b' b); congruence.
    + destruct (lookup b' d); auto. destruct (ballot_eq_dec b' b); congruence.
  - destruct (ballot_eqb_spec b' k) as [E'|E'].
    + destruct (ballot_eq_dec b' b); congruence.
    + apply IH.
Qed.

Lemma sum_add_to b n d : In b (map fst d) ->
  sumN (map snd (add_to b n d)) = sumN (map snd d) + n.
Proof.
  induction d as [|[k v] d IH]; simpl; intros H.
  - tauto.
  - destruct (ballot_eqb_spec b k) as [E|E]; simpl.
    + lia.
    + destruct H as [H|H]; [congruence|]. rewrite IH by assumption. lia.
Qed.

Lemma sumN_app l1 l2 : sumN (l1 ++ l2) = sumN l1 + sumN l2.
Proof. induction l1 as [|x l1 IH]; simpl; lia. Qed.

(* ================================================================================================ *)
(* first occurrences                                                                               *)
(* ================================================================================================ *)

(* "append unless already there" *)
Definition step (acc : list ballot) (x : ballot) : list ballot :=
  if mem x acc then acc else acc ++ [x].

Lemma filter_filter {T} (f g : T -> bool) l :
  filter f (filter g l) = filter (fun x => g x && f x) l.
Proof.
  induction l as [|x l IH]; simpl; auto.
  destruct (g x); simpl; [destruct (f x); simpl; congruence | assumption].
Qed.

Lemma mem_app b l1 l2 : mem b (l1 ++ l2) = mem b l1 || mem b l2.
Proof. induction l1 as [|x l1 IH]; simpl; auto. rewrite IH. apply orb_assoc. Qed.

Lemma fold_step_first_occ l : forall acc,
  fold_left step l acc = acc ++ filter (fun y => negb (mem y acc)) (first_occ l).
Proof.
  induction l as [|x l IH]; intros acc.
  - simpl. symmetry. apply app_nil_r.
  - cbn [fold_left first_occ]. rewrite IH. cbn [filter]. unfold step.
    destruct (mem x acc) eqn:Hm; cbn [negb].
    + f_equal. rewrite filter_filter. apply filter_ext.
      intros y. destruct (ballot_eqb_spec y x) as [E|E]; simpl; auto.
      subst y. rewrite Hm. reflexivity.
    + rewrite <- app_assoc. simpl. do 2 f_equal.
      rewrite filter_filter. apply filter_ext.
      intros y. rewrite mem_app. simpl. rewrite orb_false_r, negb_orb. apply andb_comm.
Qed.

Lemma filter_true {T} (l : list T) : filter (fun _ => true) l = l.
Proof. induction l as [|x l IH]; simpl; congruence. Qed.

Lemma fold_step_nil l : fold_left step l [] = first_occ l.
Proof. rewrite fold_step_first_occ. simpl. apply filter_true. Qed.

Lemma first_occ_in l b : In b (first_occ l) <-> In b l.
Proof.
  induction l as [|x l IH]; simpl; [tauto|].
  rewrite filter_In, IH. destruct (ballot_eqb_spec b x) as [E|E]; simpl.
  - split; auto.
  - split; intros [H|H]; auto; try tauto; try congruence.
Qed.

Lemma first_occ_nodup l : NoDup (first_occ l).
Proof.
  induction l as [|x l IH]; simpl; constructor.
  - rewrite filter_In. intros [_ H]. rewrite ballot_eqb_refl in H. discriminate.
  - apply NoDup_filter. assumption.
Qed.

Lemma step_nodup acc x : NoDup acc -> NoDup (step acc x).
Proof.
  intros H. unfold step. destruct (mem x acc) eqn:Hm; auto.
  apply mem_false_iff in Hm.
  rewrite <- (app_nil_r (acc ++ [x])), <- app_assoc. simpl.
  apply NoDup_Add with (a := x) (l := acc ++ []).
  - apply Add_app.
  - rewrite app_nil_r. auto.
Qed.

Lemma fold_step_nodup l : forall acc, NoDup acc -> NoDup (fold_left step l acc).
Proof.
  induction l as [|x l IH]; intros acc H; simpl; auto. apply IH. apply step_nodup. assumption.
Qed.

Lemma fold_step_in l : forall acc b, In b (fold_left step l acc) <-> In b acc \/ In b l.
Proof.
  induction l as [|x l IH]; intros acc b; simpl; [tauto|].
  rewrite IH. unfold step. destruct (mem x acc) eqn:Hm.
  - apply mem_iff in Hm. split; intros [H|H]; auto. destruct H as [H|H]; auto. subst. auto.
  - rewrite in_app_iff. simpl. tauto.
Qed.

Lemma count_first_occ_length l : length (first_occ l) = length (dedup l).
Proof.
  (* both are duplicate-free lists with the same elements *)
  assert (Hd : forall l, NoDup (dedup l) /\ forall b, In b (dedup l) <-> In b l).
  { clear l. induction l as [|x l [IH1 IH2]]; simpl.
    - split; [constructor | tauto].
    - destruct (mem x l) eqn:Hm.
      + apply mem_iff in Hm. split; auto. intros b. rewrite IH2. split; auto.
        intros [H|H]; auto. subst. auto.
      + apply mem_false_iff in Hm. split.
        * constructor; auto. rewrite IH2. assumption.
        * intros b. simpl. rewrite IH2. tauto. }
  destruct (Hd l) as [H1 H2].
  apply Nat.le_antisymm; apply NoDup_incl_length; auto using first_occ_nodup;
    intros b Hb; [apply H2, first_occ_in | apply first_occ_in, H2]; assumption.
Qed.

(* ================================================================================================ *)
(* the accumulation loops                                                                          *)
(* ================================================================================================ *)

(* the multiplicity table built by acc_loop does not depend on the list it maintains beside it *)
Fixpoint acc_mult (items : list (ballot * N)) (mult : list (ballot * N)) : list (ballot * N) :=
  match items with
  | [] => mult
  | (b, m) :: items' =>
      match lookup b mult with
      | Some _ => acc_mult items' (add_to b m mult)
      | None => acc_mult items' (mult ++ [(b, m)])
      end
  end.

Lemma acc_loop_snd items : forall prefs mult, snd (acc_loop items prefs mult) = acc_mult items mult.
Proof.
  induction items as [|[b m] items IH]; intros prefs mult; simpl; auto.
  destruct (lookup b mult); apply IH.
Qed.

Lemma acc_loop_fst items : forall prefs mult, map fst mult = prefs ->
  fst (acc_loop items prefs mult) = map fst (acc_mult items mult).
Proof.
  induction items as [|[b m] items IH]; intros prefs mult H; simpl; auto.
  destruct (lookup b mult).
  - apply IH. rewrite add_to_keys. assumption.
  - apply IH. rewrite map_app. simpl. congruence.
Qed.

Lemma acc_mult_keys items : forall mult,
  map fst (acc_mult items mult) = fold_left step (map fst items) (map fst mult).
Proof.
  induction items as [|[b m] items IH]; intros mult; simpl; auto.
  unfold step at 2. destruct (lookup b mult) eqn:Hl.
  - apply lookup_some_in in Hl. apply mem_iff in Hl. rewrite Hl, IH, add_to_keys. reflexivity.
  - apply lookup_none_iff, mem_false_iff in Hl. rewrite Hl, IH, map_app. reflexivity.
Qed.

Lemma lk_app_new b d k m : lookup k d = None ->
  lk b (d ++ [(k, m)]) = lk b d + (if ballot_eq_dec b k then m else 0).
Proof.
  intros Hk. unfold lk. rewrite lookup_app. simpl.
  destruct (ballot_eq_dec b k) as [E|E].
  - subst k. rewrite Hk, ballot_eqb_refl. lia.
  - destruct (lookup b d); [lia|]. destruct (ballot_eqb_spec b k); [congruence | lia].
Qed.

Lemma lk_add_to b d k m v : lookup k d = Some v ->
  lk b (add_to k m d) = lk b d + (if ballot_eq_dec b k then m else 0).
Proof.
  intros Hk. unfold lk. rewrite lookup_add_to.
  destruct (ballot_eq_dec b k) as [E|E].
  - subst k. rewrite Hk. reflexivity.
  - destruct (lookup b d); lia.
Qed.

Lemma acc_mult_lk items : forall mult b, lk b (acc_mult items mult) = lk b mult + wsum b items.
Proof.
  induction items as [|[k m] items IH]; intros mult b; simpl; [lia|].
  destruct (lookup k mult) eqn:Hl; rewrite IH.
  - rewrite (lk_add_to _ _ _ _ _ Hl). lia.
  - rewrite (lk_app_new _ _ _ _ Hl). lia.
Qed.

Lemma acc_mult_sum items : forall mult,
  sumN (map snd (acc_mult items mult)) = sumN (map snd mult) + sumN (map snd items).
Proof.
  induction items as [|[k m] items IH]; intros mult; simpl; [lia|].
  destruct (lookup k mult) eqn:Hl; rewrite IH.
  - rewrite sum_add_to by (eapply lookup_some_in; eassumption). lia.
  - rewrite map_app, sumN_app. simpl. lia.
Qed.

(* a key of the table has a positive... no: a key is simply a ballot that was seen *)
Lemma acc_mult_lookup_some items mult b :
  In b (map fst (acc_mult items mult)) <-> lookup b (acc_mult items mult) <> None.
Proof.
  split.
  - intros H Hn. apply lookup_none_iff in Hn. tauto.
  - intros H. destruct (lookup b (acc_mult items mult)) eqn:E; [|congruence].
    eapply lookup_some_in; eassumption.
Qed.

(* factorise_instance's loop: same table as acc_loop with weight 1; the list is fold_left step *)
Lemma fact_loop_spec bs : forall mult new, incl new (map fst mult) ->
  fact_loop bs mult new = (fold_left step bs new, acc_mult (map (fun b => (b, 1)) bs) mult).
Proof.
  induction bs as [|b bs IH]; intros mult new Hinc; simpl; auto.
  unfold step at 2. destruct (lookup b mult) eqn:Hl.
  - rewrite IH.
    + reflexivity.
    + rewrite add_to_keys. destruct (mem b new); auto.
      intros x Hx. apply in_app_or in Hx. destruct Hx as [Hx|[Hx|[]]]; auto.
      subst x. eapply lookup_some_in; eassumption.
  - assert (Hm : mem b new = false).
    { apply mem_false_iff. intros Hin. apply Hinc in Hin. apply lookup_none_iff in Hl. tauto. }
    rewrite Hm. rewrite IH; auto.
    rewrite map_app. simpl. intros x Hx. apply in_app_or in Hx. apply in_or_app.
    destruct Hx as [Hx|Hx]; auto.
Qed.

Lemma wsum_ones b bs : wsum b (map (fun x => (x, 1)) bs) = countN b bs.
Proof.
  unfold countN. induction bs as [|x bs IH]; simpl; auto.
  rewrite IH. destruct (ballot_eq_dec b x) as [E|E]; destruct (ballot_eq_dec x b) as [E'|E'];
    try congruence; lia.
Qed.

Lemma sum_ones (bs : list ballot) : sumN (map snd (map (fun x => (x, 1)) bs)) = lenN bs.
Proof.
  unfold lenN. induction bs as [|x bs IH]; [reflexivity|].
  cbn [map snd length]. rewrite Nat2N.inj_succ. unfold sumN in *. cbn [fold_right]. rewrite IH. lia.
Qed.

Lemma map_fst_ones (bs : list ballot) : map fst (map (fun x => (x, 1)) bs) = bs.
Proof. induction bs as [|x bs IH]; simpl; congruence. Qed.

(* ================================================================================================ *)
(* factorise_instance                                                                              *)
(* ================================================================================================ *)

Lemma length_first_occ_dedup l : lenN (dedup (first_occ l)) = lenN (first_occ l).
Proof.
  unfold lenN. f_equal. rewrite <- count_first_occ_length.
  apply Nat.le_antisymm; apply NoDup_incl_length; auto using first_occ_nodup;
    intros b Hb; [apply (proj1 (first_occ_in _ _)) in Hb | apply (proj2 (first_occ_in _ _))]; assumption.
Qed.

Ltac splits := repeat match goal with |- _ /\ _ => split end.

Lemma factorise_general reset prefs mult prefs' mult' :
  factorise_instance reset prefs mult = (prefs', mult') ->
  let m0 := if reset then [] else mult in
  prefs' = first_occ prefs /\
  NoDup prefs' /\
  (forall b, In b prefs' <-> In b prefs) /\
  (forall b, lk b mult' = lk b m0 + countN b prefs) /\
  map fst mult' = map fst m0 ++ filter (fun y => negb (mem y (map fst m0))) (first_occ prefs) /\
  sumN (map snd mult') = sumN (map snd m0) + lenN prefs.
Proof.
  intros H m0. unfold factorise_instance in H. fold m0 in H.
  rewrite fact_loop_spec in H by (intros x []). inversion H; subst prefs' mult'; clear H.
  rewrite fold_step_nil. splits.
  - reflexivity.
  - apply first_occ_nodup.
  - intros b. apply first_occ_in.
  - intros b. rewrite acc_mult_lk, wsum_ones. reflexivity.
  - rewrite acc_mult_keys, map_fst_ones. apply fold_step_first_occ.
  - rewrite acc_mult_sum, sum_ones. reflexivity.
Qed.

Lemma factorise_reset prefs mult prefs' mult' :
  factorise_instance true prefs mult = (prefs', mult') ->
  prefs' = first_occ prefs /\
  NoDup prefs' /\
  (forall b, In b prefs' <-> In b prefs) /\
  map fst mult' = prefs' /\
  (forall b, In b prefs -> lookup b mult' = Some (countN b prefs)) /\
  (forall b, ~ In b prefs -> lookup b mult' = None) /\
  sumN (map snd mult') = lenN prefs /\
  lenN (dedup prefs') = lenN prefs'.
Proof.
  intros H. apply factorise_general in H. cbv zeta in H.
  destruct H as (H1 & H2 & H3 & H4 & H5 & H6). simpl in H5, H6.
  rewrite filter_true in H5.
  assert (Hk : map fst mult' = prefs') by congruence.
  splits; auto.
  - intros b Hb. specialize (H4 b). unfold lk in H4. simpl in H4.
    destruct (lookup b mult') eqn:E; [congruence|].
    apply lookup_none_iff in E. rewrite Hk in E. exfalso. apply E, H3, Hb.
  - intros b Hb. apply lookup_none_iff. rewrite Hk, H3. assumption.
  - rewrite H1. apply length_first_occ_dedup.
Qed.

(* ================================================================================================ *)
(* from_ordinal: unpacking a successful call                                                       *)
(* ================================================================================================ *)

Lemma prefs_loop_length nic rst src : forall st, length (prefs_loop nic rst st src) = length src.
Proof.
  induction src as [|[o m] src IH]; intros st; simpl; auto.
  destruct (order_pref nic rst st o) as [p st']. simpl. f_equal. apply IH.
Qed.

Lemma fo_ballots_length nic st rst src : length (fo_ballots nic st rst src) = length src.
Proof. unfold fo_ballots, fo_raw. rewrite map_length. apply prefs_loop_length. Qed.

Lemma combine_fst {T U} (l1 : list T) (l2 : list U) : length l1 = length l2 -> map fst (combine l1 l2) = l1.
Proof.
  revert l2. induction l1 as [|x l1 IH]; intros [|y l2] H; simpl in *; try discriminate; auto.
  f_equal. apply IH. congruence.
Qed.

Lemma combine_snd {T U} (l1 : list T) (l2 : list U) : length l1 = length l2 -> map snd (combine l1 l2) = l2.
Proof.
  revert l2. induction l1 as [|x l1 IH]; intros [|y l2] H; simpl in *; try discriminate; auto.
  f_equal. apply IH. congruence.
Qed.

Lemma from_ordinal_ok src nic st rst ci :
  from_ordinal_params src nic st rst = Ok ci ->
  let bs := fo_ballots nic st rst (os_multiplicity src) in
  let items := combine bs (map snd (os_multiplicity src)) in
  exists k,
    max_len (fo_raw nic st rst (os_multiplicity src)) = Ok k /\
    count_none nic st rst = 2%nat /\
    bs = map (pad k) (fo_raw nic st rst (os_multiplicity src)) /\
    ci_preferences ci = first_occ bs /\
    ci_multiplicity ci = acc_mult items [] /\
    ci_num_categories ci = k /\
    ci_categories_name ci = cat_names_from 0 (N.to_nat k) /\
    ci_num_unique_preferences ci = lenN (dedup (first_occ bs)) /\
    ci_num_voters ci = sumN (map snd (acc_mult items [])) /\
    ci_num_alternatives ci = os_num_alternatives src /\
    ci_alternatives_name ci = os_alternatives_name src.
Proof.
  intros H bs items. unfold from_ordinal_params in H.
  destruct (count_none nic st rst <? 2)%nat eqn:G1; [discriminate|].
  destruct (count_none nic st rst =? 3)%nat eqn:G2; [discriminate|].
  destruct (max_len (fo_raw nic st rst (os_multiplicity src))) as [k|e] eqn:Hk; [|discriminate].
  assert (Hbs : bs = map (pad k) (fo_raw nic st rst (os_multiplicity src))).
  { unfold bs, fo_ballots. rewrite Hk. reflexivity. }
  rewrite <- Hbs in H. fold items in H.
  pose proof (acc_loop_snd items [] []) as Hs.
  pose proof (acc_loop_fst items [] [] eq_refl) as Hf.
  destruct (acc_loop items [] []) as [prefs mult]. simpl in Hs, Hf.
  assert (Hp : prefs = first_occ bs).
  { rewrite Hf, acc_mult_keys. simpl. unfold items. rewrite combine_fst.
    - apply fold_step_nil.
    - unfold bs. rewrite fo_ballots_length, map_length. reflexivity. }
  inversion H; subst ci; clear H. simpl.
  exists k. splits; auto; try congruence.
  apply Nat.ltb_ge in G1. apply Nat.eqb_neq in G2.
  unfold count_none in *. destruct (is_none nic), (is_none st), (is_none rst); simpl in *; lia.
Qed.

Lemma fo_conserve_lemma src nic st rst ci :
  from_ordinal_params src nic st rst = Ok ci ->
  let bs := fo_ballots nic st rst (os_multiplicity src) in
  let items := combine bs (map snd (os_multiplicity src)) in
  length bs = length (os_multiplicity src) /\
  ci_preferences ci = first_occ bs /\
  NoDup (ci_preferences ci) /\
  (forall b, In b (ci_preferences ci) <-> In b bs) /\
  map fst (ci_multiplicity ci) = ci_preferences ci /\
  (forall b, lk b (ci_multiplicity ci) = wsum b items) /\
  (forall b, In b bs -> lookup b (ci_multiplicity ci) = Some (wsum b items)) /\
  ci_num_voters ci = sumN (map snd (ci_multiplicity ci)) /\
  ci_num_voters ci = sumN (map snd (os_multiplicity src)) /\
  ci_num_unique_preferences ci = lenN (ci_preferences ci) /\
  ci_num_unique_preferences ci = lenN (first_occ bs).
Proof.
  intros H bs items. apply from_ordinal_ok in H. cbv zeta in H. fold bs in H. fold items in H.
  destruct H as (k & Hk & Hc & Hbs & Hp & Hm & Hnc & Hcn & Hu & Hv & Hna & Han).
  assert (Hlen : length bs = length (os_multiplicity src)) by apply fo_ballots_length.
  assert (Hkeys : map fst (ci_multiplicity ci) = ci_preferences ci).
  { rewrite Hm, Hp, acc_mult_keys. simpl. unfold items. rewrite combine_fst.
    - apply fold_step_nil.
    - rewrite Hlen, map_length. reflexivity. }
  assert (Hlk : forall b, lk b (ci_multiplicity ci) = wsum b items).
  { intros b. rewrite Hm, acc_mult_lk. reflexivity. }
  splits; auto.
  - rewrite Hp. apply first_occ_nodup.
  - intros b. rewrite Hp. apply first_occ_in.
  - intros b Hb. specialize (Hlk b). unfold lk in Hlk.
    destruct (lookup b (ci_multiplicity ci)) eqn:E; [congruence|].
    apply lookup_none_iff in E. rewrite Hkeys, Hp, first_occ_in in E. tauto.
  - rewrite Hv, Hm. reflexivity.
  - rewrite Hv, acc_mult_sum. simpl. unfold items. rewrite combine_snd; auto.
    rewrite Hlen, map_length. reflexivity.
  - rewrite Hu, Hp. apply length_first_occ_dedup.
  - rewrite Hu. apply length_first_occ_dedup.
Qed.

(* ================================================================================================ *)
(* per-order category construction                                                                 *)
(* ================================================================================================ *)

Lemma lenN_app {T} (a b : list T) : lenN (a ++ b) = lenN a + lenN b.
Proof. unfold lenN. rewrite app_length. lia. Qed.

Lemma take_while_lt_spec t : forall rest alts alts' rest',
  take_while_lt t alts rest = (alts', rest') ->
  exists g, rest = g ++ rest' /\ alts' = alts ++ concat g /\
    (forall g1 x g2, g = g1 ++ x :: g2 -> lenN (alts ++ concat g1) < t) /\
    (t <= lenN alts' \/ rest' = []).
Proof.
  induction rest as [|c rest IH]; intros alts alts' rest' H; simpl in H.
  - inversion H; subst. exists []. simpl. rewrite app_nil_r. splits; auto.
    intros [|? ?] ? ? ?; discriminate.
  - destruct (lenN alts <? t) eqn:Hlt.
    + apply IH in H. destruct H as (g & Hr & Ha & Hs & He).
      exists (c :: g). simpl. splits.
      * congruence.
      * rewrite Ha, app_assoc. reflexivity.
      * intros [|y g1] x g2 Hg; simpl in *.
        -- rewrite app_nil_r. apply N.ltb_lt. assumption.
        -- inversion Hg; subst. rewrite app_assoc. eapply Hs. reflexivity.
      * assumption.
    + inversion H; subst. exists []. simpl. rewrite app_nil_r. splits; auto.
      * intros [|? ?] ? ? ?; discriminate.
      * left. apply N.ltb_ge. assumption.
Qed.

Lemma append_rest_cons a cats rest : append_rest (a :: cats) rest = a :: append_rest cats rest.
Proof. destruct rest; reflexivity. Qed.

Lemma size_pref_nil o : size_pref [] o = match o with [] => [] | _ :: _ => [concat o] end.
Proof. destruct o; reflexivity. Qed.

Lemma size_pref_cons t ts o :
  size_pref (t :: ts) o =
  let '(alts, rest) := take_while_lt t [] o in
  match rest with [] => [alts] | _ :: _ => alts :: size_pref ts rest end.
Proof.
  unfold size_pref. simpl. destruct (take_while_lt t [] o) as [alts rest].
  destruct rest as [|c rest]; [reflexivity|].
  destruct (size_loop ts (c :: rest)) as [cats r]. apply append_rest_cons.
Qed.

Lemma size_rule_holds ts : forall o, size_rule ts o (size_pref ts o).
Proof.
  induction ts as [|t ts IH]; intros o.
  - rewrite size_pref_nil. destruct o; reflexivity.
  - rewrite size_pref_cons. destruct (take_while_lt t [] o) as [alts rest] eqn:Ht.
    apply take_while_lt_spec in Ht. destruct Ht as (g & Ho & Ha & Hs & He). simpl in Ha, Hs.
    cbn [size_rule]. exists g, rest. split.
    + unfold shortest_reaching. splits; auto. subst alts. assumption.
    + destruct rest as [|c rest]; [congruence|].
      exists (size_pref ts (c :: rest)). split; [congruence | apply IH].
Qed.

Lemma take_classes_spec : forall rest num,
  take_classes num rest = (concat (firstn (N.to_nat num) rest), skipn (N.to_nat num) rest).
Proof.
  induction rest as [|c rest IH]; intros num; simpl.
  - destruct (N.to_nat num); reflexivity.
  - destruct (N.eqb_spec num 0) as [E|E].
    + subst. reflexivity.
    + rewrite IH. replace (N.to_nat num) with (S (N.to_nat (N.pred num))) by lia. reflexivity.
Qed.

Lemma classes_pref_nil o : classes_pref [] o = match o with [] => [] | _ :: _ => [concat o] end.
Proof. destruct o; reflexivity. Qed.

Lemma classes_pref_cons n ns o :
  classes_pref (n :: ns) o =
  concat (firstn (N.to_nat n) o) :: classes_pref ns (skipn (N.to_nat n) o).
Proof.
  unfold classes_pref. simpl. rewrite take_classes_spec.
  destruct (classes_loop ns (skipn (N.to_nat n) o)) as [cats r]. apply append_rest_cons.
Qed.

Lemma classes_rule_holds ns : forall o, classes_rule ns o (classes_pref ns o).
Proof.
  induction ns as [|n ns IH]; intros o.
  - rewrite classes_pref_nil. destruct o; reflexivity.
  - rewrite classes_pref_cons. cbn [classes_rule]. eexists. split; [reflexivity | apply IH].
Qed.

(* both rules produce a partition of the order into runs of whole consecutive classes *)
Lemma Partition_flat o b : Partition o b -> concat b = concat o.
Proof.
  intros (groups & H1 & H2). subst.
  induction groups as [|g gs IH]; simpl; auto. rewrite concat_app. congruence.
Qed.

Lemma size_rule_partition ts : forall o r, size_rule ts o r -> Partition o r.
Proof.
  induction ts as [|t ts IH]; intros o r H; cbn [size_rule] in H.
  - destruct o as [|c o]; subst r.
    + exists []. split; reflexivity.
    + exists [c :: o]. simpl. rewrite app_nil_r. split; reflexivity.
  - destruct H as (g & rest & (Ho & _ & _) & H). destruct rest as [|c rest].
    + subst r. exists [g]. simpl. rewrite !app_nil_r in *. split; congruence.
    + destruct H as (r' & Hr & H). apply IH in H. destruct H as (groups & Hg1 & Hg2).
      exists (g :: groups). simpl. split; congruence.
Qed.

Lemma classes_rule_partition ns : forall o r, classes_rule ns o r -> Partition o r.
Proof.
  induction ns as [|n ns IH]; intros o r H; cbn [classes_rule] in H.
  - destruct o as [|c o]; subst r.
    + exists []. split; reflexivity.
    + exists [c :: o]. simpl. rewrite app_nil_r. split; reflexivity.
  - destruct H as (r' & Hr & H). apply IH in H. destruct H as (groups & Hg1 & Hg2).
    exists (firstn (N.to_nat n) o :: groups). simpl. split.
    + rewrite Hg1. apply firstn_skipn.
    + congruence.
Qed.

Lemma concat_repeat_nil {T} n : concat (repeat (@nil T) n) = [].
Proof. induction n; simpl; auto. Qed.

Lemma map_concat_repeat_nil n : map (@concat N) (repeat [] n) = repeat [] n.
Proof. induction n; simpl; congruence. Qed.

Lemma Partition_pad k o b : Partition o b -> Partition o (pad k b).
Proof.
  intros (groups & H1 & H2). unfold pad.
  exists (groups ++ repeat [] (N.to_nat k - length b)). split.
  - rewrite concat_app, concat_repeat_nil, app_nil_r. assumption.
  - rewrite map_app, map_concat_repeat_nil, <- H2. reflexivity.
Qed.

(* ---- the variable size_truncators is overwritten inside the loop: no observable effect ---- *)
Lemma order_pref_fst nic rst st o :
  fst (order_pref nic rst st o) = raw_pref nic st rst o.
Proof.
  unfold order_pref, raw_pref. destruct (truthy rst) eqn:Hr.
  - rewrite orb_true_r. reflexivity.
  - rewrite orb_false_r. destruct (truthy st); [reflexivity|]. destruct (truthy nic); reflexivity.
Qed.

Lemma order_pref_snd nic rst st o o' :
  raw_pref nic (snd (order_pref nic rst st o)) rst o' = raw_pref nic st rst o'.
Proof.
  unfold order_pref, raw_pref. destruct (truthy rst) eqn:Hr.
  - reflexivity.
  - rewrite orb_false_r. destruct (truthy st) eqn:Hs; simpl; [rewrite Hs; reflexivity|].
    destruct (truthy nic); simpl; rewrite Hs; reflexivity.
Qed.

Lemma fo_raw_map nic st rst src :
  fo_raw nic st rst src = map (fun om => raw_pref nic st rst (fst om)) src.
Proof.
  unfold fo_raw. revert st. induction src as [|[o m] src IH]; intros st; simpl; auto.
  pose proof (order_pref_fst nic rst st o) as H1. pose proof (order_pref_snd nic rst st o) as H2.
  destruct (order_pref nic rst st o) as [p st']. simpl in H1, H2. rewrite IH, H1. f_equal.
  apply map_ext. intros om. apply H2.
Qed.

Lemma raw_pref_partition nic st rst o :
  truthy nic || truthy st || truthy rst = true -> Partition o (raw_pref nic st rst o).
Proof.
  intros H. unfold raw_pref. destruct (truthy rst).
  - eapply size_rule_partition, size_rule_holds.
  - destruct (truthy st).
    + eapply size_rule_partition, size_rule_holds.
    + destruct (truthy nic); [|discriminate]. eapply classes_rule_partition, classes_rule_holds.
Qed.

(* ---- padding ---- *)
Lemma max_len_ge (raw : list ballot) r : In r raw -> lenN r <= fold_right N.max 0 (map lenN raw).
Proof.
  induction raw as [|x raw IH]; simpl; intros H; [tauto|].
  destruct H as [H|H]; [subst; lia | specialize (IH H); lia].
Qed.

Lemma max_len_attained (raw : list ballot) : raw <> [] -> exists r, In r raw /\ lenN r = fold_right N.max 0 (map lenN raw).
Proof.
  induction raw as [|x raw IH]; intros H; [congruence|]. simpl.
  destruct raw as [|y raw].
  - exists x. simpl. split; auto. lia.
  - destruct IH as (r & Hr & He); [discriminate|].
    destruct (N.leb_spec (lenN x) (fold_right N.max 0 (map lenN (y :: raw)))) as [L|L].
    + exists r. split; [right; assumption|]. rewrite He. lia.
    + exists x. split; [left; reflexivity|]. lia.
Qed.

Lemma pad_length k (p : ballot) : lenN p <= k -> lenN (pad k p) = k.
Proof. unfold pad, lenN. intros H. rewrite app_length, repeat_length. lia. Qed.

Lemma cat_names_length n : forall z, length (cat_names_from z n) = n.
Proof. induction n as [|n IHn]; intros z; simpl; [reflexivity | rewrite IHn; reflexivity]. Qed.

Lemma max_len_ok raw k : max_len raw = Ok k -> raw <> [] /\ k = fold_right N.max 0 (map lenN raw).
Proof. unfold max_len. destruct raw; intros H; inversion H. split; [discriminate | reflexivity]. Qed.

Lemma fo_padding_lemma src nic st rst ci :
  from_ordinal_params src nic st rst = Ok ci ->
  let raw := fo_raw nic st rst (os_multiplicity src) in
  let bs := fo_ballots nic st rst (os_multiplicity src) in
  let k := ci_num_categories ci in
  bs = map (fun r => r ++ repeat [] (N.to_nat k - length r)) raw /\
  (forall r, In r raw -> lenN r <= k) /\
  (exists r, In r raw /\ lenN r = k) /\
  Forall (fun b => lenN b = k) bs /\
  Forall (fun b => lenN b = k) (ci_preferences ci) /\
  length (ci_categories_name ci) = N.to_nat k.
Proof.
  intros H. pose proof (fo_conserve_lemma _ _ _ _ _ H) as Hc. cbv zeta in Hc.
  apply from_ordinal_ok in H. cbv zeta in H |- *.
  destruct H as (k & Hk & _ & Hbs & Hp & _ & Hnc & Hcn & _).
  rewrite Hnc.
  remember (fo_raw nic st rst (os_multiplicity src)) as raw eqn:Eraw.
  remember (fo_ballots nic st rst (os_multiplicity src)) as bs eqn:Ebs.
  apply max_len_ok in Hk. destruct Hk as [Hne Hk].
  assert (Hle : forall r, In r raw -> lenN r <= k).
  { intros r Hr. rewrite Hk. apply max_len_ge. assumption. }
  assert (Hall : Forall (fun b => lenN b = k) bs).
  { rewrite Hbs. apply Forall_forall. intros b Hb. apply in_map_iff in Hb.
    destruct Hb as (r & Hb & Hr). subst b. apply pad_length, Hle, Hr. }
  splits; auto.
  - rewrite Hk. apply max_len_attained. assumption.
  - apply Forall_forall. intros b Hb. destruct Hc as (_ & _ & _ & Hin & _).
    apply Hin in Hb. rewrite Forall_forall in Hall. apply Hall, Hb.
  - rewrite Hcn. apply cat_names_length.
Qed.

(* ================================================================================================ *)
(* instance-level statements                                                                       *)
(* ================================================================================================ *)

Lemma Forall2_map_fun {T U} (P : T -> U -> Prop) (f : T -> U) l :
  (forall x, In x l -> P x (f x)) -> Forall2 P l (map f l).
Proof.
  induction l as [|x l IH]; intros H; simpl; constructor.
  - apply H. left. reflexivity.
  - apply IH. intros y Hy. apply H. right. assumption.
Qed.

Lemma fo_ballots_eq src nic st rst ci :
  from_ordinal_params src nic st rst = Ok ci ->
  fo_ballots nic st rst (os_multiplicity src) =
  map (fun om => pad (ci_num_categories ci) (raw_pref nic st rst (fst om))) (os_multiplicity src).
Proof.
  intros H. apply from_ordinal_ok in H. cbv zeta in H.
  destruct H as (k & _ & _ & Hbs & _ & _ & Hnc & _).
  rewrite Hbs, Hnc, fo_raw_map, map_map. reflexivity.
Qed.

Lemma fo_partition_lemma src nic st rst ci :
  from_ordinal_params src nic st rst = Ok ci ->
  truthy nic || truthy st || truthy rst = true ->
  let bs := fo_ballots nic st rst (os_multiplicity src) in
  length bs = length (os_multiplicity src) /\
  (forall b, In b (ci_preferences ci) <-> In b bs) /\
  Forall2 (fun om b => concat b = concat (fst om) /\
                       exists groups : list (list (list N)),
                         concat groups = fst om /\ b = map (@concat N) groups)
          (os_multiplicity src) bs.
Proof.
  intros H Ht bs. pose proof (fo_conserve_lemma _ _ _ _ _ H) as Hc. cbv zeta in Hc. fold bs in Hc.
  destruct Hc as (Hlen & _ & _ & Hin & _). splits; auto.
  unfold bs. rewrite (fo_ballots_eq _ _ _ _ _ H). apply Forall2_map_fun. intros [o m] _. simpl.
  assert (HP : Partition o (pad (ci_num_categories ci) (raw_pref nic st rst o))).
  { apply Partition_pad, raw_pref_partition, Ht. }
  split; [apply Partition_flat, HP | exact HP].
Qed.

Lemma fo_rules_lemma src nic st rst ci :
  from_ordinal_params src nic st rst = Ok ci ->
  let k := ci_num_categories ci in
  Forall2 (fun om b => exists r, b = r ++ repeat [] (N.to_nat k - length r) /\
             match nic, st, rst with
             | None, Some (t :: ts), None => size_rule (t :: ts) (fst om) r
             | Some (n :: ns), None, None => classes_rule (n :: ns) (fst om) r
             | None, None, Some (tab :: tabs) =>
                 size_rule (rel_sizes (tab :: tabs) (fst om)) (fst om) r
             | _, _, _ => r = []     (* an EMPTY truncator list: no category at all *)
             end)
          (os_multiplicity src) (fo_ballots nic st rst (os_multiplicity src)).
Proof.
  intros H k. rewrite (fo_ballots_eq _ _ _ _ _ H). apply Forall2_map_fun. intros [o m] _. cbn [fst].
  exists (raw_pref nic st rst o). split; [reflexivity|].
  apply from_ordinal_ok in H. cbv zeta in H. destruct H as (_ & _ & Hc & _).
  unfold raw_pref.
  destruct nic as [[|n ns]|], st as [[|t ts]|], rst as [[|tab tabs]|]; simpl in Hc; try discriminate;
    cbn [truthy olist]; cbv iota;
    first [reflexivity | exact (size_rule_holds _ _) | exact (classes_rule_holds _ _)].
Qed.

(* ---- guards ---- *)
Lemma fo_guard_too_many src nic st rst :
  (count_none nic st rst < 2)%nat -> from_ordinal_params src nic st rst = Err ValueErr.
Proof. intros H. unfold from_ordinal_params. apply Nat.ltb_lt in H. rewrite H. reflexivity. Qed.

Lemma fo_guard_none src : from_ordinal_params src None None None = Err ValueErr.
Proof. reflexivity. Qed.

Lemma fo_empty_source src nic st rst :
  os_multiplicity src = [] -> from_ordinal_params src nic st rst = Err ValueErr.
Proof.
  intros H. unfold from_ordinal_params. rewrite H. simpl.
  destruct (count_none nic st rst <? 2)%nat; [reflexivity|].
  destruct (count_none nic st rst =? 3)%nat; reflexivity.
Qed.

Lemma fo_total src nic st rst :
  count_none nic st rst = 2%nat -> os_multiplicity src <> [] ->
  exists ci, from_ordinal_params src nic st rst = Ok ci.
Proof.
  intros Hc Hs. unfold from_ordinal_params. rewrite Hc. simpl.
  unfold fo_raw. destruct (os_multiplicity src) as [|[o m] l]; [congruence|]. simpl.
  destruct (order_pref nic rst st o) as [p st']. simpl.
  match goal with |- context [acc_loop ?a ?b ?c] => destruct (acc_loop a b c) end.
  eexists. reflexivity.
Qed.

(* ---- the size rule pins the ballot down: at most one ballot satisfies it ---- *)
Lemma app_eq_app_split {T} (a1 b1 a2 b2 : list T) :
  a1 ++ b1 = a2 ++ b2 ->
  exists d, (a2 = a1 ++ d /\ b1 = d ++ b2) \/ (a1 = a2 ++ d /\ b2 = d ++ b1).
Proof.
  revert a2. induction a1 as [|x a1 IH]; intros a2 H; simpl in *.
  - exists a2. left. split; auto.
  - destruct a2 as [|y a2]; simpl in *.
    + exists (x :: a1). right. split; auto.
    + inversion H; subst. destruct (IH _ H2) as (d & [[E1 E2]|[E1 E2]]); exists d; [left|right];
        split; congruence.
Qed.

Lemma shortest_reaching_unique t o g1 r1 g2 r2 :
  shortest_reaching t o g1 r1 -> shortest_reaching t o g2 r2 -> g1 = g2 /\ r1 = r2.
Proof.
  intros (Ho1 & Hs1 & He1) (Ho2 & Hs2 & He2).
  assert (H : g1 ++ r1 = g2 ++ r2) by congruence.
  destruct (app_eq_app_split _ _ _ _ H) as (d & [[E1 E2]|[E1 E2]]); destruct d as [|x d].
  - rewrite app_nil_r in E1. simpl in E2. split; congruence.
  - exfalso. specialize (Hs2 _ _ _ E1). destruct He1 as [He1|He1]; [lia | subst r1; discriminate].
  - rewrite app_nil_r in E1. simpl in E2. split; congruence.
  - exfalso. specialize (Hs1 _ _ _ E1). destruct He2 as [He2|He2]; [lia | subst r2; discriminate].
Qed.

Lemma size_rule_unique ts : forall o r1 r2, size_rule ts o r1 -> size_rule ts o r2 -> r1 = r2.
Proof.
  induction ts as [|t ts IH]; intros o r1 r2 H1 H2; cbn [size_rule] in *.
  - destruct o; congruence.
  - destruct H1 as (g1 & q1 & S1 & H1). destruct H2 as (g2 & q2 & S2 & H2).
    destruct (shortest_reaching_unique _ _ _ _ _ _ S1 S2) as [Eg Eq]. subst g2 q2.
    destruct q1 as [|c q1]; [congruence|].
    destruct H1 as (r1' & E1 & H1). destruct H2 as (r2' & E2 & H2).
    rewrite E1, E2. f_equal. eapply IH; eassumption.
Qed.

(* with positive truncators and non-empty classes no category produced by the size rule is empty
   (unless the order itself is empty) *)
Lemma size_rule_nonempty ts : forall o r,
  Forall (fun t => 0 < t) ts -> Forall (fun c => c <> []) o -> o <> [] ->
  size_rule ts o r -> Forall (fun cat => cat <> []) r.
Proof.
  induction ts as [|t ts IH]; intros o r Hpos Hne Ho H; cbn [size_rule] in H.
  - destruct o as [|c o]; [congruence|]. subst r. constructor; [|constructor].
    inversion Hne; subst. simpl. intros E. apply app_eq_nil in E. tauto.
  - destruct H as (g & rest & (Hog & Hs & He) & H).
    inversion Hpos as [|? ? Ht Hpos']; subst.
    assert (Hg : concat g <> []).
    { destruct g as [|c g].
      - simpl in *. destruct He as [He|He]; [unfold lenN in He; simpl in He; lia | congruence].
      - apply Forall_app in Hne. destruct Hne as [Hne _]. inversion Hne; subst.
        simpl. intros E. apply app_eq_nil in E. tauto. }
    destruct rest as [|c rest].
    + subst r. constructor; [assumption | constructor].
    + destruct H as (r' & Hr & H). subst r. constructor; [assumption|].
      apply Forall_app in Hne. destruct Hne as [_ Hne].
      eapply IH; eauto. discriminate.
Qed.

(* ---- refutations ---- *)
(* an EMPTY truncator list passes the guards and yields ballots with zero categories: the ranked
   alternatives are lost (no partition), although the docstring promises "an additional" category *)
Lemma fo_partition_empty_truncators_refuted :
  exists src ci,
    os_multiplicity src = [([[1]; [2]], 3)] /\
    from_ordinal_params src None (Some []) None = Ok ci /\
    ci_preferences ci = [[]] /\ ci_num_categories ci = 0 /\
    ~ Partition [[1]; [2]] [].
Proof.
  exists {| os_num_alternatives := 2; os_alternatives_name := []; os_multiplicity := [([[1]; [2]], 3)] |}.
  eexists. splits; try reflexivity.
  intros (groups & H1 & H2). symmetry in H2. apply map_eq_nil in H2. subst groups. discriminate.
Qed.

(* the literal docstring sentence "each category will contain at least the truncation point number
   of alternatives" is false for the last category of an order that runs out *)
Lemma fo_size_at_least_refuted :
  exists ts o, Forall (fun t => 0 < t) ts /\ wf_order o /\
    exists j cat t, nth_error (size_pref ts o) j = Some cat /\ nth_error ts j = Some t /\ lenN cat < t.
Proof.
  exists [3], [[1]; [2]]. splits.
  - repeat constructor.
  - split.
    + repeat constructor; simpl; intuition discriminate.
    + repeat constructor; discriminate.
  - exists 0%nat, [1; 2], 3. splits; reflexivity.
Qed.

Lemma Forall2_imp {T U} (P Q : T -> U -> Prop) l1 l2 :
  (forall x y, P x y -> Q x y) -> Forall2 P l1 l2 -> Forall2 Q l1 l2.
Proof. intros H F. induction F; constructor; auto. Qed.

(* ---- the three modes, separately ---- *)
Definition padded_to (k : N) (r b : ballot) : Prop := b = r ++ repeat [] (N.to_nat k - length r).

Lemma fo_size_rule_lemma src ts ci :
  ts <> [] -> from_ordinal_params src None (Some ts) None = Ok ci ->
  Forall2 (fun om b => exists r, size_rule ts (fst om) r /\ padded_to (ci_num_categories ci) r b)
          (os_multiplicity src) (fo_ballots None (Some ts) None (os_multiplicity src)).
Proof.
  intros Hts H. apply fo_rules_lemma in H. cbv zeta in H. destruct ts as [|t ts]; [congruence|].
  eapply Forall2_imp; [|exact H]. intros om b (r & H1 & H2). exists r. split; assumption.
Qed.

Lemma fo_relative_rule_lemma src tabs ci :
  tabs <> [] -> from_ordinal_params src None None (Some tabs) = Ok ci ->
  Forall2 (fun om b => exists r, size_rule (rel_sizes tabs (fst om)) (fst om) r /\
                                 padded_to (ci_num_categories ci) r b)
          (os_multiplicity src) (fo_ballots None None (Some tabs) (os_multiplicity src)).
Proof.
  intros Hts H. apply fo_rules_lemma in H. cbv zeta in H. destruct tabs as [|t ts]; [congruence|].
  eapply Forall2_imp; [|exact H]. intros om b (r & H1 & H2). exists r. split; assumption.
Qed.

Lemma fo_classes_rule_lemma src ns ci :
  ns <> [] -> from_ordinal_params src (Some ns) None None = Ok ci ->
  Forall2 (fun om b => exists r, classes_rule ns (fst om) r /\ padded_to (ci_num_categories ci) r b)
          (os_multiplicity src) (fo_ballots (Some ns) None None (os_multiplicity src)).
Proof.
  intros Hts H. apply fo_rules_lemma in H. cbv zeta in H. destruct ns as [|t ts]; [congruence|].
  eapply Forall2_imp; [|exact H]. intros om b (r & H1 & H2). exists r. split; assumption.
Qed.

(* ================================================================================================ *)
(* the conversion checker                                                                          *)
(* ================================================================================================ *)

(* what the property demands of a conversion result, whatever the category sizes: the ballot list is
   duplicate-free and is the key set of the multiplicity table, all ballots have k categories, and
   there is an assignment of a listed ballot to every source order that partitions the order into
   runs of whole consecutive classes, such that every listed ballot is used and its multiplicity is
   the sum of the multiplicities of the orders assigned to it *)
Definition ValidConversion (src : list (order * N)) (prefs : list ballot) (mult : list (ballot * N))
           (k : N) : Prop :=
  NoDup prefs /\ NoDup (map fst mult) /\
  (forall b, In b prefs <-> In b (map fst mult)) /\
  Forall (fun b => lenN b = k) prefs /\
  exists assign : list ballot,
    Forall2 (fun om b => In b prefs /\ Partition (fst om) b) src assign /\
    forall b, In b prefs ->
      In b assign /\ lookup b mult = Some (wsum b (combine assign (map snd src))).

Lemma strip_prefix_iff c : forall cat rest, strip_prefix c cat = Some rest <-> cat = c ++ rest.
Proof.
  induction c as [|x c IH]; intros cat rest; simpl.
  - split; intros H; congruence.
  - destruct cat as [|y cat]; [split; discriminate|].
    destruct (N.eqb_spec x y) as [E|E].
    + subst y. rewrite IH. split; intros H; congruence.
    + split; [discriminate | intros H; congruence].
Qed.

Lemma fill_nil o : fill o [] = Some o.
Proof. destruct o; reflexivity. Qed.

Lemma fill_sound : forall o cat o', fill o cat = Some o' -> exists g, o = g ++ o' /\ concat g = cat.
Proof.
  induction o as [|c o IH]; intros cat o' H.
  - destruct cat; simpl in H; [|discriminate]. inversion H; subst. exists []. split; reflexivity.
  - destruct cat as [|y cat].
    + simpl in H. inversion H; subst. exists []. split; reflexivity.
    + cbn [fill] in H. destruct (strip_prefix c (y :: cat)) as [rest|] eqn:Hs; [|discriminate].
      apply strip_prefix_iff in Hs. apply IH in H. destruct H as (g & Ho & Hg).
      exists (c :: g). simpl. split; congruence.
Qed.

Lemma fill_complete : forall g o', Forall (fun c => c <> []) g -> fill (g ++ o') (concat g) = Some o'.
Proof.
  induction g as [|c g IH]; intros o' Hne; simpl.
  - apply fill_nil.
  - inversion Hne as [|? ? Hc Hg]; subst. destruct c as [|x c]; [congruence|].
    cbn [app fill].
    assert (Hs : strip_prefix (x :: c) (x :: c ++ concat g) = Some (concat g)).
    { apply strip_prefix_iff. reflexivity. }
    rewrite Hs. apply IH, Hg.
Qed.

Lemma partition_check_sound : forall b o, partition_check o b = true -> Partition o b.
Proof.
  induction b as [|cat b IH]; intros o H; simpl in H.
  - destruct o; [|discriminate]. exists []. split; reflexivity.
  - destruct (fill o cat) as [o'|] eqn:Hf; [|discriminate].
    apply fill_sound in Hf. destruct Hf as (g & Ho & Hg).
    apply IH in H. destruct H as (groups & H1 & H2).
    exists (g :: groups). subst o o' cat b. split; reflexivity.
Qed.

Lemma partition_check_complete o b :
  Forall (fun c => c <> []) o -> Partition o b -> partition_check o b = true.
Proof.
  intros Hne (groups & H1 & H2). subst o b.
  induction groups as [|g gs IH]; simpl; [reflexivity|].
  simpl in Hne. apply Forall_app in Hne. destruct Hne as [Hg Hgs].
  rewrite fill_complete by assumption. apply IH, Hgs.
Qed.

Lemma choices_iff {T} (cands : list (list T)) : forall l,
  In l (choices cands) <-> Forall2 (fun x c => In x c) l cands.
Proof.
  induction cands as [|c cs IH]; intros l; simpl.
  - split.
    + intros [H|[]]. subst. constructor.
    + intros H. inversion H. left. reflexivity.
  - rewrite in_flat_map. split.
    + intros (x & Hx & Hl). apply in_map_iff in Hl. destruct Hl as (l' & El & Hl'). subst l.
      constructor; [assumption | apply IH, Hl'].
    + intros H. inversion H as [|x ? l' ? Hx Hl']; subst. exists x. split; [assumption|].
      apply in_map_iff. exists l'. split; [reflexivity | apply IH, Hl'].
Qed.

Lemma wsum_b_eq b items : wsum_b b items = wsum b items.
Proof.
  induction items as [|[k m] items IH]; simpl; auto. rewrite IH.
  destruct (ballot_eqb_spec b k); destruct (ballot_eq_dec b k); congruence.
Qed.

Lemma nodupb_iff l : nodupb l = true <-> NoDup l.
Proof.
  induction l as [|x l IH]; simpl.
  - split; [constructor | reflexivity].
  - rewrite andb_true_iff, negb_true_iff, mem_false_iff, IH. split.
    + intros [H1 H2]. constructor; assumption.
    + intros H. inversion H. split; assumption.
Qed.

Lemma Forall2_map_l {T U V} (P : U -> V -> Prop) (f : T -> U) l1 l2 :
  Forall2 P (map f l1) l2 <-> Forall2 (fun x y => P (f x) y) l1 l2.
Proof.
  revert l2. induction l1 as [|x l1 IH]; intros l2; simpl.
  - split; intros H; inversion H; constructor.
  - split; intros H; inversion H; subst; constructor; auto; apply IH; assumption.
Qed.

Lemma Forall2_flip {T U} (P : T -> U -> Prop) l1 l2 :
  Forall2 P l1 l2 <-> Forall2 (fun y x => P x y) l2 l1.
Proof. split; intros H; induction H; constructor; auto. Qed.

Lemma Forall2_iff_strong {T U} (P Q : T -> U -> Prop) l1 l2 :
  (forall x y, In x l1 -> (P x y <-> Q x y)) -> (Forall2 P l1 l2 <-> Forall2 Q l1 l2).
Proof.
  revert l2. induction l1 as [|x l1 IH]; intros l2 H.
  - split; intros F; inversion F; constructor.
  - split; intros F; inversion F; subst; constructor;
      try (apply (H x); [left; reflexivity | assumption]);
      apply (IH _ (fun a b Ha => H a b (or_intror Ha))); assumption.
Qed.

Theorem conv_check_correct_lemma src prefs mult k :
  Forall (fun om => Forall (fun c => c <> []) (fst om)) src ->
  (conv_check src prefs mult k = true <-> ValidConversion src prefs mult k).
Proof.
  intros Hwf. unfold conv_check, ValidConversion.
  rewrite !andb_true_iff, !nodupb_iff, !forallb_forall, existsb_exists.
  assert (Hassign : forall assign,
    (In assign (choices (map (fun om => filter (partition_check (fst om)) prefs) src)) <->
     Forall2 (fun om b => In b prefs /\ Partition (fst om) b) src assign)).
  { intros assign. rewrite choices_iff, Forall2_flip, Forall2_map_l.
    apply Forall2_iff_strong. intros om b Hom. rewrite filter_In.
    rewrite Forall_forall in Hwf. specialize (Hwf _ Hom).
    split; intros [H1 H2]; split; auto.
    - apply partition_check_sound, H2.
    - apply partition_check_complete; assumption. }
  assert (Hok : forall assign,
    assignment_ok prefs mult (map snd src) assign = true <->
    forall b, In b prefs -> In b assign /\ lookup b mult = Some (wsum b (combine assign (map snd src)))).
  { intros assign. unfold assignment_ok. rewrite forallb_forall.
    split; intros H b Hb; specialize (H b Hb).
    - apply andb_true_iff in H. destruct H as [H1 H2]. apply mem_iff in H1. split; auto.
      destruct (lookup b mult); [|discriminate]. apply N.eqb_eq in H2. rewrite wsum_b_eq in H2. congruence.
    - destruct H as [H1 H2]. apply andb_true_iff. split; [apply mem_iff, H1|].
      rewrite H2, wsum_b_eq. apply N.eqb_refl. }
  split.
  - intros [[[[[H1 H2] H3] H4] H5] (assign & Ha & Hb)]. splits; auto.
    + intros b. split; intros Hb'.
      * apply mem_iff, H3, Hb'.
      * apply mem_iff, H4, Hb'.
    + apply Forall_forall. intros b Hb'. apply N.eqb_eq, H5, Hb'.
    + exists assign. split; [apply Hassign, Ha | apply Hok, Hb].
  - intros (H1 & H2 & H3 & H5 & assign & Ha & Hb). splits; auto.
    + intros b Hb'. apply mem_iff, H3, Hb'.
    + intros b Hb'. apply mem_iff, H3, Hb'.
    + intros b Hb'. rewrite Forall_forall in H5. apply N.eqb_eq, H5, Hb'.
    + exists assign. split; [apply Hassign, Ha | apply Hok, Hb].
Qed.

Lemma Forall2_strengthen_r {T U} (P : T -> U -> Prop) (Q : U -> Prop) l1 l2 :
  Forall2 P l1 l2 -> (forall y, In y l2 -> Q y) -> Forall2 (fun x y => Q y /\ P x y) l1 l2.
Proof.
  intros F. induction F as [|x y l1 l2 Hxy F IH]; intros H; constructor.
  - split; [apply H; left; reflexivity | assumption].
  - apply IH. intros y' Hy'. apply H. right. assumption.
Qed.

(* the result of from_ordinal is a valid conversion (consequence of partition, padding, conservation) *)
Lemma fo_output_valid_lemma src nic st rst ci :
  from_ordinal_params src nic st rst = Ok ci ->
  truthy nic || truthy st || truthy rst = true ->
  ValidConversion (os_multiplicity src) (ci_preferences ci) (ci_multiplicity ci) (ci_num_categories ci).
Proof.
  intros H Ht.
  pose proof (fo_conserve_lemma _ _ _ _ _ H) as Hc. cbv zeta in Hc.
  pose proof (fo_partition_lemma _ _ _ _ _ H Ht) as Hp. cbv zeta in Hp.
  pose proof (fo_padding_lemma _ _ _ _ _ H) as Hd. cbv zeta in Hd.
  destruct Hc as (Hlen & Hfo & Hnd & Hin & Hkeys & Hlk & Hlook & _).
  destruct Hp as (_ & _ & HF). destruct Hd as (_ & _ & _ & _ & Hk & _).
  unfold ValidConversion. splits; auto.
  - rewrite Hkeys. assumption.
  - intros b. rewrite Hkeys. tauto.
  - exists (fo_ballots nic st rst (os_multiplicity src)). split.
    + apply Forall2_strengthen_r.
      * eapply Forall2_imp; [|exact HF]. intros om b [_ H2]. exact H2.
      * intros b. apply Hin.
    + intros b Hb. apply Hin in Hb. split; [assumption | apply Hlook, Hb].
Qed.

(* ================================================================================================ *)
(* empty categories are trailing                                                                   *)
(* ================================================================================================ *)

(* b = non-empty categories followed by empty ones *)
Definition TrailingOnly (b : ballot) : Prop :=
  exists r n, b = r ++ repeat [] n /\ Forall (fun c => c <> []) r.

Lemma all_empty_iff b : all_empty b = true <-> b = repeat [] (length b).
Proof.
  induction b as [|c b IH]; simpl; [tauto|].
  destruct c as [|x c].
  - rewrite IH. split; intros H; [f_equal; exact H | injection H as H; exact H].
  - split; discriminate.
Qed.

Lemma trailing_ok_iff b : trailing_ok b = true <-> TrailingOnly b.
Proof.
  induction b as [|c b IH]; simpl.
  - split; auto. intros _. exists [], 0%nat. split; [reflexivity | constructor].
  - destruct c as [|x c].
    + rewrite all_empty_iff. split.
      * intros H. exists [], (S (length b)). simpl. split; [f_equal; exact H | constructor].
      * intros (r & n & E & Hr). destruct r as [|c' r].
        -- simpl in E. destruct n as [|n]; [discriminate|]. simpl in E. injection E as E.
           rewrite E, repeat_length. reflexivity.
        -- simpl in E. injection E as E1 E2. subst c'. inversion Hr; subst. tauto.
    + rewrite IH. split.
      * intros (r & n & E & Hr). exists ((x :: c) :: r), n. simpl. split; [f_equal; exact E|].
        constructor; [discriminate | assumption].
      * intros (r & n & E & Hr). destruct r as [|c' r].
        -- simpl in E. destruct n; discriminate.
        -- simpl in E. injection E as E1 E2. inversion Hr; subst. exists r, n. split; auto.
Qed.

Lemma TrailingOnly_pad k b : TrailingOnly b -> TrailingOnly (pad k b).
Proof.
  intros (r & n & E & Hr). unfold pad. exists r, (n + (N.to_nat k - length b))%nat.
  split; [|assumption]. rewrite E at 1. rewrite <- app_assoc, repeat_app. reflexivity.
Qed.

Lemma TrailingOnly_cons c b : c <> [] -> TrailingOnly b -> TrailingOnly (c :: b).
Proof.
  intros Hc (r & n & E & Hr). exists (c :: r), n. simpl. split; [congruence | constructor; assumption].
Qed.

Lemma classes_pref_empty ns : classes_pref ns [] = repeat [] (length ns).
Proof.
  induction ns as [|n ns IH]; [reflexivity|].
  rewrite classes_pref_cons. destruct (N.to_nat n); simpl; rewrite IH; reflexivity.
Qed.

Lemma concat_nonempty (g : order) : g <> [] -> Forall (fun c => c <> []) g -> concat g <> [].
Proof.
  destruct g as [|c g]; [congruence|]. intros _ H. inversion H; subst. simpl.
  intros E. apply app_eq_nil in E. tauto.
Qed.

Lemma classes_pref_trailing ns : forall o,
  Forall (fun n => 0 < n) ns -> Forall (fun c => c <> []) o -> TrailingOnly (classes_pref ns o).
Proof.
  induction ns as [|n ns IH]; intros o Hpos Hne.
  - rewrite classes_pref_nil. destruct o as [|c o].
    + exists [], 0%nat. split; [reflexivity | constructor].
    + exists [concat (c :: o)], 0%nat. split; [reflexivity|].
      constructor; [|constructor]. apply concat_nonempty; [discriminate | assumption].
  - destruct o as [|c o].
    + rewrite classes_pref_empty. exists [], (length (n :: ns)). split; [reflexivity | constructor].
    + rewrite classes_pref_cons. inversion Hpos as [|? ? Hn Hpos']; subst.
      apply TrailingOnly_cons.
      * apply concat_nonempty.
        -- destruct (N.to_nat n) eqn:E; [lia | discriminate].
        -- rewrite <- (firstn_skipn (N.to_nat n) (c :: o)) in Hne. apply Forall_app in Hne. tauto.
      * apply IH; [assumption|].
        rewrite <- (firstn_skipn (N.to_nat n) (c :: o)) in Hne. apply Forall_app in Hne. tauto.
Qed.

Lemma size_pref_trailing ts o :
  ts <> [] -> Forall (fun t => 0 < t) ts -> Forall (fun c => c <> []) o -> TrailingOnly (size_pref ts o).
Proof.
  intros Hts Hpos Hne. destruct o as [|c o].
  - destruct ts as [|t ts]; [congruence|]. exists [], 1%nat. split; [reflexivity | constructor].
  - exists (size_pref ts (c :: o)), 0%nat. split; [symmetry; apply app_nil_r|].
    eapply size_rule_nonempty; eauto using size_rule_holds. discriminate.
Qed.

(* positive truncators (for the relative mode: positive table entries at the lengths that occur),
   non-empty classes: in every produced ballot the empty categories are trailing *)
Definition positive_params (nic st : option (list N)) (rst : option (list (list N))) (src : list (order * N)) : Prop :=
  Forall (fun n => 0 < n) (olist nic) /\ Forall (fun t => 0 < t) (olist st) /\
  Forall (fun om => Forall (fun t => 0 < t) (rel_sizes (olist rst) (fst om))) src.

Lemma fo_trailing_lemma src nic st rst ci :
  from_ordinal_params src nic st rst = Ok ci ->
  truthy nic || truthy st || truthy rst = true ->
  positive_params nic st rst (os_multiplicity src) ->
  Forall (fun om => Forall (fun c => c <> []) (fst om)) (os_multiplicity src) ->
  Forall TrailingOnly (ci_preferences ci).
Proof.
  intros H Ht (Pn & Ps & Pr) Hwf.
  pose proof (fo_conserve_lemma _ _ _ _ _ H) as Hc. cbv zeta in Hc.
  destruct Hc as (_ & _ & _ & Hin & _).
  apply Forall_forall. intros b Hb. apply Hin in Hb.
  rewrite (fo_ballots_eq _ _ _ _ _ H) in Hb. apply in_map_iff in Hb. destruct Hb as ([o m] & Eb & Hom).
  subst b. simpl. apply TrailingOnly_pad.
  rewrite Forall_forall in Hwf, Pr. specialize (Hwf _ Hom). specialize (Pr _ Hom). simpl in Hwf, Pr.
  unfold raw_pref. destruct (truthy rst) eqn:Er.
  - apply size_pref_trailing; auto.
    destruct rst as [[|tab tabs]|]; simpl in Er; try discriminate; try (simpl; discriminate).
  - destruct (truthy st) eqn:Es.
    + apply size_pref_trailing; auto. destruct st as [[|t ts]|]; simpl in Es; try discriminate; try (simpl; discriminate).
    + destruct (truthy nic) eqn:En; [|exfalso; rewrite ?En, ?Es, ?Er in Ht; discriminate Ht].
      apply classes_pref_trailing; assumption.
Qed.
