"""C09 — matching (weighted digraph, .wmd) files survive write -> parse unchanged.

Implementation side: MatchingInstance built through add_edge / add_node + direct metadata assignment, written with
MatchingInstance.write, re-read with parse_file and parse_str, written again.  Model side: Model/WmdIO.v at
W := text (a weight is its raw token), ops c09.write / c09.parse / c09.roundtrip.
Weights are IEEE doubles given by their 64-bit pattern and compared BITWISE (struct.pack('>d'))."""
import os
import random
import struct

from core import proto, oracle
from .common import case, guarded

ID = "C09"
COVER_FILES = ['instances/preflibinstance/matching.py']
RULE = ("exhaustive: every non-empty directed graph (self-loops, antiparallel edges) on node sets {1}, {1,2}, {1,2,3} "
        "with weights drawn from a palette of special doubles, and on node sets with negative ids / ids colliding mod 8; "
        "random: up to 14 nodes (thorough: up to 60) with ids in [-10^18, 10^18]: non-negative (45 %), mixed signs (40 %), "
        "all negative (15 %), negative sources / targets / self-loops, pairs colliding modulo 8 such as {7,15}, {3,11}; "
        "names only on non-negative ids; edges inserted in random order through add_edge, overwritten edges (add_edge twice with another weight), "
        "isolated nodes through add_node, weights from random finite 64-bit patterns, negative, subnormal, huge, -0.0, "
        "integer-valued, 0.1, 1/3, equal weights, and (20 % of all weights) values whose repr uses exponent notation "
        "(1e+16, -3.75e+300, 1.7976931348623157e+308, 5e-324, 1e-07, 9999999999999998.0, 1e22, integers-as-floats >= "
        "1e16, powers of two up to 2^1023); Unicode metadata and names (also empty names, separators # : , { }). "
        "HISTORY cases (one third of the random cases + small graphs): the object is observed through edges() / "
        "outgoing_edges() / neighbours() and written once, then weights of existing edges are overwritten with add_edge "
        "(no new neighbour), new edges / nodes are added and the SAME object is the instance under test; or the first "
        "file is parsed into a new object, that object is written again (must be byte-identical), modified and then "
        "tested. OBJECT LIFETIME cases (2 of 7 random cases + tiny graphs): instance A is built, then a second instance "
        "B with the same ordered id pairs and other weights, B's text is parsed header_only into a third object and "
        "refused by the type gate as 'soc'; then A is written / re-read and judged against A's PAYLOAD, then B against "
        "B's. Name dicts in discovery, shuffled or descending id order, on all or on a subset of the nodes; numpy.int64 "
        "ids and numpy.float64 weights; double blanks, tabs, U+00A0 inside values, names starting with a blank / tab. "
        "DESTINATION of write(): a new path, or a path that already holds a longer file (the new bytes + 40 stale edge "
        "lines), a file of exactly the same length, a shorter file (one case in four each), or - in half of the history "
        "cases - the very path the object was saved to before it was edited (fixed cases: the edit shortens the "
        "output, 0.30000000000000004 -> 0.5); the bytes must equal those of write() to a new path. "
        "After every observation the sets returned by edges() / outgoing_edges() are modified in place and the "
        "observation is repeated (purity / aliasing). Per case: (h) edges()/nodes()/alternatives_name of the instance "
        "under test = what its PAYLOAD says: the model's add_node/add_edge semantics applied to the whole call history "
        "(weights compared as repr tokens), never the instance's live accessors; (a) model-parse(impl.write(i)) = content "
        "of i, by readlines and by splitlines; (b) impl.parse_file and impl.parse_str of impl.write(i) = i: edges() with "
        "bitwise weights, outgoing_edges/neighbours of incident nodes, incident node set, names, num_alternatives, "
        "num_edges = |edges|, num_voters = num_alternatives; (c) impl.write(impl.parse(impl.write(i))) byte-identical; "
        "(d) impl.parse(model-write(i)) = i; (e) model-write(i) vs impl.write(i) byte for byte (recorded in the "
        "distribution; a difference alone is not a violation because the property does not prescribe the bytes of the "
        "first file); (f) the codec hypotheses of the theorems on every generated weight token; (g) header_only on both "
        "sides. non-trivial = >= 2 edges and a non-integer weight")
EXHAUSTIVE = {"quick": "all 527 non-empty digraphs on {1}, {1,2}, {1,2,3} (one weight palette) + all non-empty digraphs on "
                       "{-1}, {-1,1}, {-2,-1}, {-9,0,7}, {7,15}, {3,11,-5}, {-10^18,10^18}",
              "thorough": "all non-empty digraphs on {1}, {1,2}, {1,2,3} x 3 weight palettes x 2 insertion orders + the "
                          "relabelled node sets of the quick tier"}
THEOREMS_FOR_OP = {"c09.roundtrip": "C09_roundtrip, C09_idempotent, C09_header_only (Properties/C09.v); on the extracted "
                                    "instantiation: C09_roundtrip_tokens, C09_idempotent_tokens",
                   "c09.parse": "none (parser-fidelity record, see RULE)"}
TRUSTED = ["C09 theorems are stated for an abstract weight type W with Section hypotheses on the codec show_w = "
           "'{}'.format(float) (= repr), read_w = float(token): H_read_show: read_w (show_w w) = Some w; H_show_nonempty; "
           "H_show_no_comma; H_show_no_space: no whitespace character at all (Python's 29 str.isspace code points, which "
           "include U+0020 and every line boundary).  CPython's repr/float round trip for finite doubles and the character "
           "set of repr are NOT proved; check (f) tests them on every generated weight (float(repr(w)) bit-identical, "
           "charset of the token).  C09_roundtrip_pointwise needs the four facts only for the weights stored in the "
           "instance (good_w); C09_roundtrip_tokens / C09_idempotent_tokens are the statements about the extracted functions "
           "(weight = raw token, tok_ok = non-empty, no comma, no whitespace)",
           "the UTF-8 codec round trip of open(..., encoding='utf-8') and universal-newline reading (modelled by "
           "Lib/PyStr.readlines) are exercised, not proved",
           "modelled: WeightedDiGraph (add_node, add_edge, edges, nodes, outgoing_edges), MatchingInstance.parse/.write, "
           "PrefLibInstance.parse_lines/parse_metadata/write_metadata; int() restricted to ASCII digits"]
ASSUMPTIONS = ["node ids are Python ints of either sign (model: Z), written by str() and read by int(); alternatives_name "
               "is keyed by the NON-NEGATIVE nodes only: the name pattern (\\d+) cannot match a signed id, so a name on a "
               "negative id is outside the reading of 'well-formed instance'",
               "weights are finite Python floats (nan/inf excluded by the quantifier: 'any finite float value')",
               "metadata values and alternative names contain no \\n / \\r; str.strip() is the identity on metadata values "
               "(wf_field_rl), alternative names only have no TRAILING whitespace (wf_name_rl: they may start with blanks "
               "/ tabs) - the hypotheses of C09_roundtrip / C09_idempotent / C09_header_only; the empty name, '#', ':', "
               "',' and whole fake header / edge lines as values are included.  In ~90 % of the cases they also contain "
               "none of the other eight str.splitlines boundaries and are checked through parse_file, "
               "get_parsed_instance AND parse_str (C09_roundtrip_str needs the stronger wf_field); in ~10 % a value has "
               "\\x0b \\x0c \\x1c \\x1d \\x1e \\x85 U+2028 U+2029 strictly inside: still inside the hypothesis of the file-path "
               "theorems, checked through parse_file / get_parsed_instance only (parse_str is not claimed for them)",
               "WeightedDiGraph.neighbours(n) returns the internal set on the unchanged tree (modifying the result changes "
               "the graph): outside C09, so the harness never modifies that result (it does modify the sets returned by "
               "edges() and outgoing_edges() and re-observes)",
               "excluded classes (each with a _refuted witness in Properties/C09.v, run on the implementation as "
               "'excluded class ...'): \\n or \\r inside a value, outer whitespace of a metadata value, trailing whitespace of a name / a whitespace-only name, num_edges != number of "
               "edges, no edge, a name on a negative node id",
               "well-formed matching instance: num_edges = number of stored edges, alternatives_name keyed by the "
               "non-negative nodes, num_alternatives = number of nodes, data_type 'wmd', at least one edge"]
TIMEOUT_S = 60.0
# (e) model-write(i) == impl.write(i) byte for byte.  False: recorded in the distribution only (the property does not
# prescribe the bytes of the FIRST file, only that the second file equals it: a harmless change of the layout that both
# readers accept must not raise an alarm).  True: a difference is a violation.
STRICT_E = False
CHUNK = 20

META_FIELDS = ["file_name", "title", "description", "data_type", "modification_type", "relates_to", "related_files",
               "publication_date", "modification_date"]

LINE_BOUNDARIES = set("\n\r\v\f\x1c\x1d\x1e\x85") | {chr(0x2028), chr(0x2029)}


# ------------------------------------------------------------------------------------------------ floats
def f_of_bits(b):
    return struct.unpack(">d", b.to_bytes(8, "big"))[0]


def bits_of_f(x):
    return int.from_bytes(struct.pack(">d", x), "big")


def finite_bits(b):
    return (b >> 52) & 0x7FF != 0x7FF


SPECIAL = [0.0, -0.0, 1.0, -1.0, 2.0, 0.1, -0.1, 1 / 3, -1 / 3, 2 / 3, 0.5, 1e16, 1e22, 1e23, 123456789.0, 5e-324,
           -5e-324, 2.2250738585072014e-308, 2.225073858507201e-308, 1.7976931348623157e308, -1.7976931348623157e308,
           1e-05, 1e-07, 0.30000000000000004, 9007199254740993.0, 4.35, 1e300, 1e-300, 3.141592653589793, 100.0, 7.0]


# repr uses exponent notation (with a PLUS sign for large magnitudes) / integers-as-floats >= 1e16
EXPO = [1e16, -1e16, 1e+17, -3.75e+300, 1.7976931348623157e+308, -1.7976931348623157e+308, 5e-324, 1e-07, -1e-07,
        9999999999999998.0, 1e22, 1e23, 1.5e+16, 2.5e+25, 6.02214076e+23, 1e-05, 1.2345e-10, 4.9406564584124654e-324,
        1e+100, -2e+200, 9.999999999999999e+22, 12345678901234567890.0, 2.0 ** 53, 2.0 ** 53 + 2, 2.0 ** 64,
        2.0 ** 100, 2.0 ** 1023, 1e15, 123456789012345.6, 1e-4, 0.0001234]


def rand_expo_bits(rng):
    k = rng.random()
    if k < 0.45:
        return bits_of_f(rng.choice(EXPO))
    if k < 0.7:
        return bits_of_f(float(rng.choice([1, -1]) * rng.randint(10 ** 16, 10 ** rng.randint(17, 40))))
    if k < 0.85:
        return bits_of_f(rng.choice([1, -1]) * 2.0 ** rng.randint(54, 1023))
    return bits_of_f(rng.choice([1, -1]) * rng.randint(1, 9999) * 10.0 ** rng.randint(-320, -5))


def rand_weight_bits(rng):
    k = rng.random()
    if k < 0.2:
        return rand_expo_bits(rng)
    k = rng.random()
    if k < 0.35:
        while True:
            b = rng.getrandbits(64)
            if finite_bits(b):
                return b
    if k < 0.55:
        return bits_of_f(rng.choice(SPECIAL))
    if k < 0.65:
        return bits_of_f(float(rng.randint(-50, 50)))
    if k < 0.72:
        return rng.getrandbits(52) | (rng.getrandbits(1) << 63)          # subnormal / tiny
    if k < 0.79:
        return (rng.randint(0x7F0, 0x7FE) << 52) | rng.getrandbits(52) | (rng.getrandbits(1) << 63)   # huge
    if k < 0.9:
        return bits_of_f(rng.randint(-10 ** 6, 10 ** 6) / rng.choice([3, 7, 10, 100, 1000, 1 << 20]))
    return bits_of_f(rng.uniform(-1, 1) * 10 ** rng.randint(-30, 30))


# ------------------------------------------------------------------------------------------------ text
ALPHABET = list("abcXYZ019 _-.:#,{}()/\\'\"%&;") + ["\t"] + [chr(k) for k in (0xa0, 0xe9, 0xdf, 0x4e2d, 0x416, 0x1f600,
                                                                              0x660, 0x200b, 0x3000)]


# values that look like pieces of the file format: a written line must never be mis-classified (C09_lines_classified)
TRICKY = ["#", ":", "# NUMBER EDGES: 99", "# NUMBER ALTERNATIVES: 7", "# ALTERNATIVE NAME 1: zz", "# DATA TYPE: soc",
          "# NUMBER VOTERS: 3", "1, 2, 0.5", "-2, 1, 9", "# FILE NAME: x", ": ,# {", "#1, 2, 3", "1,2", ",", "# TITLE:",
          "x # y : z", "3: a", "# ALTERNATIVE NAME 2:", "NUMBER EDGES: 5", "#\t# NUMBER EDGES: 1"]


def rand_text(rng, allow_empty=True, maxlen=12):
    if allow_empty and rng.random() < 0.12:
        return ""
    if rng.random() < 0.08:
        return rng.choice(TRICKY)
    for _ in range(50):
        s = "".join(rng.choice(ALPHABET) for _ in range(rng.randint(1, maxlen)))
        if s == s.strip() and not (set(s) & LINE_BOUNDARIES) and s:
            return s
    return "x"


# the eight str.splitlines() boundaries that a file reader does NOT treat as line ends (universal newlines = \n, \r,
# \r\n only).  Strictly inside a value they survive write -> parse_file; parse_str cannot handle them.
INNER_BREAKS = ["\x0b", "\x0c", "\x1c", "\x1d", "\x1e", "\x85", chr(0x2028), chr(0x2029)]


def rand_text_lb(rng):
    """a value with one or two of INNER_BREAKS strictly inside (never at the ends: strip() would eat them)"""
    a, b = rand_text(rng, allow_empty=False, maxlen=6), rand_text(rng, allow_empty=False, maxlen=6)
    mid = rng.choice(INNER_BREAKS)
    if rng.random() < 0.25:
        mid = mid + rng.choice(["", " ", "x"]) + rng.choice(INNER_BREAKS)
    return a + mid + b


def has_inner_break(payload):
    meta, _, alts = payload[0], payload[1], payload[2]
    brk = {ord(ch) for ch in INNER_BREAKS}
    return any(brk & set(t) for t in meta) or any(brk & set(nm) for _, nm in alts)


# ------------------------------------------------------------------------------------------------ generation
F_SPARSE, F_NPID, F_NPW = 1, 2, 4      # payload flags: names on a subset of the nodes only; numpy.int64 ids; numpy.float64 weights


def mk_case(meta, nv, alts, ops, ops2=(), mode=0, flags=0, **tags):
    """meta: 9 strings; nv: num_voters before writing; alts: [(id, name)]; ops: [0, n] | [1, n1, n2, bits].
    History cases: ops2 non-empty or mode = 1.  mode 0: the object built by ops is observed (edges, outgoing_edges,
    neighbours) and written once, then ops2 is applied to the SAME object, which is the instance under test.
    mode 1: the file written from ops is parsed into a new object, that object is written again, then modified by
    ops2; the result is the instance under test.
    mode 2 (object lifetime): instance A is built from ops, then a second instance B from ops2 (same ids, other weights),
    B's text is parsed header_only into a third object and offered to the type gate as 'soc'; THEN A is written and
    tested against its payload, then B."""
    payload = [[proto.text(s) for s in meta], nv, [[a, proto.text(nm)] for a, nm in alts], list(ops), list(ops2), mode,
               flags]
    return case("c09.roundtrip", payload, **tags)


def unpack(payload):
    """-> meta, nv, alts, ops, ops2, mode  (the flags are read with flags_of)"""
    if len(payload) == 4:
        return list(payload) + [[], 0]
    return list(payload[:6])


def flags_of(payload):
    return payload[6] if len(payload) > 6 else 0


def expected_names(payload, nodes):
    """alternatives_name of the instance under test as the PAYLOAD defines it (see bookkeeping), for its node set"""
    alts, fl = payload[2], flags_of(payload)
    names = {}
    for a, nm in alts:
        if a in nodes and a not in names:
            names[a] = proto.untext(nm)
    if not fl & F_SPARSE:
        for n in nodes:
            if n >= 0 and n not in names:
                names[n] = "Alternative %d" % n
    return sorted([a, nm] for a, nm in names.items())


def default_meta(rng=None):
    if rng is None:
        return ["g.wmd", "t", "d", "wmd", "original", "", "", "2020-01-01", "2020-01-02"]
    m = [rand_text(rng) for _ in range(9)]
    m[3] = "wmd"
    if rng.random() < 0.8 and not m[0]:
        m[0] = "file.wmd"
    return m


def nodes_of_ops(ops):
    out = []
    for o in ops:
        for n in (o[1:2] if o[0] == 0 else o[1:3]):
            if n not in out:
                out.append(n)
    return out


def generate(tier, seed):
    rng = random.Random(1000003 * seed + 9)
    out = []
    # ---- exhaustive small digraphs
    palettes = [[1.0, 0.1, -0.0, 1 / 3, 5e-324, -2.5, 1e22, 1.7976931348623157e308, 7.0]]
    if tier != "quick":
        palettes += [[0.1] * 9, [-1 / 3, 2 / 3, 1e-07, 123456789.0, 0.0, 4.35, 1e16, -5e-324, 0.5]]
    orders = [0] if tier == "quick" else [0, 1]
    for k in (1, 2, 3):
        pairs = [(a, b) for a in range(1, k + 1) for b in range(1, k + 1)]
        for mask in range(1, 1 << len(pairs)):
            for pi, pal in enumerate(palettes):
                for od in orders:
                    es = [p for j, p in enumerate(pairs) if mask >> j & 1]
                    if od:
                        es = es[::-1]
                    ops = [[0, n] for n in range(1, k + 1)] if od == 0 else []
                    ops += [[1, a, b, bits_of_f(pal[(a - 1) * 3 + (b - 1)])] for a, b in es]
                    if od:
                        ops += [[0, n] for n in range(k, 0, -1)]
                    alts = [(n, "Alt %d" % n) for n in nodes_of_ops(ops)]
                    out.append(mk_case(default_meta(), 0, alts, ops, exh=1, k=k))
    # the same on node sets with negative ids / ids colliding modulo 8 (set iteration order differs from sorted order)
    for label in ([-1], [-1, 1], [-2, -1], [-9, 0, 7], [7, 15], [3, 11, -5], [-10 ** 18, 10 ** 18]):
        k = len(label)
        pairs = [(a, b) for a in range(k) for b in range(k)]
        for mask in range(1, 1 << len(pairs)):
            pal = palettes[0]
            es = [p for j, p in enumerate(pairs) if mask >> j & 1]
            if mask % 2:
                es = es[::-1]
            ops = [[1, label[a], label[b], bits_of_f(pal[a * 3 + b])] for a, b in es]
            alts = [(n, "Alt %d" % n) for n in nodes_of_ops(ops) if n >= 0]
            out.append(mk_case(default_meta(), 0, alts, ops, exh=2, k=k))
    # ---- random structured
    nrand = 500 if tier == "quick" else 6000
    for i in range(nrand):
        big = tier != "quick" and i % 10 == 0
        k = rng.randint(1, 60 if big else 14)
        scale = rng.choice([1, 1, 2, 6, 18])
        sign = rng.choice(["nonneg"] * 9 + ["mixed"] * 8 + ["allneg"] * 3)
        lo = {"nonneg": 0, "mixed": -(k + 3) if scale == 1 else -10 ** scale, "allneg": -(k + 3) if scale == 1 else -10 ** scale}[sign]
        hi = -1 if sign == "allneg" else (k + 3 if scale == 1 else 10 ** scale)
        if hi - lo + 1 < k:
            lo = hi - k - 2
        ids = rng.sample(range(lo, hi + 1), k)
        if scale != 1 and rng.random() < 0.3:
            ids[0] = -10 ** 18 if sign == "allneg" or (sign == "mixed" and rng.random() < 0.5) else 10 ** 18
            ids = list(dict.fromkeys(ids))
            k = len(ids)
        if scale == 1 and rng.random() < 0.3:                      # ids colliding modulo 8: {7, 15}, {3, 11}, ...
            base = rng.choice([3, 7, 5, 1])
            ids = list(dict.fromkeys(ids + [base, base + 8] + ([base - 8, base + 16] if sign != "nonneg" else [])))
            k = len(ids)
        ne = rng.randint(1, 4 * k if not big else 6 * k)
        ops = []
        style = rng.random()
        for _ in range(ne):
            a = rng.choice(ids)
            r = rng.random()
            if r < 0.15:
                b = a                                   # self-loop
            else:
                b = rng.choice(ids)
            w = bits_of_f(0.1) if style < 0.1 else rand_weight_bits(rng)
            ops.append([1, a, b, w])
            r = rng.random()
            if r < 0.2:
                ops.append([1, b, a, rand_weight_bits(rng)])        # antiparallel
            elif r < 0.35:
                ops.append([1, a, b, rand_weight_bits(rng)])        # overwrite
        for _ in range(rng.randint(0, 3)):                           # isolated / repeated add_node
            ops.insert(rng.randint(0, len(ops)), [0, rng.choice(ids) if rng.random() < 0.5
                                                   else rng.randint(lo, hi + 5)])
        if rng.random() < 0.3:
            rng.shuffle(ops)
        ops2, mode = [], 0
        if i % 3 == 0:                                                # history case
            mode = (i // 3) % 2
            stored = [(o[1], o[2]) for o in ops if o[0] == 1]
            for _ in range(rng.randint(1, 6)):
                r = rng.random()
                if r < 0.6:                                           # overwrite the weight, no new neighbour
                    a, b = rng.choice(stored)
                    ops2.append([1, a, b, rand_weight_bits(rng)])
                elif r < 0.9:                                         # new edge (maybe a new node)
                    a = rng.choice(ids)
                    b = rng.choice(ids) if rng.random() < 0.7 else rng.randint(lo, hi + 7)
                    ops2.append([1, a, b, rand_weight_bits(rng)])
                    stored.append((a, b))
                else:
                    ops2.append([0, rng.randint(lo, hi + 7)])
        elif i % 7 in (2, 5):                                         # object lifetime: a sibling instance B
            mode = 2
            for o in ops:
                if o[0] == 1 and rng.random() < 0.85:                 # same ordered id pair, another weight
                    ops2.append([1, o[1], o[2], rand_weight_bits(rng)])
                elif o[0] == 0 and rng.random() < 0.5:
                    ops2.append(o)
            if not any(o[0] == 1 for o in ops2):
                e = next(o for o in ops if o[0] == 1)
                ops2.append([1, e[1], e[2], rand_weight_bits(rng)])
            for _ in range(rng.randint(0, 2)):
                ops2.append([1, rng.choice(ids), rng.choice(ids), rand_weight_bits(rng)])
            rng.shuffle(ops2)
        flags = 0
        if i % 5 == 3:
            flags |= F_SPARSE
        if i % 13 == 6 and all(abs(n) < 2 ** 62 for n in nodes_of_ops(ops + ops2)):
            flags |= F_NPID
        if i % 13 in (7, 6):
            flags |= F_NPW
        nodes = nodes_of_ops(ops + ops2)
        named = [n for n in nodes if n >= 0]
        style = rng.random()                                          # order of the name dict: discovery / shuffled / descending
        if style < 0.45:
            rng.shuffle(named)
        elif style < 0.6:
            named.sort(reverse=True)
        if flags & F_SPARSE and len(named) > 1:
            named = rng.sample(named, rng.randint(1, len(named) - 1))
        alts = [(n, rand_text(rng) if rng.random() < 0.7 else "Alternative %d" % n) for n in named]
        # whitespace inside values; names that START with a blank / tab after the canonical ": " (kept by the name pattern)
        for j in range(len(alts)):
            r = rng.random()
            if r < 0.05:
                alts[j] = (alts[j][0], rng.choice([" ", "\t", "  ", "\xa0", " \t"]) + rand_text(rng, allow_empty=False))
            elif r < 0.12:
                alts[j] = (alts[j][0], rng.choice(["a  b", "a\tb", "a\xa0b", "x \t y", "St  Mary", "a \u3000 b", "t\t\tt"]))
        meta = default_meta(rng)
        if i % 10 in (4, 7) or (i % 10 == 1 and tier != "quick"):     # line-boundary characters INSIDE values (parse_file only)
            where = rng.random()
            if where < 0.7 and alts:
                for j in rng.sample(range(len(alts)), rng.randint(1, min(3, len(alts)))):
                    alts[j] = (alts[j][0], rand_text_lb(rng))
            if where >= 0.4 or not alts:
                for j in rng.sample([0, 1, 2, 4, 5, 6, 7, 8], rng.randint(1, 3)):
                    meta[j] = rand_text_lb(rng)
        if rng.random() < 0.15:
            meta[rng.choice([1, 2, 4, 5])] = rng.choice(["a  b", "a\tb", "a\xa0b", "x \t y", "two  blanks", "t\t\tt"])
        out.append(mk_case(meta, rng.choice([0, len(nodes), rng.randint(0, 99)]), alts, ops, ops2, mode, flags, rnd=1))
    for j in range(8):                                                # an edit that shortens the file, saved under the same name
        long_w = [0.30000000000000004, -1.7976931348623157e+308, 1 / 3, 2.2250738585072014e-308][j % 4]
        opsa = [[1, 1, 2, bits_of_f(long_w)], [1, 2, 1, bits_of_f(-long_w)], [1, 12345678901234567, 1, bits_of_f(long_w)]][: 1 + j % 3]
        opsb = [[1, o[1], o[2], bits_of_f([0.5, 1.0, 7.0][j % 3])] for o in opsa]
        if len(opsb) % 2 == 0:
            opsb.append([0, 1])
        out.append(mk_case(default_meta(), 0, [(1, "a"), (2, "b")], opsa, opsb, 0, shorten=1))
    for j in range(6):                                                # object lifetime on tiny graphs
        opsa = [[1, 1, 2, bits_of_f(0.5)], [1, 2, 1, bits_of_f(-1e16)], [1, 2, 2, bits_of_f(0.1)]][: 1 + j % 3]
        opsb = [[1, o[1], o[2], bits_of_f(7.25 + j)] for o in opsa] + ([[1, 3, 1, bits_of_f(1 / 3)]] if j % 2 else [])
        out.append(mk_case(default_meta(), 0, [(2, "b"), (1, "a"), (3, "c")], opsa, opsb, 2, lifetime=1))
    for j, ch in enumerate(INNER_BREAKS):
        meta = default_meta()
        if j % 2:
            meta[1] = "Ward" + ch + "4"
        out.append(mk_case(meta, 0, [(1, "St Mary" + ch + "(annex)"), (2, "b")],
                           [[1, 1, 2, bits_of_f(0.5)], [1, 2, 1, bits_of_f(-1e16)]], mode=j % 2, lb=1))
    out.extend(fidelity_cases(rng, 150 if tier == "quick" else 1500))
    out.extend(excluded_cases())
    # ---- small history cases: every edge of a small graph overwritten after the first write
    for k in (1, 2, 3):
        pairs = [(a, b) for a in range(1, k + 1) for b in range(1, k + 1)]
        for mode in (0, 1):
            for j in range(12 if tier == "quick" else 60):
                es = [p for p in pairs if rng.random() < 0.6] or [pairs[0]]
                ops = [[1, a, b, rand_weight_bits(rng)] for a, b in es]
                ops2 = [[1, a, b, rand_weight_bits(rng)] for a, b in es if rng.random() < 0.8]
                ops2 += [[1, a, b, rand_weight_bits(rng)] for a, b in pairs if (a, b) not in es and rng.random() < 0.3]
                if j % 3 == 2:                                        # negative labels
                    relab = {1: -3, 2: 4, 3: -11}
                    ops = [[1, relab[o[1]], relab[o[2]], o[3]] for o in ops]
                    ops2 = [[1, relab[o[1]], relab[o[2]], o[3]] for o in ops2]
                alts = [(n, "Alt %d" % n) for n in nodes_of_ops(ops + ops2) if n >= 0]
                out.append(mk_case(default_meta(), 0, alts, ops, ops2, mode, hist=1, k=k))
    return out


# ------------------------------------------------------------------------------------------------ hand-made files
# Fidelity of the parser model outside the round trip (it is reused by C10): the same text goes to
# MatchingInstance.parse_file / parse_str and to the model's wmd_parse.  Agreement is RECORDED in the distribution
# ("parser fidelity: ..."); a disagreement here is not a C09 violation (the property is about written files only).
def fidelity_cases(rng, n):
    out = []
    for i in range(n):
        k = rng.randint(1, 4)
        names = [rng.choice(["a", "b", "a", "x y", "", "n__1", "a__1"]) for _ in range(k)]
        hdr = ["# FILE NAME: f.wmd", "# TITLE: t", "# DESCRIPTION:", "# DATA TYPE: wmd", "# MODIFICATION TYPE: original",
               "# RELATES TO:", "# RELATED FILES:", "# PUBLICATION DATE: 2020", "# MODIFICATION DATE: 2021",
               "# NUMBER ALTERNATIVES: %d" % k, "# NUMBER EDGES: %d" % rng.randint(0, 9)]
        hdr += ["# ALTERNATIVE NAME %d: %s" % (j + 1, nm) for j, nm in enumerate(names)]
        if rng.random() < 0.2:
            hdr.insert(rng.randint(0, len(hdr)), rng.choice(["# NUMBER VOTERS: 5", "# SOMETHING ELSE: 1", "#", "# NUMBER EDGES: x",
                                                             "# NUMBER ALTERNATIVES: 2 3", "# ALTERNATIVE NAME x: y",
                                                             "# NUMBER EDGES:7", "# ALTERNATIVE NAME 2:z"]))
        edges = []
        for _ in range(rng.randint(0, 5)):
            a, b = rng.randint(1, k), rng.randint(1, k)
            if rng.random() < 0.25:
                a = -a
            if rng.random() < 0.25:
                b = -b
            w = repr(f_of_bits(rand_weight_bits(rng)))
            style = rng.random()
            if style < 0.5:
                edges.append("%d, %d, %s" % (a, b, w))
            elif style < 0.6:
                edges.append("  %d ,%d,   %s  " % (a, b, w))
            elif style < 0.68:
                edges.append("%d,\t%d, %s" % (a, b, w))
            elif style < 0.74:
                edges.append("%d, %d" % (a, b))
            elif style < 0.8:
                edges.append("%d, %d, %s, 1" % (a, b, w))
            elif style < 0.85:
                edges.append("%d, x%d, %s" % (a, b, w))
            elif style < 0.9:
                edges.append("%d, %d, " % (a, b))
            elif style < 0.95:
                edges.append("")
            else:
                edges.append("0%d, %d, %s" % (a, b, w))
        lines = hdr + edges
        pad = rng.random()
        if pad < 0.2:
            lines = [rng.choice(["", " ", "\t"]) + l + rng.choice(["", " ", "  "]) for l in lines]
        eol = rng.choice(["\n", "\n", "\r\n", "\r"])
        text = eol.join(lines) + (eol if rng.random() < 0.8 else "")
        out.append(case("c09.parse", [int(rng.random() < 0.4), int(rng.random() < 0.3), i % 2, proto.text(text)],
                        fidelity=1))
    return out


# ------------------------------------------------------------------------------------------------ excluded classes
# The witnesses of Properties/C09.v (C09_*_refuted, C09_needs_an_edge) on the implementation: instances OUTSIDE the
# hypothesis wf_core_rl of the theorems, on which the round trip really fails.  Recorded in the distribution
# ("excluded class ..."); never a violation (an implementation that copes better with them breaks no property).
def excluded_cases():
    base_meta = ["ex.wmd", "A title, with: separators # {}", "", "wmd", "synthetic", "", "a.wmd,b.wmd", "2024-01-01",
                 "2024-01-02"]
    edges = [[-2, -2, bits_of_f(0.5)], [1, -2, bits_of_f(7.0)], [-2, 1, bits_of_f(1e21)]]
    names = [[1, ""], [3, "c"]]

    def mk(kind, meta=None, nm=None, es=None, ne=-1):
        m = list(base_meta if meta is None else meta)
        return case("c09.excluded", [proto.text(kind), [proto.text(x) for x in m],
                                     [[a, proto.text(t)] for a, t in (names if nm is None else nm)],
                                     edges if es is None else es, ne], excluded=1)

    def title(t):
        m = list(base_meta)
        m[1] = t
        return m
    return [mk("newline inside a value (C09_newline_refuted)", meta=title("a\nb")),
            mk("carriage return inside a value (C09_cr_refuted)", meta=title("a\rb")),
            mk("newline inside a name (C09_name_newline_refuted)", nm=[[1, "x\ny"], [3, "c"]]),
            mk("newline inside a value, rest looks like a header line (C09_newline_silent_refuted)", meta=title("a\n# b")),
            mk("leading blank of a value (C09_outer_space_refuted)", meta=title(" a")),
            mk("trailing form feed of a name (C09_name_trailing_ff_refuted)", nm=[[1, "x\x0c"], [3, "c"]]),
            mk("name made of whitespace only (C09_name_blank_only_refuted)", nm=[[1, " "], [3, "c"]]),
            mk("num_edges is not the number of edges (C09_wrong_num_edges_refuted)", ne=5),
            mk("no edge (C09_needs_an_edge)", es=[]),
            mk("name on a negative node id (not expressible in the model: keys of alternatives_name are N)",
               nm=[[-2, "x"], [1, "y"]])]


def impl_excluded(c):
    from preflibtools.instances import MatchingInstance
    kind, meta, names, edges, ne = c["payload"]
    inst = MatchingInstance()
    for n in (1, -2, 3):
        inst.add_node(n)
    for a, b, w in edges:
        inst.add_edge(a, b, f_of_bits(w))
    for f, v in zip(META_FIELDS, meta):
        setattr(inst, f, proto.untext(v))
    inst.alternatives_name = {a: proto.untext(t) for a, t in names}
    inst.num_alternatives = len(inst.node_mapping)
    inst.num_edges = ne if ne >= 0 else sum(len(x) for x in inst.node_mapping.values())
    paths = [_scratch(), _scratch()]
    try:
        inst.write(paths[0])
        t1 = _read_raw(paths[0])
        b = observe(inst)
        res = {"excluded": 1, "inst": model_payload(inst) if all(a >= 0 for a, _ in names) else None, "before": b}
        r, inst2 = _guard_obs(_parse_file, paths[0])
        res["file"] = r
        if inst2 is not None:
            inst2.write(paths[1])
            res["same_bytes"] = _read_raw(paths[1]) == t1
        return res
    finally:
        for p in paths:
            try:
                os.remove(p)
            except OSError:
                pass


def excluded_verdict(c, r, mres):
    """(fails on the implementation?, agrees with the model?)"""
    b, f = r["before"], r["file"]
    if "err" in f:
        impl_out = ("err", f["err"][0])
    else:
        o = f["ok"]
        same = (o["edges"] == b["edges"] and o["names"] == b["names"] and o["meta"] == b["meta"]
                and o["num_edges"] == b["num_edges"] and o["num_alternatives"] == b["num_alternatives"] and r["same_bytes"])
        impl_out = ("ok", same, o["meta"], o["names"], o["num_edges"], r["same_bytes"])
    fails = impl_out[0] == "err" or not impl_out[1]
    if not mres:
        return fails, None
    rt, t1, t2 = mres[0]
    if rt[0] != 0:
        model_out = ("err", rt[1])
    else:
        mc = model_content(rt[1])
        model_out = ("ok", None, mc["meta"], mc["names"], mc["num_edges"], t1 == t2)
    agree = (impl_out[0] == model_out[0] == "err" and impl_out[1] == model_out[1]) or \
            (impl_out[0] == model_out[0] == "ok" and impl_out[2:] == model_out[2:])
    return fails, agree


# ------------------------------------------------------------------------------------------------ implementation side
_counter = [0]


def _scratch(ext=".wmd"):
    d = os.path.join(oracle.VERIF, ".work")
    os.makedirs(d, exist_ok=True)
    _counter[0] += 1
    return os.path.join(d, "c09_%d_%d%s" % (os.getpid(), _counter[0], ext))


def apply_ops(inst, ops, flags=0):
    if flags & (F_NPID | F_NPW):
        import numpy as np
    nid = (lambda n: np.int64(n)) if flags & F_NPID else (lambda n: n)
    wt = (lambda w: np.float64(w)) if flags & F_NPW else (lambda w: w)
    for o in ops:
        if o[0] == 0:
            inst.add_node(nid(o[1]))
        else:
            inst.add_edge(nid(o[1]), nid(o[2]), wt(f_of_bits(o[3])))


def poison_views(inst):
    """lesson 'aliasing of results': damage what the accessors returned; the instance must not notice.
    (neighbours() returns the internal set on the unchanged tree, nodes() a dict view: both are left alone.)"""
    junk = 10 ** 9 + 7
    e = inst.edges()
    if isinstance(e, set):
        e.add((junk, junk, 1.5))
        e.clear()
    for n in list(inst.nodes()):
        oe = inst.outgoing_edges(n)
        if isinstance(oe, set):
            oe.add((n, junk, 2.5))
            oe.clear()
    str(inst)


def bookkeeping(inst, alts, nv, flags=0):
    """the redundant fields of a well-formed instance: names keyed by the nodes, counts"""
    want = {a: proto.untext(nm) for a, nm in alts}
    names = {int(a): nm for a, nm in inst.alternatives_name.items() if a in inst.node_mapping}
    for a, nm in alts:
        if a in inst.node_mapping and a not in names:
            names[a] = want[a]
    for n in inst.node_mapping:
        if n not in names and n >= 0 and not flags & F_SPARSE:
            names[int(n)] = "Alternative %d" % n
    inst.alternatives_name = names
    inst.num_alternatives = len(inst.node_mapping)
    inst.num_voters = nv
    inst.num_edges = sum(len(s) for s in inst.node_mapping.values())


def build_instance(payload, hist):
    """returns the instance under test; hist receives what was seen on the way (history cases)"""
    from preflibtools.instances import MatchingInstance
    meta, nv, alts, ops, ops2, mode = unpack(payload)
    fl = flags_of(payload)
    inst = MatchingInstance()
    apply_ops(inst, ops, fl)
    for f, v in zip(META_FIELDS, meta):
        setattr(inst, f, proto.untext(v))
    bookkeeping(inst, alts, nv, fl)
    if (not ops2 and not mode) or mode == 2:
        return inst
    # ---- history: use the object (the graph API and write) before it is modified
    hist["first"] = observe(inst)
    pa = _scratch()
    hist["paths"].append(pa)
    inst.write(pa)
    text_a = _read_raw(pa)
    if mode == 0 and len(ops2) % 2 == 1:
        hist["reuse_path"] = pa                        # the edited object is saved again under the same name
    if mode == 1:
        inst = MatchingInstance()
        inst.parse_file(pa)
        hist["parsed"] = observe(inst)
        pa2 = _scratch()
        hist["paths"].append(pa2)
        inst.write(pa2)
        hist["rewrite_same"] = (_read_raw(pa2) == text_a)
    str(inst)                                                         # a maintenance call in the middle of the history
    apply_ops(inst, ops2, fl)
    bookkeeping(inst, alts, nv, fl)
    return inst


def build_sibling(payload, hist):
    """mode 2: the second instance B (ops2), a header_only parse of B's text and a parse refused by the type gate"""
    from preflibtools.instances import MatchingInstance
    meta, nv, alts, ops, ops2, mode = unpack(payload)
    fl = flags_of(payload)
    b = MatchingInstance()
    apply_ops(b, ops2, fl)
    for f, v in zip(META_FIELDS, meta):
        setattr(b, f, proto.untext(v))
    bookkeeping(b, alts, nv, fl)
    pb = _scratch()
    hist["paths"].append(pb)
    b.write(pb)
    text_b = _read_raw(pb)
    c = MatchingInstance()
    c.parse_str(text_b, "wmd", header_only=True)
    hist["sib_header_only_nodes"] = len(c.node_mapping)
    hist["sib_header_only_weights"] = len(c.weights) if not c.node_mapping else -1
    d = MatchingInstance()
    hist["sib_gate"] = guarded(d.parse_str, text_b, "soc")[:2]
    hist["sib_gate_nodes"] = len(d.node_mapping)
    return b


def observe(inst):
    edges = sorted([int(a), int(b), bits_of_f(float(w))] for a, b, w in inst.edges())
    inc = sorted({e[0] for e in edges} | {e[1] for e in edges})
    return {
        "edges": edges,
        "n_edge_tuples": len(inst.edges()),
        "nodes": sorted(int(n) for n in inst.nodes()),
        "incident": inc,
        "out": [[n, sorted([int(a), int(b), bits_of_f(float(w))] for a, b, w in inst.outgoing_edges(n))] for n in inc
                if n in inst.node_mapping],
        "nbr": [[n, sorted(int(x) for x in inst.neighbours(n))] for n in inc if n in inst.node_mapping],
        "names": sorted([int(a), nm] for a, nm in inst.alternatives_name.items()),
        "num_alternatives": inst.num_alternatives,
        "num_voters": inst.num_voters,
        "num_edges": inst.num_edges,
        "meta": [getattr(inst, f) for f in META_FIELDS],
    }


def model_payload(inst):
    meta = [proto.text(getattr(inst, f)) for f in META_FIELDS]
    meta += [inst.num_alternatives, inst.num_voters,
             [[a, proto.text(nm)] for a, nm in inst.alternatives_name.items()]]
    nodes = [[int(n), [int(x) for x in s]] for n, s in inst.node_mapping.items()]
    weights = [[[int(a), int(b)], proto.text("{}".format(w))] for (a, b), w in inst.weights.items()
               if a in inst.node_mapping and b in inst.node_mapping[a]]
    return [meta, inst.num_edges, nodes, weights]


def _read_raw(path):
    with open(path, "r", encoding="utf-8", newline="") as f:
        return f.read()


def check_token(bits):
    """the Section hypotheses H_* of the theorems on one weight"""
    w = f_of_bits(bits)
    tok = "{}".format(w)
    bad = []
    if tok != repr(w):
        bad.append("format != repr")
    try:
        if bits_of_f(float(tok)) != bits:
            bad.append("float(repr(w)) is not bit-identical")
    except ValueError:
        bad.append("float(repr(w)) raises")
    if tok == "":
        bad.append("empty token")
    if "," in tok:
        bad.append("comma in token")
    if any(c.isspace() for c in tok) or (set(tok) & LINE_BOUNDARIES):
        bad.append("whitespace in token")
    if tok.strip().replace(" ", "") != tok:
        bad.append("strip/replace alters the token")
    return ["%r: %s" % (tok, b) for b in bad]


def _parse_file(path, **kw):
    from preflibtools.instances import MatchingInstance
    inst = MatchingInstance()
    inst.parse_file(path, **kw)
    return observe(inst), inst


def _get_parsed(path, **kw):
    from preflibtools.instances import get_parsed_instance
    inst = get_parsed_instance(path, **kw)
    return observe(inst), inst


def _parse_str(s, **kw):
    from preflibtools.instances import MatchingInstance
    inst = MatchingInstance()
    inst.parse_str(s, "wmd", **kw)
    return observe(inst), inst


def _guard_obs(fn, *a, **kw):
    r = guarded(lambda: fn(*a, **kw))
    if r[0] == 0:
        return {"ok": r[1][0]}, r[1][1]
    return {"err": r[1:]}, None


def impl_fidelity(c):
    ac, ho, splitter, text = c["payload"]
    text = proto.untext(text)
    p = _scratch()
    try:
        if splitter == 0:
            with open(p, "w", encoding="utf-8", newline="") as f:
                f.write(text)
            r, _ = _guard_obs(_parse_file, p, autocorrect=bool(ac), header_only=bool(ho))
        else:
            r, _ = _guard_obs(_parse_str, text, autocorrect=bool(ac), header_only=bool(ho))
        return {"fidelity": r, "fname": os.path.basename(p) if splitter == 0 else ""}
    finally:
        try:
            os.remove(p)
        except OSError:
            pass


def impl(c):
    if c["op"] == "c09.parse":
        return impl_fidelity(c)
    if c["op"] == "c09.excluded":
        return impl_excluded(c)
    paths = []
    try:
        hist = {"paths": paths}
        pl = unpack(c["payload"])
        inst = build_instance(c["payload"], hist)
        sib = build_sibling(c["payload"], hist) if pl[5] == 2 else None
        import zlib
        how = zlib.crc32(proto.enc(c["payload"]).encode()) % 4
        res = standard(inst, paths, how, hist.get("reuse_path"))
        res["hyp"] = [m for o in pl[3] + pl[4] if o[0] == 1 for m in check_token(o[3])]
        res["history"] = {k: v for k, v in hist.items() if k != "paths"}
        if sib is not None:
            res["sib"] = standard(sib, paths, (how + 2) % 4)
        return res
    finally:
        for p in paths:
            try:
                os.remove(p)
            except OSError:
                pass


STALE = "".join("%d, %d, %s\n" % (70 + k, 71 + k, repr(0.25 + k)) for k in range(40))    # what a bigger old file leaves
PREFILL = ["no file at the destination", "destination holds a LONGER file", "destination holds a file of EQUAL length",
           "destination holds a SHORTER file", "destination is the path this object was written to before"]


def prefill(inst, path, how, paths):
    """put an older file at the destination before write(): 1 longer, 2 same number of bytes, 3 shorter"""
    if how == 0:
        return
    ptmp = _scratch()
    paths.append(ptmp)
    inst.write(ptmp)                                   # what write() produces at a fresh path
    new = open(ptmp, "rb").read()
    if how == 1:
        old = new + STALE.encode() + b"# trailing junk of a bigger instance saved earlier\n" * 3
    elif how == 2:
        old = (STALE.encode() * (len(new) // len(STALE) + 1))[:len(new)]
    else:
        old = new[: max(1, len(new) // 3)]
    with open(path, "wb") as f:
        f.write(old)


def standard(inst, paths, how=0, reuse=None):
    """everything that is done with one instance under test"""
    if True:
        res = {}
        res["before"] = observe(inst)
        poison_views(inst)
        res["before2"] = observe(inst)
        pf = _scratch()
        paths.append(pf)
        inst.write(pf)                                 # fresh destination: the reference bytes of THIS implementation
        res["text_fresh"] = proto.text(_read_raw(pf))
        if reuse is not None:
            p1, how = reuse, 4                         # the very path the object was saved to before it was edited
            res["old_len"] = os.path.getsize(p1)
        else:
            p1 = _scratch()
            paths.append(p1)
            prefill(inst, p1, how, paths)
        res["prefill"] = how
        inst.write(p1)
        text1 = _read_raw(p1)
        res["text1"] = proto.text(text1)
        res["inst"] = model_payload(inst)              # state after write (write may set file_name)
        res["before_after_write"] = observe(inst)
        # (b) re-read through both entry points
        res["file"], inst2 = _guard_obs(_parse_file, p1)
        res["get"], _ = _guard_obs(_get_parsed, p1)
        res["str"], _ = _guard_obs(_parse_str, text1)
        # (c) second file
        if inst2 is not None:
            poison_views(inst2)
            p2 = _scratch()
            paths.append(p2)
            prefill(inst2, p2, (how + 1) % 4, paths)
            r = guarded(inst2.write, p2)
            res["text2"] = proto.text(_read_raw(p2)) if r[0] == 0 else {"err": r[1:]}
            res["inst2"] = model_payload(inst2)
        # (g) header only
        res["hdr_file"], _ = _guard_obs(_parse_file, p1, header_only=True)
        res["hdr_str"], _ = _guard_obs(_parse_str, text1, header_only=True)
        # (d), (e) the model's writer as an independent writer
        m = oracle.run([("c09.write", res["inst"])])[0]
        res["mwrite"] = m
        if isinstance(m, list) and m[0] == 0:
            p3 = _scratch()
            paths.append(p3)
            with open(p3, "w", encoding="utf-8", newline="") as f:
                f.write(proto.untext(m[1]))
            res["d_file"], _ = _guard_obs(_parse_file, p3)
            res["d_str"], _ = _guard_obs(_parse_str, proto.untext(m[1]))
        return res


# ------------------------------------------------------------------------------------------------ model side
def oracle_requests(c, r):
    if c["op"] == "c09.excluded":
        return [("c09.roundtrip", r["inst"])] if isinstance(r, dict) and r.get("inst") else []
    if c["op"] == "c09.parse":
        ac, ho, splitter, text = c["payload"]
        fname = r.get("fname", "") if isinstance(r, dict) else ""
        return [("c09.parse", [ac, ho, proto.text("wmd"), proto.text(fname), splitter, text])]
    if not isinstance(r, dict) or "text1" not in r:
        return []
    pl = unpack(c["payload"])
    if pl[5] == 2:
        reqs = _requests_one(r, pl[3])
        if isinstance(r.get("sib"), dict) and "text1" in r["sib"]:
            reqs += _requests_one(r["sib"], pl[4])
        return reqs
    return _requests_one(r, pl[3] + pl[4])


def _requests_one(r, ops):
    fname = proto.text("parsed.wmd")
    wmd = proto.text("wmd")
    return [("c09.parse", [0, 0, wmd, fname, 0, r["text1"]]),      # (a) readlines
            ("c09.parse", [0, 0, wmd, fname, 1, r["text1"]]),      # (a) splitlines
            ("c09.parse", [0, 1, wmd, fname, 0, r["text1"]]),      # (g)
            ("c09.roundtrip", r["inst"]),                          # the model's own round trip
            ("c09.build", [[0, o[1]] if o[0] == 0 else [1, o[1], o[2], proto.text(repr(f_of_bits(o[3])))]
                           for o in ops])]                         # (h) the call history


def model_content(mi):
    """content of a model instance (encoded as in Ops/C09.v) in the shape of observe()"""
    meta, ne, nodes, weights = mi
    wt = {}
    for (a, b), tok in weights:
        wt[(a, b)] = proto.untext(tok)
    edges = sorted([n, m, wt.get((n, m))] for n, s in nodes for m in s)
    return {"edges": edges, "nodes": sorted(n for n, _ in nodes),
            "incident": sorted({e[0] for e in edges} | {e[1] for e in edges}),
            "names": sorted([a, proto.untext(nm)] for a, nm in meta[11]),
            "num_alternatives": meta[9], "num_voters": meta[10], "num_edges": ne,
            "meta": [proto.untext(t) for t in meta[:9]],
            "dup_nodes": len(nodes) != len({n for n, _ in nodes}),
            "dup_weights": len(weights) != len(wt),
            "weight_keys": sorted(wt)}


def tok_edges(obs_edges):
    return sorted([a, b, repr(f_of_bits(w))] for a, b, w in obs_edges)


def same_as_original(o, b, what):
    """o: observe() of a re-parsed implementation instance; b: of the original.  The C09 observables."""
    if o["edges"] != b["edges"]:
        return "%s: edges() differ (bitwise weights): %r vs original %r" % (what, o["edges"][:6], b["edges"][:6])
    if o["n_edge_tuples"] != len(b["edges"]):
        return "%s: edges() has %d tuples, original %d" % (what, o["n_edge_tuples"], len(b["edges"]))
    if o["incident"] != b["incident"] or not set(b["incident"]) <= set(o["nodes"]):
        return "%s: incident nodes %r, original %r (nodes() = %r)" % (what, o["incident"], b["incident"], o["nodes"])
    if o["out"] != b["out"]:
        return "%s: outgoing_edges of an incident node differ" % what
    if o["nbr"] != b["nbr"]:
        return "%s: neighbours of an incident node differ" % what
    if o["names"] != b["names"]:
        return "%s: alternatives_name %r, original %r" % (what, o["names"], b["names"])
    if o["num_alternatives"] != b["num_alternatives"]:
        return "%s: num_alternatives %r, original %r" % (what, o["num_alternatives"], b["num_alternatives"])
    if o["num_edges"] != len(b["edges"]):
        return "%s: num_edges %r but %d edges" % (what, o["num_edges"], len(b["edges"]))
    if o["num_voters"] != o["num_alternatives"]:
        return "%s: num_voters %r != num_alternatives %r" % (what, o["num_voters"], o["num_alternatives"])
    return None


def model_same_as_original(mc, b, what):
    if mc["dup_nodes"] or mc["dup_weights"]:
        return "%s: duplicate keys in the model instance" % what
    if mc["edges"] != tok_edges(b["edges"]):
        return "%s: edges %r, original %r" % (what, mc["edges"][:6], tok_edges(b["edges"])[:6])
    if mc["weight_keys"] != sorted((a, b2) for a, b2, _ in b["edges"]):
        return "%s: weight table keys differ from the edges" % what
    if mc["incident"] != b["incident"] or not set(b["incident"]) <= set(mc["nodes"]):
        return "%s: incident nodes %r, original %r" % (what, mc["incident"], b["incident"])
    if mc["names"] != b["names"]:
        return "%s: names %r, original %r" % (what, mc["names"], b["names"])
    if mc["num_alternatives"] != b["num_alternatives"]:
        return "%s: num_alternatives %r, original %r" % (what, mc["num_alternatives"], b["num_alternatives"])
    if mc["num_edges"] != len(b["edges"]):
        return "%s: num_edges %r but %d edges" % (what, mc["num_edges"], len(b["edges"]))
    if mc["num_voters"] != mc["num_alternatives"]:
        return "%s: num_voters %r != num_alternatives %r" % (what, mc["num_voters"], mc["num_alternatives"])
    return None


def fidelity_verdict(c, r, mres):
    """'agree' or a description of the disagreement between MatchingInstance.parse_* and the model's wmd_parse"""
    if not isinstance(r, dict) or "fidelity" not in r:
        return "implementation side returned %r" % (r,)
    f, m = r["fidelity"], mres[0]
    if "err" in f:
        return "agree" if (m[0] == 1 and [m[1]] == f["err"][:1]) else "impl raises %r, model %r" % (f["err"], m[:2])
    if m[0] != 0:
        return "impl parses, model error %r" % (m[1],)
    o, mc = f["ok"], model_content(m[1])
    try:
        m_edges = sorted([a, b, bits_of_f(float(t))] for a, b, t in mc["edges"])
    except (ValueError, TypeError):
        return "model keeps a token that is not a float"
    for key, x, y in (("edges", o["edges"], m_edges), ("nodes", o["nodes"], mc["nodes"]), ("names", o["names"], mc["names"]),
                      ("num_alternatives", o["num_alternatives"], mc["num_alternatives"]),
                      ("num_voters", o["num_voters"], mc["num_voters"]), ("num_edges", o["num_edges"], mc["num_edges"]),
                      ("metadata", o["meta"], mc["meta"])):
        if x != y:
            return "%s: impl %r, model %r" % (key, x, y)
    return "agree"


def judge(c, r, mres):
    if c["op"] in ("c09.parse", "c09.excluded"):
        return None                     # recorded by stats(), see fidelity_cases / excluded_cases
    if not isinstance(r, dict) or "text1" not in r:
        return {"kind": "exception", "reason": "implementation side returned %r" % (r,)}
    if r["hyp"]:
        return {"kind": "mismatch", "reason": "(f) codec hypothesis fails: " + "; ".join(r["hyp"][:3]),
                "theorem": "H_read_show / H_show_* (Section hypotheses of C09_roundtrip)"}
    pl = unpack(c["payload"])
    if pl[5] != 2:
        return judge_one(c, r, mres, pl[5])
    # object lifetime: A and B live in one process; each is judged against ITS OWN payload
    h = r["history"]
    if h.get("sib_header_only_nodes") or h.get("sib_gate_nodes"):
        return "lifetime: a header_only parse / a parse refused by the type gate left nodes in the new object"
    if h.get("sib_gate") != [1, proto.E_TYPE]:
        return "lifetime: parse_str(text, 'soc') on a MatchingInstance returned %r, TypeError expected" % (h.get("sib_gate"),)
    bad = judge_one(c, r, mres[:5], 0, "instance A (built first, written after B was built): ")
    if bad:
        return bad
    if not isinstance(r.get("sib"), dict) or len(mres) < 10:
        return {"kind": "exception", "reason": "second instance: implementation side returned %r" % (r.get("sib"),)}
    rb = dict(r["sib"], history={})
    return judge_one(c, rb, mres[5:10], 0, "instance B (built second): ")


def _prefix(bad, pre):
    if not bad or not pre:
        return bad
    if isinstance(bad, dict):
        return dict(bad, reason=pre + str(bad.get("reason")))
    return pre + bad


def judge_one(c, r, mres, mode, pre=""):
    return _prefix(_judge_one(c, r, mres, mode), pre)


def _judge_one(c, r, mres, mode):
    b = r["before"]
    if not b["edges"]:
        return {"kind": "broken-correspondence", "reason": "generated instance has no edge"}
    if r["before2"] != b:
        return "purity / aliasing: after the results of edges() and outgoing_edges() were modified in place, the accessors answer differently"
    if r["before_after_write"] != dict(b, meta=r["before_after_write"]["meta"]):
        return "write() changed the instance"
    if r["text1"] != r["text_fresh"]:
        return ("write() to an existing path (%s) leaves other bytes (%d code points) than write() of the same instance "
                "to a new path (%d)" % (PREFILL[r["prefill"]], len(r["text1"]), len(r["text_fresh"])))
    # (h) the instance is what the PAYLOAD (history of add_node / add_edge calls) says (model: add_edge overwrites)
    m_build = mres[4]
    bw = {}
    for (a, b2), tok in m_build[1]:
        bw[(a, b2)] = proto.untext(tok)
    b_edges = sorted([n, m, bw.get((n, m))] for n, s2 in m_build[0] for m in s2)
    if tok_edges(b["edges"]) != b_edges:
        return ("(h) edges() of the instance after its call history: %r; add_node/add_edge semantics give %r"
                % (tok_edges(b["edges"])[:6], b_edges[:6]))
    b_nodes = sorted(n for n, _ in m_build[0])
    if (mode == 0 and b["nodes"] != b_nodes) or not set(b["incident"]) <= set(b["nodes"]) <= set(b_nodes):
        return "(h) nodes() of the instance after its call history: %r, expected %r" % (b["nodes"], b_nodes)
    want_names = expected_names(c["payload"], set(b["nodes"]))
    if b["names"] != want_names:
        return "(h) alternatives_name of the instance %r, the payload says %r" % (b["names"][:6], want_names[:6])
    if r["history"].get("rewrite_same") is False:
        return "(c) history: write(parse(file A)) is not byte-identical to file A"
    if "parsed" in r["history"]:
        bad = same_as_original(r["history"]["parsed"], r["history"]["first"], "history: parse_file(file A)")
        if bad:
            return bad
    # values with a non-\n line boundary inside: the file path only (str.splitlines would cut the value)
    file_only = has_inner_break(c["payload"])
    # (b) implementation round trip, the file entry points and parse_str
    for key, what in (("file", "(b) parse_file(write(i))"), ("get", "(b) get_parsed_instance(write(i))"),
                      ("str", "(b) parse_str(write(i))")):
        if file_only and key == "str":
            continue
        if "err" in r[key]:
            return {"kind": "exception", "reason": "%s raised %r" % (what, r[key]["err"])}
        bad = same_as_original(r[key]["ok"], b, what)
        if bad:
            return bad
    # (c) second file byte-identical
    if r.get("text2") != r["text1"]:
        return "(c) write(parse(write(i))) is not byte-identical to write(i)"
    # (a) the model's parser reads the implementation's file
    m_read, m_split, m_hdr, m_rt = mres[:4]
    for m, what in ((m_read, "(a) model-parse(readlines(impl.write(i)))"),
                    (m_split, "(a) model-parse(splitlines(impl.write(i)))")):
        if file_only and m is m_split:
            continue
        if m[0] != 0:
            return "%s fails with error code %r" % (what, m[1])
        bad = model_same_as_original(model_content(m[1]), b, what)
        if bad:
            return bad
    # (d) the implementation's parser reads the model's file
    mw = r["mwrite"]
    if not (isinstance(mw, list) and mw[0] == 0):
        return "model-write(i) fails: %r" % (mw,)
    for key, what in (("d_file", "(d) parse_file(model-write(i))"), ("d_str", "(d) parse_str(model-write(i))")):
        if file_only and key == "d_str":
            continue
        if "err" in r[key]:
            return {"kind": "exception", "reason": "%s raised %r" % (what, r[key]["err"])}
        bad = same_as_original(r[key]["ok"], b, what)
        if bad:
            return bad
    if STRICT_E and mw[1] != r["text1"]:
        return "(e) model-write(i) differs from impl.write(i)"
    # the model's own round trip (what C09_roundtrip / C09_idempotent describe) agrees with the original
    rt, t1, t2 = m_rt
    if rt[0] != 0:
        return "model round trip fails with error code %r" % (rt[1],)
    bad = model_same_as_original(model_content(rt[1]), b, "model round trip")
    if bad:
        return bad
    if t1[0] != 0 or t2 != t1:
        return "model: second file differs from the first (C09_idempotent)"
    # (g) header_only
    for key, what in (("hdr_file", "(g) parse_file(header_only)"), ("hdr_str", "(g) parse_str(header_only)")):
        if file_only and key == "hdr_str":
            continue
        if "err" in r[key]:
            return {"kind": "exception", "reason": "%s raised %r" % (what, r[key]["err"])}
        h = r[key]["ok"]
        if h["edges"] or h["nodes"]:
            return "%s: graph not empty" % what
        if h["names"] != b["names"] or h["num_alternatives"] != b["num_alternatives"]:
            return "%s: names / num_alternatives differ from the original" % what
        if h["num_edges"] != b["num_edges"]:
            return "%s: num_edges %r, header says %r" % (what, h["num_edges"], b["num_edges"])
        if h["num_voters"] != h["num_alternatives"]:
            return "%s: num_voters != num_alternatives" % what
    if m_hdr[0] != 0:
        return "(g) model header_only parse fails: %r" % (m_hdr,)
    mh = model_content(m_hdr[1])
    if mh["nodes"] or mh["edges"] or mh["names"] != b["names"] or mh["num_edges"] != b["num_edges"] \
            or mh["num_alternatives"] != b["num_alternatives"] or mh["num_voters"] != mh["num_alternatives"]:
        return "(g) model header_only result differs from the original header"
    return None


def nontrivial(c, r, m):
    if c["op"] in ("c09.parse", "c09.excluded"):
        return False
    b = r["before"]
    return len(b["edges"]) >= 2 and any(f_of_bits(w) != int(f_of_bits(w)) for _, _, w in b["edges"]
                                        if abs(f_of_bits(w)) < 1e300)


def _bucket(n):
    return str(n) if n <= 3 else ("4-10" if n <= 10 else ("11-40" if n <= 40 else ">40"))


def stats(c, r, m):
    if c["op"] == "c09.excluded":
        kind = proto.untext(c["payload"][0])
        fails, agree = excluded_verdict(c, r, m)
        return ["excluded class: %s -- round trip fails on the implementation: %s; model behaves the same: %s"
                % (kind, "yes" if fails else "NO", "n/a" if agree is None else ("yes" if agree else "NO"))]
    if c["op"] == "c09.parse":
        v = fidelity_verdict(c, r, m)
        kind = "raises" if "err" in r.get("fidelity", {}) else "parses"
        return ["parser fidelity on hand-made files (%s): %s" % (kind, "agree" if v == "agree" else "DISAGREE")] + \
               ([] if v == "agree" else ["parser fidelity DISAGREE: " + v[:160]])
    b = r["before"]
    pl = unpack(c["payload"])
    ops = pl[3] + (pl[4] if pl[5] != 2 else [])
    es = b["edges"]
    pairs = {(a, b2) for a, b2, _ in es}
    n_add = sum(1 for o in ops if o[0] == 1)
    labels = ["edges=" + _bucket(len(es)), "nodes=" + _bucket(len(b["nodes"]))]
    if any(a == b2 for a, b2 in pairs):
        labels.append("has self-loop")
    if any((b2, a) in pairs and a != b2 for a, b2 in pairs):
        labels.append("has antiparallel edges")
    if n_add > len(es):
        labels.append("has overwritten edge")
    if len(b["nodes"]) > len(b["incident"]):
        labels.append("has isolated node")
    if any(abs(n) >= 10 ** 15 for n in b["nodes"]):
        labels.append("|node id| >= 10^15")
    if any(a < 0 for a, _ in pairs):
        labels.append("negative source id")
    if any(b2 < 0 for _, b2 in pairs):
        labels.append("negative target id")
    if any(a < 0 and a == b2 for a, b2 in pairs):
        labels.append("negative self-loop")
    if all(n < 0 for n in b["nodes"]):
        labels.append("all node ids negative")
    if any((a - b2) % 8 == 0 and a != b2 for a in b["nodes"] for b2 in b["nodes"]):
        labels.append("node ids colliding modulo 8")
    ws = [f_of_bits(w) for _, _, w in es]
    if any(w < 0 for w in ws):
        labels.append("negative weight")
    if any(w != 0 and abs(w) < 2.3e-308 for w in ws):
        labels.append("subnormal weight")
    if any(abs(w) > 1e300 for w in ws):
        labels.append("huge weight")
    if any(bits_of_f(w) == 1 << 63 for w in ws):
        labels.append("-0.0 weight")
    if len(set(ws)) < len(ws):
        labels.append("equal weights")
    if any(nm == "" for _, nm in b["names"]):
        labels.append("empty name")
    if any(proto.untext(t) in TRICKY for t in pl[0]) or any(proto.untext(t) in TRICKY for _, t in pl[2]):
        labels.append("a value that looks like a piece of the file format ('#', ':', fake header / edge line)")
    if has_inner_break(c["payload"]):
        labels.append("line-boundary character (not \\n, \\r) inside a name / metadata value: parse_file path only")
    reprs = [repr(w) for w in ws]
    if any("e+" in t for t in reprs):
        labels.append("weight repr with e+")
    if any("e-" in t for t in reprs):
        labels.append("weight repr with e-")
    if any(abs(w) >= 1e16 and w == int(w) for w in ws if abs(w) < 1.8e308):
        labels.append("integer-valued weight >= 1e16")
    labels.append("write: " + PREFILL[r.get("prefill", 0)])
    if r.get("prefill") == 4 and r.get("old_len", 0) > len(proto.untext(r["text1"]).encode()):
        labels.append("write: same object saved again under the same name, new content SHORTER than the old file")
    fl = flags_of(c["payload"])
    if fl & F_SPARSE:
        labels.append("alternatives_name on a subset of the nodes only")
    if fl & F_NPID:
        labels.append("numpy.int64 node ids")
    if fl & F_NPW:
        labels.append("numpy.float64 weights")
    nm_order = [a for a, _ in c["payload"][2]]
    if nm_order != sorted(nm_order):
        labels.append("alternatives_name not in ascending id order")
    if any(t and proto.untext(t)[0] in " \t\xa0" for _, t in c["payload"][2]):
        labels.append("a name that starts with a blank / tab (inside wf_name_rl: only trailing whitespace is excluded)")
    if pl[5] == 2:
        labels.append("lifetime: two instances with the same ids alive, A written after B was built; both judged against their payload")
    elif pl[4] or pl[5]:
        labels.append("history: %s" % ("file parsed, re-written, modified, re-written" if pl[5] else
                                       "same object observed + written, modified, written again"))
        first = {(a, b2): w for a, b2, w in r["history"]["first"]["edges"]}
        if any((a, b2) in first and first[(a, b2)] != w for a, b2, w in es):
            labels.append("history: weight of an existing edge overwritten after the first write")
    mw = r.get("mwrite")
    labels.append("(e) model-write == impl.write bytes: %s" %
                  ("yes" if isinstance(mw, list) and mw[0] == 0 and mw[1] == r["text1"] else "NO"))
    if isinstance(m, list) and len(m) == 5 and m[0][0] == 0 and "ok" in r.get("file", {}):
        labels.append("metadata model-parse == impl-parse: %s" %
                      ("yes" if model_content(m[0][1])["meta"] == r["file"]["ok"]["meta"] else "NO"))
    return labels


def _calls(ops):
    return [("add_node(%d)" % o[1]) if o[0] == 0 else
            "add_edge(%d, %d, %r)  # bits 0x%016x" % (o[1], o[2], f_of_bits(o[3]), o[3]) for o in ops]


def describe(c):
    if c["op"] == "c09.excluded":
        kind, meta, names, edges, ne = c["payload"]
        return {"excluded_class": proto.untext(kind), "metadata": [proto.untext(t) for t in meta],
                "names": [[a, proto.untext(t)] for a, t in names], "edges": edges, "num_edges_field": ne}
    if c["op"] == "c09.parse":
        ac, ho, splitter, text = c["payload"]
        return {"autocorrect": ac, "header_only": ho, "entry": "parse_file" if splitter == 0 else "parse_str",
                "text": proto.untext(text)}
    meta, nv, alts, ops, ops2, mode = unpack(c["payload"])
    d = {"metadata": dict(zip(META_FIELDS, (proto.untext(t) for t in meta))), "num_voters_before": nv,
         "alternatives_name": [[a, proto.untext(nm)] for a, nm in alts], "calls": _calls(ops)}
    fl = flags_of(c["payload"])
    d["flags"] = [t for bit, t in ((F_SPARSE, "names on a subset of the nodes"), (F_NPID, "numpy.int64 ids"),
                                   (F_NPW, "numpy.float64 weights")) if fl & bit]
    if mode == 2:
        d["then"] = ("a SECOND MatchingInstance B is built in the same process with the calls below, B is written, its text "
                     "parsed header_only and offered to the type gate as 'soc'; then A (calls above) is written, re-read and "
                     "compared with its payload, then B")
        d["calls_of_B"] = _calls(ops2)
    elif ops2 or mode:
        d["then"] = ("edges()/outgoing_edges()/neighbours() called, instance written to file A; " +
                     ("file A parsed into a new object, that object written again; " if mode else "") +
                     "then on the same object:")
        d["calls_after_first_write"] = _calls(ops2)
    return d


def shrink(c):
    if c["op"] in ("c09.parse", "c09.excluded"):
        return
    meta, nv, alts, ops, h_ops, mode = unpack(c["payload"])

    def rebuild(ops_new, alts2=None, meta2=None, h2=None):
        hh = h_ops if h2 is None else h2
        nodes = nodes_of_ops(ops_new + hh)
        a2 = [[a, nm] for a, nm in (alts if alts2 is None else alts2) if a in nodes]
        for n in nodes:
            if n >= 0 and n not in [a for a, _ in a2]:
                a2.append([n, proto.text("n")])
        return dict(c, payload=[meta if meta2 is None else meta2, nv, a2, ops_new, hh, mode])

    for i in range(len(h_ops)):
        yield rebuild(ops, h2=h_ops[:i] + h_ops[i + 1:])

    if sum(1 for o in ops if o[0] == 1) > 1 or any(o[0] == 0 for o in ops):
        for i in range(len(ops)):
            rest = ops[:i] + ops[i + 1:]
            if any(o[0] == 1 for o in rest):
                yield rebuild(rest)
    plain = [proto.text(s) for s in default_meta()]
    if meta != plain:
        yield rebuild(ops, meta2=plain)
    for i, (a, nm) in enumerate(alts):
        if nm != proto.text("n"):
            yield rebuild(ops, alts2=alts[:i] + [[a, proto.text("n")]] + alts[i + 1:])
    for i, o in enumerate(ops):
        if o[0] == 1 and o[3] != bits_of_f(1.5):
            yield rebuild(ops[:i] + [[1, o[1], o[2], bits_of_f(1.5)]] + ops[i + 1:])
