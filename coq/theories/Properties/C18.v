(* Properties/C18.v — statements for property C18 (being completed; see Proofs/Partition.v). *)
From Coq Require Import List NArith Bool.
From PrefVerif Require Import Lib.Val Lib.SetPartitions Model.SP Model.Partition.
Import ListNotations.
Open Scope N_scope.

Example C18_example_cycle3 :
  min_partition [1;2;3] [ [1;2;3] ; [2;3;1] ; [3;1;2] ] = 2%nat
  /\ partition_check [1;2;3] [ [1;2;3] ; [2;3;1] ; [3;1;2] ] [ [1;2] ; [3] ] = true
  /\ partition_check [1;2;3] [ [1;2;3] ; [2;3;1] ; [3;1;2] ] [ [1;2;3] ] = false.
Proof. repeat split; vm_compute; reflexivity. Qed.
