(* Proofs/C1P.v — lemmas about Model/C1P.v: shapes of 0/1 words, the verified checker and the verified
   reference decider of the consecutive-ones property, the prefix/suffix lemma behind the "extremal" domains. *)
From Coq Require Import List Arith Bool Lia Permutation.
From PrefVerif Require Import Lib.Perms Model.C1P.
Import ListNotations.

(* ------------------------------------------------------------------------------------------------ *)
(* Prop-level shapes of a list with respect to a property S of its elements *)
Section Shapes.
Context {T : Type}.

(* the elements satisfying P occupy consecutive positions of l *)
Definition Interval (P : T -> Prop) (l : list T) : Prop :=
  exists l1 l2 l3, l = l1 ++ l2 ++ l3 /\
    Forall (fun x => ~ P x) l1 /\ Forall P l2 /\ Forall (fun x => ~ P x) l3.
(* ... form a prefix / a suffix of l *)
Definition PrefixOf (P : T -> Prop) (l : list T) : Prop :=
  exists l1 l2, l = l1 ++ l2 /\ Forall P l1 /\ Forall (fun x => ~ P x) l2.
Definition SuffixOf (P : T -> Prop) (l : list T) : Prop :=
  exists l1 l2, l = l1 ++ l2 /\ Forall (fun x => ~ P x) l1 /\ Forall P l2.
Definition Extremal (P : T -> Prop) (l : list T) : Prop := PrefixOf P l \/ SuffixOf P l.

Variable f : T -> bool.
Variable P : T -> Prop.
Hypothesis fS : forall x, f x = true <-> P x.

Lemma fS_false x : f x = false <-> ~ P x.
Proof. rewrite <- fS. destruct (f x); split; congruence. Qed.

Lemma all_zero_map l : all_zero (map f l) = true <-> Forall (fun x => ~ P x) l.
Proof.
  unfold all_zero. rewrite forallb_forall, Forall_forall. split.
  - intros H x Hx. apply fS_false. specialize (H (f x) (in_map f l x Hx)). now destruct (f x).
  - intros H b Hb. apply in_map_iff in Hb. destruct Hb as (x & <- & Hx).
    apply H, fS_false in Hx. now rewrite Hx.
Qed.

Lemma all_one_map l : all_one (map f l) = true <-> Forall P l.
Proof.
  unfold all_one. rewrite forallb_forall, Forall_forall. split.
  - intros H x Hx. apply fS. exact (H (f x) (in_map f l x Hx)).
  - intros H b Hb. apply in_map_iff in Hb. destruct Hb as (x & <- & Hx). now apply fS, H.
Qed.

Lemma ones_zeros_map l : ones_zeros (map f l) = true <-> PrefixOf P l.
Proof.
  induction l as [|x t IH]; simpl.
  - split; [|reflexivity]. intros _. exists [], []. repeat split; constructor.
  - destruct (f x) eqn:E.
    + rewrite IH. split.
      * intros (l1 & l2 & -> & H1 & H2). exists (x :: l1), l2. repeat split; auto.
        constructor; [now apply fS|assumption].
      * intros (l1 & l2 & Heq & H1 & H2). destruct l1 as [|y l1]; simpl in Heq.
        -- subst l2. inversion H2 as [|? ? Hx _]; subst. apply fS in E. contradiction.
        -- injection Heq as <- ->. inversion H1; subst. exists l1, l2. auto.
    + rewrite all_zero_map. split.
      * intros H. exists [], (x :: t). repeat split; [constructor|].
        constructor; [now apply fS_false|assumption].
      * intros (l1 & l2 & Heq & H1 & H2). destruct l1 as [|y l1]; simpl in Heq.
        -- subst l2. now inversion H2.
        -- injection Heq as <- ->. inversion H1 as [|? ? Hx _]; subst. apply fS in Hx. congruence.
Qed.

Lemma zeros_ones_map l : zeros_ones (map f l) = true <-> SuffixOf P l.
Proof.
  induction l as [|x t IH]; simpl.
  - split; [|reflexivity]. intros _. exists [], []. repeat split; constructor.
  - destruct (f x) eqn:E.
    + rewrite all_one_map. split.
      * intros H. exists [], (x :: t). repeat split; [constructor|].
        constructor; [now apply fS|assumption].
      * intros (l1 & l2 & Heq & H1 & H2). destruct l1 as [|y l1]; simpl in Heq.
        -- subst l2. now inversion H2.
        -- injection Heq as <- ->. inversion H1 as [|? ? Hx _]; subst. apply fS in E. contradiction.
    + rewrite IH. split.
      * intros (l1 & l2 & -> & H1 & H2). exists (x :: l1), l2. repeat split; auto.
        constructor; [now apply fS_false|assumption].
      * intros (l1 & l2 & Heq & H1 & H2). destruct l1 as [|y l1]; simpl in Heq.
        -- subst l2. inversion H2 as [|? ? Hx _]; subst. apply fS in Hx. congruence.
        -- injection Heq as <- ->. inversion H1; subst. exists l1, l2. auto.
Qed.

Lemma contig01_map l : contig01 (map f l) = true <-> Interval P l.
Proof.
  induction l as [|x t IH]; simpl.
  - split; [|reflexivity]. intros _. exists [], [], []. repeat split; constructor.
  - destruct (f x) eqn:E.
    + rewrite ones_zeros_map. split.
      * intros (l2 & l3 & -> & H2 & H3). exists [], (x :: l2), l3. repeat split; auto.
        constructor; [now apply fS|assumption].
      * intros (l1 & l2 & l3 & Heq & H1 & H2 & H3). destruct l1 as [|y l1]; simpl in Heq.
        -- destruct l2 as [|y l2]; simpl in Heq.
           ++ subst l3. inversion H3 as [|? ? Hx _]; subst. apply fS in E. contradiction.
           ++ injection Heq as <- ->. inversion H2; subst. exists l2, l3. auto.
        -- injection Heq as <- ->. inversion H1 as [|? ? Hx _]; subst. apply fS in E. contradiction.
    + rewrite IH. split.
      * intros (l1 & l2 & l3 & -> & H1 & H2 & H3). exists (x :: l1), l2, l3. repeat split; auto.
        constructor; [now apply fS_false|assumption].
      * intros (l1 & l2 & l3 & Heq & H1 & H2 & H3). destruct l1 as [|y l1]; simpl in Heq.
        -- destruct l2 as [|y l2]; simpl in Heq.
           ++ subst l3. inversion H3; subst. exists [], [], t. repeat split; auto.
           ++ injection Heq as <- ->. inversion H2 as [|? ? Hx _]; subst. apply fS in Hx. congruence.
        -- injection Heq as <- ->. inversion H1; subst. exists l1, l2, l3. auto.
Qed.

Lemma extremal01_map l : extremal01 (map f l) = true <-> Extremal P l.
Proof.
  unfold extremal01, Extremal. rewrite orb_true_iff, ones_zeros_map, zeros_ones_map. reflexivity.
Qed.

(* the position-based reading: no element outside P between two elements of P *)
Lemma contig01_map_between l :
  contig01 (map f l) = true <->
  forall i j k d, i < j -> j < k -> k < length l -> P (nth i l d) -> P (nth k l d) -> P (nth j l d).
Proof.
  assert (Hz : forall t, all_zero (map f t) = true <-> forall j d, j < length t -> ~ P (nth j t d)).
  { intros t. rewrite all_zero_map, Forall_forall. split.
    - intros H j d Hj. apply H, nth_In, Hj.
    - intros H x Hx. destruct (In_nth _ _ x Hx) as (j & Hj & <-). now apply H. }
  assert (Hoz : forall t, ones_zeros (map f t) = true <->
                 forall i j d, i < j -> j < length t -> P (nth j t d) -> P (nth i t d)).
  { induction t as [|x t IHt]; simpl.
    - split; [|reflexivity]. intros _ i j d _ Hj. lia.
    - destruct (f x) eqn:E.
      + rewrite IHt. split.
        * intros H i j d Hij Hj Sj. destruct j as [|j]; [lia|]. destruct i as [|i]; [now apply fS|].
          apply (H i j d); [lia|lia|exact Sj].
        * intros H i j d Hij Hj Sj. apply (H (S i) (S j) d); [lia|lia|exact Sj].
      + rewrite Hz. split.
        * intros H i j d Hij Hj Sj. destruct j as [|j]; [lia|]. exfalso. apply (H j d); [lia|exact Sj].
        * intros H j d Hj Sj. apply fS_false in E. apply E. apply (H 0 (S j) d); [lia|lia|exact Sj]. }
  induction l as [|x t IH]; simpl.
  - split; [|reflexivity]. intros _ i j k d _ _ Hk. lia.
  - destruct (f x) eqn:E.
    + rewrite Hoz. split.
      * intros H i j k d Hij Hjk Hk Si Sk. destruct k as [|k]; [lia|]. destruct j as [|j]; [lia|].
        apply (H j k d); [lia|lia|exact Sk].
      * intros H i j d Hij Hj Sj. apply (H 0 (S i) (S j) d); [lia|lia|lia|now apply fS|exact Sj].
    + rewrite IH. split.
      * intros H i j k d Hij Hjk Hk Si Sk. destruct k as [|k]; [lia|]. destruct j as [|j]; [lia|].
        destruct i as [|i]; [apply fS_false in E; contradiction|].
        apply (H i j k d); [lia|lia|lia|exact Si|exact Sk].
      * intros H i j k d Hij Hjk Hk Si Sk. apply (H (S i) (S j) (S k) d); [lia|lia|lia|exact Si|exact Sk].
Qed.
End Shapes.

(* ------------------------------------------------------------------------------------------------ *)
(* permutations of 0 .. nc-1 *)
Lemma memn_iff j l : memn j l = true <-> In j l.
Proof.
  unfold memn. rewrite existsb_exists. split.
  - intros (x & Hx & E). apply Nat.eqb_eq in E. now subst.
  - intros H. exists j. split; [assumption|apply Nat.eqb_refl].
Qed.

Theorem perm_of_seq_correct nc perm : perm_of_seq nc perm = true <-> Permutation (seq 0 nc) perm.
Proof.
  unfold perm_of_seq. rewrite andb_true_iff, Nat.eqb_eq, forallb_forall. split.
  - intros [Hlen Hin]. apply NoDup_Permutation_bis.
    + apply seq_NoDup.
    + rewrite seq_length. lia.
    + intros j Hj. apply memn_iff, Hin, Hj.
  - intros HP. split.
    + rewrite <- (Permutation_length HP). apply seq_length.
    + intros j Hj. apply memn_iff. eapply Permutation_in; eassumption.
Qed.

Lemma perm_of_seq_range nc perm : Permutation (seq 0 nc) perm -> Forall (fun j => j < nc) perm.
Proof.
  intros HP. apply Forall_forall. intros j Hj.
  apply Permutation_sym in HP. apply (Permutation_in _ HP) in Hj. apply in_seq in Hj. lia.
Qed.

(* ------------------------------------------------------------------------------------------------ *)
(* rows *)
Definition RowContig (perm : list nat) (row : list bool) : Prop :=
  Interval (fun j => nth j row false = true) perm.
Definition RowExtremal (perm : list nat) (row : list bool) : Prop :=
  Extremal (fun j => nth j row false = true) perm.

Lemma row_contig_spec perm row : row_contig perm row = true <-> RowContig perm row.
Proof. unfold row_contig, permute_row, RowContig. apply contig01_map. intros j. reflexivity. Qed.

Lemma row_extremal_spec perm row : row_extremal perm row = true <-> RowExtremal perm row.
Proof. unfold row_extremal, permute_row, RowExtremal. apply extremal01_map. intros j. reflexivity. Qed.

(* position-based reading of row_contig: between two ones (in the order perm) there is no zero *)
Lemma row_contig_between perm row :
  row_contig perm row = true <->
  forall i j k, i < j -> j < k -> k < length perm ->
    nth (nth i perm 0) row false = true -> nth (nth k perm 0) row false = true ->
    nth (nth j perm 0) row false = true.
Proof.
  unfold row_contig, permute_row.
  rewrite (contig01_map_between (pick row) (fun j => nth j row false = true)) by (intros; reflexivity).
  split.
  - intros H i j k. apply H.
  - intros H i j k d Hij Hjk Hk.
    rewrite (nth_indep perm d 0), (nth_indep perm d 0 (n:=k)), (nth_indep perm d 0 (n:=j)) by lia.
    now apply H.
Qed.

(* ------------------------------------------------------------------------------------------------ *)
(* the consecutive-ones property, its checker and its decider *)
Definition C1P (rows : matrix) (nc : nat) : Prop :=
  exists perm, Permutation (seq 0 nc) perm /\ Forall (fun row => row_contig perm row = true) rows.

Theorem c1p_check_correct rows nc perm :
  c1p_check rows nc perm = true <->
  Permutation (seq 0 nc) perm /\ Forall (fun row => row_contig perm row = true) rows.
Proof.
  unfold c1p_check. rewrite andb_true_iff, perm_of_seq_correct, forallb_forall, Forall_forall. reflexivity.
Qed.

Theorem c1p_decide_correct rows nc :
  c1p_decide rows nc = true <->
  exists perm, Permutation (seq 0 nc) perm /\ Forall (fun row => row_contig perm row = true) rows.
Proof.
  unfold c1p_decide.
  apply (exists_perm_dec nat (fun perm => Forall (fun row => row_contig perm row = true) rows)).
  intros r. rewrite forallb_forall, Forall_forall. reflexivity.
Qed.

Corollary c1p_check_decide rows nc perm : c1p_check rows nc perm = true -> c1p_decide rows nc = true.
Proof. rewrite c1p_check_correct, c1p_decide_correct. intros H. exists perm. exact H. Qed.

(* ------------------------------------------------------------------------------------------------ *)
(* a word and its complement are both of the form 0*1*0*  iff  the word is 1*0* or 0*1* *)
Lemma all_zero_negb l : all_zero (map negb l) = all_one l.
Proof. unfold all_zero, all_one. induction l as [|[|] t IH]; simpl; auto. Qed.
Lemma all_one_negb l : all_one (map negb l) = all_zero l.
Proof. unfold all_zero, all_one. induction l as [|[|] t IH]; simpl; auto. Qed.
Lemma ones_zeros_negb l : ones_zeros (map negb l) = zeros_ones l.
Proof. induction l as [|[|] t IH]; simpl; auto using all_zero_negb. Qed.
Lemma zeros_ones_negb l : zeros_ones (map negb l) = ones_zeros l.
Proof. induction l as [|[|] t IH]; simpl; auto using all_one_negb. Qed.

Lemma all_one_ones_zeros l : all_one l = true -> ones_zeros l = true.
Proof. unfold all_one. induction l as [|[|] t IH]; simpl; auto. discriminate. Qed.
Lemma all_zero_zeros_ones l : all_zero l = true -> zeros_ones l = true.
Proof. unfold all_zero. induction l as [|[|] t IH]; simpl; auto. discriminate. Qed.
Lemma all_zero_ones_zeros l : all_zero l = true -> ones_zeros l = true.
Proof. unfold all_zero. induction l as [|[|] t IH]; simpl; auto. discriminate. Qed.
Lemma ones_zeros_contig l : ones_zeros l = true -> contig01 l = true.
Proof. induction l as [|[|] t IH]; simpl; auto. intros H. apply IH, all_zero_ones_zeros, H. Qed.
Lemma zeros_ones_contig l : zeros_ones l = true -> contig01 l = true.
Proof. induction l as [|[|] t IH]; simpl; auto. apply all_one_ones_zeros. Qed.

Lemma contig01_complement l : contig01 l && contig01 (map negb l) = extremal01 l.
Proof.
  unfold extremal01. destruct l as [|[|] t]; simpl; auto.
  - (* 1 :: t *)
    destruct (ones_zeros t) eqn:E; simpl.
    + apply zeros_ones_contig. rewrite zeros_ones_negb. exact E.
    + destruct (all_one t) eqn:E1; [|reflexivity]. apply all_one_ones_zeros in E1. congruence.
  - (* 0 :: t *)
    rewrite ones_zeros_negb. destruct (zeros_ones t) eqn:E.
    + rewrite (zeros_ones_contig _ E). now rewrite orb_true_r.
    + rewrite andb_false_r. destruct (all_zero t) eqn:E1; [|reflexivity].
      apply all_zero_zeros_ones in E1. congruence.
Qed.

(* reading a complemented row: needs the column indices to be inside the row *)
Lemma permute_row_negb perm row :
  Forall (fun j => j < length row) perm -> permute_row perm (map negb row) = map negb (permute_row perm row).
Proof.
  unfold permute_row, pick. intros H. rewrite map_map. apply map_ext_in. intros j Hj.
  rewrite Forall_forall in H. specialize (H j Hj).
  rewrite (nth_indep (map negb row) false (negb false)) by (rewrite map_length; exact H).
  apply map_nth.
Qed.

Lemma row_contig_complement perm row :
  Forall (fun j => j < length row) perm ->
  row_contig perm row && row_contig perm (map negb row) = row_extremal perm row.
Proof.
  intros H. unfold row_contig, row_extremal. rewrite permute_row_negb by exact H.
  apply contig01_complement.
Qed.

(* cei_reduction: a matrix stacked on its complement has all rows contiguous in the order perm iff every row
   of the matrix is a prefix or a suffix in the order perm *)
Theorem cei_reduction M nc perm :
  Forall (fun r => length r = nc) M -> Forall (fun j => j < nc) perm ->
  (Forall (fun row => row_contig perm row = true) (M ++ complement M) <->
   Forall (fun row => row_extremal perm row = true) M).
Proof.
  intros HM Hp. unfold complement. rewrite Forall_app, !Forall_forall. split.
  - intros [H1 H2] row Hrow. rewrite <- row_contig_complement.
    + rewrite (H1 row Hrow). rewrite (H2 (map negb row)); [reflexivity|]. now apply in_map.
    + rewrite Forall_forall in HM. rewrite (HM row Hrow). exact Hp.
  - intros H. split.
    + intros row Hrow. specialize (H row Hrow). rewrite <- row_contig_complement in H.
      * now apply andb_true_iff in H.
      * rewrite Forall_forall in HM. rewrite (HM row Hrow). exact Hp.
    + intros r Hr. apply in_map_iff in Hr. destruct Hr as (row & <- & Hrow).
      specialize (H row Hrow). rewrite <- row_contig_complement in H.
      * now apply andb_true_iff in H.
      * rewrite Forall_forall in HM. rewrite (HM row Hrow). exact Hp.
Qed.

Corollary cei_reduction_c1p M nc :
  Forall (fun r => length r = nc) M ->
  (C1P (M ++ complement M) nc <->
   exists perm, Permutation (seq 0 nc) perm /\ Forall (fun row => row_extremal perm row = true) M).
Proof.
  intros HM. unfold C1P. split; intros (perm & HP & H); exists perm; (split; [exact HP|]);
    apply (cei_reduction M nc perm HM (perm_of_seq_range nc perm HP)); exact H.
Qed.

(* ------------------------------------------------------------------------------------------------ *)
(* transpose *)
Lemma transpose_length nc M : length (transpose nc M) = nc.
Proof. unfold transpose. now rewrite map_length, seq_length. Qed.

Lemma transpose_rows nc M : Forall (fun r => length r = length M) (transpose nc M).
Proof.
  unfold transpose. apply Forall_forall. intros r Hr. apply in_map_iff in Hr.
  destruct Hr as (j & <- & _). apply map_length.
Qed.

Lemma complement_rows nc M : Forall (fun r => length r = nc) M -> Forall (fun r => length r = nc) (complement M).
Proof.
  unfold complement. rewrite !Forall_forall. intros H r Hr. apply in_map_iff in Hr.
  destruct Hr as (r0 & <- & Hr0). rewrite map_length. now apply H.
Qed.

(* ------------------------------------------------------------------------------------------------ *)
(* every permutation of a list is the list read through a permutation of its indices *)
Lemma map_nth_seq {T} (l : list T) d : map (fun i => nth i l d) (seq 0 (length l)) = l.
Proof.
  induction l as [|x t IH]; simpl; [reflexivity|]. f_equal.
  rewrite <- seq_shift, map_map. exact IH.
Qed.

Lemma Permutation_index {T} (d : T) (l l' : list T) :
  Permutation l l' ->
  exists p, Permutation (seq 0 (length l)) p /\ l' = map (fun i => nth i l d) p.
Proof.
  induction 1 as [|x l l' HP IH|x y l|l l' l'' HP1 IH1 HP2 IH2].
  - exists []. split; constructor.
  - destruct IH as (p & Hp & ->). exists (0 :: map S p). split.
    + simpl. constructor. rewrite <- seq_shift. now apply Permutation_map.
    + simpl. f_equal. now rewrite map_map.
  - exists (1 :: 0 :: map (fun i => S (S i)) (seq 0 (length l))). split.
    + simpl. rewrite <- !seq_shift, map_map. apply perm_swap.
    + simpl. f_equal. f_equal. rewrite map_map. simpl. symmetry. apply map_nth_seq.
  - destruct IH1 as (p1 & Hp1 & ->). destruct IH2 as (p2 & Hp2 & ->).
    rewrite map_length in Hp2.
    assert (Hlen : length p1 = length l) by (rewrite <- (Permutation_length Hp1); apply seq_length).
    exists (map (fun i => nth i p1 0) p2). split.
    + rewrite Hlen in Hp2. transitivity p1; [exact Hp1|].
      rewrite <- (map_nth_seq p1 0) at 1. rewrite Hlen. now apply Permutation_map.
    + rewrite map_map. apply map_ext_in. intros i Hi.
      apply Permutation_sym in Hp2. apply (Permutation_in _ Hp2) in Hi. apply in_seq in Hi.
      rewrite (nth_indep _ d (nth 0 l d)) by (rewrite map_length; lia).
      apply (map_nth (fun i => nth i l d)).
Qed.

(* ------------------------------------------------------------------------------------------------ *)
(* heredity: a matrix with the consecutive-ones property keeps it when rows are dropped / repeated and when
   only the columns listed in cols (distinct, in any order) are kept.  Contrapositive: a matrix that contains a
   refuted submatrix is refuted — used by the correspondence to obtain proved negative verdicts at sizes where
   the reference enumeration is not run. *)
Lemma Interval_filter {T} (P : T -> Prop) (c : T -> bool) l : Interval P l -> Interval P (filter c l).
Proof.
  intros (l1 & l2 & l3 & -> & H1 & H2 & H3).
  exists (filter c l1), (filter c l2), (filter c l3). rewrite !filter_app.
  repeat split; auto; apply Forall_forall; intros x Hx; apply filter_In in Hx; destruct Hx as [Hx _];
    [rewrite Forall_forall in H1|rewrite Forall_forall in H2|rewrite Forall_forall in H3]; auto.
Qed.

Theorem c1p_hereditary rows nc rows' cols :
  C1P rows nc -> incl rows' rows -> NoDup cols -> Forall (fun j => j < nc) cols ->
  C1P (map (select_cols cols) rows') (length cols).
Proof.
  intros (perm & HP & Hrows) Hincl Hnd Hrange.
  set (q := filter (fun j => memn j cols) perm).
  assert (Hq : Permutation cols q).
  { apply NoDup_Permutation; [exact Hnd| |].
    - apply NoDup_filter. eapply Permutation_NoDup; [exact HP|apply seq_NoDup].
    - intros j. unfold q. rewrite filter_In, memn_iff. split; [|tauto]. intros Hj. split; [|exact Hj].
      eapply Permutation_in; [exact HP|]. apply in_seq. rewrite Forall_forall in Hrange.
      specialize (Hrange j Hj). lia. }
  destruct (Permutation_index 0 cols q Hq) as (p & Hp & Heq).
  exists p. split; [exact Hp|]. rewrite Forall_map. apply Forall_forall. intros row Hrow.
  rewrite Forall_forall in Hrows. specialize (Hrows row (Hincl row Hrow)).
  unfold row_contig in *. 
  assert (E : permute_row p (select_cols cols row) = map (pick row) q).
  { rewrite Heq, map_map. unfold permute_row, select_cols. apply map_ext_in. intros i Hi.
    apply Permutation_sym in Hp. apply (Permutation_in _ Hp) in Hi. apply in_seq in Hi.
    unfold pick at 1. rewrite (nth_indep _ false (pick row 0)) by (rewrite map_length; lia).
    apply (map_nth (pick row)). }
  rewrite E. unfold permute_row in Hrows.
  apply (contig01_map (pick row) (fun j => pick row j = true) (fun j => iff_refl _)).
  apply Interval_filter.
  apply (contig01_map (pick row) (fun j => pick row j = true) (fun j => iff_refl _)). exact Hrows.
Qed.

Corollary c1p_refuted_by_submatrix rows nc rows' cols :
  incl rows' rows -> NoDup cols -> Forall (fun j => j < nc) cols ->
  c1p_decide (map (select_cols cols) rows') (length cols) = false -> c1p_decide rows nc = false.
Proof.
  intros Hincl Hnd Hr Hf. destruct (c1p_decide rows nc) eqn:E; [|reflexivity].
  apply c1p_decide_correct in E. apply (c1p_hereditary rows nc rows' cols) in E; auto.
  apply c1p_decide_correct in E. congruence.
Qed.

Lemma nodupb_NoDup l : nodupb l = true -> NoDup l.
Proof.
  induction l as [|x t IH]; simpl; [constructor|]. rewrite andb_true_iff, negb_true_iff. intros [H1 H2].
  constructor; [|now apply IH]. intros Hin. apply memn_iff in Hin. congruence.
Qed.

Theorem c1p_core_refuted_sound rows nc ridx cols :
  c1p_core_refuted rows nc ridx cols = true -> c1p_decide rows nc = false.
Proof.
  unfold c1p_core_refuted. rewrite !andb_true_iff, negb_true_iff, !forallb_forall.
  intros [[[Hnd Hc] Hr] Hf].
  apply (c1p_refuted_by_submatrix rows nc (map (fun i => nth i rows []) ridx) cols).
  - intros row Hrow. apply in_map_iff in Hrow. destruct Hrow as (i & <- & Hi).
    apply nth_In. apply Nat.ltb_lt. now apply Hr.
  - now apply nodupb_NoDup.
  - apply Forall_forall. intros j Hj. apply Nat.ltb_lt. now apply Hc.
  - exact Hf.
Qed.
