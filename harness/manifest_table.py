"""Source of MANIFEST.json (bin/gen-manifest). One entry per claimed property."""

GENERIC_NOTE = ("Trusted: Coq 8.16.1 kernel; extraction (ExtrOcamlBasic only) + ocamlopt + coq/oracle/main.ml; the Python "
                "correspondence harness; CPython and the packages preflibtools imports. The theorems are about the "
                "hand-written Gallina model; the model is tied to /repo's working tree on every run by differential "
                "execution (exhaustive small ranges + seeded structured random), not by proof. ")

CLAIMED = {
    "C20": {
        "text": "Theorems in Coq (all sizes) about a mirror model of distances.py; model tied to the code by "
                "exhaustive (n<=4/5) and random (n<=40) differential runs on every invocation.",
        "design_ref": "DESIGN.md §7 C20",
        "note": GENERIC_NOTE + "Final float division compared through exact rationals.",
        "technique": "machine-checked proof in Coq of the model + model/implementation correspondence check",
    },
}

_PENDING = "not claimed yet: the model and check for this property are still being built (see DESIGN.md §12)"
NOT_APPLICABLE = {f"C{i:02d}": _PENDING for i in range(1, 21) if f"C{i:02d}" not in CLAIMED}

NOTES = ("All checks share one Coq development (coq/) built by bin/setup; bin/check <ID> <tier> rebuilds what changed, "
         "re-captures Print Assumptions, runs the correspondence against /repo's working tree and rewrites "
         "evidence/<ID>.json. Known findings: known_findings.json. Design and trusted base: DESIGN.md.")
