(* Model/ELO.v — statement-by-statement MIRROR of is_single_peaked (Escoffier, Lang, Ozturk 2008) as it is in
   /repo: preflibtools/properties/subdomains/ordinal/singlepeaked/singlepeakedness.py (after fix 7ab1df7).
   Executable definitions only.

   Python objects                       model
     list_of_preferences                prefs : list (list N)   (flatten_strict: one flat list per stored order)
     list_of_preferences_SP (deepcopy)  st_prefs_SP             (mutated: .pop(), .remove(x))
     is_SP, end_flag, axis              st_is_SP, st_end_flag, st_axis (None = None)
     left_axis / right_axis             st_left (append = at the end) / st_right (insert(0, x) = cons)
     x_i, x_j                           st_xi, st_xj : option N
     to_append_left                     st_tal
     forced_position (dict)             association list N -> side, get with default ""
     l.pop() on []                      Err OtherErr  (IndexError) ;  l[0] on [] likewise
     l.index(x), x absent               Err ValueErr  (ValueError) ;  the two explicit `raise ValueError` likewise
     is_single_peaked_axis(instance, a) sp_axis_profile (map strictify prefs) a   (the instance is soc: its guard passes)
   Only list membership tests are made on the Python set placed_candidates and on the dict forced_position, so
   no set / dict iteration order is involved: the algorithm is deterministic in the storage order of the votes.
   The while loop runs on explicit fuel = number of alternatives (each round removes at least one of them). *)
From Coq Require Import List Arith NArith Bool.
From PrefVerif Require Import Lib.Val Lib.Contig Model.SP.
Import ListNotations.

Inductive side := SLeft | SRight.

Record elo_state := mkElo {
  st_is_SP : bool; st_end_flag : bool; st_axis : option (list N);
  st_right : list N; st_left : list N; st_xi : option N; st_xj : option N;
  st_tal : list N; st_prefs_SP : list (list N) }.

(* ---- Python list primitives ---- *)
Fixpoint py_index (l : list N) (x : N) : result nat :=           (* l.index(x) *)
  match l with
  | [] => Err ValueErr
  | a :: r => if N.eqb x a then Ok 0 else rmap S (py_index r x)
  end.
Definition py_index_opt (l : list N) (x : option N) : result nat :=   (* l.index(None) raises ValueError *)
  match x with Some a => py_index l a | None => Err ValueErr end.
Definition py_pop (l : list N) : result (list N * N) :=           (* x = l.pop() *)
  match l with [] => Err OtherErr | a :: r => Ok (removelast l, last l a) end.
Fixpoint py_remove (x : N) (l : list N) : list N :=               (* l.remove(x), x in l *)
  match l with [] => [] | a :: r => if N.eqb x a then r else a :: py_remove x r end.
Definition py_remove_if (x : N) (l : list N) : list N :=          (* if x in l: l.remove(x) *)
  if memN x l then py_remove x l else l.
Definition py_first {T} (l : list (list T)) : result (list T) :=  (* l[0] *)
  match l with [] => Err OtherErr | a :: _ => Ok a end.

(* ---- forced_position ---- *)
Fixpoint fp_get (d : list (N * side)) (k : N) : option side :=
  match d with [] => None | (k', v) :: r => if N.eqb k k' then Some v else fp_get r k end.
Fixpoint fp_set (d : list (N * side)) (k : N) (v : side) : list (N * side) :=
  match d with
  | [] => [(k, v)]
  | (k', v') :: r => if N.eqb k k' then (k, v) :: r else (k', v') :: fp_set r k v
  end.
Definition is_side (o : option side) (s : side) : bool :=
  match o, s with Some SLeft, SLeft => true | Some SRight, SRight => true | _, _ => false end.
Definition opposite (s : side) : side := match s with SLeft => SRight | SRight => SLeft end.

(* ---- "make a list of last candidates" ---- *)
Fixpoint pop_all (ps : list (list N)) (lc : list N) : result (list (list N) * list N) :=
  match ps with
  | [] => Ok ([], lc)
  | p :: rest =>
      rbind (py_pop p) (fun '(p', lastc) =>
      let lc' := if memN lastc lc then lc else lc ++ [lastc] in
      rbind (pop_all rest lc') (fun '(rest', lc'') => Ok (p' :: rest', lc'')))
  end.

(* ---- len(last_candidates) == 1, x_i set, not the last candidate: the loop over all voters ---- *)
(* returns (case, contradiction found) *)
Fixpoint single_loop (prefs : list (list N)) (x : N) (xi xj : option N) (case : nat) : result (nat * bool) :=
  match prefs with
  | [] => Ok (case, false)
  | p :: rest =>
      rbind (py_index p x) (fun ix => rbind (py_index_opt p xi) (fun ixi => rbind (py_index_opt p xj) (fun ixj =>
      if (ix <? ixi) && (ixj <? ix) then                 (* index_x_i > index_x > index_x_j : case 3.(c) inverse *)
        if case =? 2 then Ok (case, true) else single_loop rest x xi xj 1
      else if (ix <? ixj) && (ixi <? ix) then            (* index_x_j > index_x > index_x_i : case 3.(c) *)
        if case =? 1 then Ok (case, true) else single_loop rest x xi xj 2
      else if (ix <? ixi) && (ix <? ixj) then            (* case 3.(b) *)
        single_loop rest x xi xj case
      else Err ValueErr)))                               (* "We should never have ended up here ..." *)
  end.

(* ---- len(last_candidates) == 2, x_i set: the loop over all voters ---- *)
Inductive pair_out :=
| PO_cont (x y : N) (forced : list (N * side))           (* loop finished, not end_flag *)
| PO_contra                                              (* end_flag, is_SP = False *)
| PO_axis (ax : list N) (ok : bool).                     (* case 2.(d): axis, is_SP = is_single_peaked_axis(...) *)

Definition not_placed (tal left right : list N) (c : N) : bool :=
  negb (memN c left || memN c right || memN c tal).

Fixpoint pair_loop (all_prefs : list (list N)) (tal left right : list N) (xi xj : option N)
                   (prefs : list (list N)) (x y : N) (forced : list (N * side)) : result pair_out :=
  match prefs with
  | [] => Ok (PO_cont x y forced)
  | p :: rest =>
      rbind (py_index p x) (fun ix0 => rbind (py_index p y) (fun iy0 =>
      rbind (py_index_opt p xi) (fun ixi => rbind (py_index_opt p xj) (fun ixj =>
      (* swap to put x in the lower position *)
      let '(ix, iy, x, y) := if ix0 <? iy0 then (iy0, ix0, y, x) else (ix0, iy0, x, y) in
      if (ix <? ixj) && (iy <? ix) && (ixi <? iy) then        (* x_j > x > y > x_i : case 2.(d) reverse *)
        let mid := filter (not_placed tal left right) p in
        let ax := tal ++ left ++ mid ++ right in
        Ok (PO_axis ax (sp_axis_profile (map strictify all_prefs) ax))
      else if (ix <? ixi) && (iy <? ix) && (ixj <? iy) then   (* x_i > x > y > x_j : case 2.(d) *)
        let mid := rev (filter (not_placed tal left right) p) in
        let ax := tal ++ left ++ mid ++ right in
        Ok (PO_axis ax (sp_axis_profile (map strictify all_prefs) ax))
      else if (ix <? ixi) && (ixj <? ix) && (iy <? ixj) then  (* x_i > x > x_j > y : case 2.(c) *)
        if is_side (fp_get forced x) SRight || is_side (fp_get forced y) SLeft then Ok PO_contra
        else pair_loop all_prefs tal left right xi xj rest x y (fp_set (fp_set forced x SLeft) y SRight)
      else if (ix <? ixj) && (ixi <? ix) && (iy <? ixi) then  (* x_j > x > x_i > y : case 2.(c) inverse *)
        if is_side (fp_get forced x) SLeft || is_side (fp_get forced y) SRight then Ok PO_contra
        else pair_loop all_prefs tal left right xi xj rest x y (fp_set (fp_set forced x SRight) y SLeft)
      else if (ix <? ixi) && (ix <? ixj) then                 (* case 2.(b) *)
        pair_loop all_prefs tal left right xi xj rest x y forced
      else Err ValueErr))))
  end.

(* the completion of forced_position after the loop and the placement of x, y *)
Definition pair_place (st : elo_state) (ps : list (list N)) (x y : N) (forced : list (N * side)) : elo_state :=
  let forced1 :=
    match fp_get forced x with
    | Some _ => forced
    | None => match fp_get forced y with
              | None => fp_set (fp_set forced x SLeft) y SRight
              | Some sy => fp_set forced x (opposite sy)
              end
    end in
  let forced2 :=
    match fp_get forced1 y with
    | Some _ => forced1
    | None => match fp_get forced1 x with
              | Some sx => fp_set forced1 y (opposite sx)
              | None => forced1                                   (* unreachable: x was just set *)
              end
    end in
  if is_side (fp_get forced2 x) SLeft
  then mkElo (st_is_SP st) (st_end_flag st) (st_axis st) (y :: st_right st) (st_left st ++ [x])
             (Some x) (Some y) (st_tal st) ps
  else mkElo (st_is_SP st) (st_end_flag st) (st_axis st) (x :: st_right st) (st_left st ++ [y])
             (Some y) (Some x) (st_tal st) ps.

(* ---- one iteration of the while loop ---- *)
Definition elo_round (prefs : list (list N)) (st : elo_state) : result elo_state :=
  rbind (pop_all (st_prefs_SP st) []) (fun '(ps1, lc) =>
  if 3 <=? length lc then
    Ok (mkElo false true (st_axis st) (st_right st) (st_left st) (st_xi st) (st_xj st) (st_tal st) ps1)
  else match lc with
  | [x] =>
      let ps2 := map (py_remove_if x) ps1 in
      match st_xi st with
      | None =>
          Ok (mkElo (st_is_SP st) (st_end_flag st) (st_axis st) (st_right st) (st_left st)
                    (st_xi st) (st_xj st) (st_tal st ++ [x]) ps2)
      | Some _ =>
          rbind (py_first ps2) (fun p0 =>
          if length p0 =? 0 then
            Ok (mkElo (st_is_SP st) (st_end_flag st) (st_axis st) (st_right st) (st_left st ++ [x])
                      (st_xi st) (st_xj st) (st_tal st) ps2)
          else
            rbind (single_loop prefs x (st_xi st) (st_xj st) 0) (fun '(case, contra) =>
            if contra then
              Ok (mkElo false true (st_axis st) (st_right st) (st_left st) (st_xi st) (st_xj st) (st_tal st) ps2)
            else if case =? 2 then
              Ok (mkElo (st_is_SP st) (st_end_flag st) (st_axis st) (x :: st_right st) (st_left st)
                        (st_xi st) (Some x) (st_tal st) ps2)
            else
              Ok (mkElo (st_is_SP st) (st_end_flag st) (st_axis st) (st_right st) (st_left st ++ [x])
                        (Some x) (st_xj st) (st_tal st) ps2)))
      end
  | [x; y] =>
      let ps2 := map (fun p => py_remove_if y (py_remove_if x p)) ps1 in
      match st_xi st with
      | None =>
          Ok (mkElo (st_is_SP st) (st_end_flag st) (st_axis st) (y :: st_right st) (st_left st ++ [x])
                    (Some x) (Some y) (st_tal st) ps2)
      | Some _ =>
          rbind (pair_loop prefs (st_tal st) (st_left st) (st_right st) (st_xi st) (st_xj st) prefs x y [])
          (fun out => match out with
           | PO_contra =>
               Ok (mkElo false true (st_axis st) (st_right st) (st_left st) (st_xi st) (st_xj st) (st_tal st) ps2)
           | PO_axis ax ok =>
               Ok (mkElo ok true (Some ax) (st_right st) (st_left st) (st_xi st) (st_xj st) (st_tal st) ps2)
           | PO_cont x' y' forced => Ok (pair_place st ps2 x' y' forced)
           end)
      end
  | _ =>   (* len(last_candidates) == 0: no branch of the if / elif chain is taken *)
      Ok (mkElo (st_is_SP st) (st_end_flag st) (st_axis st) (st_right st) (st_left st) (st_xi st) (st_xj st)
                (st_tal st) ps1)
  end).

(* while is_SP and len(list_of_preferences_SP[0]) >= 1 and not end_flag *)
Fixpoint elo_loop (fuel : nat) (prefs : list (list N)) (st : elo_state) : result elo_state :=
  if negb (st_is_SP st) then Ok st
  else rbind (py_first (st_prefs_SP st)) (fun p0 =>
    if (1 <=? length p0) && negb (st_end_flag st) then
      match fuel with
      | 0 => Err OutOfFuel
      | S f => rbind (elo_round prefs st) (elo_loop f prefs)
      end
    else Ok st).

Definition elo_init (prefs : list (list N)) : elo_state :=
  mkElo true false None [] [] None None [] prefs.

(* if is_SP: (axis = to_append_left + left_axis + right_axis if axis is None) return True, axis; return False, None *)
Definition elo_result (st : elo_state) : bool * list N :=
  if st_is_SP st then
    (true, match st_axis st with Some a => a | None => st_tal st ++ st_left st ++ st_right st end)
  else (false, []).

(* is_single_peaked on a soc instance with num_alternatives = fuel; the verdict and the axis (None as []) *)
Definition elo_run (fuel : nat) (prefs : list (list N)) : result (bool * list N) :=
  rmap elo_result (elo_loop fuel prefs (elo_init prefs)).

Definition elo (alts : list N) (prefs : list (list N)) : result (bool * list N) :=
  elo_run (length alts) prefs.
