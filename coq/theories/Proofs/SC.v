(* Proofs/SC.v — lemmas about Model/SC.v (C04). *)
From Coq Require Import List Arith NArith Bool Lia Permutation.
From PrefVerif Require Import Lib.Perms Model.SC.
Import ListNotations.

Lemma sc_decide_correct alts orders : sc_decide alts orders = true <-> exists s, Permutation orders s /\ sc_seq_check alts s = true.
Proof.
  unfold sc_decide. apply exists_perm_dec. intros r. reflexivity.
Qed.
