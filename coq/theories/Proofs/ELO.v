(* Proofs/ELO.v — correctness of the mirror of is_single_peaked (Model/ELO.v) on well-formed strict profiles:
   termination within the fuel, no Python error, soundness (a returned axis is a valid single-peaked axis),
   completeness (Escoffier-Lang-Ozturk).

   Notation: better v a b := a is ranked above b in the vote v (idxN v a < idxN v b).
   State geometry: O_L = to_append_left ++ left_axis (outside -> inside), O_R = right_axis (inside -> outside),
   P = placed = O_L ++ O_R, R = the alternatives not yet placed.  The final axis is O_L ++ M ++ O_R for the
   arrangement M of R produced by the later rounds.
   Soundness invariant (LC): for every vote v and every placed alternative c, all alternatives to the left of c are
   worse than c for v, or all alternatives to the right of c are worse (whatever M will be).  At the end this is
   exactly "no valley", i.e. v is single-peaked on the axis. *)
From Coq Require Import List Arith NArith Bool Lia Permutation.
From PrefVerif Require Import Lib.Val Lib.Perms Lib.Contig Model.SP Model.ELO Proofs.SP.
Import ListNotations.

(* ---------------------------------------------------------------------------------------------- *)
(* generic list facts                                                                              *)

Lemma memN_app a l1 l2 : memN a (l1 ++ l2) = memN a l1 || memN a l2.
Proof. unfold memN. apply existsb_app. Qed.

Lemma last_indep {T} (l : list T) d d' : l <> [] -> last l d = last l d'.
Proof.
  induction l as [|a l IH]; intros H; [congruence|]. destruct l as [|b l]; [reflexivity|].
  change (last (b :: l) d = last (b :: l) d'). apply IH. discriminate.
Qed.

Lemma app_last_split {T} (l : list T) d : l <> [] -> l = removelast l ++ [last l d].
Proof. intros H. now apply app_removelast_last. Qed.

Lemma snoc_eq_split {T} (l pre post : list T) x c :
  l ++ [x] = pre ++ c :: post ->
  (post = [] /\ c = x /\ pre = l) \/ (exists post0, post = post0 ++ [x] /\ l = pre ++ c :: post0).
Proof.
  intros E. destruct (exists_last (l := c :: post)) as (q & z & Eq); [discriminate|].
  rewrite Eq in E. rewrite app_assoc in E. apply app_inj_tail in E. destruct E as [E ->].
  destruct post as [|p post].
  - left. destruct q as [|q1 q]; simpl in Eq.
    + injection Eq as ->. rewrite app_nil_r in E. auto.
    + injection Eq as _ Eq. destruct q; discriminate.
  - right. destruct q as [|q1 q]; simpl in Eq; [discriminate|].
    injection Eq as -> Eq. exists q. split; [|assumption].
    destruct (exists_last (l := p :: post)) as (q' & z' & Eq'); [discriminate|].
    rewrite Eq' in *. apply app_inj_tail in Eq. destruct Eq as [-> ->]. reflexivity.
Qed.

Lemma cons_eq_split {T} (l pre post : list T) x c :
  x :: l = pre ++ c :: post ->
  (pre = [] /\ c = x /\ post = l) \/ (exists pre0, pre = x :: pre0 /\ l = pre0 ++ c :: post).
Proof.
  intros E. destruct pre as [|p pre]; simpl in E.
  - injection E as E1 E2. subst. left. auto.
  - injection E as E1 E2. subst. right. eauto.
Qed.

Lemma NoDup_split_unique {T} (l1 l2 l1' l2' : list T) b :
  NoDup (l1 ++ b :: l2) -> l1 ++ b :: l2 = l1' ++ b :: l2' -> l1 = l1' /\ l2 = l2'.
Proof.
  revert l1'; induction l1 as [|a l1 IH]; intros l1' Hnd E.
  - destruct l1' as [|a' l1']; simpl in E.
    + injection E as E. auto.
    + injection E as E1 E2. subst a'. exfalso. simpl in Hnd. apply NoDup_cons_iff in Hnd.
      destruct Hnd as [Hn _]. apply Hn. rewrite E2. apply in_or_app. right. now left.
  - destruct l1' as [|a' l1']; simpl in E.
    + injection E as E1 E2. subst a. exfalso. simpl in Hnd. apply NoDup_cons_iff in Hnd.
      destruct Hnd as [Hn _]. apply Hn. apply in_or_app. right. now left.
    + injection E as E1 E2. subst a'. simpl in Hnd. apply NoDup_cons_iff in Hnd. destruct Hnd as [_ Hnd].
      destruct (IH l1' Hnd E2) as [-> ->]. auto.
Qed.

Lemma NoDup_snoc {T} (l : list T) x : NoDup l -> ~ In x l -> NoDup (l ++ [x]).
Proof.
  induction l as [|a l IH]; intros Hnd Hn; simpl; [constructor; [intros []|constructor]|].
  inversion Hnd; subst. constructor.
  - intros H. apply in_app_or in H. destruct H as [H|[->|[]]]; [contradiction|]. apply Hn. now left.
  - apply IH; auto. intros H. apply Hn. now right.
Qed.

Lemma filter_filter {T} (f g : T -> bool) l : filter f (filter g l) = filter (fun a => g a && f a) l.
Proof.
  induction l as [|a l IH]; simpl; [reflexivity|]. destruct (g a); simpl; [|assumption].
  destruct (f a); simpl; now rewrite IH.
Qed.

Lemma filter_partition_perm {T} (f : T -> bool) l :
  Permutation l (filter f l ++ filter (fun a => negb (f a)) l).
Proof.
  induction l as [|a l IH]; simpl; [constructor|]. destruct (f a); simpl.
  - now constructor.
  - eapply perm_trans; [apply perm_skip; exact IH|]. apply Permutation_middle.
Qed.

Lemma filter_length_lt {T} (f g : T -> bool) l x :
  In x l -> f x = true -> g x = false -> (forall a, g a = true -> f a = true) ->
  length (filter g l) < length (filter f l).
Proof.
  intros Hin Hf Hg Himp. induction l as [|a l IH]; [contradiction|]. simpl.
  assert (Hle : length (filter g l) <= length (filter f l)).
  { clear -Himp. induction l as [|b l IH]; simpl; [lia|].
    destruct (g b) eqn:E; [rewrite (Himp b E); simpl; lia|]. destruct (f b); simpl; lia. }
  destruct Hin as [->|Hin].
  - rewrite Hf, Hg. simpl. lia.
  - specialize (IH Hin). destruct (g a) eqn:E; [rewrite (Himp a E); simpl; lia|].
    destruct (f a); simpl; lia.
Qed.

(* ---------------------------------------------------------------------------------------------- *)
(* Python list primitives                                                                          *)

Lemma py_index_ok v a : In a v -> py_index v a = Ok (idxN v a).
Proof.
  induction v as [|b v IH]; intros Hin; [contradiction|]. simpl.
  destruct (N.eqb a b) eqn:E; [reflexivity|].
  apply N.eqb_neq in E. destruct Hin as [->|Hin]; [congruence|]. now rewrite IH.
Qed.

Lemma idxN_inj v a b : In a v -> In b v -> idxN v a = idxN v b -> a = b.
Proof. intros Ha Hb E. rewrite <- (idxN_nth v a 0%N Ha), <- (idxN_nth v b 0%N Hb). now rewrite E. Qed.

Lemma idxN_app_l v w a : In a v -> idxN (v ++ w) a = idxN v a.
Proof.
  induction v as [|b v IH]; intros Hin; [contradiction|]. simpl.
  destruct (N.eqb a b) eqn:E; [reflexivity|]. apply N.eqb_neq in E.
  destruct Hin as [->|Hin]; [congruence|]. now rewrite IH.
Qed.

Lemma idxN_lt v a : In a v -> idxN v a < length v.
Proof.
  induction v as [|b v IH]; intros Hin; [contradiction|]. simpl.
  destruct (N.eqb a b) eqn:E; [lia|]. apply N.eqb_neq in E.
  destruct Hin as [->|Hin]; [congruence|]. specialize (IH Hin). lia.
Qed.

Lemma idxN_app_r v w a : ~ In a v -> idxN (v ++ w) a = length v + idxN w a.
Proof.
  induction v as [|b v IH]; intros Hn; [reflexivity|]. simpl.
  destruct (N.eqb a b) eqn:E.
  - apply N.eqb_eq in E. subst. exfalso. apply Hn. now left.
  - rewrite IH; [reflexivity|]. intros H. apply Hn. now right.
Qed.

Lemma filter_all_true {T} (f : T -> bool) l : (forall b, In b l -> f b = true) -> filter f l = l.
Proof.
  induction l as [|a l IH]; intros H; [reflexivity|]. simpl. rewrite (H a (or_introl eq_refl)).
  f_equal. apply IH. intros b Hb. apply H. now right.
Qed.

Lemma py_remove_filter x l : NoDup l -> py_remove x l = filter (fun a => negb (N.eqb a x)) l.
Proof.
  induction l as [|a l IH]; intros Hnd; [reflexivity|]. inversion Hnd as [|? ? Hn Hnd']; subst. simpl.
  destruct (N.eqb x a) eqn:E.
  - apply N.eqb_eq in E. subst. rewrite N.eqb_refl. simpl.
    symmetry. apply filter_all_true. intros b Hb. apply negb_true_iff. apply N.eqb_neq. intros ->. contradiction.
  - rewrite N.eqb_sym, E. simpl. now rewrite IH.
Qed.

Lemma py_remove_if_filter x l : NoDup l -> py_remove_if x l = filter (fun a => negb (N.eqb a x)) l.
Proof.
  intros Hnd. unfold py_remove_if. destruct (memN x l) eqn:E; [now apply py_remove_filter|].
  apply memN_false in E. symmetry. apply filter_all_true. intros b Hb.
  apply negb_true_iff. apply N.eqb_neq. intros ->. contradiction.
Qed.

Lemma removelast_filter l d : NoDup l -> l <> [] ->
  removelast l = filter (fun a => negb (N.eqb a (last l d))) l.
Proof.
  intros Hnd Hne. rewrite (app_last_split l d Hne) at 2. rewrite filter_app. simpl.
  rewrite N.eqb_refl. simpl. rewrite app_nil_r. symmetry. apply filter_all_true.
  intros b Hb. apply negb_true_iff. apply N.eqb_neq. intros ->.
  rewrite (app_last_split l d Hne) in Hnd. eapply NoDup_app_disj; [exact Hnd|exact Hb|now left].
Qed.

(* ---------------------------------------------------------------------------------------------- *)
(* votes: better, worst element of a filtered vote                                                 *)

Definition better (v : list N) (a b : N) : Prop := idxN v a < idxN v b.

Definition unplaced (P : list N) (a : N) : bool := negb (memN a P).

Lemma unplaced_true P a : unplaced P a = true <-> ~ In a P.
Proof. unfold unplaced. rewrite negb_true_iff. apply memN_false. Qed.

Lemma unplaced_insert P P' x : (forall a, In a P' <-> In a P \/ a = x) ->
  forall a, unplaced P' a = unplaced P a && negb (N.eqb a x).
Proof.
  intros H a. apply eq_true_iff_eq. rewrite andb_true_iff, negb_true_iff, !unplaced_true, N.eqb_neq, H. tauto.
Qed.

Lemma filter_last_split (f : N -> bool) v l' x : filter f v = l' ++ [x] ->
  exists v1 v2, v = v1 ++ x :: v2 /\ f x = true /\ (forall r, In r v2 -> f r = false) /\ filter f v1 = l'.
Proof.
  revert l'; induction v as [|a v IH]; intros l' E; simpl in E.
  - destruct l'; discriminate.
  - destruct (f a) eqn:Fa.
    + destruct (filter f v) as [|b fl] eqn:Efl.
      * destruct l' as [|c l']; simpl in E; [|destruct l'; discriminate].
        injection E as ->. exists [], v. repeat split; auto.
        intros r Hr. destruct (f r) eqn:Fr; [|reflexivity]. exfalso.
        assert (Hin : In r (filter f v)) by (apply filter_In; auto). rewrite Efl in Hin. contradiction.
      * destruct l' as [|c l']; simpl in E; [injection E as _ E; discriminate|].
        injection E as -> E. destruct (IH l' E) as (v1 & v2 & -> & Fx & Hv2 & Ev1).
        exists (c :: v1), v2. repeat split; auto. simpl. now rewrite Fa, Ev1.
    + destruct (IH l' E) as (v1 & v2 & -> & Fx & Hv2 & Ev1).
      exists (a :: v1), v2. repeat split; auto. simpl. now rewrite Fa.
Qed.

(* the last element of the filtered vote is the worst among the filtered alternatives *)
Lemma filter_last_worst (f : N -> bool) v x d : NoDup v -> filter f v <> [] -> last (filter f v) d = x ->
  In x v /\ f x = true /\ forall r, In r v -> f r = true -> r <> x -> better v r x.
Proof.
  intros Hnd Hne El.
  assert (E : filter f v = removelast (filter f v) ++ [x]) by (rewrite <- El; now apply app_last_split).
  destruct (filter_last_split f v _ x E) as (v1 & v2 & -> & Fx & Hv2 & _).
  split; [apply in_or_app; right; now left|]. split; [assumption|].
  intros r Hr Fr Hne'. unfold better.
  assert (Hx1 : ~ In x v1). { intros H. eapply NoDup_app_disj; [exact Hnd|exact H|now left]. }
  apply in_app_or in Hr. destruct Hr as [Hr|[->|Hr]].
  - rewrite (idxN_app_l v1 _ r Hr), (idxN_app_r v1 _ x Hx1). pose proof (idxN_lt v1 r Hr). lia.
  - congruence.
  - rewrite (Hv2 r Hr) in Fr. discriminate.
Qed.

(* ---------------------------------------------------------------------------------------------- *)
(* pop_all                                                                                         *)

Lemma pop_all_spec ps lc0 : (forall p, In p ps -> p <> []) ->
  exists lc, pop_all ps lc0 = Ok (map (@removelast N) ps, lc) /\
    incl lc0 lc /\ (forall p, In p ps -> In (last p 0%N) lc) /\
    (forall x, In x lc -> In x lc0 \/ exists p, In p ps /\ last p 0%N = x) /\
    (NoDup lc0 -> NoDup lc).
Proof.
  revert lc0; induction ps as [|p ps IH]; intros lc0 Hne.
  - exists lc0. simpl. repeat split; auto using incl_refl. intros p [].
  - assert (Hp : p <> []) by (apply Hne; now left).
    destruct p as [|a p'] eqn:Ep; [congruence|]. rewrite <- Ep in *.
    set (lc1 := if memN (last p a) lc0 then lc0 else lc0 ++ [last p a]).
    destruct (IH lc1) as (lc & E & Hincl & Hall & Hfrom & Hnd).
    { intros q Hq. apply Hne. now right. }
    exists lc. split.
    + simpl. rewrite Ep. cbn [py_pop rbind]. rewrite <- Ep. fold lc1. rewrite E. reflexivity.
    + assert (Hl : last p a = last p 0%N) by (now apply last_indep).
      assert (H01 : incl lc0 lc1).
      { unfold lc1. destruct (memN (last p a) lc0); [apply incl_refl|]. now apply incl_appl, incl_refl. }
      assert (Hin1 : In (last p 0%N) lc1).
      { unfold lc1. rewrite <- Hl. destruct (memN (last p a) lc0) eqn:Em; [now apply memN_In|].
        apply in_or_app. right. now left. }
      split; [eapply incl_tran; eauto|]. split; [|split].
      * intros q [<-|Hq]; [now apply Hincl|now apply Hall].
      * intros x Hx. destruct (Hfrom x Hx) as [H1|(q & Hq & Eq)].
        -- unfold lc1 in H1. destruct (memN (last p a) lc0); [now left|].
           apply in_app_or in H1. destruct H1 as [H1|[<-|[]]]; [now left|].
           right. exists p. split; [now left|now rewrite Hl].
        -- right. exists q. split; [now right|assumption].
      * intros Hnd0. apply Hnd. unfold lc1. destruct (memN (last p a) lc0) eqn:Em; [assumption|].
        apply memN_false in Em. now apply NoDup_snoc.
Qed.

(* ---------------------------------------------------------------------------------------------- *)
(* the soundness invariant LC                                                                      *)

Definition cond (v : list N) (pre : list N) (c : N) (rest : list N) : Prop :=
  (forall p, In p pre -> better v c p) \/ (forall d, In d rest -> better v c d).

Definition LC (v : list N) (ol rl or_ : list N) : Prop :=
  (forall pre c post, ol = pre ++ c :: post -> cond v pre c (post ++ rl ++ or_)) /\
  (forall pre c post, or_ = pre ++ c :: post -> cond v post c (ol ++ rl ++ pre)).

Lemma cond_incl v pre pre' c rest rest' :
  incl pre' pre -> incl rest' rest -> cond v pre c rest -> cond v pre' c rest'.
Proof. intros H1 H2 [H|H]; [left|right]; intros q Hq; apply H; auto. Qed.

Lemma LC_add_left v ol rl rl' or_ x :
  (forall d, In d rl' -> In d rl) -> In x rl ->
  LC v ol rl or_ -> cond v ol x (rl' ++ or_) -> LC v (ol ++ [x]) rl' or_.
Proof.
  intros Hsub Hx [HL HR] Hc. split.
  - intros pre c post E. apply snoc_eq_split in E. destruct E as [(-> & -> & ->)|(post0 & -> & ->)].
    + exact Hc.
    + eapply cond_incl; [apply incl_refl| |apply (HL pre c post0 eq_refl)].
      intros d Hd. rewrite <- app_assoc in Hd. apply in_app_or in Hd. apply in_or_app.
      destruct Hd as [Hd|Hd]; [now left|right]. simpl in Hd. destruct Hd as [<-|Hd].
      * apply in_or_app. now left.
      * apply in_app_or in Hd. apply in_or_app. destruct Hd as [Hd|Hd]; [left; now apply Hsub|now right].
  - intros pre c post E. eapply cond_incl; [apply incl_refl| |apply (HR pre c post E)].
    intros d Hd. rewrite <- app_assoc in Hd. apply in_app_or in Hd. apply in_or_app.
    destruct Hd as [Hd|Hd]; [now left|right]. simpl in Hd. destruct Hd as [<-|Hd].
    + apply in_or_app. now left.
    + apply in_app_or in Hd. apply in_or_app. destruct Hd as [Hd|Hd]; [left; now apply Hsub|now right].
Qed.

Lemma LC_add_right v ol rl rl' or_ x :
  (forall d, In d rl' -> In d rl) -> In x rl ->
  LC v ol rl or_ -> cond v or_ x (ol ++ rl') -> LC v ol rl' (x :: or_).
Proof.
  intros Hsub Hx [HL HR] Hc. split.
  - intros pre c post E. eapply cond_incl; [apply incl_refl| |apply (HL pre c post E)].
    intros d Hd. apply in_app_or in Hd. apply in_or_app.
    destruct Hd as [Hd|Hd]; [now left|right]. apply in_app_or in Hd. apply in_or_app.
    destruct Hd as [Hd|Hd]; [left; now apply Hsub|]. destruct Hd as [<-|Hd]; [now left|now right].
  - intros pre c post E. apply cons_eq_split in E. destruct E as [(-> & -> & ->)|(pre0 & -> & ->)].
    + eapply cond_incl; [apply incl_refl| |exact Hc]. intros d Hd. rewrite app_nil_r in Hd. exact Hd.
    + eapply cond_incl; [apply incl_refl| |apply (HR pre0 c post eq_refl)].
      intros d Hd. apply in_app_or in Hd. apply in_or_app.
      destruct Hd as [Hd|Hd]; [now left|right]. apply in_app_or in Hd. apply in_or_app.
      destruct Hd as [Hd|Hd]; [left; now apply Hsub|]. destruct Hd as [<-|Hd]; [now left|now right].
Qed.

(* at the end (nothing left to place) LC is "no valley" *)
Lemma LC_valley v ol or_ : NoDup (ol ++ or_) -> LC v ol [] or_ -> valley (map (idxN v) (ol ++ or_)).
Proof.
  intros Hnd [HL HR] (pa & pb & pc & H3 & Hab & Hcb).
  apply sub3_map_inv in H3. destruct H3 as (a & b & c & (l1 & l2 & l3 & l4 & E) & <- & <- & <-).
  assert (Hb : In b (ol ++ or_)).
  { rewrite E. apply in_or_app. right. right. apply in_or_app. right. now left. }
  assert (E' : ol ++ or_ = (l1 ++ a :: l2) ++ b :: (l3 ++ c :: l4)).
  { rewrite E. rewrite <- app_assoc. reflexivity. }
  apply in_app_or in Hb. destruct Hb as [Hb|Hb].
  - apply in_split in Hb. destruct Hb as (pre & post & ->).
    assert (E2 : (pre ++ b :: post) ++ or_ = pre ++ b :: (post ++ or_)) by (now rewrite <- app_assoc).
    rewrite E2 in E', Hnd. destruct (NoDup_split_unique _ _ _ _ _ Hnd E') as [-> E3].
    destruct (HL _ b post eq_refl) as [H|H].
    + assert (Ha : In a (l1 ++ a :: l2)) by (apply in_or_app; right; now left).
      specialize (H a Ha). unfold better in H. lia.
    + assert (Hc : In c (post ++ [] ++ or_)).
      { simpl. rewrite E3. apply in_or_app. right. now left. }
      specialize (H c Hc). unfold better in H. lia.
  - apply in_split in Hb. destruct Hb as (pre & post & ->).
    assert (E2 : ol ++ pre ++ b :: post = (ol ++ pre) ++ b :: post) by (now rewrite <- app_assoc).
    rewrite E2 in E', Hnd. destruct (NoDup_split_unique _ _ _ _ _ Hnd E') as [E3 ->].
    destruct (HR pre b _ eq_refl) as [H|H].
    + assert (Hc : In c (l3 ++ c :: l4)) by (apply in_or_app; right; now left).
      specialize (H c Hc). unfold better in H. lia.
    + assert (Ha : In a (ol ++ [] ++ pre)).
      { simpl. rewrite E3. apply in_or_app. right. now left. }
      specialize (H a Ha). unfold better in H. lia.
Qed.

Lemma class_pos_strictify v a : class_pos (strictify v) a = idxN v a.
Proof.
  induction v as [|b v IH]; [reflexivity|].
  change (strictify (b :: v)) with ([b] :: strictify v). rewrite class_pos_cons. simpl.
  unfold memN. simpl. rewrite orb_false_r. destruct (N.eqb a b); [reflexivity|]. now rewrite IH.
Qed.

Lemma valley_sp_axis_weak v axis : valley (map (idxN v) axis) -> sp_axis_weak (strictify v) axis = true.
Proof.
  intros H. unfold sp_axis_weak. apply sp_scan_ok_correct.
  erewrite map_ext; [exact H|]. intros a. apply class_pos_strictify.
Qed.

Lemma sp_axis_weak_valley v axis : sp_axis_weak (strictify v) axis = true -> valley (map (idxN v) axis).
Proof.
  unfold sp_axis_weak. intros H. apply sp_scan_ok_correct in H.
  erewrite map_ext; [exact H|]. intros a. symmetry. apply class_pos_strictify.
Qed.

(* ---------------------------------------------------------------------------------------------- *)
(* the loop over the voters when there is a single last candidate                                  *)

Ltac ltb_cases :=
  repeat match goal with
  | |- context [?a <? ?b] =>
      let E := fresh "E" in destruct (a <? b) eqn:E; [apply Nat.ltb_lt in E|apply Nat.ltb_ge in E]; simpl
  end.

Section SingleLoop.
Variables x xi xj : N.

(* x is strictly between the two ends for v, the end on the right being the better one: x must go to the left *)
Definition forces_left (v : list N) : Prop := better v x xi /\ better v xj x.
Definition forces_right (v : list N) : Prop := better v x xj /\ better v xi x.

Definition voter_ok (v : list N) : Prop :=
  In x v /\ In xi v /\ In xj v /\ x <> xi /\ x <> xj /\ xi <> xj /\ (better v x xi \/ better v x xj).

Lemma single_loop_spec vs c0 : c0 <= 2 -> (forall v, In v vs -> voter_ok v) ->
  exists c contra, single_loop vs x (Some xi) (Some xj) c0 = Ok (c, contra) /\
    (contra = false ->
       c <= 2 /\ (c0 <> 0 -> c = c0) /\
       (forall v, In v vs -> (c = 2 -> better v x xj) /\ (c <> 2 -> better v x xi)) /\
       (c = 1 -> c0 = 1 \/ exists v, In v vs /\ forces_left v) /\
       (c = 2 -> c0 = 2 \/ exists v, In v vs /\ forces_right v) /\
       (c = 0 -> c0 = 0 /\ forall v, In v vs -> better v x xi /\ better v x xj)) /\
    (contra = true ->
       (c0 = 1 \/ exists v, In v vs /\ forces_left v) /\ (c0 = 2 \/ exists v, In v vs /\ forces_right v)).
Proof.
  revert c0; induction vs as [|v vs IH]; intros c0 Hc0 Hok.
  - exists c0, false. simpl. split; [reflexivity|]. split; [|discriminate]. intros _.
    split; [assumption|]. split; [auto|]. split; [intros w []|].
    split; [intros Hc; now left|]. split; [intros Hc; now left|]. intros Hc. split; [assumption|intros w []].
  - destruct (Hok v (or_introl eq_refl)) as (Hx & Hxi & Hxj & N1 & N2 & N3 & Hab).
    assert (Hok' : forall w, In w vs -> voter_ok w) by (intros w Hw; apply Hok; now right).
    assert (D1 : idxN v x <> idxN v xi) by (intros E; apply N1; eapply idxN_inj; eauto).
    assert (D2 : idxN v x <> idxN v xj) by (intros E; apply N2; eapply idxN_inj; eauto).
    assert (D3 : idxN v xi <> idxN v xj) by (intros E; apply N3; eapply idxN_inj; eauto).
    unfold better in Hab.
    cbn [single_loop py_index_opt]. rewrite (py_index_ok v x Hx), (py_index_ok v xi Hxi), (py_index_ok v xj Hxj).
    cbn [rbind].
    destruct ((idxN v x <? idxN v xi) && (idxN v xj <? idxN v x)) eqn:B1.
    + apply andb_true_iff in B1. destruct B1 as [B1 B1']. apply Nat.ltb_lt in B1, B1'.
      assert (Hfl : forces_left v) by (split; assumption).
      destruct (c0 =? 2) eqn:Ec.
      * apply Nat.eqb_eq in Ec. exists c0, true. split; [reflexivity|]. split; [discriminate|].
        intros _. split; [right; exists v; split; [now left|assumption]|now left].
      * apply Nat.eqb_neq in Ec. destruct (IH 1) as (c & contra & E & Hf & Ht); [lia|assumption|].
        exists c, contra. split; [exact E|]. split.
        -- intros Hcf. destruct (Hf Hcf) as (H1 & H2 & H3 & H4 & H5 & H6).
           assert (c = 1) by (apply H2; lia). subst c.
           split; [lia|]. split; [intros; lia|]. split; [|split; [|split; [intros; lia|intros; lia]]].
           ++ intros w [<-|Hw]; [split; [intros; lia|intros; exact B1]|apply (H3 w Hw)].
           ++ intros _. right. exists v. split; [now left|assumption].
        -- intros Hct. destruct (Ht Hct) as [H1 H2]. split.
           ++ right. exists v. split; [now left|assumption].
           ++ destruct H2 as [H2|(w & Hw & H2)]; [lia|]. right. exists w. split; [now right|assumption].
    + destruct ((idxN v x <? idxN v xj) && (idxN v xi <? idxN v x)) eqn:B2.
      * apply andb_true_iff in B2. destruct B2 as [B2 B2']. apply Nat.ltb_lt in B2, B2'.
        assert (Hfr : forces_right v) by (split; assumption).
        destruct (c0 =? 1) eqn:Ec.
        -- apply Nat.eqb_eq in Ec. exists c0, true. split; [reflexivity|]. split; [discriminate|].
           intros _. split; [now left|right; exists v; split; [now left|assumption]].
        -- apply Nat.eqb_neq in Ec. destruct (IH 2) as (c & contra & E & Hf & Ht); [lia|assumption|].
           exists c, contra. split; [exact E|]. split.
           ++ intros Hcf. destruct (Hf Hcf) as (H1 & H2 & H3 & H4 & H5 & H6).
              assert (c = 2) by (apply H2; lia). subst c.
              split; [lia|]. split; [intros; lia|]. split; [|split; [intros; lia|split; [|intros; lia]]].
              ** intros w [<-|Hw]; [split; [intros; exact B2|intros; lia]|apply (H3 w Hw)].
              ** intros _. right. exists v. split; [now left|assumption].
           ++ intros Hct. destruct (Ht Hct) as [H1 H2]. split.
              ** destruct H1 as [H1|(w & Hw & H1)]; [lia|]. right. exists w. split; [now right|assumption].
              ** right. exists v. split; [now left|assumption].
      * destruct ((idxN v x <? idxN v xi) && (idxN v x <? idxN v xj)) eqn:B3.
        -- apply andb_true_iff in B3. destruct B3 as [B3 B3']. apply Nat.ltb_lt in B3, B3'.
           destruct (IH c0) as (c & contra & E & Hf & Ht); [lia|assumption|].
           exists c, contra. split; [exact E|]. split.
           ++ intros Hcf. destruct (Hf Hcf) as (H1 & H2 & H3 & H4 & H5 & H6).
              split; [assumption|]. split; [assumption|]. split; [|split; [|split]].
              ** intros w [<-|Hw]; [split; intros; assumption|apply (H3 w Hw)].
              ** intros Hc. destruct (H4 Hc) as [?|(w & Hw & ?)]; [now left|right; exists w; split; [now right|assumption]].
              ** intros Hc. destruct (H5 Hc) as [?|(w & Hw & ?)]; [now left|right; exists w; split; [now right|assumption]].
              ** intros Hc. destruct (H6 Hc) as [Hc0z Hall]. split; [assumption|].
                 intros w [<-|Hw]; [split; assumption|now apply Hall].
           ++ intros Hct. destruct (Ht Hct) as [H1 H2]. split.
              ** destruct H1 as [?|(w & Hw & ?)]; [now left|right; exists w; split; [now right|assumption]].
              ** destruct H2 as [?|(w & Hw & ?)]; [now left|right; exists w; split; [now right|assumption]].
        -- exfalso. apply andb_false_iff in B1, B2, B3.
           repeat match goal with H : _ \/ _ |- _ => destruct H end;
           repeat match goal with H : (_ <? _) = false |- _ => apply Nat.ltb_ge in H end; lia.
Qed.
End SingleLoop.

(* ---------------------------------------------------------------------------------------------- *)
(* forced_position                                                                                 *)

Lemma fp_get_set_same d k s : fp_get (fp_set d k s) k = Some s.
Proof.
  induction d as [|[k' s'] d IH]; simpl; [now rewrite N.eqb_refl|].
  destruct (N.eqb k k') eqn:E; simpl; [now rewrite N.eqb_refl|]. now rewrite E.
Qed.

Lemma fp_get_set_other d k s k' : k <> k' -> fp_get (fp_set d k s) k' = fp_get d k'.
Proof.
  intros Hne. induction d as [|[k0 s0] d IH]; simpl.
  - destruct (N.eqb k' k) eqn:E; [apply N.eqb_eq in E; congruence|reflexivity].
  - destruct (N.eqb k k0) eqn:E; simpl.
    + apply N.eqb_eq in E. subst k0. destruct (N.eqb k' k) eqn:E'; [apply N.eqb_eq in E'; congruence|reflexivity].
    + destruct (N.eqb k' k0); [reflexivity|assumption].
Qed.

Definition fset (forced : list (N * side)) (a b : N) : Prop :=
  fp_get forced a = Some SLeft /\ fp_get forced b = Some SRight.
Definition funset (forced : list (N * side)) (x y : N) : Prop :=
  fp_get forced x = None /\ fp_get forced y = None.
Definition FI0 (forced : list (N * side)) (x y : N) : Prop :=
  funset forced x y \/ fset forced x y \/ fset forced y x.

Lemma fset_after a b forced : a <> b -> fset (fp_set (fp_set forced a SLeft) b SRight) a b.
Proof.
  intros Hne. split.
  - rewrite fp_get_set_other by congruence. apply fp_get_set_same.
  - apply fp_get_set_same.
Qed.

Lemma fset_after' a b forced : a <> b -> fset (fp_set (fp_set forced b SRight) a SLeft) a b.
Proof.
  intros Hne. split.
  - apply fp_get_set_same.
  - rewrite fp_get_set_other by congruence. apply fp_get_set_same.
Qed.

Lemma fset_excl forced a b : fset forced a b -> fset forced b a -> False.
Proof. intros [H1 _] [_ H2]. congruence. Qed.

(* ---------------------------------------------------------------------------------------------- *)
(* the loop over the voters when there are two last candidates                                     *)

Section PairLoop.
Variable all_prefs : list (list N).
Variables tal left right : list N.
Variables xi xj : N.

(* the body of the loop after "swap to put x in the lower position" *)
Definition pair_step (rec : N -> N -> list (N * side) -> result pair_out)
    (p : list N) (ix iy ixi ixj : nat) (x y : N) (forced : list (N * side)) : result pair_out :=
  if (ix <? ixj) && (iy <? ix) && (ixi <? iy) then
    let mid := filter (not_placed tal left right) p in
    let ax := tal ++ left ++ mid ++ right in
    Ok (PO_axis ax (sp_axis_profile (map strictify all_prefs) ax))
  else if (ix <? ixi) && (iy <? ix) && (ixj <? iy) then
    let mid := rev (filter (not_placed tal left right) p) in
    let ax := tal ++ left ++ mid ++ right in
    Ok (PO_axis ax (sp_axis_profile (map strictify all_prefs) ax))
  else if (ix <? ixi) && (ixj <? ix) && (iy <? ixj) then
    if is_side (fp_get forced x) SRight || is_side (fp_get forced y) SLeft then Ok PO_contra
    else rec x y (fp_set (fp_set forced x SLeft) y SRight)
  else if (ix <? ixj) && (ixi <? ix) && (iy <? ixi) then
    if is_side (fp_get forced x) SLeft || is_side (fp_get forced y) SRight then Ok PO_contra
    else rec x y (fp_set (fp_set forced x SRight) y SLeft)
  else if (ix <? ixi) && (ix <? ixj) then rec x y forced
  else Err ValueErr.

Lemma pair_loop_cons p rest x y forced :
  pair_loop all_prefs tal left right (Some xi) (Some xj) (p :: rest) x y forced =
  rbind (py_index p x) (fun ix0 => rbind (py_index p y) (fun iy0 =>
  rbind (py_index p xi) (fun ixi => rbind (py_index p xj) (fun ixj =>
  if ix0 <? iy0
  then pair_step (pair_loop all_prefs tal left right (Some xi) (Some xj) rest) p iy0 ix0 ixi ixj y x forced
  else pair_step (pair_loop all_prefs tal left right (Some xi) (Some xj) rest) p ix0 iy0 ixi ixj x y forced)))).
Proof.
  cbn [pair_loop py_index_opt]. destruct (py_index p x) as [ix0|]; [|reflexivity].
  destruct (py_index p y) as [iy0|]; [|reflexivity]. destruct (py_index p xi) as [ixi|]; [|reflexivity].
  destruct (py_index p xj) as [ixj|]; [|reflexivity]. cbn [rbind]. destruct (ix0 <? iy0); reflexivity.
Qed.

(* a placed left, b placed right is compatible with v *)
Definition good (v : list N) (a b : N) : Prop := better v a xi /\ better v b xj.
(* v requires a on the left and b on the right (cases 2.(c)) *)
Definition reqc (v : list N) (a b : N) : Prop := better v a xi /\ better v xj a /\ better v b xj.
Definition reqci (v : list N) (a b : N) : Prop := better v b xj /\ better v xi b /\ better v a xi.
Definition req (v : list N) (a b : N) : Prop := reqc v a b \/ reqci v a b.
(* cases 2.(d): z the lower, w the upper of the two last candidates *)
Definition drev (v : list N) (z w : N) : Prop := better v z xj /\ better v w z /\ better v xi w.
Definition dfwd (v : list N) (z w : N) : Prop := better v z xi /\ better v w z /\ better v xj w.

Definition pvoter_ok (x y : N) (v : list N) : Prop :=
  In x v /\ In y v /\ In xi v /\ In xj v /\
  x <> xi /\ x <> xj /\ y <> xi /\ y <> xj /\ xi <> xj /\
  (better v x xi \/ better v x xj) /\ (better v y xi \/ better v y xj).

Definition is_perm2 (a b x y : N) : Prop := (a = x /\ b = y) \/ (a = y /\ b = x).

Definition mid_of (v : list N) : list N := filter (not_placed tal left right) v.

Definition pair_spec (Q : N -> N -> Prop) (vs : list (list N)) (x y : N) (forced : list (N * side))
                     (out : pair_out) : Prop :=
  match out with
  | PO_cont x' y' forced' =>
      is_perm2 x' y' x y /\ FI0 forced' x y /\
      (forall a b, is_perm2 a b x y -> fset forced a b -> fset forced' a b) /\
      (funset forced' x y -> forall v, In v vs -> good v x y /\ good v y x) /\
      (forall a b, is_perm2 a b x y -> fset forced' a b -> forall v, In v vs -> good v a b) /\
      (forall a b, is_perm2 a b x y -> fset forced' a b -> Q a b \/ exists v, In v vs /\ req v a b)
  | PO_contra =>
      exists a b, is_perm2 a b x y /\ (Q a b \/ exists v, In v vs /\ req v a b) /\ (exists v, In v vs /\ req v b a)
  | PO_axis ax ok =>
      ok = sp_axis_profile (map strictify all_prefs) ax /\
      exists v z w, In v vs /\ is_perm2 z w x y /\
        ((drev v z w /\ ax = tal ++ left ++ mid_of v ++ right) \/
         (dfwd v z w /\ ax = tal ++ left ++ rev (mid_of v) ++ right))
  end.

Lemma is_perm2_sym a b x y : is_perm2 a b x y -> is_perm2 a b y x.
Proof. unfold is_perm2. tauto. Qed.

Lemma FI0_sym forced x y : FI0 forced x y -> FI0 forced y x.
Proof. unfold FI0, funset. tauto. Qed.

Lemma pair_spec_sym Q vs x y forced out : pair_spec Q vs x y forced out -> pair_spec Q vs y x forced out.
Proof.
  destruct out as [x' y' forced'| |ax ok]; simpl.
  - intros (H1 & H2 & H3 & H4 & H5 & H6). split; [now apply is_perm2_sym|]. split; [now apply FI0_sym|].
    split; [intros a b Hp; apply H3; now apply is_perm2_sym|]. split.
    + intros [U1 U2] v Hv. destruct (H4 (conj U2 U1) v Hv). tauto.
    + split; intros a b Hp; [apply H5|apply H6]; now apply is_perm2_sym.
  - intros (a & b & Hp & H). exists a, b. split; [now apply is_perm2_sym|assumption].
  - intros (H1 & v & z & w & Hv & Hp & H). split; [assumption|]. exists v, z, w.
    split; [assumption|]. split; [now apply is_perm2_sym|assumption].
Qed.

Lemma is_side_left o : is_side o SLeft = true <-> o = Some SLeft.
Proof. destruct o as [[|]|]; simpl; split; congruence. Qed.
Lemma is_side_right o : is_side o SRight = true <-> o = Some SRight.
Proof. destruct o as [[|]|]; simpl; split; congruence. Qed.

Lemma fset_perm_unique forced a b a' b' x y : x <> y ->
  is_perm2 a b x y -> is_perm2 a' b' x y -> fset forced a b -> fset forced a' b' -> a = a' /\ b = b'.
Proof.
  intros Hne [[-> ->]|[-> ->]] [[-> ->]|[-> ->]] F1 F2; auto; exfalso; eapply fset_excl; eauto.
Qed.

(* recording "a0 left, b0 right" in forced_position (cases 2.(c)) *)
Lemma forced_step forced forced1 a0 b0 z w :
  a0 <> b0 -> is_perm2 a0 b0 z w -> FI0 forced z w ->
  fset forced1 a0 b0 -> (forall k, k <> a0 -> k <> b0 -> fp_get forced1 k = fp_get forced k) ->
  (is_side (fp_get forced a0) SRight || is_side (fp_get forced b0) SLeft = true -> fset forced b0 a0) /\
  (is_side (fp_get forced a0) SRight || is_side (fp_get forced b0) SLeft = false ->
     FI0 forced1 z w /\ forall a b, is_perm2 a b z w -> fset forced a b -> fset forced1 a b).
Proof.
  intros Hne Hp HFI F1 Hoth. split.
  - intros Ec. apply orb_true_iff in Ec.
    assert (HFI' : funset forced a0 b0 \/ fset forced a0 b0 \/ fset forced b0 a0).
    { destruct Hp as [[-> ->]|[-> ->]]; [exact HFI|]. unfold FI0, funset in *. tauto. }
    destruct HFI' as [[U1 U2]|[[G1 G2]|F]]; [| |exact F].
    + rewrite U1, U2 in Ec. simpl in Ec. destruct Ec; discriminate.
    + rewrite G1, G2 in Ec. simpl in Ec. destruct Ec; discriminate.
  - intros Ec. apply orb_false_iff in Ec. destruct Ec as [Ec1 Ec2]. split.
    + destruct Hp as [[-> ->]|[-> ->]]; unfold FI0; tauto.
    + intros a b Hab [Ga Gb].
      assert (Hab' : is_perm2 a b a0 b0).
      { destruct Hp as [[-> ->]|[-> ->]]; [exact Hab|]. unfold is_perm2 in *. tauto. }
      destruct Hab' as [[-> ->]|[-> ->]]; [exact F1|].
      rewrite Ga in Ec2. discriminate.
Qed.

Lemma pair_step_spec (Q : N -> N -> Prop) rec v vs z w forced :
  z <> w -> pvoter_ok z w v -> idxN v w < idxN v z -> FI0 forced z w ->
  (forall a b, is_perm2 a b z w -> fset forced a b -> Q a b) ->
  (forall forced1 (Q1 : N -> N -> Prop), FI0 forced1 z w ->
     (forall a b, is_perm2 a b z w -> fset forced1 a b -> Q1 a b) ->
     exists out, rec z w forced1 = Ok out /\ pair_spec Q1 vs z w forced1 out) ->
  exists out, pair_step rec v (idxN v z) (idxN v w) (idxN v xi) (idxN v xj) z w forced = Ok out /\
              pair_spec Q (v :: vs) z w forced out.
Proof.
  intros Hzw (Hz & Hw & Hxi & Hxj & N1 & N2 & N3 & N4 & N5 & Hbz & Hbw) Hlow HFI HQ Hrec.
  assert (D1 : idxN v z <> idxN v xi) by (intros E; apply N1; eapply idxN_inj; eauto).
  assert (D2 : idxN v z <> idxN v xj) by (intros E; apply N2; eapply idxN_inj; eauto).
  assert (D3 : idxN v w <> idxN v xi) by (intros E; apply N3; eapply idxN_inj; eauto).
  assert (D4 : idxN v w <> idxN v xj) by (intros E; apply N4; eapply idxN_inj; eauto).
  assert (D5 : idxN v xi <> idxN v xj) by (intros E; apply N5; eapply idxN_inj; eauto).
  unfold better in Hbz, Hbw. unfold pair_step.
  (* what happens when v requires (a0 left, b0 right) and the loop goes on with forced1 *)
  assert (Hgo : forall a0 b0 forced1, is_perm2 a0 b0 z w -> req v a0 b0 -> good v a0 b0 ->
            fset forced1 a0 b0 -> FI0 forced1 z w ->
            (forall a b, is_perm2 a b z w -> fset forced a b -> fset forced1 a b) ->
            exists out, rec z w forced1 = Ok out /\ pair_spec Q (v :: vs) z w forced out).
  { intros a0 b0 forced1 Hp Hreq Hgood F1 HFI1 Hmono.
    destruct (Hrec forced1 (fun a b => Q a b \/ req v a b) HFI1) as (out & Eo & Hs).
    { intros a b Hab Fab. destruct (fset_perm_unique forced1 a b a0 b0 z w Hzw Hab Hp Fab F1) as [-> ->].
      now right. }
    exists out. split; [exact Eo|]. destruct out as [x' y' forced'| |ax ok]; simpl in *.
    - destruct Hs as (H1 & H2 & H3 & H4 & H5 & H6). split; [assumption|]. split; [assumption|].
      split; [intros a b Hab Fab; apply H3; auto|]. split; [|split].
      + intros [U1 U2]. exfalso. destruct (H3 a0 b0 Hp F1) as [G1 G2].
        destruct Hp as [[-> ->]|[-> ->]]; congruence.
      + intros a b Hab Fab u [<-|Hu]; [|now apply (H5 a b Hab Fab)].
        destruct (fset_perm_unique forced' a b a0 b0 z w Hzw Hab Hp Fab (H3 a0 b0 Hp F1)) as [-> ->].
        exact Hgood.
      + intros a b Hab Fab. destruct (H6 a b Hab Fab) as [[HQ'|Hr]|(u & Hu & Hr)].
        * now left.
        * right. exists v. split; [now left|assumption].
        * right. exists u. split; [now right|assumption].
    - destruct Hs as (a & b & Hab & H1 & (u & Hu & H2)). exists a, b. split; [assumption|]. split.
      + destruct H1 as [[HQ'|Hr]|(u' & Hu' & Hr)].
        * now left.
        * right. exists v. split; [now left|assumption].
        * right. exists u'. split; [now right|assumption].
      + exists u. split; [now right|assumption].
    - destruct Hs as (H1 & u & z' & w' & Hu & Hp' & H2). split; [assumption|].
      exists u, z', w'. split; [now right|]. split; assumption. }
  destruct ((idxN v z <? idxN v xj) && (idxN v w <? idxN v z) && (idxN v xi <? idxN v w)) eqn:B1.
  { apply andb_true_iff in B1. destruct B1 as [B1 B1c]. apply andb_true_iff in B1. destruct B1 as [B1a B1b].
    apply Nat.ltb_lt in B1a, B1b, B1c.
    eexists. split; [reflexivity|]. split; [reflexivity|].
    exists v, z, w. split; [now left|]. split; [left; auto|]. left. split; [|reflexivity].
    repeat split; assumption. }
  destruct ((idxN v z <? idxN v xi) && (idxN v w <? idxN v z) && (idxN v xj <? idxN v w)) eqn:B2.
  { apply andb_true_iff in B2. destruct B2 as [B2 B2c]. apply andb_true_iff in B2. destruct B2 as [B2a B2b].
    apply Nat.ltb_lt in B2a, B2b, B2c.
    eexists. split; [reflexivity|]. split; [reflexivity|].
    exists v, z, w. split; [now left|]. split; [left; auto|]. right. split; [|reflexivity].
    repeat split; assumption. }
  destruct ((idxN v z <? idxN v xi) && (idxN v xj <? idxN v z) && (idxN v w <? idxN v xj)) eqn:B3.
  { (* case 2.(c): z left, w right *)
    apply andb_true_iff in B3. destruct B3 as [B3 B3c]. apply andb_true_iff in B3. destruct B3 as [B3a B3b].
    apply Nat.ltb_lt in B3a, B3b, B3c.
    assert (Hreq : req v z w) by (left; repeat split; assumption).
    assert (Hgood : good v z w) by (split; assumption).
    assert (Hp : is_perm2 z w z w) by (left; auto).
    set (forced1 := fp_set (fp_set forced z SLeft) w SRight).
    assert (F1 : fset forced1 z w) by (now apply fset_after).
    assert (Hoth : forall k, k <> z -> k <> w -> fp_get forced1 k = fp_get forced k).
    { intros k K1 K2. unfold forced1. rewrite !fp_get_set_other by congruence. reflexivity. }
    destruct (forced_step forced forced1 z w z w Hzw Hp HFI F1 Hoth) as [Ht Hf].
    destruct (is_side (fp_get forced z) SRight || is_side (fp_get forced w) SLeft) eqn:Ec.
    - eexists. split; [reflexivity|]. exists w, z. split; [right; auto|]. split.
      + left. apply HQ; [right; auto|]. now apply Ht.
      + exists v. split; [now left|assumption].
    - destruct (Hf eq_refl) as [HFI1 Hmono]. now apply (Hgo z w forced1). }
  destruct ((idxN v z <? idxN v xj) && (idxN v xi <? idxN v z) && (idxN v w <? idxN v xi)) eqn:B4.
  { (* case 2.(c) inverse: w left, z right *)
    apply andb_true_iff in B4. destruct B4 as [B4 B4c]. apply andb_true_iff in B4. destruct B4 as [B4a B4b].
    apply Nat.ltb_lt in B4a, B4b, B4c.
    assert (Hreq : req v w z) by (right; repeat split; assumption).
    assert (Hgood : good v w z) by (split; assumption).
    assert (Hp : is_perm2 w z z w) by (right; auto).
    set (forced1 := fp_set (fp_set forced z SRight) w SLeft).
    assert (F1 : fset forced1 w z) by (apply fset_after'; congruence).
    assert (Hoth : forall k, k <> w -> k <> z -> fp_get forced1 k = fp_get forced k).
    { intros k K1 K2. unfold forced1. rewrite !fp_get_set_other by congruence. reflexivity. }
    assert (Hwz : w <> z) by congruence.
    destruct (forced_step forced forced1 w z z w Hwz Hp HFI F1 Hoth) as [Ht Hf].
    rewrite orb_comm.
    destruct (is_side (fp_get forced w) SRight || is_side (fp_get forced z) SLeft) eqn:Ec.
    - eexists. split; [reflexivity|]. exists z, w. split; [left; auto|]. split.
      + left. apply HQ; [left; auto|]. now apply Ht.
      + exists v. split; [now left|assumption].
    - destruct (Hf eq_refl) as [HFI1 Hmono]. now apply (Hgo w z forced1). }
  destruct ((idxN v z <? idxN v xi) && (idxN v z <? idxN v xj)) eqn:B5.
  { (* case 2.(b) *)
    apply andb_true_iff in B5. destruct B5 as [B5a B5b]. apply Nat.ltb_lt in B5a, B5b.
    assert (G1 : good v z w) by (split; unfold better; lia).
    assert (G2 : good v w z) by (split; unfold better; lia).
    destruct (Hrec forced Q HFI HQ) as (out & Eo & Hs).
    exists out. split; [exact Eo|]. destruct out as [x' y' forced'| |ax ok]; simpl in *.
    - destruct Hs as (H1 & H2 & H3 & H4 & H5 & H6). split; [assumption|]. split; [assumption|].
      split; [assumption|]. split; [|split].
      + intros U u [<-|Hu]; [split; assumption|now apply H4].
      + intros a b Hab Fab u [<-|Hu]; [|now apply (H5 a b Hab Fab)].
        destruct Hab as [[-> ->]|[-> ->]]; assumption.
      + intros a b Hab Fab. destruct (H6 a b Hab Fab) as [HQ'|(u & Hu & Hr)]; [now left|].
        right. exists u. split; [now right|assumption].
    - destruct Hs as (a & b & Hab & H1 & (u & Hu & H2)). exists a, b. split; [assumption|]. split.
      + destruct H1 as [HQ'|(u' & Hu' & Hr)]; [now left|]. right. exists u'. split; [now right|assumption].
      + exists u. split; [now right|assumption].
    - destruct Hs as (H1 & u & z' & w' & Hu & Hp' & H2). split; [assumption|].
      exists u, z', w'. split; [now right|]. split; assumption. }
  exfalso. apply andb_false_iff in B1, B2, B3, B4, B5.
  repeat match goal with H : _ \/ _ |- _ => destruct H end;
  repeat match goal with H : (_ && _) = false |- _ => apply andb_false_iff in H; destruct H end;
  repeat match goal with H : (_ <? _) = false |- _ => apply Nat.ltb_ge in H end; lia.
Qed.

Lemma pair_loop_spec vs : forall (Q : N -> N -> Prop) x y forced,
  x <> y -> (forall v, In v vs -> pvoter_ok x y v) -> FI0 forced x y ->
  (forall a b, is_perm2 a b x y -> fset forced a b -> Q a b) ->
  exists out, pair_loop all_prefs tal left right (Some xi) (Some xj) vs x y forced = Ok out /\
              pair_spec Q vs x y forced out.
Proof.
  induction vs as [|v vs IH]; intros Q x y forced Hxy Hok HFI HQ.
  - exists (PO_cont x y forced). split; [reflexivity|]. simpl.
    split; [left; auto|]. split; [assumption|]. split; [auto|]. split; [intros _ v []|].
    split; [intros a b _ _ v []|]. intros a b Hab Fab. left. now apply HQ.
  - destruct (Hok v (or_introl eq_refl)) as (Hx & Hy & Hxi & Hxj & N1 & N2 & N3 & N4 & N5 & Hbx & Hby).
    rewrite pair_loop_cons.
    rewrite (py_index_ok v x Hx), (py_index_ok v y Hy), (py_index_ok v xi Hxi), (py_index_ok v xj Hxj).
    cbn [rbind].
    assert (Dxy : idxN v x <> idxN v y) by (intros E; apply Hxy; eapply idxN_inj; eauto).
    destruct (idxN v x <? idxN v y) eqn:Esw.
    + apply Nat.ltb_lt in Esw.
      destruct (pair_step_spec Q (pair_loop all_prefs tal left right (Some xi) (Some xj) vs) v vs y x forced)
        as (out & Eo & Hs); auto.
      * repeat split; auto.
      * now apply FI0_sym.
      * intros a b Hab. apply HQ. now apply is_perm2_sym.
      * intros forced1 Q1 HFI1 HQ1. apply IH; auto.
        -- intros u Hu. destruct (Hok u (or_intror Hu)) as (A1 & A2 & A3 & A4 & A5 & A6 & A7 & A8 & A9 & A10 & A11).
           repeat split; auto.
      * exists out. split; [exact Eo|]. apply pair_spec_sym. exact Hs.
    + apply Nat.ltb_ge in Esw.
      destruct (pair_step_spec Q (pair_loop all_prefs tal left right (Some xi) (Some xj) vs) v vs x y forced)
        as (out & Eo & Hs); auto.
      * repeat split; auto.
      * lia.
      * intros forced1 Q1 HFI1 HQ1. apply IH; auto.
        intros u Hu. apply Hok. now right.
      * exists out. split; [exact Eo|exact Hs].
Qed.
End PairLoop.

(* ---------------------------------------------------------------------------------------------- *)
(* single-peakedness of one vote on an axis, in the "no valley" form used for completeness          *)

Definition vf (v : list N) (A : list N) : Prop :=
  forall l1 b l2, A = l1 ++ b :: l2 -> forall a c, In a l1 -> In c l2 -> ~ (better v a b /\ better v c b).

Lemma vf_valley v A : vf v A <-> valley (map (idxN v) A).
Proof.
  split.
  - intros H (pa & pb & pc & H3 & Hab & Hcb).
    apply sub3_map_inv in H3. destruct H3 as (a & b & c & (l1 & l2 & l3 & l4 & E) & <- & <- & <-).
    apply (H (l1 ++ a :: l2) b (l3 ++ c :: l4)) with (a := a) (c := c).
    + rewrite E. now rewrite <- app_assoc.
    + apply in_or_app. right. now left.
    + apply in_or_app. right. now left.
    + split; assumption.
  - intros H l1 b l2 E a c Ha Hc [H1 H2]. apply H.
    apply in_split in Ha. destruct Ha as (p1 & p2 & ->). apply in_split in Hc. destruct Hc as (q1 & q2 & ->).
    exists (idxN v a), (idxN v b), (idxN v c). split; [|split; assumption].
    apply sub3_map. exists p1, p2, q1, q2. rewrite E. now rewrite <- app_assoc.
Qed.

Lemma vf_block v l B r : vf v (l ++ B ++ r) -> vf v B.
Proof.
  intros H l1 b l2 E a c Ha Hc. apply (H (l ++ l1) b (l2 ++ r)).
  - rewrite E. rewrite <- !app_assoc. reflexivity.
  - apply in_or_app. now right.
  - apply in_or_app. now left.
Qed.

Lemma vf_rev v A : vf v A -> vf v (rev A).
Proof.
  intros H l1 b l2 E a c Ha Hc [H1 H2].
  assert (E' : A = rev l2 ++ b :: rev l1).
  { rewrite <- (rev_involutive A), E, rev_app_distr. simpl. now rewrite <- app_assoc. }
  apply (H _ _ _ E' c a); [now apply -> in_rev|now apply -> in_rev|auto].
Qed.

Lemma vf_worst_end v B z : NoDup B -> vf v B -> In z B -> (forall r, In r B -> r <> z -> better v r z) ->
  (exists B', B = z :: B') \/ (exists B', B = B' ++ [z]).
Proof.
  intros Hnd H Hz Hw. apply in_split in Hz. destruct Hz as (l1 & l2 & ->).
  destruct l1 as [|a l1]; [left; exists l2; reflexivity|].
  destruct l2 as [|c l2]; [right; exists (a :: l1); reflexivity|]. exfalso.
  apply (H (a :: l1) z (c :: l2) eq_refl a c); [now left|now left|].
  split; apply Hw.
  - now left.
  - intros ->. simpl in Hnd. inversion Hnd as [|? ? Hn _]; subst. apply Hn. apply in_or_app. right. now left.
  - apply in_or_app. right. right. now left.
  - intros ->. apply NoDup_app_r in Hnd. inversion Hnd as [|? ? Hn _]; subst. apply Hn. now left.
Qed.

Lemma split2 {T} (m r l1 l2 : list T) b : m ++ r = l1 ++ b :: l2 ->
  (exists post, m = l1 ++ b :: post /\ l2 = post ++ r) \/ (exists pre, r = pre ++ b :: l2 /\ l1 = m ++ pre).
Proof.
  revert l1; induction m as [|a m IH]; intros l1 E.
  - right. exists l1. auto.
  - destruct l1 as [|a' l1]; simpl in E.
    + injection E as E1 E2. subst a. left. exists m. auto.
    + injection E as E1 E2. subst a'. destruct (IH l1 E2) as [(post & -> & ->)|(pre & -> & ->)].
      * left. exists post. auto.
      * right. exists pre. auto.
Qed.

Lemma split3 {T} (l m r l1 l2 : list T) b : l ++ m ++ r = l1 ++ b :: l2 ->
  (exists post, l = l1 ++ b :: post /\ l2 = post ++ m ++ r) \/
  (exists pre post, m = pre ++ b :: post /\ l1 = l ++ pre /\ l2 = post ++ r) \/
  (exists pre, r = pre ++ b :: l2 /\ l1 = l ++ m ++ pre).
Proof.
  intros E. apply split2 in E. destruct E as [(post & -> & ->)|(pre & E & ->)].
  - left. exists post. auto.
  - apply split2 in E. destruct E as [(post & -> & ->)|(pre' & -> & ->)].
    + right. left. exists pre, post. auto.
    + right. right. exists pre'. auto.
Qed.

(* reversing a block whose elements are all above the outside keeps the vote single-peaked *)
Lemma vf_rev_block v ol B or_ : vf v (ol ++ B ++ or_) ->
  (forall b p, In b B -> In p (ol ++ or_) -> better v b p) -> vf v (ol ++ rev B ++ or_).
Proof.
  intros H Hab l1 b l2 E a c Ha Hc [H1 H2]. apply split3 in E.
  destruct E as [(post & -> & ->)|[(pre & post & Em & -> & ->)|(pre & -> & ->)]].
  - apply (H l1 b (post ++ B ++ or_)) with (a := a) (c := c); auto.
    + now rewrite <- app_assoc.
    + apply in_app_or in Hc. apply in_or_app. destruct Hc as [Hc|Hc]; [now left|right].
      apply in_app_or in Hc. apply in_or_app. destruct Hc as [Hc|Hc]; [left; now apply in_rev|now right].
  - assert (EB : B = rev post ++ b :: rev pre).
    { rewrite <- (rev_involutive B), Em, rev_app_distr. simpl. now rewrite <- app_assoc. }
    assert (HbB : In b B) by (rewrite EB; apply in_or_app; right; now left).
    assert (Ha' : In a pre).
    { apply in_app_or in Ha. destruct Ha as [Ha|Ha]; [|assumption]. exfalso.
      assert (Hb := Hab b a HbB (in_or_app _ _ _ (or_introl Ha))). unfold better in *. lia. }
    assert (Hc' : In c post).
    { apply in_app_or in Hc. destruct Hc as [Hc|Hc]; [assumption|]. exfalso.
      assert (Hb := Hab b c HbB (in_or_app _ _ _ (or_intror Hc))). unfold better in *. lia. }
    apply (H (ol ++ rev post) b (rev pre ++ or_)) with (a := c) (c := a).
    + rewrite EB. rewrite <- !app_assoc. reflexivity.
    + apply in_or_app. right. now apply -> in_rev.
    + apply in_or_app. left. now apply -> in_rev.
    + auto.
  - apply (H (ol ++ B ++ pre) b l2) with (a := a) (c := c); auto.
    + rewrite <- !app_assoc. reflexivity.
    + apply in_app_or in Ha. apply in_or_app. destruct Ha as [Ha|Ha]; [now left|right].
      apply in_app_or in Ha. apply in_or_app. destruct Ha as [Ha|Ha]; [left; now apply in_rev|now right].
Qed.

(* lists sorted by decreasing preference *)
Definition decr (v : list N) (B : list N) : Prop :=
  forall l1 b l2, B = l1 ++ b :: l2 -> forall c, In c l2 -> better v b c.

Lemma decr_tail v b B : decr v (b :: B) -> decr v B.
Proof. intros H l1 x l2 E c Hc. apply (H (b :: l1) x l2); [now rewrite E|assumption]. Qed.

Lemma decr_unique v B : forall B', decr v B -> decr v B' -> Permutation B B' -> B = B'.
Proof.
  induction B as [|b B IH]; intros B' H1 H2 Hp.
  - apply Permutation_nil in Hp. now subst.
  - destruct B' as [|b' B']; [apply Permutation_sym, Permutation_nil in Hp; discriminate|].
    assert (Eb : b = b').
    { assert (Hin : In b (b' :: B')) by (eapply Permutation_in; [exact Hp|now left]).
      assert (Hin' : In b' (b :: B)) by (eapply Permutation_in; [apply Permutation_sym; exact Hp|now left]).
      destruct Hin as [->|Hin]; [reflexivity|]. destruct Hin' as [->|Hin']; [reflexivity|].
      pose proof (H1 [] b B eq_refl b' Hin') as A1. pose proof (H2 [] b' B' eq_refl b Hin) as A2.
      unfold better in *. lia. }
    subst b'. f_equal. apply IH; [eapply decr_tail; eauto|eapply decr_tail; eauto|].
    eapply Permutation_cons_inv; eauto.
Qed.

Lemma filter_decr (f : N -> bool) v : NoDup v -> decr v (filter f v).
Proof.
  induction v as [|a v IH]; intros Hnd; [intros l1 b l2 E; destruct l1; discriminate|].
  inversion Hnd as [|? ? Hn Hnd']; subst.
  assert (Hshift : forall l1 b l2, filter f v = l1 ++ b :: l2 -> forall c, In c l2 -> better (a :: v) b c).
  { intros l1 b l2 E c Hc. pose proof (IH Hnd' l1 b l2 E c Hc) as Hb.
    assert (Hbv : In b v).
    { assert (H : In b (filter f v)) by (rewrite E; apply in_or_app; right; now left). apply filter_In in H. tauto. }
    assert (Hcv : In c v).
    { assert (H : In c (filter f v)) by (rewrite E; apply in_or_app; right; now right). apply filter_In in H. tauto. }
    unfold better in *. simpl.
    destruct (N.eqb b a) eqn:E1; [apply N.eqb_eq in E1; subst; contradiction|].
    destruct (N.eqb c a) eqn:E2; [apply N.eqb_eq in E2; subst; contradiction|]. lia. }
  simpl. destruct (f a) eqn:Fa; [|exact Hshift].
  intros l1 b l2 E c Hc. destruct l1 as [|a' l1]; simpl in E.
  - injection E as <- <-. assert (Hcv : In c v) by (apply filter_In in Hc; tauto).
    unfold better. simpl. rewrite N.eqb_refl.
    destruct (N.eqb c a) eqn:E2; [apply N.eqb_eq in E2; subst; contradiction|]. lia.
  - injection E as <- E. now apply (Hshift l1 b l2 E).
Qed.

(* ---------------------------------------------------------------------------------------------- *)
(* the run on a well-formed strict profile                                                         *)

Lemma upd1 p x : NoDup p -> p <> [] -> last p 0%N = x ->
  py_remove_if x (removelast p) = filter (fun a => negb (memN a [x])) p.
Proof.
  intros Hnd Hne El. rewrite (removelast_filter p 0%N Hnd Hne), El.
  rewrite py_remove_if_filter by (now apply NoDup_filter). rewrite filter_filter.
  apply filter_ext. intros a. unfold memN. simpl. rewrite orb_false_r. destruct (N.eqb a x); reflexivity.
Qed.

Lemma upd2 p x y : NoDup p -> p <> [] -> (last p 0%N = x \/ last p 0%N = y) ->
  py_remove_if y (py_remove_if x (removelast p)) = filter (fun a => negb (memN a [x; y])) p.
Proof.
  intros Hnd Hne El. rewrite (removelast_filter p 0%N Hnd Hne).
  rewrite (py_remove_if_filter x) by (now apply NoDup_filter).
  rewrite (py_remove_if_filter y) by (now apply NoDup_filter, NoDup_filter). rewrite !filter_filter.
  apply filter_ext. intros a. unfold memN. simpl. rewrite orb_false_r.
  destruct El as [-> | ->]; destruct (N.eqb a x), (N.eqb a y); reflexivity.
Qed.

Section Main.
Variable alts : list N.
Variable prefs : list (list N).
Hypothesis Hnd : NoDup alts.
Hypothesis Hwf : forall v, In v prefs -> Permutation alts v.
Hypothesis Hne : prefs <> [].

Lemma vote_nodup v : In v prefs -> NoDup v.
Proof. intros Hv. eapply Permutation_NoDup; [apply Hwf; exact Hv|exact Hnd]. Qed.
Lemma vote_in v a : In v prefs -> (In a v <-> In a alts).
Proof.
  intros Hv. split; apply Permutation_in; [apply Permutation_sym|]; now apply Hwf.
Qed.

Definition OL (st : elo_state) : list N := st_tal st ++ st_left st.
Definition placed (st : elo_state) : list N := OL st ++ st_right st.
Definition RlP (P : list N) : list N := filter (unplaced P) alts.
Definition Rl (st : elo_state) : list N := RlP (placed st).

Lemma RlP_In P a : In a (RlP P) <-> In a alts /\ ~ In a P.
Proof. unfold RlP. rewrite filter_In, unplaced_true. reflexivity. Qed.

Lemma vote_filter_length P v : In v prefs -> length (filter (unplaced P) v) = length (RlP P).
Proof. intros Hv. symmetry. apply Permutation_length. apply Permutation_filter. now apply Hwf. Qed.

Lemma vote_filter_nonempty P v : In v prefs -> RlP P <> [] -> filter (unplaced P) v <> [].
Proof.
  intros Hv Hr E. apply Hr. apply length_zero_iff_nil. rewrite <- (vote_filter_length P v Hv), E. reflexivity.
Qed.

Definition lastR (P : list N) (v : list N) : N := last (filter (unplaced P) v) 0%N.

Lemma lastR_props P v : In v prefs -> RlP P <> [] ->
  In (lastR P v) alts /\ ~ In (lastR P v) P /\
  forall r, In r alts -> ~ In r P -> r <> lastR P v -> better v r (lastR P v).
Proof.
  intros Hv Hr.
  destruct (filter_last_worst (unplaced P) v (lastR P v) 0%N (vote_nodup v Hv)
              (vote_filter_nonempty P v Hv Hr) eq_refl) as (H1 & H2 & H3).
  split; [now apply (vote_in v)|]. split; [now apply unplaced_true|].
  intros r Hra Hrp Hrn. apply H3; auto; [now apply (vote_in v)|now apply unplaced_true].
Qed.

(* geometry of the placed alternatives *)
Definition Geo (ol or_ : list N) : Prop :=
  NoDup (ol ++ or_) /\ incl (ol ++ or_) alts /\
  forall v, In v prefs -> LC v ol (RlP (ol ++ or_)) or_.

Lemma geo_add_left ol or_ x : Geo ol or_ -> In x alts -> ~ In x (ol ++ or_) ->
  (forall v, In v prefs -> cond v ol x (RlP ((ol ++ [x]) ++ or_) ++ or_)) -> Geo (ol ++ [x]) or_.
Proof.
  intros (G1 & G2 & G3) Hx Hnx Hc.
  assert (Hperm : Permutation ((ol ++ [x]) ++ or_) (x :: ol ++ or_)).
  { rewrite <- app_assoc. simpl. apply Permutation_sym, Permutation_middle. }
  split; [|split].
  - eapply Permutation_NoDup; [apply Permutation_sym; exact Hperm|]. now constructor.
  - intros a Ha. eapply Permutation_in in Ha; [|exact Hperm]. destruct Ha as [<-|Ha]; auto.
  - intros v Hv. apply (LC_add_left v ol (RlP (ol ++ or_))); auto.
    + intros d Hd. apply RlP_In in Hd. apply RlP_In. destruct Hd as [Hd1 Hd2]. split; [assumption|].
      intros H. apply Hd2. eapply Permutation_in; [apply Permutation_sym; exact Hperm|]. now right.
    + apply RlP_In. auto.
Qed.

Lemma geo_add_right ol or_ x : Geo ol or_ -> In x alts -> ~ In x (ol ++ or_) ->
  (forall v, In v prefs -> cond v or_ x (ol ++ RlP (ol ++ x :: or_))) -> Geo ol (x :: or_).
Proof.
  intros (G1 & G2 & G3) Hx Hnx Hc.
  assert (Hperm : Permutation (ol ++ x :: or_) (x :: ol ++ or_)).
  { apply Permutation_sym, Permutation_middle. }
  split; [|split].
  - eapply Permutation_NoDup; [apply Permutation_sym; exact Hperm|]. now constructor.
  - intros a Ha. eapply Permutation_in in Ha; [|exact Hperm]. destruct Ha as [<-|Ha]; auto.
  - intros v Hv. apply (LC_add_right v ol (RlP (ol ++ or_))); auto.
    + intros d Hd. apply RlP_In in Hd. apply RlP_In. destruct Hd as [Hd1 Hd2]. split; [assumption|].
      intros H. apply Hd2. eapply Permutation_in; [apply Permutation_sym; exact Hperm|]. now right.
    + apply RlP_In. auto.
Qed.

(* the working copies after a round that places the alternatives L *)
Lemma sp_update P P' L : (forall a, In a P' <-> In a P \/ In a L) ->
  map (filter (fun a => negb (memN a L))) (map (filter (unplaced P)) prefs) = map (filter (unplaced P')) prefs.
Proof.
  intros H. rewrite map_map. apply map_ext. intros v. rewrite filter_filter. apply filter_ext.
  intros a. apply eq_true_iff_eq. rewrite andb_true_iff, negb_true_iff, !unplaced_true, memN_false, H. tauto.
Qed.

Lemma RlP_shrink P P' x : In x alts -> ~ In x P -> In x P' -> incl P P' -> length (RlP P') < length (RlP P).
Proof.
  intros Hx Hnx Hx' Hincl. unfold RlP. apply (filter_length_lt _ _ alts x); auto.
  - now apply unplaced_true.
  - apply not_true_is_false. intros H. apply unplaced_true in H. contradiction.
  - intros a Ha. apply unplaced_true in Ha. apply unplaced_true. intros H. apply Ha. now apply Hincl.
Qed.

Record Core (st : elo_state) : Prop := {
  c_run : st_is_SP st = true /\ st_end_flag st = false /\ st_axis st = None;
  c_sp : st_prefs_SP st = map (filter (unplaced (placed st))) prefs;
  c_geo : Geo (OL st) (st_right st) }.

Record Ends (st : elo_state) : Prop := {
  e_ends : match st_xi st, st_xj st with
           | None, None => st_left st = [] /\ st_right st = []
           | Some xi, Some xj => (exists l', st_left st = l' ++ [xi]) /\ (exists r', st_right st = xj :: r')
           | _, _ => False
           end;
  e_N : forall xi xj, st_xi st = Some xi -> st_xj st = Some xj ->
        forall v, In v prefs -> forall r, In r (Rl st) -> better v r xi \/ better v r xj;
  e_T : st_xi st = None -> forall v, In v prefs -> forall t, In t (st_tal st) ->
        forall r, In r (Rl st) -> better v r t }.

(* comparing with the inner ends is enough: the rest of the side follows from LC *)
Lemma above_xi_above_left v ol rl or_ l' xi r : LC v ol rl or_ -> ol = l' ++ [xi] -> In r rl ->
  better v r xi -> forall p, In p ol -> better v r p.
Proof.
  intros [HL _] E Hr Hb p Hp. destruct (HL l' xi [] E) as [H|H].
  - subst ol. apply in_app_or in Hp. destruct Hp as [Hp|[<-|[]]]; [|assumption].
    specialize (H p Hp). unfold better in *. lia.
  - exfalso. assert (Hin : In r ([] ++ rl ++ or_)) by (simpl; apply in_or_app; now left).
    specialize (H r Hin). unfold better in *. lia.
Qed.

Lemma above_xj_above_right v ol rl or_ r' xj r : LC v ol rl or_ -> or_ = xj :: r' -> In r rl ->
  better v r xj -> forall p, In p or_ -> better v r p.
Proof.
  intros [_ HR] E Hr Hb p Hp. destruct (HR [] xj r' E) as [H|H].
  - subst or_. destruct Hp as [<-|Hp]; [assumption|]. specialize (H p Hp). unfold better in *. lia.
  - exfalso. assert (Hin : In r (ol ++ rl ++ [])).
    { apply in_or_app. right. apply in_or_app. now left. }
    specialize (H r Hin). unfold better in *. lia.
Qed.

Lemma pop_facts st : Core st -> Rl st <> [] ->
  exists lc, pop_all (st_prefs_SP st) [] = Ok (map (@removelast N) (st_prefs_SP st), lc) /\
    NoDup lc /\ (forall v, In v prefs -> In (lastR (placed st) v) lc) /\
    (forall x, In x lc -> exists v, In v prefs /\ lastR (placed st) v = x).
Proof.
  intros HC HR. rewrite (c_sp st HC).
  destruct (pop_all_spec (map (filter (unplaced (placed st))) prefs) []) as (lc & E & _ & Hall & Hfrom & Hnd').
  { intros p Hp. apply in_map_iff in Hp. destruct Hp as (v & <- & Hv). now apply vote_filter_nonempty. }
  exists lc. split; [exact E|]. split; [apply Hnd'; constructor|]. split.
  - intros v Hv. apply Hall. now apply in_map.
  - intros x Hx. destruct (Hfrom x Hx) as [[]|(p & Hp & El)].
    apply in_map_iff in Hp. destruct Hp as (v & <- & Hv). exists v. auto.
Qed.

Lemma ps2_single st x P' : Core st -> Rl st <> [] -> (forall v, In v prefs -> lastR (placed st) v = x) ->
  (forall a, In a P' <-> In a (placed st) \/ a = x) ->
  map (py_remove_if x) (map (@removelast N) (st_prefs_SP st)) = map (filter (unplaced P')) prefs.
Proof.
  intros HC HR Hl HP. rewrite <- (sp_update (placed st) P' [x]).
  - rewrite (c_sp st HC), !map_map. apply map_ext_in. intros v Hv.
    apply upd1; [apply NoDup_filter, vote_nodup; assumption|now apply vote_filter_nonempty|now apply Hl].
  - intros a. rewrite HP. simpl. intuition.
Qed.

Lemma ps2_pair st x y P' : Core st -> Rl st <> [] ->
  (forall v, In v prefs -> lastR (placed st) v = x \/ lastR (placed st) v = y) ->
  (forall a, In a P' <-> In a (placed st) \/ a = x \/ a = y) ->
  map (fun p => py_remove_if y (py_remove_if x p)) (map (@removelast N) (st_prefs_SP st))
  = map (filter (unplaced P')) prefs.
Proof.
  intros HC HR Hl HP. rewrite <- (sp_update (placed st) P' [x; y]).
  - rewrite (c_sp st HC), !map_map. apply map_ext_in. intros v Hv.
    apply upd2; [apply NoDup_filter, vote_nodup; assumption|now apply vote_filter_nonempty|now apply Hl].
  - intros a. rewrite HP. simpl. intuition.
Qed.

Lemma pair_place_spec st ps x y forced : x <> y -> FI0 forced x y ->
  exists a b, is_perm2 a b x y /\ (funset forced x y \/ fset forced a b) /\
    pair_place st ps x y forced =
    mkElo (st_is_SP st) (st_end_flag st) (st_axis st) (b :: st_right st) (st_left st ++ [a])
          (Some a) (Some b) (st_tal st) ps.
Proof.
  intros Hxy [[U1 U2]|[[F1 F2]|[F1 F2]]]; unfold pair_place.
  - exists x, y. split; [left; auto|]. split; [left; split; assumption|].
    rewrite U1, U2.
    assert (G : fset (fp_set (fp_set forced x SLeft) y SRight) x y) by (now apply fset_after).
    destruct G as [G1 G2]. rewrite G2, G1. reflexivity.
  - exists x, y. split; [left; auto|]. split; [right; split; assumption|].
    rewrite F1, F2, F1. reflexivity.
  - exists y, x. split; [right; auto|]. split; [right; split; assumption|].
    rewrite F2, F1, F2. reflexivity.
Qed.

Lemma placed_mid_perm tal left right v : In v prefs ->
  NoDup ((tal ++ left) ++ right) -> incl ((tal ++ left) ++ right) alts ->
  Permutation alts (tal ++ left ++ filter (not_placed tal left right) v ++ right).
Proof.
  intros Hv HndP Hincl.
  set (P := (tal ++ left) ++ right).
  assert (Enp : forall a, not_placed tal left right a = unplaced P a).
  { intros a. unfold not_placed, unplaced, P. rewrite !memN_app.
    destruct (memN a tal), (memN a left), (memN a right); reflexivity. }
  eapply perm_trans; [apply (Hwf v Hv)|].
  eapply perm_trans; [apply (filter_partition_perm (fun a => memN a P) v)|].
  assert (E1 : Permutation (filter (fun a => memN a P) v) P).
  { apply NoDup_Permutation; [apply NoDup_filter, vote_nodup; assumption|assumption|].
    intros a. rewrite filter_In, memN_In. split; [tauto|]. intros Ha. split; [|assumption].
    apply (vote_in v a Hv). now apply Hincl. }
  assert (E2 : filter (fun a => negb (memN a P)) v = filter (not_placed tal left right) v).
  { apply filter_ext. intros a. now rewrite Enp. }
  rewrite E2. eapply perm_trans; [apply Permutation_app_tail; exact E1|]. unfold P.
  rewrite <- !app_assoc. apply Permutation_app_head. apply Permutation_app_head. apply Permutation_app_comm.
Qed.

(* ---- completeness: the profile is single-peaked on some completion of the placed part ---- *)
Definition SPextL (ol rl or_ : list N) : Prop :=
  exists M, Permutation M rl /\ forall v, In v prefs -> vf v (ol ++ M ++ or_).

Lemma SPextL_mirror ol rl or_ : SPextL ol rl or_ -> SPextL (rev or_) rl (rev ol).
Proof.
  intros (M & HM & H). exists (rev M). split.
  - eapply perm_trans; [apply Permutation_sym, Permutation_rev|exact HM].
  - intros v Hv. specialize (H v Hv). apply vf_rev in H.
    rewrite !rev_app_distr in H. rewrite <- app_assoc in H. exact H.
Qed.

Lemma perm_remove_head (x : N) M' rl rl' : NoDup rl -> NoDup rl' -> Permutation (x :: M') rl ->
  (forall d, In d rl' <-> In d rl /\ d <> x) -> Permutation M' rl'.
Proof.
  intros N1 N2 HP Hrl'. assert (NM : NoDup (x :: M')) by (eapply Permutation_NoDup; [apply Permutation_sym; exact HP|exact N1]).
  inversion NM as [|? ? Hx NM']; subst. apply NoDup_Permutation; auto.
  intros d. rewrite Hrl'. split.
  - intros Hd. split; [eapply Permutation_in; [exact HP|now right]|]. intros ->. contradiction.
  - intros [Hd Hne']. eapply Permutation_in in Hd; [|apply Permutation_sym; exact HP].
    destruct Hd as [->|Hd]; [congruence|assumption].
Qed.

Lemma ext_left ol rl rl' or_ x : NoDup rl -> NoDup rl' -> SPextL ol rl or_ -> In x rl ->
  (forall v, In v prefs -> forall r, In r rl -> r <> x -> better v r x) ->
  (forall d, In d rl' <-> In d rl /\ d <> x) ->
  ((forall v, In v prefs -> forall b p, In b rl -> In p (ol ++ or_) -> better v b p) \/
   (exists v c, In v prefs /\ In c or_ /\ better v c x) \/ rl' = []) ->
  SPextL (ol ++ [x]) rl' or_.
Proof.
  intros N1 N2 (M & HM & H) Hx Hw Hrl' Alt.
  assert (NM : NoDup M) by (eapply Permutation_NoDup; [apply Permutation_sym; exact HM|exact N1]).
  assert (HxM : In x M) by (eapply Permutation_in; [apply Permutation_sym; exact HM|exact Hx]).
  assert (Hfirst : forall M', M = x :: M' -> SPextL (ol ++ [x]) rl' or_).
  { intros M' ->. exists M'. split; [apply (perm_remove_head x M' rl rl' N1 N2 HM Hrl')|].
    intros v Hv. specialize (H v Hv). rewrite <- app_assoc. exact H. }
  destruct prefs as [|v0 rest] eqn:Ep; [congruence|]. rewrite <- Ep in *.
  assert (Hv0 : In v0 prefs) by (rewrite Ep; now left).
  destruct (vf_worst_end v0 M x NM (vf_block v0 ol M or_ (H v0 Hv0)) HxM) as [(M' & E)|(M' & E)].
  { intros r Hr Hne'. apply Hw; auto. eapply Permutation_in; eauto. }
  - now apply (Hfirst M').
  - destruct M' as [|m M'']; [apply (Hfirst []); exact E|].
    destruct Alt as [Habove|[(v & c & Hv & Hc & Hb)|Hnil]].
    3:{ exfalso. assert (Hm : In m rl').
        { apply Hrl'. split; [eapply Permutation_in; [exact HM|rewrite E; now left]|].
          intros ->. rewrite E in NM. apply NoDup_app_disj with (x := x) in NM; [assumption|now left|now left]. }
        rewrite Hnil in Hm. contradiction. }
    + subst M. exists (rev (m :: M'')). split.
      * apply (perm_remove_head x _ rl rl' N1 N2); auto.
        eapply perm_trans; [|exact HM].
        eapply perm_trans; [apply perm_skip, Permutation_sym, Permutation_rev|apply Permutation_cons_append].
      * intros v Hv. specialize (H v Hv). apply vf_rev_block in H.
        -- rewrite rev_app_distr in H. simpl rev at 1 in H. simpl app in H. rewrite <- app_assoc. exact H.
        -- intros b p Hb Hp. apply (Habove v Hv); auto. eapply Permutation_in; eauto.
    + exfalso. subst M. specialize (H v Hv).
      apply (H (ol ++ m :: M'') x or_) with (a := m) (c := c).
      * rewrite <- !app_assoc. reflexivity.
      * apply in_or_app. right. now left.
      * exact Hc.
      * split; [|exact Hb]. apply Hw; auto.
        -- eapply Permutation_in; [exact HM|now left].
        -- intros ->. apply NoDup_app_disj with (x := x) in NM; [assumption|now left|now left].
Qed.

Lemma ext_right ol rl rl' or_ x : NoDup rl -> NoDup rl' -> SPextL ol rl or_ -> In x rl ->
  (forall v, In v prefs -> forall r, In r rl -> r <> x -> better v r x) ->
  (forall d, In d rl' <-> In d rl /\ d <> x) ->
  ((forall v, In v prefs -> forall b p, In b rl -> In p (ol ++ or_) -> better v b p) \/
   (exists v c, In v prefs /\ In c ol /\ better v c x) \/ rl' = []) ->
  SPextL ol rl' (x :: or_).
Proof.
  intros N1 N2 HS Hx Hw Hrl' Alt. apply SPextL_mirror in HS.
  assert (H : SPextL (rev or_ ++ [x]) rl' (rev ol)).
  { apply (ext_left _ rl); auto. destruct Alt as [Ha|[(v & c & Hv & Hc & Hb)|Hnil]].
    - left. intros v Hv b p Hb Hp. apply (Ha v Hv); auto. apply in_app_or in Hp. apply in_or_app.
      destruct Hp as [Hp|Hp]; [right|left]; now apply in_rev.
    - right. left. exists v, c. split; [assumption|]. split; [now apply -> in_rev|assumption].
    - right. now right. }
  apply SPextL_mirror in H. rewrite rev_involutive, rev_app_distr, rev_involutive in H. exact H.
Qed.

Definition at_end (M : list N) (e : N) : Prop := (exists M', M = e :: M') \/ (exists M', M = M' ++ [e]).

Lemma ext_at_end ol rl or_ M e : NoDup rl -> Permutation M rl -> (forall v, In v prefs -> vf v (ol ++ M ++ or_)) ->
  In e rl -> (exists v, In v prefs /\ forall r, In r rl -> r <> e -> better v r e) -> at_end M e.
Proof.
  intros N1 HM H He (v & Hv & Hw).
  assert (NM : NoDup M) by (eapply Permutation_NoDup; [apply Permutation_sym; exact HM|exact N1]).
  apply (vf_worst_end v M e NM (vf_block v ol M or_ (H v Hv))).
  - eapply Permutation_in; [apply Permutation_sym; exact HM|exact He].
  - intros r Hr Hne'. apply Hw; auto. eapply Permutation_in; eauto.
Qed.

Lemma ends_shape (M : list N) a b : a <> b -> at_end M a -> at_end M b ->
  (exists M'', M = a :: M'' ++ [b]) \/ (exists M'', M = b :: M'' ++ [a]).
Proof.
  intros Hab [(M1 & E1)|(M1 & E1)] [(M2 & E2)|(M2 & E2)].
  - rewrite E1 in E2. injection E2 as E2 _. congruence.
  - left. rewrite E1 in E2. destruct M2 as [|a' M2]; simpl in E2.
    + injection E2 as E2 _. congruence.
    + injection E2 as <- E2. exists M2. now rewrite E1, E2.
  - right. rewrite E2 in E1. destruct M1 as [|b' M1]; simpl in E1.
    + injection E1 as E1 _. congruence.
    + injection E1 as <- E1. exists M1. now rewrite E2, E1.
  - rewrite E1 in E2. apply app_inj_tail in E2. destruct E2 as [_ E2]. congruence.
Qed.

Definition forbids_ba (ol or_ : list N) (v : list N) (a b : N) : Prop :=
  (exists c, In c or_ /\ better v c a /\ better v b a) \/ (exists p, In p ol /\ better v p b /\ better v a b).

Lemma not_shape_ba ol or_ v a b M'' : vf v (ol ++ (b :: M'' ++ [a]) ++ or_) -> forbids_ba ol or_ v a b -> False.
Proof.
  intros H [(c & Hc & H1 & H2)|(p & Hp & H1 & H2)].
  - apply (H (ol ++ b :: M'') a or_) with (a := b) (c := c); auto.
    + rewrite <- !app_assoc. simpl. rewrite <- app_assoc. reflexivity.
    + apply in_or_app. right. now left.
  - apply (H ol b ((M'' ++ [a]) ++ or_)) with (a := p) (c := a); auto.
    apply in_or_app. left. apply in_or_app. right. now left.
Qed.

Lemma perm_remove_ends (a b : N) M'' rl rl' : NoDup rl -> NoDup rl' -> Permutation (a :: M'' ++ [b]) rl ->
  (forall d, In d rl' <-> In d rl /\ d <> a /\ d <> b) -> Permutation M'' rl'.
Proof.
  intros N1 N2 HP Hrl'.
  assert (NM : NoDup (a :: M'' ++ [b])) by (eapply Permutation_NoDup; [apply Permutation_sym; exact HP|exact N1]).
  inversion NM as [|? ? Ha NM']; subst.
  assert (Hb : ~ In b M'') by (intros Hb; eapply NoDup_app_disj; [exact NM'|exact Hb|now left]).
  apply NoDup_Permutation; auto; [now apply NoDup_app_l in NM'|].
  intros d. rewrite Hrl'. split.
  - intros Hd. split; [|split].
    + eapply Permutation_in; [exact HP|]. right. apply in_or_app. now left.
    + intros ->. apply Ha. apply in_or_app. now left.
    + intros ->. contradiction.
  - intros (Hd & D1 & D2). eapply Permutation_in in Hd; [|apply Permutation_sym; exact HP].
    destruct Hd as [->|Hd]; [congruence|]. apply in_app_or in Hd. destruct Hd as [Hd|[->|[]]]; [assumption|congruence].
Qed.

Lemma ext_pair ol rl rl' or_ a b : NoDup rl -> NoDup rl' -> SPextL ol rl or_ -> In a rl -> In b rl -> a <> b ->
  (exists v, In v prefs /\ forall r, In r rl -> r <> a -> better v r a) ->
  (exists v, In v prefs /\ forall r, In r rl -> r <> b -> better v r b) ->
  (forall d, In d rl' <-> In d rl /\ d <> a /\ d <> b) ->
  ((forall v, In v prefs -> forall b' p, In b' rl -> In p (ol ++ or_) -> better v b' p) \/
   (exists v, In v prefs /\ forbids_ba ol or_ v a b)) ->
  SPextL (ol ++ [a]) rl' (b :: or_).
Proof.
  intros N1 N2 (M & HM & H) Ha Hb Hab Hwa Hwb Hrl' Alt.
  destruct (ends_shape M a b Hab (ext_at_end ol rl or_ M a N1 HM H Ha Hwa) (ext_at_end ol rl or_ M b N1 HM H Hb Hwb))
    as [(M'' & ->)|(M'' & ->)].
  - exists M''. split; [apply (perm_remove_ends a b M'' rl rl' N1 N2 HM Hrl')|].
    intros v Hv. specialize (H v Hv). rewrite <- !app_assoc in *. simpl in *. rewrite <- app_assoc in H. exact H.
  - destruct Alt as [Habove|(v & Hv & Hf)].
    + exists (rev M''). split.
      * apply (perm_remove_ends a b _ rl rl' N1 N2); auto.
        assert (Er : rev (b :: M'' ++ [a]) = a :: rev M'' ++ [b]) by (simpl; rewrite rev_app_distr; reflexivity).
        eapply perm_trans; [|exact HM]. rewrite <- Er. apply Permutation_sym, Permutation_rev.
      * intros v Hv. specialize (H v Hv). apply vf_rev_block in H.
        -- assert (Er : rev (b :: M'' ++ [a]) = a :: rev M'' ++ [b]) by (simpl; rewrite rev_app_distr; reflexivity).
           rewrite Er in H. rewrite <- !app_assoc. simpl. simpl in H. rewrite <- app_assoc in H. exact H.
        -- intros b' p Hb' Hp. apply (Habove v Hv); auto. eapply Permutation_in; eauto.
    + exfalso. eapply not_shape_ba; [apply (H v Hv)|exact Hf].
Qed.

Lemma ext_contra_pair ol rl or_ a b : NoDup rl -> SPextL ol rl or_ -> In a rl -> In b rl -> a <> b ->
  (exists v, In v prefs /\ forall r, In r rl -> r <> a -> better v r a) ->
  (exists v, In v prefs /\ forall r, In r rl -> r <> b -> better v r b) ->
  (exists v, In v prefs /\ forbids_ba ol or_ v a b) -> (exists v, In v prefs /\ forbids_ba ol or_ v b a) -> False.
Proof.
  intros N1 (M & HM & H) Ha Hb Hab Hwa Hwb (v & Hv & F1) (v' & Hv' & F2).
  destruct (ends_shape M a b Hab (ext_at_end ol rl or_ M a N1 HM H Ha Hwa) (ext_at_end ol rl or_ M b N1 HM H Hb Hwb))
    as [(M'' & ->)|(M'' & ->)].
  - eapply not_shape_ba; [apply (H v' Hv')|exact F2].
  - eapply not_shape_ba; [apply (H v Hv)|exact F1].
Qed.

Lemma ext_contra_single ol rl or_ x m : NoDup rl -> SPextL ol rl or_ -> In x rl -> In m rl -> m <> x ->
  (forall v, In v prefs -> forall r, In r rl -> r <> x -> better v r x) ->
  (exists v c, In v prefs /\ In c or_ /\ better v c x) -> (exists v p, In v prefs /\ In p ol /\ better v p x) -> False.
Proof.
  intros N1 (M & HM & H) Hx Hm Hmx Hw (v & c & Hv & Hc & Hbc) (v' & p & Hv' & Hp & Hbp).
  assert (HmM : In m M) by (eapply Permutation_in; [apply Permutation_sym; exact HM|exact Hm]).
  destruct (ext_at_end ol rl or_ M x N1 HM H Hx) as [(M' & ->)|(M' & ->)].
  { exists v. split; [assumption|]. intros r Hr Hne'. now apply Hw. }
  - destruct HmM as [->|HmM]; [congruence|].
    apply (H v' Hv' ol x (M' ++ or_)) with (a := p) (c := m).
    + reflexivity.
    + exact Hp.
    + apply in_or_app. now left.
    + split; [assumption|]. now apply Hw.
  - apply in_app_or in HmM. destruct HmM as [HmM|[->|[]]]; [|congruence].
    apply (H v Hv (ol ++ M') x or_) with (a := m) (c := c).
    + now rewrite <- !app_assoc.
    + apply in_or_app. now right.
    + exact Hc.
    + split; [|assumption]. now apply Hw.
Qed.

Lemma ext_three ol rl or_ x y z : NoDup rl -> SPextL ol rl or_ -> x <> y -> x <> z -> y <> z ->
  In x rl -> In y rl -> In z rl ->
  (exists v, In v prefs /\ forall r, In r rl -> r <> x -> better v r x) ->
  (exists v, In v prefs /\ forall r, In r rl -> r <> y -> better v r y) ->
  (exists v, In v prefs /\ forall r, In r rl -> r <> z -> better v r z) -> False.
Proof.
  intros N1 (M & HM & H) Hxy Hxz Hyz Hx Hy Hz Wx Wy Wz.
  pose proof (ext_at_end ol rl or_ M x N1 HM H Hx Wx) as Ex.
  pose proof (ext_at_end ol rl or_ M y N1 HM H Hy Wy) as Ey.
  pose proof (ext_at_end ol rl or_ M z N1 HM H Hz Wz) as Ez.
  assert (Hsame : forall e e', at_end M e -> at_end M e' -> e <> e' ->
            ((exists M', M = e :: M') /\ (exists M', M = M' ++ [e'])) \/
            ((exists M', M = e' :: M') /\ (exists M', M = M' ++ [e]))).
  { intros e e' [(M1 & E1)|(M1 & E1)] [(M2 & E2)|(M2 & E2)] Hne'.
    - rewrite E1 in E2. injection E2 as E2 _. congruence.
    - left. eauto.
    - right. eauto.
    - rewrite E1 in E2. apply app_inj_tail in E2. destruct E2 as [_ E2]. congruence. }
  destruct (Hsame x y Ex Ey Hxy) as [[(A1 & EA1) (A2 & EA2)]|[(A1 & EA1) (A2 & EA2)]];
  destruct (Hsame x z Ex Ez Hxz) as [[(B1 & EB1) (B2 & EB2)]|[(B1 & EB1) (B2 & EB2)]].
  - rewrite EA2 in EB2. apply app_inj_tail in EB2. destruct EB2 as [_ E]. congruence.
  - rewrite EA1 in EB1. injection EB1 as E _. congruence.
  - rewrite EA1 in EB1. injection EB1 as E _. congruence.
  - rewrite EA1 in EB1. injection EB1 as E _. congruence.
Qed.

Lemma ext_drev ol rl or_ xi z w v (f : N -> bool) :
  NoDup rl -> SPextL ol rl or_ -> In xi ol -> In v prefs -> In z rl -> In w rl -> z <> w ->
  (exists u, In u prefs /\ forall r, In r rl -> r <> z -> better u r z) ->
  (exists u, In u prefs /\ forall r, In r rl -> r <> w -> better u r w) ->
  Permutation (filter f v) rl -> (forall r, In r rl -> In r v) ->
  better v xi w -> better v w z ->
  forall u, In u prefs -> vf u (ol ++ filter f v ++ or_).
Proof.
  intros N1 (M & HM & H) Hxi Hv Hz Hw Hzw Wz Ww Hperm Hinv B1 B2.
  assert (NM : NoDup M) by (eapply Permutation_NoDup; [apply Permutation_sym; exact HM|exact N1]).
  assert (HinM : forall r, In r M -> In r v).
  { intros r Hr. apply Hinv. eapply Permutation_in; [exact HM|exact Hr]. }
  assert (Htot : forall p q, In p M -> In q M -> p <> q -> better v p q \/ better v q p).
  { intros p q Hp Hq Hpq. assert (idxN v p <> idxN v q).
    { intros E. apply Hpq. apply (idxN_inj v p q (HinM p Hp) (HinM q Hq) E). }
    unfold better. lia. }
  destruct (ends_shape M w z (not_eq_sym Hzw) (ext_at_end ol rl or_ M w N1 HM H Hw Ww) (ext_at_end ol rl or_ M z N1 HM H Hz Wz))
    as [(M'' & EM)|(M'' & EM)].
  2:{ exfalso. subst M. apply (H v Hv ol z ((M'' ++ [w]) ++ or_)) with (a := xi) (c := w).
      - reflexivity.
      - exact Hxi.
      - apply in_or_app. left. apply in_or_app. right. now left.
      - split; [unfold better in *; lia|exact B2]. }
  assert (Hbest : forall b', In b' (M'' ++ [z]) -> better v w b').
  { intros b' Hb'. assert (Hne' : w <> b').
    { intros ->. rewrite EM in NM. inversion NM; subst. contradiction. }
    destruct (Htot w b') as [Hb|Hb]; auto.
    - rewrite EM. now left.
    - rewrite EM. now right.
    - exfalso. rewrite EM in H. apply (H v Hv ol w ((M'' ++ [z]) ++ or_)) with (a := xi) (c := b').
      + reflexivity.
      + exact Hxi.
      + apply in_or_app. now left.
      + split; assumption. }
  assert (Hdec : decr v M).
  { intros l1 b l2 E c Hc. destruct l1 as [|x0 l1].
    - simpl in E. rewrite EM in E. injection E as <- E. apply Hbest. rewrite E. exact Hc.
    - assert (Ex0 : x0 = w) by (rewrite EM in E; simpl in E; injection E as E1 _; congruence). subst x0.
      assert (Hb_in : In b (M'' ++ [z])).
      { rewrite EM in E. simpl in E. injection E as E. rewrite E. apply in_or_app. right. now left. }
      assert (Hbc : b <> c).
      { intros ->. rewrite E in NM. apply NoDup_app_r in NM. inversion NM; subst. contradiction. }
      destruct (Htot b c) as [Hb|Hb]; auto.
      + rewrite E. apply in_or_app. right. now left.
      + rewrite E. apply in_or_app. right. now right.
      + exfalso. rewrite E in H. apply (H v Hv (ol ++ w :: l1) b (l2 ++ or_)) with (a := w) (c := c).
        * rewrite <- !app_assoc. reflexivity.
        * apply in_or_app. right. now left.
        * apply in_or_app. now left.
        * split; [now apply Hbest|exact Hb]. }
  assert (EMf : M = filter f v).
  { apply (decr_unique v); auto.
    - apply filter_decr. eapply Permutation_NoDup; [apply (Hwf v Hv)|exact Hnd].
    - eapply perm_trans; [exact HM|apply Permutation_sym; exact Hperm]. }
  intros u Hu. rewrite <- EMf. now apply H.
Qed.

Lemma ext_dfwd ol rl or_ xj z w v (f : N -> bool) :
  NoDup rl -> SPextL ol rl or_ -> In xj or_ -> In v prefs -> In z rl -> In w rl -> z <> w ->
  (exists u, In u prefs /\ forall r, In r rl -> r <> z -> better u r z) ->
  (exists u, In u prefs /\ forall r, In r rl -> r <> w -> better u r w) ->
  Permutation (filter f v) rl -> (forall r, In r rl -> In r v) ->
  better v xj w -> better v w z ->
  forall u, In u prefs -> vf u (ol ++ rev (filter f v) ++ or_).
Proof.
  intros N1 HS Hxj Hv Hz Hw Hzw Wz Ww Hperm Hinv B1 B2 u Hu.
  apply SPextL_mirror in HS.
  pose proof (ext_drev (rev or_) rl (rev ol) xj z w v f N1 HS (proj1 (in_rev _ _) Hxj) Hv Hz Hw Hzw Wz Ww Hperm Hinv B1 B2 u Hu) as H.
  apply vf_rev in H. rewrite !rev_app_distr, !rev_involutive in H. rewrite <- app_assoc in H. exact H.
Qed.

(* ---- one round ---- *)
Definition Final2d (st' : elo_state) : Prop :=
  st_is_SP st' = true /\ st_end_flag st' = true /\ st_prefs_SP st' <> [] /\
  exists ax, st_axis st' = Some ax /\ sp_check_axis alts prefs ax = true.

Definition Step (st st' : elo_state) : Prop :=
  st_is_SP st' = false \/
  (Core st' /\ (Rl st' <> [] -> Ends st') /\ length (Rl st') < length (Rl st)) \/
  Final2d st'.

Definition SPext (st : elo_state) : Prop := SPextL (OL st) (Rl st) (st_right st).

(* completeness of one round: a single-peaked profile is never rejected and stays extendable *)
Definition Compl (st st' : elo_state) : Prop :=
  SPext st -> st_is_SP st' = true /\ (st_end_flag st' = false -> SPext st').

Lemma Rl_nodup st : NoDup (Rl st).
Proof. unfold Rl, RlP. now apply NoDup_filter. Qed.

Lemma Rl_step1 st P' x : (forall a, In a P' <-> In a (placed st) \/ a = x) ->
  forall d, In d (RlP P') <-> In d (Rl st) /\ d <> x.
Proof. intros HP d. unfold Rl. rewrite !RlP_In, HP. tauto. Qed.

Lemma Rl_step2 st P' x y : (forall a, In a P' <-> In a (placed st) \/ a = x \/ a = y) ->
  forall d, In d (RlP P') <-> In d (Rl st) /\ d <> x /\ d <> y.
Proof. intros HP d. unfold Rl. rewrite !RlP_In, HP. tauto. Qed.

Lemma sp_profile_of_vf ax : (forall u, In u prefs -> vf u ax) -> sp_axis_profile (map strictify prefs) ax = true.
Proof.
  intros H. unfold sp_axis_profile. apply forallb_forall. intros o Ho. apply in_map_iff in Ho.
  destruct Ho as (u & <- & Hu). apply valley_sp_axis_weak. apply vf_valley. now apply H.
Qed.

Lemma core_left st st' x : Core st -> In x alts -> ~ In x (placed st) ->
  st_is_SP st' = st_is_SP st -> st_end_flag st' = st_end_flag st -> st_axis st' = st_axis st ->
  OL st' = OL st ++ [x] -> st_right st' = st_right st ->
  st_prefs_SP st' = map (filter (unplaced (placed st'))) prefs ->
  (forall v, In v prefs -> cond v (OL st) x (Rl st' ++ st_right st)) ->
  Core st' /\ length (Rl st') < length (Rl st).
Proof.
  intros HC Hx Hnx E1 E2 E3 EOL ER Esp Hc. destruct (c_run st HC) as (R1 & R2 & R3). split.
  - constructor.
    + rewrite E1, E2, E3. auto.
    + exact Esp.
    + rewrite EOL, ER. apply geo_add_left; auto; [apply (c_geo st HC)|].
      intros v Hv. specialize (Hc v Hv). unfold Rl, placed in Hc. rewrite EOL, ER in Hc. exact Hc.
  - unfold Rl. apply (RlP_shrink _ _ x); auto.
    + unfold placed. rewrite EOL, ER. apply in_or_app. left. apply in_or_app. right. now left.
    + unfold placed. rewrite EOL, ER. intros a Ha. apply in_app_or in Ha. apply in_or_app.
      destruct Ha as [Ha|Ha]; [left; apply in_or_app; now left|now right].
Qed.

Lemma core_right st st' x : Core st -> In x alts -> ~ In x (placed st) ->
  st_is_SP st' = st_is_SP st -> st_end_flag st' = st_end_flag st -> st_axis st' = st_axis st ->
  OL st' = OL st -> st_right st' = x :: st_right st ->
  st_prefs_SP st' = map (filter (unplaced (placed st'))) prefs ->
  (forall v, In v prefs -> cond v (st_right st) x (OL st ++ Rl st')) ->
  Core st' /\ length (Rl st') < length (Rl st).
Proof.
  intros HC Hx Hnx E1 E2 E3 EOL ER Esp Hc. destruct (c_run st HC) as (R1 & R2 & R3). split.
  - constructor.
    + rewrite E1, E2, E3. auto.
    + exact Esp.
    + rewrite EOL, ER. apply geo_add_right; auto; [apply (c_geo st HC)|].
      intros v Hv. specialize (Hc v Hv). unfold Rl, placed in Hc. rewrite EOL, ER in Hc. exact Hc.
  - unfold Rl. apply (RlP_shrink _ _ x); auto.
    + unfold placed. rewrite EOL, ER. apply in_or_app. right. now left.
    + unfold placed. rewrite EOL, ER. intros a Ha. apply in_app_or in Ha. apply in_or_app.
      destruct Ha as [Ha|Ha]; [now left|right; now right].
Qed.

Lemma core_pair st st' a b : Core st -> In a alts -> ~ In a (placed st) -> In b alts -> ~ In b (placed st) -> a <> b ->
  st_is_SP st' = st_is_SP st -> st_end_flag st' = st_end_flag st -> st_axis st' = st_axis st ->
  OL st' = OL st ++ [a] -> st_right st' = b :: st_right st ->
  st_prefs_SP st' = map (filter (unplaced (placed st'))) prefs ->
  (forall v, In v prefs -> (forall p, In p (OL st) -> better v a p) /\ (forall p, In p (st_right st) -> better v b p)) ->
  Core st' /\ length (Rl st') < length (Rl st).
Proof.
  intros HC Ha Hna Hb Hnb Hab E1 E2 E3 EOL ER Esp Hc. destruct (c_run st HC) as (R1 & R2 & R3). split.
  - constructor.
    + rewrite E1, E2, E3. auto.
    + exact Esp.
    + rewrite EOL, ER. apply geo_add_right; auto.
      * apply geo_add_left; auto; [apply (c_geo st HC)|]. intros v Hv. left. apply (Hc v Hv).
      * intros H. rewrite <- app_assoc in H. apply in_app_or in H. destruct H as [H|H].
        -- apply Hnb. apply in_or_app. now left.
        -- simpl in H. destruct H as [H|H]; [congruence|]. apply Hnb. apply in_or_app. now right.
      * intros v Hv. left. apply (Hc v Hv).
  - unfold Rl. apply (RlP_shrink _ _ a); auto.
    + unfold placed. rewrite EOL, ER. apply in_or_app. left. apply in_or_app. right. now left.
    + unfold placed. rewrite EOL, ER. intros c Hc'. apply in_app_or in Hc'. apply in_or_app.
      destruct Hc' as [Hc'|Hc']; [left; apply in_or_app; now left|right; now right].
Qed.

Lemma Rl_In st a : In a (Rl st) <-> In a alts /\ ~ In a (placed st).
Proof. apply RlP_In. Qed.

Lemma placed_incl st : Core st -> incl (placed st) alts.
Proof. intros HC. destruct (c_geo st HC) as (_ & H & _). exact H. Qed.

Lemma placed_nodup st : Core st -> NoDup (placed st).
Proof. intros HC. destruct (c_geo st HC) as (H & _ & _). exact H. Qed.

Lemma core_LC st v : Core st -> In v prefs -> LC v (OL st) (Rl st) (st_right st).
Proof. intros HC Hv. destruct (c_geo st HC) as (_ & _ & H). now apply H. Qed.

Lemma py_first_prefs P : exists v0, In v0 prefs /\
  py_first (map (filter (unplaced P)) prefs) = Ok (filter (unplaced P) v0).
Proof. destruct prefs as [|v0 rest]; [congruence|]. exists v0. split; [now left|reflexivity]. Qed.

Theorem round_ok st : Core st -> Ends st -> Rl st <> [] ->
  exists st', elo_round prefs st = Ok st' /\ Step st st' /\ Compl st st'.
Proof.
  intros HC HE HR. destruct (c_run st HC) as (R1 & R2 & R3).
  destruct (pop_facts st HC HR) as (lc & Epop & Hlcnd & Hall & Hfrom).
  assert (Hlcprop : forall x, In x lc -> In x alts /\ ~ In x (placed st)).
  { intros x Hx. destruct (Hfrom x Hx) as (v & Hv & <-).
    destruct (lastR_props (placed st) v Hv HR) as (A & B & _). auto. }
  assert (Hworst : forall v, In v prefs -> forall r, In r alts -> ~ In r (placed st) ->
            r <> lastR (placed st) v -> better v r (lastR (placed st) v)).
  { intros v Hv. destruct (lastR_props (placed st) v Hv HR) as (_ & _ & H). exact H. }
  assert (Hbottom : forall x, In x lc -> exists v, In v prefs /\ forall r, In r (Rl st) -> r <> x -> better v r x).
  { intros x Hx. destruct (Hfrom x Hx) as (v & Hv & <-). exists v. split; [assumption|].
    intros r Hr Hne'. apply Rl_In in Hr. destruct Hr. now apply Hworst. }
  unfold elo_round. rewrite Epop. cbn [rbind].
  destruct lc as [|x [|y [|z lc']]].
  - (* no last candidate: impossible, there is a voter *)
    exfalso. destruct prefs as [|v0 rest]; [congruence|]. apply (Hall v0 (or_introl eq_refl)).
  - (* ---------------- one last candidate ---------------- *)
    cbn [length Nat.leb].
    assert (Hlast : forall v, In v prefs -> lastR (placed st) v = x).
    { intros v Hv. destruct (Hall v Hv) as [E|[]]. now symmetry. }
    destruct (Hlcprop x (or_introl eq_refl)) as [Hxa Hxn].
    assert (Hbx : forall v, In v prefs -> forall r, In r alts -> ~ In r (placed st) -> r <> x -> better v r x).
    { intros v Hv r Hr1 Hr2 Hr3. rewrite <- (Hlast v Hv). apply Hworst; auto. now rewrite (Hlast v Hv). }
    assert (HxR : In x (Rl st)) by (apply Rl_In; auto).
    destruct (st_xi st) as [xi0|] eqn:Exi.
    + (* the two ends are open *)
      pose proof (e_ends st HE) as Hends. rewrite Exi in Hends.
      destruct (st_xj st) as [xj0|] eqn:Exj; [|contradiction].
      destruct Hends as [(l' & El) (r' & Er)].
      assert (Hps2 : forall P', (forall a, In a P' <-> In a (placed st) \/ a = x) ->
                map (py_remove_if x) (map (@removelast N) (st_prefs_SP st)) = map (filter (unplaced P')) prefs).
      { intros P' HP'. now apply ps2_single. }
      assert (EOL : OL st = (st_tal st ++ l') ++ [xi0]).
      { unfold OL. rewrite El. now rewrite app_assoc. }
      assert (Hxi_in : In xi0 (placed st)).
      { unfold placed. rewrite EOL. apply in_or_app. left. apply in_or_app. right. now left. }
      assert (Hxj_in : In xj0 (placed st)).
      { unfold placed. rewrite Er. apply in_or_app. right. now left. }
      assert (HN : forall v, In v prefs -> better v x xi0 \/ better v x xj0).
      { intros v Hv. apply (e_N st HE xi0 xj0 Exi Exj v Hv x HxR). }
      assert (Hleft_all : forall v, In v prefs -> better v x xi0 -> forall p, In p (OL st) -> better v x p).
      { intros v Hv Hb. eapply above_xi_above_left; [apply (core_LC st v HC Hv)|exact EOL|exact HxR|exact Hb]. }
      assert (Hright_all : forall v, In v prefs -> better v x xj0 -> forall p, In p (st_right st) -> better v x p).
      { intros v Hv Hb. eapply above_xj_above_right; [apply (core_LC st v HC Hv)|exact Er|exact HxR|exact Hb]. }
      (* the state when x goes to the left, and when x goes to the right *)
      set (P'L := (st_tal st ++ (st_left st ++ [x])) ++ st_right st).
      assert (HP'L : forall a, In a P'L <-> In a (placed st) \/ a = x).
      { intros a. unfold P'L, placed, OL. rewrite !in_app_iff. simpl. intuition (subst; auto). }
      set (P'R := (st_tal st ++ st_left st) ++ x :: st_right st).
      assert (HP'R : forall a, In a P'R <-> In a (placed st) \/ a = x).
      { intros a. unfold P'R, placed, OL. rewrite !in_app_iff. simpl. intuition (subst; auto). }
      assert (Hw_all : forall v, In v prefs -> forall r, In r (Rl st) -> r <> x -> better v r x).
      { intros v Hv r Hr Hne'. apply Rl_In in Hr. destruct Hr. now apply Hbx. }
      assert (HxiOL : In xi0 (OL st)) by (rewrite EOL; apply in_or_app; right; now left).
      assert (HxjR : In xj0 (st_right st)) by (rewrite Er; now left).
      assert (HndL : NoDup (RlP P'L)) by (unfold RlP; now apply NoDup_filter).
      assert (HndR : NoDup (RlP P'R)) by (unfold RlP; now apply NoDup_filter).
      rewrite (Hps2 P'L HP'L).
      destruct (py_first_prefs P'L) as (v0 & Hv0 & Efirst). rewrite Efirst. cbn [rbind].
      rewrite (vote_filter_length P'L v0 Hv0).
      destruct (length (RlP P'L) =? 0) eqn:Elen.
      * (* the last candidate: goes between the two ends *)
        apply Nat.eqb_eq in Elen. apply length_zero_iff_nil in Elen.
        eexists. split; [reflexivity|]. split.
        { right. left.
        match goal with |- Core ?s /\ _ /\ _ => set (st' := s) end.
        assert (Epl : placed st' = P'L) by reflexivity.
        destruct (core_left st st' x HC Hxa Hxn) as [HC' Hlt]; try reflexivity.
        { unfold OL. simpl. now rewrite app_assoc. }
        { intros v Hv. unfold Rl. rewrite Epl, Elen. simpl.
          destruct (HN v Hv) as [Hb|Hb]; [left; now apply Hleft_all|right; now apply Hright_all]. }
        split; [exact HC'|]. split; [|exact Hlt].
        intros Hcontra. exfalso. apply Hcontra. unfold Rl. now rewrite Epl. }
        { intros HS. split; [exact R1|]. intros _.
          match goal with |- SPext ?s => set (st' := s) end.
          assert (EOL' : OL st' = OL st ++ [x]) by (unfold OL; simpl; now rewrite app_assoc).
          unfold SPext. rewrite EOL'. change (st_right st') with (st_right st). change (Rl st') with (RlP P'L).
          apply (ext_left (OL st) (Rl st) (RlP P'L) (st_right st) x (Rl_nodup st) HndL HS HxR Hw_all (Rl_step1 st P'L x HP'L)).
          right. right. exact Elen. }
      * (* the loop over the voters *)
        assert (Hvok : forall v, In v prefs -> voter_ok x xi0 xj0 v).
        { intros v Hv. repeat split.
          - now apply (vote_in v).
          - apply (vote_in v); [assumption|]. now apply (placed_incl st HC).
          - apply (vote_in v); [assumption|]. now apply (placed_incl st HC).
          - intros ->. contradiction.
          - intros ->. contradiction.
          - intros ->. pose proof (placed_nodup st HC) as Hnd'. unfold placed in Hnd'.
            eapply NoDup_app_disj; [exact Hnd'| |rewrite Er; now left].
            rewrite EOL. apply in_or_app. right. now left.
          - now apply HN. }
        destruct (single_loop_spec x xi0 xj0 prefs 0) as (c & contra & Eloop & Hf & Ht); [lia|exact Hvok|].
        rewrite Eloop. cbn [rbind]. destruct contra.
        -- eexists. split; [reflexivity|]. split; [left; reflexivity|].
           intros HS. exfalso. destruct (Ht eq_refl) as [[Hc|(v1 & Hv1 & F1)] [Hc'|(v2 & Hv2 & F2)]]; try discriminate.
           destruct (RlP P'L) as [|m rl0] eqn:ERl; [discriminate|].
           assert (Hm : In m (Rl st) /\ m <> x).
           { apply (Rl_step1 st P'L x HP'L). rewrite ERl. now left. }
           destruct Hm as [Hm1 Hm2].
           apply (ext_contra_single (OL st) (Rl st) (st_right st) x m (Rl_nodup st) HS HxR Hm1 Hm2 Hw_all).
           ++ exists v1, xj0. split; [assumption|]. split; [assumption|]. apply F1.
           ++ exists v2, xi0. split; [assumption|]. split; [assumption|]. apply F2.
        -- destruct (Hf eq_refl) as (Hc2 & _ & Hgoodv & Hwhy1 & Hwhy2 & Hwhy0).
           destruct (c =? 2) eqn:Ec.
           ++ (* to the right *)
              apply Nat.eqb_eq in Ec. subst c.
              eexists. split; [reflexivity|]. split.
              2:{ intros HS. split; [exact R1|]. intros _.
                  match goal with |- SPext ?s => set (st' := s) end.
                  unfold SPext. change (OL st') with (OL st). change (st_right st') with (x :: st_right st).
                  change (Rl st') with (RlP P'R).
                  apply (ext_right (OL st) (Rl st) (RlP P'R) (st_right st) x (Rl_nodup st) HndR HS HxR Hw_all (Rl_step1 st P'R x HP'R)).
                  right. left. destruct (Hwhy2 eq_refl) as [Hc|(v2 & Hv2 & F2)]; [discriminate|].
                    exists v2, xi0. split; [assumption|]. split; [assumption|]. apply F2. }
              right. left.
              match goal with |- Core ?s /\ _ /\ _ => set (st' := s) end.
              assert (Epl : placed st' = P'R) by reflexivity.
              assert (Esp' : map (filter (unplaced P'L)) prefs = map (filter (unplaced P'R)) prefs).
              { apply map_ext. intros v. apply filter_ext. intros a.
                rewrite (unplaced_insert _ _ x HP'L), (unplaced_insert _ _ x HP'R). reflexivity. }
              destruct (core_right st st' x HC Hxa Hxn) as [HC' Hlt]; try reflexivity.
              { rewrite Epl. exact Esp'. }
              { intros v Hv. left. apply Hright_all; [assumption|]. apply (Hgoodv v Hv). reflexivity. }
              split; [exact HC'|]. split; [|exact Hlt]. intros _. constructor.
              ** simpl. split; [exists l'; exact El|exists (st_right st); reflexivity].
              ** simpl. intros xi1 xj1 E1 E2 v Hv r Hr. injection E2 as <-. right.
                 apply Rl_In in Hr. destruct Hr as [Hr1 Hr2]. rewrite Epl in Hr2.
                 apply Hbx; auto; intros H; apply Hr2; apply HP'R; auto.
              ** simpl. discriminate.
           ++ (* to the left *)
              apply Nat.eqb_neq in Ec.
              eexists. split; [reflexivity|]. split.
              2:{ intros HS. split; [exact R1|]. intros _.
                  match goal with |- SPext ?s => set (st' := s) end.
                  assert (EOL' : OL st' = OL st ++ [x]) by (unfold OL; simpl; now rewrite app_assoc).
                  unfold SPext. rewrite EOL'. change (st_right st') with (st_right st). change (Rl st') with (RlP P'L).
                  apply (ext_left (OL st) (Rl st) (RlP P'L) (st_right st) x (Rl_nodup st) HndL HS HxR Hw_all (Rl_step1 st P'L x HP'L)).
                  assert (Hc01 : c = 0 \/ c = 1) by lia. destruct Hc01 as [-> | ->].
                    + left. destruct (Hwhy0 eq_refl) as [_ Hall0]. intros v Hv b p Hb Hp.
                      destruct (Hall0 v Hv) as [G1 G2].
                      assert (Hxp : better v x p).
                      { apply in_app_or in Hp. destruct Hp as [Hp|Hp]; [now apply Hleft_all|now apply Hright_all]. }
                      destruct (N.eq_dec b x) as [->|Hbx']; [assumption|].
                      pose proof (Hw_all v Hv b Hb Hbx') as Hbb. unfold better in *. lia.
                    + right. left. destruct (Hwhy1 eq_refl) as [Hc|(v1 & Hv1 & F1)]; [discriminate|].
                      exists v1, xj0. split; [assumption|]. split; [assumption|]. apply F1. }
              right. left.
              match goal with |- Core ?s /\ _ /\ _ => set (st' := s) end.
              assert (Epl : placed st' = P'L) by reflexivity.
              destruct (core_left st st' x HC Hxa Hxn) as [HC' Hlt]; try reflexivity.
              { unfold OL. simpl. now rewrite app_assoc. }
                    { intros v Hv. left. apply Hleft_all; [assumption|]. apply (Hgoodv v Hv). exact Ec. }
              split; [exact HC'|]. split; [|exact Hlt]. intros _. constructor.
              ** simpl. split; [exists (st_left st); reflexivity|exists r'; exact Er].
              ** simpl. intros xi1 xj1 E1 E2 v Hv r Hr. injection E1 as <-. left.
                 apply Rl_In in Hr. destruct Hr as [Hr1 Hr2]. rewrite Epl in Hr2.
                 apply Hbx; auto; intros H; apply Hr2; apply HP'L; auto.
              ** simpl. discriminate.
    + (* x_i is None: x joins to_append_left *)
      pose proof (e_ends st HE) as Hends. rewrite Exi in Hends.
      destruct (st_xj st) as [xj0|] eqn:Exj; [contradiction|]. destruct Hends as [El Er].
      set (P' := ((st_tal st ++ [x]) ++ st_left st) ++ st_right st).
      assert (HP' : forall a, In a P' <-> In a (placed st) \/ a = x).
      { intros a. unfold P', placed, OL. rewrite !in_app_iff. simpl. intuition (subst; auto). }
      rewrite (ps2_single st x P' HC HR Hlast HP').
      eexists. split; [reflexivity|]. split.
      2:{ intros HS. split; [exact R1|]. intros _.
          match goal with |- SPext ?s => set (st' := s) end.
          assert (EOL' : OL st' = OL st ++ [x]) by (unfold OL; simpl; rewrite El, !app_nil_r; reflexivity).
          unfold SPext. rewrite EOL'. change (st_right st') with (st_right st). change (Rl st') with (RlP P').
          assert (HndP' : NoDup (RlP P')) by (unfold RlP; now apply NoDup_filter).
          assert (Hw_all : forall v, In v prefs -> forall r, In r (Rl st) -> r <> x -> better v r x).
          { intros v Hv r Hr Hne'. apply Rl_In in Hr. destruct Hr. now apply Hbx. }
          apply (ext_left (OL st) (Rl st) (RlP P') (st_right st) x (Rl_nodup st) HndP' HS HxR Hw_all (Rl_step1 st P' x HP')).
          left. intros v Hv b p Hb Hp. rewrite Er, app_nil_r in Hp. unfold OL in Hp. rewrite El, app_nil_r in Hp.
            apply (e_T st HE Exi v Hv p Hp b Hb). }
      right. left.
      match goal with |- Core ?s /\ _ /\ _ => set (st' := s) end.
      assert (Epl : placed st' = P') by reflexivity.
      destruct (core_left st st' x HC Hxa Hxn) as [HC' Hlt]; try reflexivity.
      { unfold OL. simpl. rewrite El, !app_nil_r. reflexivity. }
      { intros v Hv. left. intros p Hp. unfold OL in Hp. rewrite El, app_nil_r in Hp.
        apply (e_T st HE Exi v Hv p Hp x HxR). }
      split; [exact HC'|]. split; [|exact Hlt]. intros _. constructor.
      * simpl. auto.
      * simpl. discriminate.
      * simpl. intros _ v Hv t Ht r Hr. apply Rl_In in Hr. destruct Hr as [Hr1 Hr2]. rewrite Epl in Hr2.
        assert (Hr3 : ~ In r (placed st)) by (intros H; apply Hr2; apply HP'; auto).
        assert (Hr4 : r <> x) by (intros H; apply Hr2; apply HP'; auto).
        apply in_app_or in Ht. destruct Ht as [Ht|[<-|[]]].
        -- apply (e_T st HE Exi v Hv t Ht r). apply Rl_In. auto.
        -- now apply Hbx.
  - (* ---------------- two last candidates ---------------- *)
    cbn [length Nat.leb].
    assert (Hxy : x <> y).
    { inversion Hlcnd as [|? ? Hn _]; subst. intros ->. apply Hn. now left. }
    assert (Hlast : forall v, In v prefs -> lastR (placed st) v = x \/ lastR (placed st) v = y).
    { intros v Hv. destruct (Hall v Hv) as [E|[E|[]]]; auto. }
    destruct (Hlcprop x (or_introl eq_refl)) as [Hxa Hxn].
    destruct (Hlcprop y (or_intror (or_introl eq_refl))) as [Hya Hyn].
    assert (HxR : In x (Rl st)) by (apply Rl_In; auto).
    assert (HyR : In y (Rl st)) by (apply Rl_In; auto).
    assert (Hbxy : forall v, In v prefs -> forall r, In r alts -> ~ In r (placed st) -> r <> x -> r <> y ->
              better v r x \/ better v r y).
    { intros v Hv r Hr1 Hr2 Hr3 Hr4. destruct (Hlast v Hv) as [E|E]; [left|right]; rewrite <- E;
        apply Hworst; auto; rewrite E; assumption. }
    assert (Hps2 : forall P', (forall a, In a P' <-> In a (placed st) \/ a = x \/ a = y) ->
              map (fun p => py_remove_if y (py_remove_if x p)) (map (@removelast N) (st_prefs_SP st))
              = map (filter (unplaced P')) prefs).
    { intros P' HP'. now apply ps2_pair. }
    destruct (st_xi st) as [xi0|] eqn:Exi.
    + pose proof (e_ends st HE) as Hends. rewrite Exi in Hends.
      destruct (st_xj st) as [xj0|] eqn:Exj; [|contradiction].
      destruct Hends as [(l' & El) (r' & Er)].
      assert (EOL : OL st = (st_tal st ++ l') ++ [xi0]).
      { unfold OL. rewrite El. now rewrite app_assoc. }
      assert (Hxi_in : In xi0 (placed st)).
      { unfold placed. rewrite EOL. apply in_or_app. left. apply in_or_app. right. now left. }
      assert (Hxj_in : In xj0 (placed st)).
      { unfold placed. rewrite Er. apply in_or_app. right. now left. }
      assert (Hxij : xi0 <> xj0).
      { intros ->. pose proof (placed_nodup st HC) as Hnd'. unfold placed in Hnd'.
        eapply NoDup_app_disj; [exact Hnd'| |rewrite Er; now left].
        rewrite EOL. apply in_or_app. right. now left. }
      assert (Hpok : forall v, In v prefs -> pvoter_ok xi0 xj0 x y v).
      { intros v Hv. repeat split; try (now apply (vote_in v));
          try (apply (vote_in v); [assumption|]; now apply (placed_incl st HC));
          try (intros ->; contradiction); try assumption.
        - apply (e_N st HE xi0 xj0 Exi Exj v Hv x HxR).
        - apply (e_N st HE xi0 xj0 Exi Exj v Hv y HyR). }
      destruct (pair_loop_spec prefs (st_tal st) (st_left st) (st_right st) xi0 xj0 prefs (fun _ _ => False) x y [])
        as (out & Eloop & Hspec); auto.
      { left. split; reflexivity. }
      { intros a b _ [H _]. discriminate. }
      rewrite Eloop. cbn [rbind]. destruct out as [x' y' forced'| |ax ok].
      * (* the two candidates are placed *)
        simpl in Hspec. destruct Hspec as (Hp' & HFI' & _ & Hun & Hgood & Hprov).
        assert (Hxy' : x' <> y') by (destruct Hp' as [[-> ->]|[-> ->]]; congruence).
        assert (HFI'' : FI0 forced' x' y').
        { destruct Hp' as [[-> ->]|[-> ->]]; [assumption|now apply FI0_sym]. }
        destruct (pair_place_spec st (map (fun p => py_remove_if y (py_remove_if x p)) (map (@removelast N) (st_prefs_SP st)))
                    x' y' forced' Hxy' HFI'') as (a & b & Hab' & Hwhy & Eplace).
        assert (Hab : is_perm2 a b x y).
        { destruct Hp' as [[-> ->]|[-> ->]]; [assumption|]. unfold is_perm2 in *. tauto. }
        assert (Hgoodab : forall v, In v prefs -> good xi0 xj0 v a b).
        { intros v Hv. destruct Hwhy as [Hu|Hf].
          - assert (Hu' : funset forced' x y).
            { destruct Hp' as [[-> ->]|[-> ->]]; [assumption|]. destruct Hu. split; assumption. }
            destruct (Hun Hu' v Hv) as [G1 G2]. destruct Hab as [[-> ->]|[-> ->]]; assumption.
          - apply (Hgood a b Hab Hf v Hv). }
        assert (Ha : In a alts /\ ~ In a (placed st) /\ In a (Rl st)).
        { destruct Hab as [[-> ->]|[-> ->]]; auto. }
        assert (Hb : In b alts /\ ~ In b (placed st) /\ In b (Rl st)).
        { destruct Hab as [[-> ->]|[-> ->]]; auto. }
        assert (Hanb : a <> b) by (destruct Hab as [[-> ->]|[-> ->]]; congruence).
        destruct Ha as (Ha1 & Ha2 & Ha3). destruct Hb as (Hb1 & Hb2 & Hb3).
        set (P' := (st_tal st ++ (st_left st ++ [a])) ++ b :: st_right st).
        assert (HP' : forall c, In c P' <-> In c (placed st) \/ c = x \/ c = y).
        { intros c. unfold P', placed, OL. rewrite !in_app_iff. simpl. rewrite ?in_app_iff. simpl.
          destruct Hab as [[-> ->]|[-> ->]]; intuition (subst; auto). }
        rewrite Eplace, (Hps2 P' HP').
        eexists. split; [reflexivity|]. split.
        2:{ intros HS. split; [exact R1|]. intros _.
            match goal with |- SPext ?s => set (st' := s) end.
            assert (EOL' : OL st' = OL st ++ [a]) by (unfold OL; simpl; now rewrite app_assoc).
            unfold SPext. rewrite EOL'. change (st_right st') with (b :: st_right st). change (Rl st') with (RlP P').
            apply (ext_pair _ (Rl st)); auto using Rl_nodup.
            - unfold RlP. now apply NoDup_filter.
            - apply Hbottom. destruct Hab as [[-> ->]|[-> ->]]; [now left|right; now left].
            - apply Hbottom. destruct Hab as [[-> ->]|[-> ->]]; [right; now left|now left].
            - intros d. rewrite (Rl_step2 st P' x y HP'). destruct Hab as [[-> ->]|[-> ->]]; tauto.
            - destruct Hwhy as [Hu|Hf].
              + left. intros v Hv b' p Hb' Hp.
                assert (Hu' : funset forced' x y).
                { destruct Hp' as [[-> ->]|[-> ->]]; [assumption|]. destruct Hu. split; assumption. }
                destruct (Hun Hu' v Hv) as [[G1 G2] [G3 G4]].
                assert (Hb'xi : better v b' xi0 /\ better v b' xj0).
                { destruct (N.eq_dec b' x) as [->|Nx]; [split; assumption|].
                  destruct (N.eq_dec b' y) as [->|Ny]; [split; assumption|].
                  apply Rl_In in Hb'. destruct Hb' as [Hb'1 Hb'2].
                  destruct (Hbxy v Hv b' Hb'1 Hb'2 Nx Ny) as [Hbb|Hbb]; unfold better in *; split; lia. }
                destruct Hb'xi as [K1 K2]. apply in_app_or in Hp. destruct Hp as [Hp|Hp].
                * eapply above_xi_above_left; [apply (core_LC st v HC Hv)|exact EOL|exact Hb'|exact K1|exact Hp].
                * eapply above_xj_above_right; [apply (core_LC st v HC Hv)|exact Er|exact Hb'|exact K2|exact Hp].
              + right. assert (Hab0 : is_perm2 a b x y) by exact Hab.
                destruct (Hprov a b Hab0 Hf) as [[]|(v & Hv & [(Q1 & Q2 & Q3)|(Q1 & Q2 & Q3)])].
                * exists v. split; [assumption|]. left. exists xj0. split; [rewrite Er; now left|].
                  split; [assumption|]. unfold better in *. lia.
                * exists v. split; [assumption|]. right. exists xi0.
                  split; [rewrite EOL; apply in_or_app; right; now left|].
                  split; [assumption|]. unfold better in *. lia. }
        right. left.
        match goal with |- Core ?s /\ _ /\ _ => set (st' := s) end.
        assert (Epl : placed st' = P') by reflexivity.
        destruct (core_pair st st' a b HC Ha1 Ha2 Hb1 Hb2 Hanb) as [HC' Hlt]; try reflexivity.
        { unfold OL. simpl. now rewrite app_assoc. }
        { intros v Hv. destruct (Hgoodab v Hv) as [G1 G2]. split.
          - eapply above_xi_above_left; [apply (core_LC st v HC Hv)|exact EOL|exact Ha3|exact G1].
          - eapply above_xj_above_right; [apply (core_LC st v HC Hv)|exact Er|exact Hb3|exact G2]. }
        split; [exact HC'|]. split; [|exact Hlt]. intros _. constructor.
        -- simpl. split; [exists (st_left st); reflexivity|exists (st_right st); reflexivity].
        -- simpl. intros xi1 xj1 E1 E2 v Hv r Hr. injection E1 as <-. injection E2 as <-.
           apply Rl_In in Hr. destruct Hr as [Hr1 Hr2]. rewrite Epl in Hr2.
           assert (Hr3 : ~ In r (placed st)) by (intros H; apply Hr2; apply HP'; auto).
           assert (Hr4 : r <> x) by (intros H; apply Hr2; apply HP'; auto).
           assert (Hr5 : r <> y) by (intros H; apply Hr2; apply HP'; auto).
           destruct (Hbxy v Hv r Hr1 Hr3 Hr4 Hr5) as [H|H]; destruct Hab as [[-> ->]|[-> ->]]; auto.
        -- simpl. discriminate.
      * eexists. split; [reflexivity|]. split; [left; reflexivity|].
        intros HS. exfalso. simpl in Hspec. destruct Hspec as (a & b & Hab & [[]|(v1 & Hv1 & Q1)] & (v2 & Hv2 & Q2)).
        assert (Hfb : forall v a b, req xi0 xj0 v a b -> forbids_ba (OL st) (st_right st) v a b).
        { intros v a0 b0 [(K1 & K2 & K3)|(K1 & K2 & K3)].
          - left. exists xj0. split; [rewrite Er; now left|]. split; [assumption|]. unfold better in *. lia.
          - right. exists xi0. split; [rewrite EOL; apply in_or_app; right; now left|].
            split; [assumption|]. unfold better in *. lia. }
        assert (HaR : In a (Rl st) /\ In b (Rl st) /\ a <> b /\ In a [x; y] /\ In b [x; y]).
        { destruct Hab as [[-> ->]|[-> ->]]; repeat split; auto; simpl; auto. }
        destruct HaR as (A1 & A2 & A3 & A4 & A5).
        apply (ext_contra_pair (OL st) (Rl st) (st_right st) a b (Rl_nodup st) HS A1 A2 A3).
        -- now apply Hbottom.
        -- now apply Hbottom.
        -- exists v1. split; [assumption|now apply Hfb].
        -- exists v2. split; [assumption|now apply Hfb].
      * (* case 2.(d): the candidate axis has been tested *)
        simpl in Hspec. destruct Hspec as (Eok & v & z & w & Hv & Hzw & Hax).
        eexists. split; [reflexivity|]. split.
        2:{ intros HS. split; [|discriminate]. simpl. rewrite Eok. apply sp_profile_of_vf.
            assert (Hzw' : In z (Rl st) /\ In w (Rl st) /\ z <> w /\ In z [x; y] /\ In w [x; y]).
            { destruct Hzw as [[-> ->]|[-> ->]]; repeat split; auto; simpl; auto. }
            destruct Hzw' as (Z1 & Z2 & Z3 & Z4 & Z5).
            assert (Hpermf : Permutation (filter (not_placed (st_tal st) (st_left st) (st_right st)) v) (Rl st)).
            { unfold Rl, RlP. erewrite filter_ext; [apply Permutation_filter, Permutation_sym, (Hwf v Hv)|].
              intros a0. unfold not_placed, unplaced, placed, OL. rewrite !memN_app.
              destruct (memN a0 (st_tal st)), (memN a0 (st_left st)), (memN a0 (st_right st)); reflexivity. }
            assert (Hinv : forall r, In r (Rl st) -> In r v).
            { intros r Hr. apply Rl_In in Hr. apply (vote_in v); tauto. }
            destruct Hax as [[(D1 & D2 & D3) ->]|[(D1 & D2 & D3) ->]].
            - rewrite app_assoc. change (st_tal st ++ st_left st) with (OL st).
              apply (ext_drev (OL st) (Rl st) (st_right st) xi0 z w v); auto using Rl_nodup.
              rewrite EOL. apply in_or_app. right. now left.
            - rewrite app_assoc. change (st_tal st ++ st_left st) with (OL st).
              apply (ext_dfwd (OL st) (Rl st) (st_right st) xj0 z w v); auto using Rl_nodup.
              rewrite Er. now left. }
        destruct ok eqn:Eokv; [|left; reflexivity].
        right. right. split; [reflexivity|]. split; [reflexivity|]. split.
        { simpl. rewrite (c_sp st HC). destruct prefs; [congruence|discriminate]. }
        exists ax. split; [reflexivity|].
        unfold sp_check_axis, spw_check_axis. rewrite <- Eok. rewrite andb_true_r.
        apply valid_axis_correct; [exact Hnd|].
        pose proof (placed_nodup st HC) as HndP. pose proof (placed_incl st HC) as HinP.
        unfold placed, OL in HndP, HinP.
        destruct Hax as [[_ ->]|[_ ->]].
        -- now apply placed_mid_perm.
        -- eapply perm_trans; [apply (placed_mid_perm (st_tal st) (st_left st) (st_right st) v Hv HndP HinP)|].
           apply Permutation_app_head, Permutation_app_head, Permutation_app_tail, Permutation_rev.
    + (* first pair: opens the two ends *)
      pose proof (e_ends st HE) as Hends. rewrite Exi in Hends.
      destruct (st_xj st) as [xj0|] eqn:Exj; [contradiction|]. destruct Hends as [El Er].
      set (P' := (st_tal st ++ (st_left st ++ [x])) ++ y :: st_right st).
      assert (HP' : forall c, In c P' <-> In c (placed st) \/ c = x \/ c = y).
      { intros c. unfold P', placed, OL. rewrite !in_app_iff. simpl. rewrite ?in_app_iff. simpl. intuition (subst; auto). }
      rewrite (Hps2 P' HP').
      eexists. split; [reflexivity|]. split.
      2:{ intros HS. split; [exact R1|]. intros _.
          match goal with |- SPext ?s => set (st' := s) end.
          assert (EOL' : OL st' = OL st ++ [x]) by (unfold OL; simpl; now rewrite app_assoc).
          unfold SPext. rewrite EOL'. change (st_right st') with (y :: st_right st). change (Rl st') with (RlP P').
          apply (ext_pair _ (Rl st)); auto using Rl_nodup.
          - unfold RlP. now apply NoDup_filter.
          - apply Hbottom. now left.
          - apply Hbottom. right. now left.
          - now apply Rl_step2.
          - left. intros v Hv b' p Hb' Hp. rewrite Er, app_nil_r in Hp. unfold OL in Hp. rewrite El, app_nil_r in Hp.
            apply (e_T st HE Exi v Hv p Hp b' Hb'). }
      right. left.
      match goal with |- Core ?s /\ _ /\ _ => set (st' := s) end.
      assert (Epl : placed st' = P') by reflexivity.
      destruct (core_pair st st' x y HC Hxa Hxn Hya Hyn Hxy) as [HC' Hlt]; try reflexivity.
      { unfold OL. simpl. now rewrite app_assoc. }
      { intros v Hv. split.
        - intros p Hp. unfold OL in Hp. rewrite El, app_nil_r in Hp. apply (e_T st HE Exi v Hv p Hp x HxR).
        - rewrite Er. intros p []. }
      split; [exact HC'|]. split; [|exact Hlt]. intros _. constructor.
      * simpl. split; [exists (st_left st); reflexivity|exists (st_right st); reflexivity].
      * simpl. intros xi1 xj1 E1 E2 v Hv r Hr. injection E1 as <-. injection E2 as <-.
        apply Rl_In in Hr. destruct Hr as [Hr1 Hr2]. rewrite Epl in Hr2.
        assert (Hr3 : ~ In r (placed st)) by (intros H; apply Hr2; apply HP'; auto).
        assert (Hr4 : r <> x) by (intros H; apply Hr2; apply HP'; auto).
        assert (Hr5 : r <> y) by (intros H; apply Hr2; apply HP'; auto).
        apply (Hbxy v Hv r Hr1 Hr3 Hr4 Hr5).
      * simpl. discriminate.
  - (* ---------------- three or more last candidates ---------------- *)
    cbn [length Nat.leb]. eexists. split; [reflexivity|]. split; [left; reflexivity|].
    intros HS. exfalso.
    assert (D : x <> y /\ x <> z /\ y <> z).
    { inversion Hlcnd as [|? ? N1 Hlc1]; subst. inversion Hlc1 as [|? ? N2 _]; subst.
      repeat split; intros ->; [apply N1; now left|apply N1; right; now left|apply N2; now left]. }
    destruct D as (D1 & D2 & D3).
    assert (Hin3 : forall e, In e [x; y; z] -> In e (Rl st)).
    { intros e He. apply Rl_In. apply Hlcprop. simpl in He. simpl. tauto. }
    apply (ext_three (OL st) (Rl st) (st_right st) x y z (Rl_nodup st) HS D1 D2 D3).
    + apply Hin3. now left.
    + apply Hin3. right. now left.
    + apply Hin3. right. right. now left.
    + apply Hbottom. now left.
    + apply Hbottom. right. now left.
    + apply Hbottom. right. right. now left.
Qed.

(* ---- the whole loop ---- *)
Lemma core_final st : Core st -> Rl st = [] ->
  sp_check_axis alts prefs (st_tal st ++ st_left st ++ st_right st) = true.
Proof.
  intros HC HR. rewrite app_assoc. change ((st_tal st ++ st_left st) ++ st_right st) with (placed st).
  pose proof (placed_nodup st HC) as HndP. pose proof (placed_incl st HC) as HinP.
  unfold sp_check_axis, spw_check_axis. apply andb_true_iff. split.
  - apply valid_axis_correct; [exact Hnd|]. apply NoDup_Permutation; auto.
    intros a. split; [|apply HinP]. intros Ha.
    destruct (in_dec N.eq_dec a (placed st)) as [H|H]; [assumption|].
    exfalso. assert (Hin : In a (Rl st)) by (apply Rl_In; auto). rewrite HR in Hin. contradiction.
  - unfold sp_axis_profile. apply forallb_forall. intros o Ho. apply in_map_iff in Ho.
    destruct Ho as (v & <- & Hv). apply valley_sp_axis_weak. unfold placed.
    apply LC_valley; [exact HndP|]. pose proof (core_LC st v HC Hv) as H. rewrite HR in H. exact H.
Qed.

Definition FinalOK (st' : elo_state) : Prop :=
  st_is_SP st' = false \/ exists ax, elo_result st' = (true, ax) /\ sp_check_axis alts prefs ax = true.

Lemma loop_ok fuel : forall st, Core st -> (Rl st <> [] -> Ends st) -> length (Rl st) <= fuel ->
  exists st', elo_loop fuel prefs st = Ok st' /\ FinalOK st'.
Proof.
  induction fuel as [|f IH]; intros st HC HE Hlen.
  - destruct (c_run st HC) as (R1 & R2 & R3).
    assert (HR : Rl st = []) by (apply length_zero_iff_nil; lia).
    exists st. split.
    + simpl. rewrite R1. simpl. rewrite (c_sp st HC).
      destruct (py_first_prefs (placed st)) as (v0 & Hv0 & ->). cbn [rbind].
      rewrite (vote_filter_length _ v0 Hv0). fold (Rl st). rewrite HR. reflexivity.
    + right. exists (st_tal st ++ st_left st ++ st_right st). split; [|now apply core_final].
      unfold elo_result. now rewrite R1, R3.
  - destruct (c_run st HC) as (R1 & R2 & R3).
    cbn [elo_loop]. rewrite R1. cbn [negb]. rewrite (c_sp st HC).
    destruct (py_first_prefs (placed st)) as (v0 & Hv0 & ->). cbn [rbind].
    rewrite (vote_filter_length _ v0 Hv0). fold (Rl st). rewrite R2. cbn [negb]. rewrite andb_true_r.
    destruct (Rl st) as [|r0 rl0] eqn:ER.
    + exists st. split; [reflexivity|]. right. exists (st_tal st ++ st_left st ++ st_right st).
      split; [|now apply core_final]. unfold elo_result. now rewrite R1, R3.
    + cbn [length Nat.leb].
      assert (HR : Rl st <> []) by (rewrite ER; discriminate).
      destruct (round_ok st HC (HE ltac:(discriminate)) HR) as (st' & Eround & [Hfalse|[(HC' & HE' & Hlt)|Hfin]] & _).
      * rewrite Eround. cbn [rbind]. exists st'. split; [|now left].
        destruct f; simpl; rewrite Hfalse; reflexivity.
      * rewrite Eround. cbn [rbind]. apply IH; auto. rewrite ER in Hlt. simpl in Hlt, Hlen. lia.
      * rewrite Eround. cbn [rbind]. destruct Hfin as (F1 & F2 & F3 & ax & F4 & F5).
        exists st'. split.
        -- destruct (st_prefs_SP st') as [|p0 ps] eqn:Eps; [congruence|].
           destruct f; simpl; rewrite F1, Eps, F2; simpl; rewrite andb_false_r; reflexivity.
        -- right. exists ax. split; [|assumption]. unfold elo_result. now rewrite F1, F4.
Qed.

Lemma loop_complete fuel : forall st, Core st -> (Rl st <> [] -> Ends st) -> SPext st -> length (Rl st) <= fuel ->
  exists st', elo_loop fuel prefs st = Ok st' /\ st_is_SP st' = true.
Proof.
  induction fuel as [|f IH]; intros st HC HE HS Hlen.
  - destruct (c_run st HC) as (R1 & R2 & R3).
    assert (HR : Rl st = []) by (apply length_zero_iff_nil; lia).
    exists st. split; [|exact R1].
    simpl. rewrite R1. simpl. rewrite (c_sp st HC).
    destruct (py_first_prefs (placed st)) as (v0 & Hv0 & ->). cbn [rbind].
    rewrite (vote_filter_length _ v0 Hv0). fold (Rl st). rewrite HR. reflexivity.
  - destruct (c_run st HC) as (R1 & R2 & R3).
    cbn [elo_loop]. rewrite R1. cbn [negb]. rewrite (c_sp st HC).
    destruct (py_first_prefs (placed st)) as (v0 & Hv0 & ->). cbn [rbind].
    rewrite (vote_filter_length _ v0 Hv0). fold (Rl st). rewrite R2. cbn [negb]. rewrite andb_true_r.
    destruct (Rl st) as [|r0 rl0] eqn:ER.
    + exists st. split; [reflexivity|exact R1].
    + cbn [length Nat.leb].
      assert (HR : Rl st <> []) by (rewrite ER; discriminate).
      destruct (round_ok st HC (HE ltac:(discriminate)) HR) as (st' & Eround & Hstep & Hcompl).
      destruct (Hcompl HS) as [Hsp' Hext'].
      rewrite Eround. cbn [rbind].
      destruct Hstep as [Hfalse|[(HC' & HE' & Hlt)|Hfin]].
      * congruence.
      * apply IH; auto.
        -- apply Hext'. apply (c_run st' HC').
        -- rewrite ER in Hlt. simpl in Hlt, Hlen. lia.
      * destruct Hfin as (F1 & F2 & F3 & ax & F4 & F5).
        exists st'. split; [|exact F1].
        destruct (st_prefs_SP st') as [|p0 ps] eqn:Eps; [congruence|].
        destruct f; simpl; rewrite F1, Eps, F2; simpl; rewrite andb_false_r; reflexivity.
Qed.

Lemma core_init : Core (elo_init prefs) /\ Ends (elo_init prefs) /\ Rl (elo_init prefs) = alts.
Proof.
  assert (HRl : Rl (elo_init prefs) = alts).
  { unfold Rl, RlP, placed, OL. simpl. apply filter_all_true. intros b _. reflexivity. }
  split; [|split; [|exact HRl]].
  - constructor.
    + simpl. auto.
    + unfold placed, OL. simpl. rewrite <- (map_id prefs) at 1. apply map_ext. intros v.
      symmetry. apply filter_all_true. intros b _. reflexivity.
    + unfold OL. simpl. split; [constructor|]. split; [intros a []|].
      intros v Hv. split; intros pre c post E; destruct pre; discriminate.
  - constructor.
    + simpl. auto.
    + simpl. discriminate.
    + simpl. intros _ v Hv t [].
Qed.

Theorem elo_total : exists b ax, elo alts prefs = Ok (b, ax) /\ (b = true -> sp_check_axis alts prefs ax = true).
Proof.
  destruct core_init as (HC & HE & HR).
  destruct (loop_ok (length alts) (elo_init prefs) HC (fun _ => HE)) as (st' & E & Hfin).
  { rewrite HR. lia. }
  unfold elo, elo_run. rewrite E. cbn [rmap].
  destruct Hfin as [Hf|(ax & Er & Hs)].
  - exists false, []. split; [unfold elo_result; now rewrite Hf|discriminate].
  - exists true, ax. split; [now rewrite Er|auto].
Qed.
Theorem elo_complete_main : SP alts prefs -> exists ax, elo alts prefs = Ok (true, ax).
Proof.
  intros (axis & Hperm & Hsp).
  destruct core_init as (HC & HE & HR).
  assert (HS : SPext (elo_init prefs)).
  { unfold SPext. rewrite HR. exists axis. split; [now apply Permutation_sym|].
    intros v Hv. unfold OL. simpl. rewrite app_nil_r. apply vf_valley. apply sp_axis_weak_valley.
    apply axis_test_correct_gen.
    - intros a. rewrite concat_strictify. split; intros Ha.
      + apply (vote_in v a Hv). eapply Permutation_in; [apply Permutation_sym; exact Hperm|exact Ha].
      + eapply Permutation_in; [exact Hperm|]. now apply (vote_in v a Hv).
    - eapply Permutation_NoDup; eauto.
    - intros k. rewrite concat_firstn_strictify. now apply Hsp. }
  destruct (loop_complete (length alts) (elo_init prefs) HC (fun _ => HE) HS) as (st' & E & Hsp').
  { rewrite HR. lia. }
  unfold elo, elo_run. rewrite E. cbn [rmap]. unfold elo_result. rewrite Hsp'. eauto.
Qed.
End Main.

(* ---------------------------------------------------------------------------------------------- *)
(* theorems in closed form                                                                         *)

Definition wf_strict_profile (alts : list N) (prefs : list (list N)) : Prop :=
  NoDup alts /\ Forall (fun v => Permutation alts v) prefs /\ prefs <> [].

Theorem elo_terminates alts prefs : wf_strict_profile alts prefs -> elo alts prefs <> Err OutOfFuel.
Proof.
  intros (H1 & H2 & H3). rewrite Forall_forall in H2.
  destruct (elo_total alts prefs H1 H2 H3) as (b & ax & E & _). rewrite E. discriminate.
Qed.

Theorem elo_no_error alts prefs : wf_strict_profile alts prefs -> exists b ax, elo alts prefs = Ok (b, ax).
Proof.
  intros (H1 & H2 & H3). rewrite Forall_forall in H2.
  destruct (elo_total alts prefs H1 H2 H3) as (b & ax & E & _). eauto.
Qed.

Theorem elo_sound alts prefs ax : wf_strict_profile alts prefs ->
  elo alts prefs = Ok (true, ax) -> sp_check_axis alts prefs ax = true.
Proof.
  intros (H1 & H2 & H3) E. rewrite Forall_forall in H2.
  destruct (elo_total alts prefs H1 H2 H3) as (b & ax' & E' & Hs). rewrite E in E'.
  injection E' as <- <-. now apply Hs.
Qed.

Theorem elo_sound_spec alts prefs ax : wf_strict_profile alts prefs ->
  elo alts prefs = Ok (true, ax) ->
  (NoDup ax /\ forall a, In a ax <-> In a alts) /\ SP_axis prefs ax.
Proof.
  intros Hwf E. pose proof (elo_sound alts prefs ax Hwf E) as H. destruct Hwf as (H1 & H2 & _).
  now apply sp_check_axis_correct in H.
Qed.

(* the Escoffier-Lang-Ozturk correctness theorem for the mirror: a single-peaked profile is accepted *)
Theorem elo_complete alts prefs : wf_strict_profile alts prefs ->
  SP alts prefs -> exists ax, elo alts prefs = Ok (true, ax).
Proof.
  intros (H1 & H2 & H3). rewrite Forall_forall in H2. now apply elo_complete_main.
Qed.

(* verdict exact, witness valid: the C03 statement for the mirrored algorithm *)
Theorem elo_correct alts prefs : wf_strict_profile alts prefs ->
  exists verdict ax, elo alts prefs = Ok (verdict, ax) /\
    (verdict = true <-> SP alts prefs) /\
    (verdict = true -> (NoDup ax /\ forall a, In a ax <-> In a alts) /\ SP_axis prefs ax).
Proof.
  intros Hwf. destruct (elo_no_error alts prefs Hwf) as (b & ax & E). exists b, ax. split; [exact E|].
  split; [split|].
  - intros ->. destruct (elo_sound_spec alts prefs ax Hwf E) as [Hax Hsp]. exists ax. split; [|exact Hsp].
    destruct Hwf as (H1 & _ & _). now apply perm_iff_exactly_once.
  - intros HSP. destruct (elo_complete alts prefs Hwf HSP) as (ax' & E'). rewrite E in E'. now injection E' as -> _.
  - intros ->. now apply elo_sound_spec.
Qed.

(* hence the mirror agrees with the verified reference decider *)
Theorem elo_agrees_reference alts prefs : wf_strict_profile alts prefs ->
  exists ax, elo alts prefs = Ok (sp_decide alts prefs, ax).
Proof.
  intros Hwf. destruct (elo_correct alts prefs Hwf) as (b & ax & E & Hiff & _). exists ax. rewrite E.
  destruct Hwf as (H1 & H2 & _). f_equal. f_equal. apply eq_true_iff_eq.
  rewrite Hiff. symmetry. now apply sp_decide_correct.
Qed.
