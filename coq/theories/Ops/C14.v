(* Ops/C14.v — protocol entry points for property C14 (Bucklin and fallback voting).
   instance payload as in Ops/C06.v. *)
From Coq Require Import List ZArith NArith String.
From PrefVerif Require Import Lib.Val Model.Scoring Model.Bucklin Ops.C06.
Import ListNotations.
Open Scope string_scope.

Definition ops : optable :=
  [ ("c14.both", fun v => VL [e_winners (fallback_winner (d_inst v)); e_winners (bucklin_winner (d_inst v))]);
    ("c14.fallback", fun v => e_winners (fallback_winner (d_inst v)));
    ("c14.bucklin", fun v => e_winners (bucklin_winner (d_inst v))) ].
