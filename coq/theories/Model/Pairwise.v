(* Model/Pairwise.v — mirror model of preflibtools/properties/pairwisecomparisons.py
   (pairwise_scores, copeland_scores, has_condorcet, borda_scores) and of
   preflibtools/instances/convert.py (order_to_pwg) — property C07.
   Executable definitions only; the proofs are in Proofs/Pairwise.v.

   Conventions: alternatives and multiplicities are N, table entries are Z (Python ints that can
   become negative), a dict is an association list in insertion order, `d[k] += v` on an existing
   key replaces the value in place.  `scores[w][b] += k` on a key that is absent raises KeyError in
   Python; the model leaves the table unchanged there — this only happens outside the domain of the
   property (ballot mentions an alternative that is not a key of alternatives_name, or mentions an
   alternative twice), see `wf_inst`. *)
From Coq Require Import List Arith NArith ZArith Bool.
From PrefVerif Require Import Lib.Val.
Import ListNotations.

Definition text := list N.                       (* code points *)
Definition order := list (list N).               (* indifference classes, best first *)

(* instance.data_type *)
Inductive dtype := SOC | SOI | TOC | TOI | CAT | WMD | DTOther.

Record inst := mkInst {
  alts_name : list (N * text);        (* alternatives_name.items(), insertion order *)
  num_alternatives : N;               (* the header field (not recomputed by the code) *)
  num_voters : N;
  mult : list (order * N);            (* multiplicity.items(), insertion order; instance.orders = its keys *)
  data_type : dtype
}.

Definition alts (i : inst) : list N := map fst (alts_name i).

(* @requires_preference_type("soc", "toc", "soi", "toi") *)
Definition is_ordinal (d : dtype) : bool :=
  match d with SOC | SOI | TOC | TOI => true | _ => false end.
(* @requires_preference_type("toc", "soc") *)
Definition is_complete_type (d : dtype) : bool :=
  match d with SOC | TOC => true | _ => false end.

(* ---------- dict of dicts ---------- *)
Definition row := list (N * Z).
Definition table := list (N * row).

Definition mem (a : N) (l : list N) : bool := existsb (N.eqb a) l.

(* {a: 0 for a in alternatives_name if a != alt} *)
Definition others (al : list N) (alt : N) : list N := filter (fun a => negb (N.eqb a alt)) al.
(* {alt: {a: 0 ...} for alt in alternatives_name} *)
Definition init_table (al : list N) : table :=
  map (fun alt => (alt, map (fun a => (a, 0%Z)) (others al alt))) al.

Fixpoint rget (r : row) (b : N) : option Z :=
  match r with
  | [] => None
  | (x, v) :: r' => if N.eqb x b then Some v else rget r' b
  end.
Fixpoint tget_row (t : table) (a : N) : option row :=
  match t with
  | [] => None
  | (x, r) :: t' => if N.eqb x a then Some r else tget_row t' a
  end.
(* t[a][b] *)
Definition tget (t : table) (a b : N) : option Z :=
  match tget_row t a with Some r => rget r b | None => None end.

(* r[b] += d *)
Fixpoint row_add (r : row) (b : N) (d : Z) : row :=
  match r with
  | [] => []
  | (x, v) :: r' => if N.eqb x b then (x, (v + d)%Z) :: r' else (x, v) :: row_add r' b d
  end.
(* t[w][b] += d *)
Fixpoint tbl_add (t : table) (w b : N) (d : Z) : table :=
  match t with
  | [] => []
  | (x, r) :: t' => if N.eqb x w then (x, row_add r b d) :: t' else (x, r) :: tbl_add t' w b d
  end.

(* ---------- pairwise_scores ----------
   for order, multiplicity in instance.multiplicity.items():
       alternatives_before = []
       for indif_class in order:
           for alt_beaten in indif_class:
               for alt_winning in alternatives_before:
                   scores[alt_winning][alt_beaten] += multiplicity
           alternatives_before.extend(indif_class)                                   *)
Definition pw_class (k : Z) (st : table * list N) (cls : list N) : table * list N :=
  let '(t, before) := st in
  (fold_left (fun t beaten =>
     fold_left (fun t winning => tbl_add t winning beaten k) before t) cls t,
   before ++ cls).
Definition pw_order (t : table) (ok : order * N) : table :=
  fst (fold_left (pw_class (Z.of_N (snd ok))) (fst ok) (t, [])).
Definition pairwise_table (i : inst) : table :=
  fold_left pw_order (mult i) (init_table (alts i)).
Definition pairwise_scores (i : inst) : result table :=
  if is_ordinal (data_type i) then Ok (pairwise_table i) else Err Incompatible.

(* ---------- copeland_scores ---------- same loops, two updates per pair *)
Definition cp_class (k : Z) (st : table * list N) (cls : list N) : table * list N :=
  let '(t, before) := st in
  (fold_left (fun t beaten =>
     fold_left (fun t winning =>
       tbl_add (tbl_add t winning beaten k) beaten winning (- k)%Z) before t) cls t,
   before ++ cls).
Definition cp_order (t : table) (ok : order * N) : table :=
  fst (fold_left (cp_class (Z.of_N (snd ok))) (fst ok) (t, [])).
Definition copeland_table (i : inst) : table :=
  fold_left cp_order (mult i) (init_table (alts i)).
Definition copeland_scores (i : inst) : result table :=
  if is_ordinal (data_type i) then Ok (copeland_table i) else Err Incompatible.

(* ---------- has_condorcet ---------- (current code: table initialised over all ordered pairs)
       for alt_winning in alternatives_before:
           score_dict_win = scores[alt_winning]
           for alt_beaten in indif_class:
               score_dict_win[alt_beaten] += multiplicity
               scores[alt_beaten][alt_winning] -= multiplicity
   if weak_condorcet: return any(all(v >= 0 for v in s.values()) for s in scores.values())
   return any(all(v > 0 for v in s.values()) for s in scores.values())                *)
Definition cd_class (k : Z) (st : table * list N) (cls : list N) : table * list N :=
  let '(t, before) := st in
  (fold_left (fun t winning =>
     fold_left (fun t beaten =>
       tbl_add (tbl_add t winning beaten k) beaten winning (- k)%Z) cls t) before t,
   before ++ cls).
Definition cd_order (t : table) (ok : order * N) : table :=
  fst (fold_left (cd_class (Z.of_N (snd ok))) (fst ok) (t, [])).
Definition condorcet_table (i : inst) : table :=
  fold_left cd_order (mult i) (init_table (alts i)).
Definition row_ok (weak : bool) (r : row) : bool :=
  forallb (fun bv => if weak then (0 <=? snd bv)%Z else (0 <? snd bv)%Z) r.
Definition has_condorcet (i : inst) (weak : bool) : result bool :=
  if is_ordinal (data_type i)
  then Ok (existsb (fun ar => row_ok weak (snd ar)) (condorcet_table i))
  else Err Incompatible.

(* ---------- borda_scores ---------- defaultdict(lambda: 0)
   for order in instance.orders:
       multiplicity = instance.multiplicity[order]
       i = instance.num_alternatives
       for indif_class in order:
           i -= len(indif_class)
           for alt in indif_class:
               res[alt] += i * multiplicity                                            *)
Fixpoint dd_add (r : row) (a : N) (d : Z) : row :=
  match r with
  | [] => [(a, d)]                                   (* missing key: 0 + d, appended *)
  | (x, v) :: r' => if N.eqb x a then (x, (v + d)%Z) :: r' else (x, v) :: dd_add r' a d
  end.
Definition bd_class (k : Z) (st : row * Z) (cls : list N) : row * Z :=
  let '(r, i) := st in
  let i' := (i - Z.of_nat (length cls))%Z in
  (fold_left (fun r alt => dd_add r alt (i' * k)%Z) cls r, i').
Definition bd_order (m : Z) (r : row) (ok : order * N) : row :=
  fst (fold_left (bd_class (Z.of_N (snd ok))) (fst ok) (r, m)).
Definition borda_table (i : inst) : row :=
  fold_left (bd_order (Z.of_N (num_alternatives i))) (mult i) [].
Definition borda_scores (i : inst) : result row :=
  if is_complete_type (data_type i) then Ok (borda_table i) else Err Incompatible.

(* ---------- order_to_pwg ---------- as a structured value:
   str(num_alternatives); one "alt,name" line per alternative; "num_voters,sum,num_unique";
   one "score,a,b" line per table entry in iteration order *)
Record pwg := mkPwg {
  pwg_num_alternatives : N;
  pwg_alt_lines : list (N * text);
  pwg_num_voters : N;
  pwg_sum : Z;
  pwg_num_unique : N;
  pwg_lines : list (Z * N * N)
}.
Definition pwg_entries (t : table) : list (Z * N * N) :=
  flat_map (fun ar => map (fun bv => (snd bv, fst ar, fst bv)) (snd ar)) t.
Definition order_to_pwg (i : inst) : result pwg :=
  rbind (pairwise_scores i) (fun t =>
    let ls := pwg_entries t in
    Ok (mkPwg (num_alternatives i) (alts_name i) (num_voters i)
              (fold_left (fun s l => (s + fst (fst l))%Z) ls 0%Z)
              (fold_left (fun n _ => (n + 1)%N) ls 0%N)
              ls)).

(* ---------- specification vocabulary (used by the theorems) ---------- *)
(* position of the indifference class containing a; None = a is not ranked by o *)
Fixpoint class_index (o : order) (a : N) : option nat :=
  match o with
  | [] => None
  | c :: r => if mem a c then Some 0 else option_map S (class_index r a)
  end.
(* the voter ranks a strictly above b: both are ranked and a's class comes first *)
Definition above (o : order) (a b : N) : bool :=
  match class_index o a, class_index o b with
  | Some x, Some y => x <? y
  | _, _ => false
  end.
(* number of voters (with multiplicity) ranking a strictly above b *)
Definition pw (p : list (order * N)) (a b : N) : Z :=
  fold_right (fun ok s => ((if above (fst ok) a b then Z.of_N (snd ok) else 0) + s)%Z) 0%Z p.
Definition margin (p : list (order * N)) (a b : N) : Z := (pw p a b - pw p b a)%Z.
(* full_profile(): every order repeated by its multiplicity *)
Definition expand (p : list (order * N)) : list order :=
  flat_map (fun ok => repeat (fst ok) (N.to_nat (snd ok))) p.
(* Borda points one voter with order o gives to a when the header says m alternatives:
   m minus the number of alternatives in a's class and in the classes before it; 0 if unranked *)
Definition borda_pts (m : Z) (o : order) (a : N) : Z :=
  match class_index o a with
  | Some j => (m - Z.of_nat (length (concat (firstn (S j) o))))%Z
  | None => 0%Z
  end.
Definition borda_total (m : Z) (p : list (order * N)) (a : N) : Z :=
  fold_right (fun ok s => (borda_pts m (fst ok) a * Z.of_N (snd ok) + s)%Z) 0%Z p.
Definition ranked (p : list (order * N)) (a : N) : bool :=
  existsb (fun ok => mem a (concat (fst ok))) p.
(* ordered pairs of distinct alternatives, in table iteration order *)
Definition ordered_pairs (al : list N) : list (N * N) :=
  flat_map (fun a => map (fun b => (a, b)) (others al a)) al.

(* ---------- the domain of the property (hypotheses of the theorems) ---------- *)
Definition wf_order (o : order) : Prop := NoDup (concat o) /\ Forall (fun c => c <> []) o.
Definition wf_inst (i : inst) : Prop :=
  (2 <= length (alts i))%nat /\                      (* at least two alternatives *)
  NoDup (alts i) /\                                  (* dict keys *)
  NoDup (map fst (mult i)) /\                        (* dict keys *)
  Forall (fun ok => wf_order (fst ok) /\ incl (concat (fst ok)) (alts i)) (mult i).
