(* Ops/C15.v — protocol entry points for property C15 (label and storage-order invariance).
   The correspondence of C15 is metamorphic on the implementation; on the model side it only needs the witness
   checkers the sibling properties already export (c03.check_axis, c11.check_axis, c04.check, c13.check,
   c05.*_check, c12.cert_*, c18.check, c19.check).  The ops below expose the relabelling helpers of Model/Relabel.v
   so that the harness can cross-check its own twin construction against the model's.
     c15.map_profile ((a fa) ...) profile -> profile   (orders as class lists; unknown labels are left unchanged) *)
From Coq Require Import List NArith String.
From PrefVerif Require Import Lib.Val Model.Relabel.
Import ListNotations.
Open Scope string_scope.

Definition lookup_f (tbl : list (N * N)) (a : N) : N :=
  match find (fun e => N.eqb (fst e) a) tbl with Some e => snd e | None => a end.

Definition op_map_profile (v : val) : val :=
  let f := lookup_f (dlist (dpair dN dN) (dnth 0 v)) in
  elist (elist (elist eN)) (map_profile f (dlist (dlist (dlist dN)) (dnth 1 v))).

Definition ops : optable := [ ("c15.map_profile", op_map_profile) ].
