(* Model/SC.v — single-crossing profiles (C04; reused by C15, C19).
   Shape (R): specification + verified witness checker + verified reference deciders.
   The sort/bucket strategy of preflibtools' is_single_crossing is NOT mirrored.
   Definitions only; proofs are in Proofs/SC.v.

   Rankings are flat strict complete orders, `list N`, best first
   (= the tuples returned by OrdinalInstance.flatten_strict()). *)
From Coq Require Import List Arith NArith Bool Permutation.
From PrefVerif Require Import Lib.Perms Model.Distances.
Import ListNotations.

(* ---------------------------------------------------------------------------------------------- *)
(* prefers o a b : a is ranked before b in o.
   = (o.index(a) < o.index(b)) of is_single_crossing_conflict_sets when both occur; total version:
   true iff a occurs in o, a <> b, and the first occurrence of a precedes every occurrence of b. *)
Fixpoint prefers (o : list N) (a b : N) : bool :=
  match o with
  | [] => false
  | x :: t => if N.eqb x a then negb (N.eqb x b)
              else if N.eqb x b then false
              else prefers t a b
  end.

(* number of adjacent positions of the sequence s where the relative order of a and b changes *)
Fixpoint switches (a b : N) (s : list (list N)) : nat :=
  match s with
  | [] => 0
  | o1 :: t =>
      match t with
      | [] => 0
      | o2 :: _ => (if Bool.eqb (prefers o1 a b) (prefers o2 a b) then 0 else 1) + switches a b t
      end
  end.

(* ---------------------------------------------------------------------------------------------- *)
(* Specification (copied from the property text): the orders can be arranged in a sequence along
   which every pair of alternatives switches relative order at most once. *)
Definition single_crossing_seq (alts : list N) (s : list (list N)) : Prop :=
  forall a b, In a alts -> In b alts -> a <> b -> switches a b s <= 1.

Definition SC (alts : list N) (orders : list (list N)) : Prop :=
  exists s, Permutation orders s /\ single_crossing_seq alts s.

(* the domain of the property: a duplicate-free list of strict complete orders over alts *)
Definition wf_profile (alts : list N) (orders : list (list N)) : Prop :=
  NoDup alts /\ NoDup orders /\ Forall (fun o => Permutation alts o) orders.

(* ---------------------------------------------------------------------------------------------- *)
(* Sequence checker.  A boolean sequence with at most one change has the form x* or x* y* (y <> x):
   scan the constant prefix, then the rest must be constant. *)
Fixpoint mono (l : list bool) : bool :=
  match l with
  | [] => true
  | x :: t =>
      match t with
      | [] => true
      | y :: _ => if Bool.eqb x y then mono t else forallb (Bool.eqb y) t
      end
  end.

Definition pair_ok (s : list (list N)) (a b : N) : bool :=
  if N.eqb a b then true else mono (map (fun o => prefers o a b) s).

Definition sc_seq_check (alts : list N) (s : list (list N)) : bool :=
  forallb (fun a => forallb (pair_ok s a) alts) alts.

(* ---------------------------------------------------------------------------------------------- *)
(* Witness checker: s contains every distinct order of the profile exactly once, and is a
   single-crossing sequence. *)
Fixpoint order_eqb (o1 o2 : list N) : bool :=
  match o1, o2 with
  | [], [] => true
  | x :: t1, y :: t2 => N.eqb x y && order_eqb t1 t2
  | _, _ => false
  end.

Definition mem_order (o : list N) (l : list (list N)) : bool := existsb (order_eqb o) l.

Fixpoint nodup_b (l : list (list N)) : bool :=
  match l with
  | [] => true
  | x :: t => negb (mem_order x t) && nodup_b t
  end.

Definition same_orders (orders s : list (list N)) : bool :=
  nodup_b s && forallb (fun o => mem_order o orders) s && forallb (fun o => mem_order o s) orders.

Definition sc_witness_check (alts : list N) (orders s : list (list N)) : bool :=
  same_orders orders s && sc_seq_check alts s.

(* ---------------------------------------------------------------------------------------------- *)
(* Reference decider 1: brute force over the arrangements (n! sequences; run for n <= 7). *)
Definition sc_decide (alts : list N) (orders : list (list N)) : bool :=
  existsb (sc_seq_check alts) (perms orders).

(* ---------------------------------------------------------------------------------------------- *)
(* Reference decider 2 (polynomial): there is a first voter v whose conflict sets with all the
   other voters are nested (form a chain under inclusion).
   conflict v o a b : v and o rank the pair (a,b) differently;
   conf_sub alts v j k : conflict set of (v,j) is included in the conflict set of (v,k). *)
Definition conflict (v o : list N) (a b : N) : bool := xorb (prefers v a b) (prefers o a b).

Definition conf_sub (alts : list N) (v j k : list N) : bool :=
  forallb (fun a => forallb (fun b => implb (conflict v j a b) (conflict v k a b)) alts) alts.

Definition chain_from (alts : list N) (orders : list (list N)) (v : list N) : bool :=
  forallb (fun j => forallb (fun k => conf_sub alts v j k || conf_sub alts v k j) orders) orders.

Definition sc_conflict_decide (alts : list N) (orders : list (list N)) : bool :=
  match orders with
  | [] => true
  | _ => existsb (chain_from alts orders) orders
  end.

(* ---------------------------------------------------------------------------------------------- *)
(* Heredity: restriction to a set S of alternatives, selection of voters by a boolean mask. *)
Definition memN (x : N) (S : list N) : bool := existsb (N.eqb x) S.
Definition restrict (S : list N) (o : list N) : list N := filter (fun x => memN x S) o.

Fixpoint select {T} (mask : list bool) (l : list T) : list T :=
  match mask, l with
  | b :: mt, x :: t => if b then x :: select mt t else select mt t
  | _, _ => []
  end.

(* true ==> the profile is NOT single-crossing (Proofs/SC.v: sc_core_refutes_sound):
   the voters selected by mask, restricted to S, already admit no single-crossing arrangement *)
Definition sc_core_refutes (alts : list N) (orders : list (list N)) (S : list N) (mask : list bool) : bool :=
  negb (sc_decide (restrict S alts) (map (restrict S) (select mask orders))).

(* distinct orders, first occurrences dropped (order irrelevant for SC) *)
Fixpoint dedup (l : list (list N)) : list (list N) :=
  match l with
  | [] => []
  | x :: t => if mem_order x t then dedup t else x :: dedup t
  end.

(* the unordered pairs of a list, each once (first component listed first) *)
Fixpoint pairs (l : list N) : list (N * N) :=
  match l with [] => [] | x :: t => map (pair x) t ++ pairs t end.

(* ---------------------------------------------------------------------------------------------- *)
(* Mirror of _is_ordered_profile_single_crossing (the verification pass of is_single_crossing):
     for i in range(1, len(profile) - 1):
         if K(profile[0], profile[i]) + K(profile[i], profile[i+1]) != K(profile[0], profile[i+1]): return False
     return True
   with K = kendall_tau_distance (Model/Distances.v: kendall_tau o1 o2 = Ok (kt_count o2 o1) on rankings of equal
   length over the same alternatives). *)
Definition ktd (o1 o2 : list N) : nat := kt_count o2 o1.

Fixpoint ordered_check_from (first : list N) (l : list (list N)) : bool :=
  match l with
  | [] => true
  | oi :: t =>
      match t with
      | [] => true
      | oi1 :: _ => (ktd first oi + ktd oi oi1 =? ktd first oi1) && ordered_check_from first t
      end
  end.

Definition ordered_check (s : list (list N)) : bool :=
  match s with
  | [] => true
  | first :: t => ordered_check_from first t
  end.
