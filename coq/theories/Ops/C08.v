(* Ops/C08.v — protocol entry points for the categorical file model (C08; reused by C10 / C16).

   Encoding of an instance (both directions), a list of 9 items:
     ( (file_name title description data_type modification_type relates_to related_files
        publication_date modification_date)            nine texts
       num_alternatives num_voters
       ((alt name) ...)                               alternatives_name in insertion order
       num_unique_preferences num_categories
       ((cat name) ...)                               categories_name in insertion order
       (ballot ...)                                   preferences; ballot = ((alt ...) ...)
       ((ballot mult) ...) )                          multiplicity in insertion order
   text = list of code points.  reserved_names is internal parser state and is not transmitted. *)
From Coq Require Import List ZArith NArith String.
From PrefVerif Require Import Lib.Val Lib.Dec Lib.PyStr Model.Meta Model.CatIO.
Import ListNotations.
Open Scope string_scope.

Definition d_text (v : val) : text := dlist dN v.
Definition e_text (t : text) : val := elist eN t.
Definition d_ballot (v : val) : ballot := dlist (dlist dN) v.
Definition e_ballot (b : ballot) : val := elist (elist eN) b.

Definition d_meta (texts : val) (na nv : val) (alts : val) : meta :=
  mkMeta (d_text (dnth 0 texts)) (d_text (dnth 1 texts)) (d_text (dnth 2 texts)) (d_text (dnth 3 texts))
         (d_text (dnth 4 texts)) (d_text (dnth 5 texts)) (d_text (dnth 6 texts)) (d_text (dnth 7 texts))
         (d_text (dnth 8 texts)) (dN na) (dN nv) (dlist (dpair dN d_text) alts) [].

Definition d_cinst (v : val) : cinst :=
  mkCinst (d_meta (dnth 0 v) (dnth 1 v) (dnth 2 v) (dnth 3 v))
          (dN (dnth 4 v)) (dN (dnth 5 v)) (dlist (dpair dN d_text) (dnth 6 v))
          (dlist d_ballot (dnth 7 v)) (dlist (dpair d_ballot dN) (dnth 8 v)).

Definition e_cinst (i : cinst) : val :=
  let m := c_meta i in
  VL [ VL (map e_text [file_name m; title m; description m; data_type m; modification_type m;
                       relates_to m; related_files m; publication_date m; modification_date m]);
       eN (num_alternatives m); eN (num_voters m); elist (epair eN e_text) (alt_names m);
       eN (c_num_unique i); eN (c_num_categories i); elist (epair eN e_text) (c_cat_names i);
       elist e_ballot (c_prefs i); elist (epair e_ballot eN) (c_mult i) ].

(* c08.write : instance -> (0 text) | (1 5) when a ballot has no entry in the multiplicity table *)
Definition op_write (v : val) : val := eresult e_text (cat_write_checked (d_cinst v)).

(* c08.sorted_view : instance -> instance as the parser rebuilds it from the written file *)
Definition op_sorted_view (v : val) : val := e_cinst (sorted_view (d_cinst v)).

(* the object state parse_file / parse_str leave before parse_lines: file_name and data_type *)
Definition start_meta (fname dtype : text) : meta := set_file_name (meta0 dtype) fname.

(* c08.parse_lines : (autocorrect header_only file_name data_type (line ...)) *)
Definition op_parse_lines (v : val) : val :=
  eresult e_cinst (cat_parse (dbool (dnth 0 v)) (dbool (dnth 1 v))
                             (start_meta (d_text (dnth 2 v)) (d_text (dnth 3 v)))
                             (dlist d_text (dnth 4 v))).

(* c08.parse : (autocorrect header_only mode file_name data_type text)
   mode 0 = file.readlines() (parse_file), 1 = str.splitlines() (parse_str), 2 = parse_url's lines *)
Definition split_mode (mode : nat) (t : text) : list text :=
  match mode with 0 => readlines t | 1 => splitlines t | _ => urllines t end.
Definition op_parse (v : val) : val :=
  eresult e_cinst (cat_parse (dbool (dnth 0 v)) (dbool (dnth 1 v))
                             (start_meta (d_text (dnth 3 v)) (d_text (dnth 4 v)))
                             (split_mode (dnat (dnth 2 v)) (d_text (dnth 5 v)))).

(* c08.tokenize : text -> (token ...)        re.findall(pref_pattern, text) *)
Definition op_tokenize (v : val) : val := elist e_text (tokenize (d_text v)).

(* c08.findall : text -> (token ...)         the declarative reading of the pattern (specification of tokenize) *)
Definition op_findall (v : val) : val := elist e_text (findall (d_text v)).

(* c08.pref : text -> ballot                  the part of a ballot line after the colon *)
Definition op_pref (v : val) : val := eresult e_ballot (parse_pref (d_text v)).

(* c08.line : ((ballot mult) ...) ballot -> text       one written ballot line *)
Definition op_line (v : val) : val :=
  e_text (ballot_line (dlist (dpair d_ballot dN) (dnth 0 v)) (d_ballot (dnth 1 v))).

Definition ops : optable :=
  [ ("c08.write", op_write); ("c08.sorted_view", op_sorted_view); ("c08.parse_lines", op_parse_lines);
    ("c08.parse", op_parse); ("c08.tokenize", op_tokenize); ("c08.findall", op_findall); ("c08.pref", op_pref); ("c08.line", op_line) ].
