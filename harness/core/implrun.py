"""Run implementation-side functions in forked workers under a watchdog.

run(fn, items, timeout_s, nproc) -> list of results, one per item, where a result is either the value
returned by fn(item) or {"timeout": seconds} / {"crash": text}.  fn must be a module-level callable (it is
inherited through fork, nothing is pickled but the item and the result)."""
import multiprocessing as mp
import os
import sys
import time
import traceback


def _silence_fds():
    """CBC and some preflibtools functions print to fd 1; keep the check's stdout clean."""
    devnull = os.open(os.devnull, os.O_WRONLY)
    os.dup2(devnull, 1)
    sys.stdout = open(os.devnull, "w")


def _worker(fn, conn):
    _silence_fds()
    import warnings
    warnings.simplefilter("ignore")
    while True:
        try:
            msg = conn.recv()
        except EOFError:
            return
        if msg is None:
            return
        i, item = msg
        try:
            r = fn(item)
        except BaseException as e:  # the adapters catch expected exceptions themselves
            r = {"crash": "".join(traceback.format_exception_only(type(e), e)).strip()[:500]}
        try:
            conn.send((i, r))
        except Exception as e:
            conn.send((i, {"crash": "unsendable result: %r" % (e,)}))


class _W:
    def __init__(self, ctx, fn):
        self.parent, child = ctx.Pipe()
        self.proc = ctx.Process(target=_worker, args=(fn, child), daemon=True)
        self.proc.start()
        child.close()
        self.cur = None
        self.t0 = 0.0

    def kill(self):
        try:
            self.proc.kill()
            self.proc.join(1)
        except Exception:
            pass


def run(fn, items, timeout_s=20.0, nproc=None, max_timeouts=10):
    """After max_timeouts watchdog timeouts the remaining items are not started ({'skipped': True}): the violation is
    established and every further hang would cost timeout_s of a worker."""
    n = len(items)
    n_timeouts = 0
    res = [None] * n
    if n == 0:
        return res
    nproc = max(1, min(nproc or (os.cpu_count() or 4), n, 16))
    ctx = mp.get_context("fork")
    workers = [_W(ctx, fn) for _ in range(nproc)]
    nxt, done = 0, 0
    try:
        while done < n:
            progressed = False
            for k, w in enumerate(workers):
                if w.cur is None and nxt < n and n_timeouts >= max_timeouts:
                    res[nxt] = {"skipped": True}
                    nxt += 1
                    done += 1
                    progressed = True
                    continue
                if w.cur is None and nxt < n:
                    w.cur, w.t0 = nxt, time.time()
                    w.parent.send((nxt, items[nxt]))
                    nxt += 1
                    progressed = True
                if w.cur is not None:
                    if w.parent.poll(0):
                        try:
                            i, r = w.parent.recv()
                            res[i] = r
                        except (EOFError, OSError):
                            res[w.cur] = {"crash": "worker died"}
                            w.kill()
                            workers[k] = _W(ctx, fn)
                            done += 1
                            progressed = True
                            continue
                        w.cur = None
                        done += 1
                        progressed = True
                    elif not w.proc.is_alive():
                        res[w.cur] = {"crash": "worker died (exit %s)" % w.proc.exitcode}
                        workers[k] = _W(ctx, fn)
                        done += 1
                        progressed = True
                    elif time.time() - w.t0 > timeout_s:
                        res[w.cur] = {"timeout": timeout_s}
                        n_timeouts += 1
                        w.kill()
                        workers[k] = _W(ctx, fn)
                        done += 1
                        progressed = True
            if not progressed:
                time.sleep(0.002)
    finally:
        for w in workers:
            try:
                w.parent.send(None)
            except Exception:
                pass
            w.kill()
    return res


class _Chunked:
    def __init__(self, fn):
        self.fn = fn

    def __call__(self, chunk):
        out = []
        for it in chunk:
            try:
                out.append(self.fn(it))
            except BaseException as e:
                out.append({"crash": "".join(traceback.format_exception_only(type(e), e)).strip()[:500]})
        return out


def run_chunked(fn, items, timeout_s=20.0, nproc=None, chunk=40):
    """Same contract as run(), but ships items in chunks; a chunk that times out or crashes is re-run
    item by item so that the offending item is identified."""
    n = len(items)
    if n <= chunk * 2:
        return run(fn, items, timeout_s, nproc)
    chunks = [items[i:i + chunk] for i in range(0, n, chunk)]
    cres = run(_Chunked(fn), chunks, timeout_s, nproc, max_timeouts=6)
    res = []
    redone = 0
    for c, r in zip(chunks, cres):
        if isinstance(r, list) and len(r) == len(c):
            res.extend(r)
        elif isinstance(r, dict) and r.get("skipped"):
            res.extend([{"skipped": True}] * len(c))
        elif redone >= 6:
            res.extend([{"skipped": True}] * len(c))
        else:
            redone += 1
            res.extend(run(fn, c, timeout_s, nproc, max_timeouts=3))
    return res
