(* Proofs/EuclidAlgoOrder.v — the mirror of is_one_euclidean does not depend on the order in which the SETS of
   alternatives are iterated (C_set in the colouring loop, C_set_plus for the axis counts, the sorted() call):
     colour_loop_spec   : the colouring loop over ANY list of pairs ends in the colouring determined by the roles
                          (red stays red; grey with a left role -> green; with a right role -> blue) and fails
                          exactly when a non-red alternative has both roles;
     axis_unique        : the axis counts are pairwise different on C_set_plus, so the stable sort has no ties;
     eucl_algo_order_independent : permuting `alts` changes neither the verdict nor the voters' positions, and
                          the alternatives' positions only up to == on Q (delta is a maximum over another order). *)
From Coq Require Import List Arith NArith ZArith QArith Qabs Bool Lia Lqa Permutation Sorted.
From PrefVerif Require Import Lib.Val Lib.Perms Lib.Contig Model.SP Model.SC Model.SCAlgo Model.Euclid Model.EuclidLP
                              Model.EuclidAlgo Proofs.SP Proofs.SC Proofs.SCAlgo Proofs.Euclid Proofs.EuclidLP
                              Proofs.EuclidAlgo.
Import ListNotations.
Open Scope Q_scope.

(* ============================================================================================== *)
(* 1. the colouring loop, declaratively                                                            *)
(* ============================================================================================== *)
Section Colouring.
Variables v1 vn : list N.
Variable g0 : gamma.
Hypothesis Hg0 : forall c, g0 c = Red \/ g0 c = Grey.

Definition sw (ab : N * N) : bool := swapped v1 vn (fst ab) (snd ab).

(* roles of c among the pairs of L *)
Definition lrole (L : list (N * N)) (c : N) : Prop := exists b, In (c, b) L /\ sw (c, b) = true.
Definition rrole (L : list (N * N)) (c : N) : Prop := exists a, In (a, c) L /\ sw (a, c) = true.
Definition conflict (L : list (N * N)) : Prop := exists c, g0 c = Grey /\ lrole L c /\ rrole L c.

(* what is known about a state reached after processing the pairs D *)
Definition Inv (D : list (N * N)) (g : gamma) : Prop :=
  (forall c, g c = Red <-> g0 c = Red) /\
  (forall c, g c = Green -> lrole D c) /\
  (forall c, g c = Blue -> rrole D c) /\
  (forall c, g0 c = Grey -> lrole D c -> g c = Green) /\
  (forall c, g0 c = Grey -> rrole D c -> g c = Blue).

Lemma Inv_nil : Inv [] g0.
Proof.
  split; [|split; [|split; [|split]]].
  - intros c. tauto.
  - intros c H. destruct (Hg0 c) as [E|E]; rewrite E in H; discriminate.
  - intros c H. destruct (Hg0 c) as [E|E]; rewrite E in H; discriminate.
  - intros c _ (b & [] & _).
  - intros c _ (a & [] & _).
Qed.

Lemma lrole_app L1 L2 c : lrole (L1 ++ L2) c <-> lrole L1 c \/ lrole L2 c.
Proof.
  unfold lrole. split.
  - intros (b & Hin & Hs). apply in_app_or in Hin. destruct Hin; [left|right]; now exists b.
  - intros [(b & Hin & Hs)|(b & Hin & Hs)]; exists b; (split; [apply in_or_app; auto|assumption]).
Qed.
Lemma rrole_app L1 L2 c : rrole (L1 ++ L2) c <-> rrole L1 c \/ rrole L2 c.
Proof.
  unfold rrole. split.
  - intros (b & Hin & Hs). apply in_app_or in Hin. destruct Hin; [left|right]; now exists b.
  - intros [(b & Hin & Hs)|(b & Hin & Hs)]; exists b; (split; [apply in_or_app; auto|assumption]).
Qed.
Lemma lrole_single a b c : lrole [(a, b)] c <-> c = a /\ sw (a, b) = true.
Proof.
  unfold lrole. split.
  - intros (b' & [E|[]] & Hs). injection E as <- <-. now split.
  - intros (-> & Hs). exists b. split; [now left|assumption].
Qed.
Lemma rrole_single a b c : rrole [(a, b)] c <-> c = b /\ sw (a, b) = true.
Proof.
  unfold rrole. split.
  - intros (a' & [E|[]] & Hs). injection E as <- <-. now split.
  - intros (-> & Hs). exists a. split; [now left|assumption].
Qed.

Lemma sw_neq a b : sw (a, b) = true -> a <> b.
Proof.
  unfold sw, swapped. cbn [fst snd]. intros H ->. rewrite before_irrefl in H. discriminate.
Qed.

(* one step: either it fails and exhibits a conflict, or the invariant moves on *)
Lemma step_spec D g a b : Inv D g ->
  match colour_step v1 vn (Some g) (a, b) with
  | None => conflict (D ++ [(a, b)])
  | Some g' => Inv (D ++ [(a, b)]) g'
  end.
Proof.
  intros (IR & IG & IB & IL & IRr). unfold colour_step. cbn [fst snd].
  destruct (swapped v1 vn a b) eqn:Esw.
  - assert (Hs : sw (a, b) = true) by exact Esw. pose proof (sw_neq a b Hs) as Hne.
    destruct (is_blue (g a) || is_green (g b)) eqn:Ef.
    + apply orb_true_iff in Ef. destruct Ef as [Ef|Ef].
      * assert (Ea : g a = Blue) by (destruct (g a); cbn in Ef; congruence).
        exists a. split; [|split].
        -- destruct (Hg0 a) as [E|E]; [|assumption]. apply IR in E. congruence.
        -- apply lrole_app. right. now apply lrole_single.
        -- apply rrole_app. left. now apply IB.
      * assert (Eb : g b = Green) by (destruct (g b); cbn in Ef; congruence).
        exists b. split; [|split].
        -- destruct (Hg0 b) as [E|E]; [|assumption]. apply IR in E. congruence.
        -- apply lrole_app. left. now apply IG.
        -- apply rrole_app. right. now apply rrole_single.
    + apply orb_false_iff in Ef. destruct Ef as (Efa & Efb).
      set (g1 := if is_grey (g a) then gset g a Green else g).
      set (g2 := if is_grey (g1 b) then gset g1 b Blue else g1).
      (* values of g2 *)
      assert (Hother : forall c, c <> a -> c <> b -> g2 c = g c).
      { intros c Ha Hb. unfold g2, g1, gset.
        destruct (is_grey (g a)), (is_grey _); repeat (rewrite (proj2 (N.eqb_neq _ _)) by assumption); reflexivity. }
      assert (Ha2 : g2 a = (if is_grey (g a) then Green else g a)).
      { unfold g2, g1, gset. destruct (is_grey (g a)) eqn:Ea.
        - rewrite (proj2 (N.eqb_neq b a)) by congruence.
          destruct (is_grey (g b)); rewrite ?(proj2 (N.eqb_neq a b)) by assumption; now rewrite N.eqb_refl.
        - destruct (is_grey (g b)); rewrite ?(proj2 (N.eqb_neq a b)) by assumption; reflexivity. }
      assert (Hb2 : g2 b = (if is_grey (g b) then Blue else g b)).
      { unfold g2, g1, gset. destruct (is_grey (g a)) eqn:Ea.
        - rewrite (proj2 (N.eqb_neq b a)) by congruence. destruct (is_grey (g b)) eqn:Eb.
          + now rewrite N.eqb_refl.
          + now rewrite (proj2 (N.eqb_neq b a)) by congruence.
        - destruct (is_grey (g b)) eqn:Eb; [now rewrite N.eqb_refl|reflexivity]. }
      assert (Hcase : forall c, (c = a /\ g2 c = (if is_grey (g a) then Green else g a)) \/
                                (c = b /\ g2 c = (if is_grey (g b) then Blue else g b)) \/
                                (c <> a /\ c <> b /\ g2 c = g c)).
      { intros c. destruct (N.eq_dec c a) as [->|Hca]; [now left|].
        destruct (N.eq_dec c b) as [->|Hcb]; [right; now left|]. right. right. auto. }
      split; [|split; [|split; [|split]]].
      * intros c. split.
        -- intros H. destruct (Hcase c) as [(-> & E)|[(-> & E)|(_ & _ & E)]]; rewrite E in H.
           ++ destruct (g a) eqn:Ea; cbn in H; try discriminate. apply IR. exact Ea.
           ++ destruct (g b) eqn:Eb; cbn in H; try discriminate. apply IR. exact Eb.
           ++ now apply IR.
        -- intros H. apply IR in H. destruct (Hcase c) as [(-> & E)|[(-> & E)|(_ & _ & E)]]; rewrite E, ?H; reflexivity || assumption.
      * intros c H. apply lrole_app. destruct (Hcase c) as [(-> & E)|[(-> & E)|(_ & _ & E)]]; rewrite E in H.
        -- right. now apply lrole_single.
        -- left. apply IG. destruct (g b) eqn:Eb; cbn in H; try discriminate; reflexivity.
        -- left. now apply IG.
      * intros c H. apply rrole_app. destruct (Hcase c) as [(-> & E)|[(-> & E)|(_ & _ & E)]]; rewrite E in H.
        -- left. apply IB. destruct (g a) eqn:Ea; cbn in H; try discriminate; reflexivity.
        -- right. now apply rrole_single.
        -- left. now apply IB.
      * intros c Hgc Hl. apply lrole_app in Hl.
        destruct (Hcase c) as [(-> & E)|[(-> & E)|(Hca & Hcb & E)]]; rewrite E.
        -- destruct (g a) eqn:Ea; cbn; try reflexivity.
           ++ apply IR in Ea. congruence.
           ++ cbn in Efa. discriminate.
        -- destruct Hl as [Hl|Hl]; [|apply lrole_single in Hl; destruct Hl; congruence].
           rewrite (IL b Hgc Hl). reflexivity.
        -- destruct Hl as [Hl|Hl]; [now apply IL|apply lrole_single in Hl; destruct Hl; congruence].
      * intros c Hgc Hr. apply rrole_app in Hr.
        destruct (Hcase c) as [(-> & E)|[(-> & E)|(Hca & Hcb & E)]]; rewrite E.
        -- destruct Hr as [Hr|Hr]; [|apply rrole_single in Hr; destruct Hr; congruence].
           rewrite (IRr a Hgc Hr). reflexivity.
        -- destruct (g b) eqn:Eb; cbn; try reflexivity.
           ++ apply IR in Eb. congruence.
           ++ cbn in Efb. discriminate.
        -- destruct Hr as [Hr|Hr]; [now apply IRr|apply rrole_single in Hr; destruct Hr; congruence].
  - (* not swapped: nothing changes, no new role *)
    assert (Hns : sw (a, b) = false) by exact Esw.
    split; [|split; [|split; [|split]]].
    + exact IR.
    + intros c H. apply lrole_app. left. now apply IG.
    + intros c H. apply rrole_app. left. now apply IB.
    + intros c Hgc Hl. apply lrole_app in Hl. destruct Hl as [Hl|Hl]; [now apply IL|].
      apply lrole_single in Hl. destruct Hl. congruence.
    + intros c Hgc Hr. apply rrole_app in Hr. destruct Hr as [Hr|Hr]; [now apply IRr|].
      apply rrole_single in Hr. destruct Hr. congruence.
Qed.

Lemma conflict_mono L1 L2 : conflict L1 -> conflict (L1 ++ L2).
Proof. intros (c & Hc & Hl & Hr). exists c. split; [assumption|]. split; [apply lrole_app|apply rrole_app]; now left. Qed.

Lemma fold_spec L : forall D g, Inv D g ->
  match fold_left (colour_step v1 vn) L (Some g) with
  | None => conflict (D ++ L)
  | Some g' => Inv (D ++ L) g'
  end.
Proof.
  induction L as [|[a b] t IH]; intros D g HI.
  - cbn. now rewrite app_nil_r.
  - cbn [fold_left]. pose proof (step_spec D g a b HI) as Hs.
    destruct (colour_step v1 vn (Some g) (a, b)) as [g1|].
    + specialize (IH (D ++ [(a, b)]) g1 Hs). rewrite <- app_assoc in IH. exact IH.
    + rewrite colour_fold_none. replace (D ++ (a, b) :: t) with ((D ++ [(a, b)]) ++ t) by (now rewrite <- app_assoc).
      now apply conflict_mono.
Qed.

(* a successful run excludes a conflict *)
Lemma Inv_no_conflict L g : Inv L g -> ~ conflict L.
Proof.
  intros (_ & _ & _ & IL & IRr) (c & Hc & Hl & Hr). pose proof (IL c Hc Hl). pose proof (IRr c Hc Hr). congruence.
Qed.

(* the final colouring is determined by the roles *)
Lemma Inv_determined L L' g g' : (forall c, lrole L c <-> lrole L' c) -> (forall c, rrole L c <-> rrole L' c) ->
  Inv L g -> Inv L' g' -> forall c, g c = g' c.
Proof.
  intros Hl Hr (IR & IG & IB & IL & IRr) (IR' & IG' & IB' & IL' & IRr') c.
  destruct (Hg0 c) as [E|E].
  - rewrite (proj2 (IR c) E), (proj2 (IR' c) E). reflexivity.
  - destruct (g c) eqn:Eg.
    + apply IR in Eg. congruence.
    + apply IB in Eg. symmetry. apply IRr'; [assumption|now apply Hr].
    + apply IG in Eg. symmetry. apply IL'; [assumption|now apply Hl].
    + destruct (g' c) eqn:Eg'; try reflexivity.
      * apply IR' in Eg'. congruence.
      * apply IB' in Eg'. apply Hr in Eg'. rewrite (IRr c E Eg') in Eg. discriminate.
      * apply IG' in Eg'. apply Hl in Eg'. rewrite (IL c E Eg') in Eg. discriminate.
Qed.
End Colouring.

(* ---- consequences for colour_loop ---- *)
Lemma gamma0_range v1 vn cm cp c : gamma0 v1 vn cm cp c = Red \/ gamma0 v1 vn cm cp c = Grey.
Proof. unfold gamma0. destruct (_ || _); auto. Qed.

Lemma in_perm2_iff l a b : In (a, b) (perm2 l) <-> In a l /\ In b l /\ a <> b.
Proof.
  split; [|intros (Ha & Hb & Hne); now apply in_perm2].
  unfold perm2. rewrite in_flat_map. intros (x & Hx & H). apply in_map_iff in H. destruct H as (y & E & Hy).
  injection E as <- <-. apply filter_In in Hy. destruct Hy as (Hy & Hne). apply negb_true_iff, N.eqb_neq in Hne.
  repeat split; auto.
Qed.

Theorem colour_loop_spec v1 vn alts (g0 : gamma) : (forall c, g0 c = Red \/ g0 c = Grey) ->
  match colour_loop v1 vn alts g0 with
  | None => conflict v1 vn g0 (perm2 alts)
  | Some g => Inv v1 vn g0 (perm2 alts) g /\ ~ conflict v1 vn g0 (perm2 alts)
  end.
Proof.
  intros Hg0. unfold colour_loop. pose proof (fold_spec v1 vn g0 Hg0 (perm2 alts) [] g0 (Inv_nil v1 vn g0 Hg0)) as H.
  rewrite app_nil_l in H. revert H. destruct (fold_left (colour_step v1 vn) (perm2 alts) (Some g0)) as [g|]; intros H; [|exact H].
  split; [exact H|]. eapply Inv_no_conflict; exact H.
Qed.

Lemma roles_perm v1 vn alts alts' : Permutation alts alts' ->
  (forall c, lrole v1 vn (perm2 alts) c <-> lrole v1 vn (perm2 alts') c) /\
  (forall c, rrole v1 vn (perm2 alts) c <-> rrole v1 vn (perm2 alts') c).
Proof.
  intros HP.
  assert (Hin : forall a b, In (a, b) (perm2 alts) <-> In (a, b) (perm2 alts')).
  { intros a b. rewrite !in_perm2_iff. split; intros (Ha & Hb & Hne); repeat split; auto;
      eapply Permutation_in; try eassumption; now apply Permutation_sym. }
  split; intros c; unfold lrole, rrole; split; intros (b & Hb & Hs); exists b; (split; [now apply Hin|assumption]).
Qed.

(* the colouring loop does not depend on the order in which C_set is iterated *)
Theorem colour_loop_perm v1 vn alts alts' (g0 : gamma) : (forall c, g0 c = Red \/ g0 c = Grey) -> Permutation alts alts' ->
  match colour_loop v1 vn alts g0, colour_loop v1 vn alts' g0 with
  | Some g, Some g' => forall c, g c = g' c
  | None, None => True
  | _, _ => False
  end.
Proof.
  intros Hg0 HP. destruct (roles_perm v1 vn alts alts' HP) as (Hl & Hr).
  pose proof (colour_loop_spec v1 vn alts g0 Hg0) as H1. pose proof (colour_loop_spec v1 vn alts' g0 Hg0) as H2.
  assert (Hc : conflict v1 vn g0 (perm2 alts) <-> conflict v1 vn g0 (perm2 alts')).
  { unfold conflict. split; intros (c & Hc & Hlc & Hrc); exists c; (split; [assumption|]); split;
      (apply Hl || apply Hr); assumption. }
  destruct (colour_loop v1 vn alts g0) as [g|], (colour_loop v1 vn alts' g0) as [g'|]; try exact I.
  - destruct H1 as (I1 & _), H2 as (I2 & _). eapply Inv_determined; eassumption.
  - destruct H1 as (_ & N1). apply N1, Hc, H2.
  - destruct H2 as (_ & N2). apply N2, Hc, H1.
Qed.

(* ============================================================================================== *)
(* 2. left_of is a strict total order on the coloured alternatives                                  *)
(* ============================================================================================== *)
Section LeftOf.
Variables v1 vn : list N.
Variable g : gamma.

Definition member (c : N) : Prop := g c <> Grey /\ In c v1 /\ In c vn.

Lemma before_neg r a b : In a r -> In b r -> a <> b -> before r a b = negb (before r b a).
Proof.
  intros Ha Hb Hne. destruct (before r b a) eqn:E.
  - cbn. now apply before_asym.
  - cbn. apply before_total; auto.
Qed.

Lemma left_of_antisym a b : member a -> member b -> a <> b -> left_of v1 vn g a b = negb (left_of v1 vn g b a).
Proof.
  intros (Ga & A1 & An) (Gb & B1 & Bn) Hne. unfold left_of.
  destruct (g a), (g b); try congruence; try reflexivity.
  - now apply before_neg.
  - now apply before_neg.
  - rewrite (before_neg vn a b An Bn Hne). reflexivity.
Qed.

Lemma left_of_trans a b c : member a -> member b -> member c -> a <> c ->
  left_of v1 vn g a b = true -> left_of v1 vn g b c = true -> left_of v1 vn g a c = true.
Proof.
  intros (Ga & A1 & An) (Gb & B1 & Bn) (Gc & C1 & Cn) Hne. unfold left_of.
  destruct (g a), (g b), (g c); try congruence; try reflexivity; try discriminate.
  - apply before_trans.
  - apply before_trans.
  - intros H1 H2. apply negb_true_iff in H1, H2. apply negb_true_iff.
    destruct (before vn a c) eqn:E; [|reflexivity].
    destruct (N.eq_dec a b) as [->|Hab]; [congruence|]. destruct (N.eq_dec b c) as [->|Hbc]; [congruence|].
    pose proof (before_total vn a b An Bn Hab H1) as Hba. pose proof (before_total vn b c Bn Cn Hbc H2) as Hcb.
    pose proof (before_trans vn c b a Hcb Hba) as Hca. rewrite (before_asym _ _ _ Hca) in E. discriminate.
Qed.
End LeftOf.

(* ============================================================================================== *)
(* 3. the axis counts                                                                              *)
(* ============================================================================================== *)
Lemma filter_single (f : N -> bool) c t : NoDup t ->
  length (filter (fun b => N.eqb b c && f b) t) = (if memb c t && f c then 1 else 0)%nat.
Proof.
  induction t as [|x t IH]; intros Hnd; [reflexivity|]. inversion Hnd as [|? ? Hnin Hnd']; subst.
  cbn [filter memb existsb]. fold (memb c t). rewrite (N.eqb_sym c x). destruct (N.eqb x c) eqn:E.
  - apply N.eqb_eq in E. subst x. cbn [andb orb]. destruct (f c) eqn:Ef; cbn [length].
    + rewrite (IH Hnd'). assert (Hm : memb c t = false).
      { destruct (memb c t) eqn:Em; [|reflexivity]. apply memb_In in Em. contradiction. }
      rewrite Hm. reflexivity.
    + rewrite (IH Hnd'). rewrite andb_false_r. reflexivity.
  - cbn [andb orb]. now apply IH.
Qed.

Section Counts.
Variables v1 vn : list N.
Variable g : gamma.
Let lo := left_of v1 vn g.

Definition cnt (P : list N) (c : N) : nat := length (filter (fun b => negb (N.eqb b c) && lo c b) P).

Lemma axis_count_closed P c : NoDup P ->
  (forall a b, In a P -> In b P -> a <> b -> lo a b = negb (lo b a)) ->
  axis_count v1 vn g P c = if memb c P then cnt P c else 0%nat.
Proof.
  unfold axis_count, cnt. fold lo. induction P as [|x t IH]; intros Hnd Hanti; [reflexivity|].
  inversion Hnd as [|? ? Hnin Hnd']; subst. cbn [ordered_pairs]. rewrite filter_app, app_length.
  rewrite IH; [|assumption|intros a b Ha Hb; apply Hanti; now right].
  (* the pairs (x, b), b in t *)
  assert (Hfirst : length (filter (fun ab : N * N => if lo (fst ab) (snd ab) then N.eqb (fst ab) c else N.eqb (snd ab) c)
                                  (map (pair x) t))
                   = length (filter (fun b => if lo x b then N.eqb x c else N.eqb b c) t)).
  { clear. induction t as [|y t IH]; [reflexivity|]. cbn [map filter fst snd].
    destruct (if lo x y then N.eqb x c else N.eqb y c); cbn [length]; now rewrite IH. }
  rewrite Hfirst. cbn [memb existsb filter]. fold (memb c t). rewrite (N.eqb_sym c x).
  destruct (N.eqb x c) eqn:Exc.
  - apply N.eqb_eq in Exc. subst x. cbn [orb negb andb].
    assert (Hm : memb c t = false) by (destruct (memb c t) eqn:Em; [apply memb_In in Em; contradiction|reflexivity]).
    rewrite Hm, Nat.add_0_r. f_equal. apply filter_ext_in. intros b Hb.
    assert (Hbc : N.eqb b c = false) by (apply N.eqb_neq; intros ->; contradiction).
    rewrite Hbc. cbn [negb andb]. destruct (lo c b); reflexivity.
  - cbn [orb]. apply N.eqb_neq in Exc.
    assert (E1 : length (filter (fun b => if lo x b then false else N.eqb b c) t)
                 = length (filter (fun b => N.eqb b c && negb (lo x b)) t)).
    { f_equal. apply filter_ext. intros b. destruct (lo x b), (N.eqb b c); reflexivity. }
    rewrite E1, (filter_single (fun b => negb (lo x b)) c t Hnd').
    cbn [negb andb].
    destruct (memb c t) eqn:Em; cbn [andb].
    + apply memb_In in Em. rewrite (Hanti c x (or_intror Em) (or_introl eq_refl) (not_eq_sym Exc)).
      destruct (lo x c); cbn [negb length]; lia.
    + reflexivity.
Qed.

Lemma cnt_perm P P' c : Permutation P P' -> cnt P c = cnt P' c.
Proof. intros HP. unfold cnt. apply Permutation_length. now apply Permutation_filter. Qed.

Lemma filter_length_lt (f h : N -> bool) l x :
  (forall d, In d l -> f d = true -> h d = true) -> In x l -> h x = true -> f x = false ->
  (length (filter f l) < length (filter h l))%nat.
Proof.
  intros Himp Hx Hhx Hfx. induction l as [|y t IH]; [destruct Hx|]. cbn [filter].
  assert (Hle : forall t', (forall d, In d t' -> f d = true -> h d = true) -> (length (filter f t') <= length (filter h t'))%nat).
  { clear. induction t' as [|z t' IH]; intros H; [cbn; lia|]. cbn [filter].
    destruct (f z) eqn:Ef; [rewrite (H z (or_introl eq_refl) Ef); cbn; apply le_n_S; apply IH; intros d Hd; apply H; now right|].
    destruct (h z); [cbn; apply le_S|]; apply IH; intros d Hd; apply H; now right. }
  destruct Hx as [->|Hx].
  - rewrite Hfx, Hhx. cbn [length]. apply Nat.lt_succ_r. apply Hle. intros d Hd. apply Himp. now right.
  - assert (IH' := IH (fun d Hd => Himp d (or_intror Hd)) Hx).
    destruct (f y) eqn:Ef; [rewrite (Himp y (or_introl eq_refl) Ef); cbn; lia|].
    destruct (h y); cbn; lia.
Qed.

(* the count is strictly decreasing along left_of: the counts of distinct alternatives differ *)
Lemma cnt_strict P a b : NoDup P -> (forall c, In c P -> member v1 vn g c) -> In a P -> In b P -> a <> b ->
  lo a b = true -> (cnt P b < cnt P a)%nat.
Proof.
  intros Hnd Hmem Ha Hb Hne Hab. unfold cnt. apply (filter_length_lt _ _ P b).
  - intros d Hd H. apply andb_true_iff in H. destruct H as (Hdb & Hbd). apply negb_true_iff, N.eqb_neq in Hdb.
    assert (Hda : d <> a).
    { intros ->. unfold lo in *. rewrite (left_of_antisym v1 vn g a b (Hmem a Ha) (Hmem b Hb) Hne), Hbd in Hab. discriminate. }
    apply andb_true_iff. split; [now apply negb_true_iff, N.eqb_neq|].
    unfold lo in *. apply (left_of_trans v1 vn g a b d); auto.
  - assumption.
  - apply andb_true_iff. split; [apply negb_true_iff, N.eqb_neq; congruence|assumption].
  - rewrite N.eqb_refl. reflexivity.
Qed.
End Counts.

(* two sorted arrangements of the same duplicate-free list under an injective key are equal *)
Lemma sorted_perm_unique (key : N -> Z) l l' : NoDup l -> Permutation l l' ->
  (forall a b, In a l -> In b l -> key a = key b -> a = b) ->
  StronglySorted (fun a b => (key a <= key b)%Z) l -> StronglySorted (fun a b => (key a <= key b)%Z) l' -> l = l'.
Proof.
  revert l'. induction l as [|x t IH]; intros l' Hnd HP Hinj Hs Hs'.
  - apply Permutation_nil in HP. now subst.
  - destruct l' as [|y t']; [apply Permutation_sym, Permutation_nil in HP; discriminate|].
    assert (Hxy : x = y).
    { destruct (N.eq_dec x y) as [E|E]; [assumption|].
      assert (Hy : In y t).
      { assert (H : In y (x :: t)) by (eapply Permutation_in; [apply Permutation_sym; exact HP|now left]).
        destruct H; [congruence|assumption]. }
      assert (Hx : In x t').
      { assert (H : In x (y :: t')) by (eapply Permutation_in; [exact HP|now left]). destruct H; [congruence|assumption]. }
      inversion Hs as [|? ? _ H1]; subst. inversion Hs' as [|? ? _ H2]; subst. rewrite Forall_forall in H1, H2.
      apply Hinj; [now left|now right|]. specialize (H1 y Hy). specialize (H2 x Hx). lia. }
    subst y. f_equal. inversion Hnd; subst. inversion Hs; subst. inversion Hs'; subst.
    apply IH; auto; [eapply Permutation_cons_inv; exact HP|]. intros a b Ha Hb. apply Hinj; now right.
Qed.

Lemma insert_by_map {A B} (h : A -> B) (key : B -> Z) x l :
  insert_by key (h x) (map h l) = map h (insert_by (fun a => key (h a)) x l).
Proof.
  induction l as [|y t IH]; [reflexivity|]. cbn [map insert_by]. destruct (key (h x) <=? key (h y))%Z; [reflexivity|].
  cbn [map]. now rewrite IH.
Qed.

Lemma sort_by_map {A B} (h : A -> B) (key : B -> Z) l :
  sort_by key (map h l) = map h (sort_by (fun a => key (h a)) l).
Proof. induction l as [|x t IH]; [reflexivity|]. cbn [map sort_by]. now rewrite IH, insert_by_map. Qed.

(* ============================================================================================== *)
(* 4. everything after the colouring                                                               *)
(* ============================================================================================== *)
Definition apos_eq (l l' : list (N * Q)) : Prop := Forall2 (fun x y => fst x = fst y /\ snd x == snd y) l l'.

Definition res_eq (r r' : result (option (list Q * list (N * Q)))) : Prop :=
  match r, r' with
  | Ok (Some y), Ok (Some y') => fst y = fst y' /\ apos_eq (snd y) (snd y')
  | Ok None, Ok None => True
  | Err e, Err e' => e = e'
  | _, _ => False
  end.

Lemma apos_eq_refl l : apos_eq l l.
Proof. induction l; constructor; [split; reflexivity|assumption]. Qed.

Lemma apos_eq_app l1 l1' l2 l2' : apos_eq l1 l1' -> apos_eq l2 l2' -> apos_eq (l1 ++ l2) (l1' ++ l2').
Proof. apply Forall2_app. Qed.

Lemma max_abs_diff_nonneg l : 0 <= max_abs_diff l.
Proof.
  unfold max_abs_diff. destruct (ordered_pairs l) as [|uv t]; [cbn; lra|]. cbn [map].
  pose proof (proj2 (qmaxl_spec (Qabs (fst uv - snd uv)) (map (fun xy => Qabs (fst xy - snd xy)) t)) _ (or_introl eq_refl)).
  pose proof (Qabs_nonneg (fst uv - snd uv)). lra.
Qed.

Lemma max_abs_diff_le l l' : (forall x, In x l -> In x l') -> max_abs_diff l <= max_abs_diff l'.
Proof.
  intros Hsub. unfold max_abs_diff at 1. destruct (ordered_pairs l) as [|uv t] eqn:Ep; [cbn; apply max_abs_diff_nonneg|].
  cbn [map]. destruct (proj1 (qmaxl_spec (Qabs (fst uv - snd uv)) (map (fun xy => Qabs (fst xy - snd xy)) t))) as [E|Hin].
  - rewrite <- E. destruct uv as [u v]. cbn [fst snd].
    destruct (ordered_pairs_In l u v) as (Hu & Hv); [rewrite Ep; now left|]. apply max_abs_diff_bound; now apply Hsub.
  - apply in_map_iff in Hin. destruct Hin as ([u v] & E & Huv). rewrite <- E. cbn [fst snd].
    destruct (ordered_pairs_In l u v) as (Hu & Hv); [rewrite Ep; now right|]. apply max_abs_diff_bound; now apply Hsub.
Qed.

Lemma max_abs_diff_perm l l' : Permutation l l' -> max_abs_diff l == max_abs_diff l'.
Proof.
  intros HP. apply Qle_antisym; apply max_abs_diff_le; intros x Hx; eapply Permutation_in; try eassumption.
  now apply Permutation_sym.
Qed.

Lemma place_groups_Qeq alt xl xr d d' m f : d == d' -> forall g i,
  apos_eq (place_groups alt xl xr d m i f g) (place_groups alt xl xr d' m i f g).
Proof.
  intros E. induction f as [|fi f' IH]; intros g i; [constructor|]. cbn [place_groups]. apply apos_eq_app.
  - induction fi as [|c t IHt]; [constructor|]. cbn [map]. constructor; [|assumption]. cbn [fst snd]. split; [reflexivity|].
    destruct i; [reflexivity|]. destruct (Qltb (alt c) xl); now rewrite E.
  - destruct g as [|gi g'].
    + apply IH.
    + apply apos_eq_app; [|apply IH]. generalize (combine (seq 0 (length gi)) gi). intros l.
      induction l as [|lc t IHt]; [constructor|]. cbn [map]. constructor; [|assumption]. cbn [fst snd].
      split; [reflexivity|]. now rewrite E.
Qed.

Lemma gen_runs_ext (f h : N -> bool) l : (forall c, f c = h c) -> gen_runs f l = gen_runs h l.
Proof.
  intros E. induction l as [|c t IH]; [reflexivity|]. cbn [gen_runs]. rewrite IH, (E c). reflexivity.
Qed.

Lemma insert_by_ext_in {A} (k k' : A -> Z) x l : k x = k' x -> (forall y, In y l -> k y = k' y) ->
  insert_by k x l = insert_by k' x l.
Proof.
  intros Ex H. induction l as [|y t IH]; [reflexivity|]. cbn [insert_by]. rewrite Ex, (H y (or_introl eq_refl)).
  destruct (k' x <=? k' y)%Z; [reflexivity|]. f_equal. apply IH. intros z Hz. apply H. now right.
Qed.

Lemma sort_by_ext_in {A} (k k' : A -> Z) l : (forall y, In y l -> k y = k' y) -> sort_by k l = sort_by k' l.
Proof.
  induction l as [|x t IH]; intros H; [reflexivity|]. cbn [sort_by]. rewrite IH by (intros y Hy; apply H; now right).
  apply insert_by_ext_in; [apply H; now left|]. intros y Hy. apply H. right.
  eapply Permutation_in; [apply Permutation_sym, sort_by_perm|exact Hy].
Qed.

Lemma left_of_ext v1 vn (g g' : gamma) a b : g a = g' a -> g b = g' b -> left_of v1 vn g a b = left_of v1 vn g' a b.
Proof. intros Ea Eb. unfold left_of. now rewrite Ea, Eb. Qed.

Lemma memb_perm c l l' : Permutation l l' -> memb c l = memb c l'.
Proof.
  intros HP. destruct (memb c l) eqn:E, (memb c l') eqn:E'; try reflexivity.
  - apply memb_In in E. apply (Permutation_in _ HP), memb_In in E. congruence.
  - apply memb_In in E'. apply (Permutation_in _ (Permutation_sym HP)), memb_In in E'. congruence.
Qed.

(* the part of the mirror after the colouring loop *)
Definition post (lp : list (list N) -> list N -> option (list Q * list (N * Q)))
                (alts : list N) (orders : list (list N)) (v1 vn : list N) (g : gamma)
  : result (option (list Q * list (N * Q))) :=
  let m := length alts in
  let plus := filter (fun c => negb (is_grey (g c))) alts in
  let counted := map (fun c => (c, axis_count v1 vn g plus c)) plus in
  let axis := map fst (sort_by (fun cv => (- Z.of_nat (snd cv))%Z) counted) in
  let prefs := map (filter (fun c => memb c plus)) orders in
  match lp prefs axis with
  | None => Ok None
  | Some (voters, alternatives) =>
      let alt := fun c => match apos_lookup alternatives c with Some q => q | None => 0 end in
      let runs := gen_runs (fun c => memb c plus) v1 in
      let f := f_groups runs in
      let gg := g_groups runs in
      let tmp1 := voters ++ map alt (hd [] f) in
      let xl := match tmp1 with [] => 0 | x :: t => qminl x t end in
      let xr := match tmp1 with [] => 0 | x :: t => qmaxl x t end in
      let delta := max_abs_diff (voters ++ map alt plus) in
      Ok (Some (voters, place_groups alt xl xr delta m 0 f gg))
  end.

Lemma axis_is_sort v1 vn g plus :
  map fst (sort_by (fun cv : N * nat => (- Z.of_nat (snd cv))%Z) (map (fun c => (c, axis_count v1 vn g plus c)) plus))
  = sort_by (fun c => (- Z.of_nat (axis_count v1 vn g plus c))%Z) plus.
Proof.
  rewrite (sort_by_map (fun c => (c, axis_count v1 vn g plus c)) (fun cv : N * nat => (- Z.of_nat (snd cv))%Z)).
  rewrite map_map. cbn [fst snd]. apply map_id.
Qed.

Lemma post_perm lp alts alts' orders v1 vn (g g' : gamma) :
  NoDup alts -> Permutation alts alts' -> Permutation alts v1 -> Permutation alts vn -> (forall c, g c = g' c) ->
  res_eq (post lp alts orders v1 vn g) (post lp alts' orders v1 vn g').
Proof.
  intros Hnd HP H1 Hn Hg. unfold post.
  set (plus := filter (fun c => negb (is_grey (g c))) alts).
  set (plus' := filter (fun c => negb (is_grey (g' c))) alts').
  assert (Hpp : Permutation plus plus').
  { unfold plus, plus'. rewrite (filter_ext _ (fun c => negb (is_grey (g' c)))) by (intros c; now rewrite Hg).
    now apply Permutation_filter. }
  assert (Hndp : NoDup plus) by (apply NoDup_filter; assumption).
  assert (Hndp' : NoDup plus') by (eapply Permutation_NoDup; eassumption).
  assert (Hmem : forall c, In c plus -> member v1 vn g c).
  { intros c Hc. apply filter_In in Hc. destruct Hc as (Hc & Hgc). repeat split.
    - intros E. rewrite E in Hgc. discriminate.
    - eapply Permutation_in; eassumption.
    - eapply Permutation_in; eassumption. }
  assert (Hanti : forall a b, In a plus -> In b plus -> a <> b -> left_of v1 vn g a b = negb (left_of v1 vn g b a)).
  { intros a b Ha Hb. apply left_of_antisym; auto. }
  (* the two count functions agree on the coloured alternatives *)
  assert (Hcnt : forall c, In c plus -> axis_count v1 vn g' plus' c = axis_count v1 vn g plus c).
  { intros c Hc. rewrite (axis_count_closed v1 vn g plus c Hndp Hanti).
    rewrite (axis_count_closed v1 vn g' plus' c Hndp').
    - rewrite <- (memb_perm c plus plus' Hpp). rewrite (proj2 (memb_In c plus) Hc).
      rewrite <- (cnt_perm v1 vn g' plus plus' c Hpp). unfold cnt. f_equal. apply filter_ext. intros b.
      now rewrite (left_of_ext v1 vn g g' c b (Hg c) (Hg b)).
    - intros a b Ha Hb Hne. rewrite <- (left_of_ext v1 vn g g' a b (Hg a) (Hg b)), <- (left_of_ext v1 vn g g' b a (Hg b) (Hg a)).
      apply Hanti; auto; eapply Permutation_in; try eassumption; now apply Permutation_sym. }
  (* the axis *)
  rewrite !axis_is_sort. fold plus plus'.
  set (kc := fun c => (- Z.of_nat (axis_count v1 vn g plus c))%Z).
  assert (Eaxis : sort_by (fun c => (- Z.of_nat (axis_count v1 vn g' plus' c))%Z) plus' = sort_by kc plus).
  { rewrite (sort_by_ext_in _ kc plus').
    - symmetry. apply (sorted_perm_unique kc).
      + eapply Permutation_NoDup; [apply sort_by_perm|exact Hndp].
      + eapply Permutation_trans; [apply Permutation_sym, sort_by_perm|].
        eapply Permutation_trans; [exact Hpp|apply sort_by_perm].
      + intros a b Ha Hb E. apply (Permutation_in _ (Permutation_sym (sort_by_perm kc plus))) in Ha, Hb.
        destruct (N.eq_dec a b) as [|Hne]; [assumption|]. exfalso. unfold kc in E.
        rewrite !(axis_count_closed v1 vn g plus _ Hndp Hanti), (proj2 (memb_In a plus) Ha), (proj2 (memb_In b plus) Hb) in E.
        destruct (left_of v1 vn g a b) eqn:Eab.
        * pose proof (cnt_strict v1 vn g plus a b Hndp Hmem Ha Hb Hne Eab). lia.
        * rewrite (Hanti a b Ha Hb Hne) in Eab. apply negb_false_iff in Eab.
          pose proof (cnt_strict v1 vn g plus b a Hndp Hmem Hb Ha (not_eq_sym Hne) Eab). lia.
      + apply sort_by_sorted.
      + apply sort_by_sorted.
    - intros c Hc. unfold kc. f_equal. f_equal. apply Hcnt. eapply Permutation_in; [apply Permutation_sym; exact Hpp|exact Hc]. }
  rewrite Eaxis.
  assert (Eprefs : map (filter (fun c => memb c plus')) orders = map (filter (fun c => memb c plus)) orders).
  { apply map_ext. intros r. apply filter_ext. intros c. symmetry. now apply memb_perm. }
  rewrite Eprefs.
  destruct (lp (map (filter (fun c => memb c plus)) orders) (sort_by kc plus)) as [[voters alternatives]|]; [|exact I].
  cbn [res_eq fst snd]. split; [reflexivity|].
  rewrite (gen_runs_ext (fun c => memb c plus') (fun c => memb c plus)) by (intros c; symmetry; now apply memb_perm).
  rewrite <- (Permutation_length HP).
  apply place_groups_Qeq. apply max_abs_diff_perm. apply Permutation_app_head. apply Permutation_map. exact Hpp.
Qed.

(* ============================================================================================== *)
(* 5. the mirror does not depend on the order in which the sets of alternatives are iterated        *)
(* ============================================================================================== *)
Lemma eucl_algo_post lp alts orders :
  eucl_algo lp alts orders =
  match sc_algo alts orders with
  | Err e => Err e
  | Ok None => Ok None
  | Ok (Some sc_order) =>
      match sc_order with
      | [] => Err OtherErr
      | v1 :: _ =>
          let vn := last sc_order v1 in
          match v1, vn with
          | c_minus :: _, c_plus :: _ =>
              if (length orders =? 1)%nat then
                Ok (Some ([0], map (fun rc => (snd rc, qnat (S (fst rc)))) (combine (seq 0 (length v1)) v1)))
              else
                match colour_loop v1 vn alts (gamma0 v1 vn c_minus c_plus) with
                | None => Ok None
                | Some g => post lp alts orders v1 vn g
                end
          | _, _ => Err OtherErr
          end
      end
  end.
Proof. reflexivity. Qed.

Lemma sc_algo_length alts alts' orders : length alts = length alts' -> sc_algo alts orders = sc_algo alts' orders.
Proof. intros E. unfold sc_algo. now rewrite E. Qed.

Lemma res_eq_refl r : res_eq r r.
Proof. destruct r as [[y|]|e]; cbn; auto. split; [reflexivity|apply apos_eq_refl]. Qed.

(* Python iterates C_set / C_set_plus in an order fixed by the hash table; whatever that order is, the mirror gives
   the same verdict, the same voter positions and (up to == on Q) the same positions of the alternatives *)
Theorem eucl_algo_order_independent lp alts alts' orders : wf_profile alts orders -> Permutation alts alts' ->
  res_eq (eucl_algo lp alts orders) (eucl_algo lp alts' orders).
Proof.
  intros Hwf HP. pose proof Hwf as (Hnd & Hndo & Hrk). rewrite !eucl_algo_post.
  rewrite <- (sc_algo_length alts alts' orders (Permutation_length HP)).
  destruct (sc_algo alts orders) as [[sc_order|]|e] eqn:Esc; [|exact I|reflexivity].
  pose proof (sc_algo_sound alts orders sc_order Hwf Esc) as Hw.
  apply (sc_witness_check_perm alts orders sc_order Hndo) in Hw. destruct Hw as (Hperm & _).
  destruct sc_order as [|v1 seqt]; [reflexivity|]. cbv zeta.
  assert (Hin : forall r, In r (v1 :: seqt) -> Permutation alts r).
  { intros r Hr. rewrite Forall_forall in Hrk. apply Hrk. eapply Permutation_in; [apply Permutation_sym; exact Hperm|exact Hr]. }
  pose proof (Hin v1 (or_introl eq_refl)) as P1. pose proof (Hin _ (last_In v1 seqt v1)) as Pn.
  destruct v1 as [|c_minus v1t] eqn:Ev1; [reflexivity|]. rewrite <- Ev1 in *.
  destruct (last (v1 :: seqt) v1) as [|c_plus vnt] eqn:Evn; [reflexivity|]. rewrite <- Evn in *.
  destruct (length orders =? 1)%nat; [apply res_eq_refl|].
  pose proof (colour_loop_perm v1 (last (v1 :: seqt) v1) alts alts' (gamma0 v1 (last (v1 :: seqt) v1) c_minus c_plus)
                (gamma0_range _ _ _ _) HP) as Hc.
  destruct (colour_loop v1 (last (v1 :: seqt) v1) alts _) as [g|],
           (colour_loop v1 (last (v1 :: seqt) v1) alts' _) as [g'|]; try contradiction; [|exact I].
  now apply post_perm.
Qed.

(* in particular the verdict *)
Corollary eucl_algo_verdict_order_independent lp alts alts' orders : wf_profile alts orders -> Permutation alts alts' ->
  eucl_algo_verdict lp alts' orders = eucl_algo_verdict lp alts orders.
Proof.
  intros Hwf HP. pose proof (eucl_algo_order_independent lp alts alts' orders Hwf HP) as H. unfold eucl_algo_verdict.
  destruct (eucl_algo lp alts orders) as [[y|]|e], (eucl_algo lp alts' orders) as [[y'|]|e']; cbn in H; try contradiction; reflexivity.
Qed.
