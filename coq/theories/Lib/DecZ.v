(* Lib/DecZ.v — str(n) / int(s) for Python ints of either sign (node ids of matching files), over code-point
   text.  show_Z z = "-" ++ digits for negative z.  read_Z accepts an optional leading "-" followed by a non-empty
   ASCII digit string (int() also accepts "+3", surrounding whitespace, "3_0", other Unicode digits: not modelled,
   kept out of generated text). *)
From Coq Require Import List NArith ZArith Bool Lia.
From PrefVerif Require Import Lib.Dec Lib.PyStr.
Import ListNotations.

Definition show_Z (z : Z) : text :=
  match z with
  | Zneg p => 45%N :: show_N (Npos p)
  | _ => show_N (Z.to_N z)
  end.

Definition read_Z (t : text) : option Z :=
  match t with
  | 45%N :: r => option_map (fun n => Z.opp (Z.of_N n)) (read_N r)
  | _ => option_map Z.of_N (read_N t)
  end.

(* the characters of a printed int: ASCII digits and "-" *)
Definition idchar (c : N) : bool := is_digit c || N.eqb c 45.

Lemma show_N_head_digit n : match show_N n with c :: _ => is_digit c = true | [] => False end.
Proof.
  pose proof (show_N_nonempty n) as H. pose proof (show_N_digits n) as D.
  destruct (show_N n) as [|c r]; [contradiction|]. simpl in D. now apply andb_true_iff in D as [D _].
Qed.

Theorem read_show_Z z : read_Z (show_Z z) = Some z.
Proof.
  destruct z as [|p|p]; unfold show_Z.
  - reflexivity.
  - unfold read_Z. pose proof (show_N_head_digit (Z.to_N (Zpos p))) as H.
    destruct (show_N (Z.to_N (Zpos p))) as [|c r] eqn:E; [contradiction|].
    destruct (N.eqb_spec c 45) as [->|Hc]; [discriminate|].
    assert (X : match c with 45%N => option_map (fun n => Z.opp (Z.of_N n)) (read_N r)
                        | _ => option_map Z.of_N (read_N (c :: r)) end = option_map Z.of_N (read_N (c :: r))).
    { destruct c as [|q]; [reflexivity|]. do 6 (destruct q; try reflexivity). congruence. }
    rewrite X, <- E, read_show_N. reflexivity.
  - unfold read_Z. rewrite read_show_N. reflexivity.
Qed.

Lemma show_Z_nonempty z : show_Z z <> [].
Proof. destruct z; unfold show_Z; try apply show_N_nonempty; discriminate. Qed.

Lemma show_Z_idchars z : forallb idchar (show_Z z) = true.
Proof.
  assert (D : forall n, forallb idchar (show_N n) = true).
  { intros n. pose proof (show_N_digits n) as H. rewrite forallb_forall in *. intros c Hc. unfold idchar.
    now rewrite (H c Hc). }
  destruct z; unfold show_Z; try apply D; simpl; apply D.
Qed.

Lemma show_Z_all (p : N -> bool) z : (forall c, idchar c = true -> p c = true) -> forallb p (show_Z z) = true.
Proof.
  intros H. pose proof (show_Z_idchars z) as D. rewrite forallb_forall in *. intros c Hc. apply H. now apply D.
Qed.

Lemma show_Z_inj a b : show_Z a = show_Z b -> a = b.
Proof.
  intros H. assert (Some a = Some b) as E by (rewrite <- !read_show_Z; now rewrite H). now injection E.
Qed.
