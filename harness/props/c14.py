"""C14 — Bucklin and fallback voting: majority-threshold rule, per-voter counts, termination.

Observables compared: the returned winner SET (sorted list), the exception class for instance types outside the
domain, and wall-clock termination (watchdog).  The judge is the extracted model Model/Bucklin.v."""
import itertools
import random

from .common import case, guarded, rand_perm
from . import c06

ID = "C14"
COVER_FILES = ['aggregation/singlewinner.py']
RULE = ("exhaustive: every profile over m <= 3 alternatives with <= 3 distinct ballots and multiplicities in {1,2}, "
        "soc (both rules) and soi (fallback; Bucklin must refuse), plus toc/toi/cat/wmd labels (both must refuse); "
        "random: m <= 8, <= 9 distinct ballots, multiplicities <= 50: shared first choices, first-place majorities "
        "(exact, one short, tie at n/2), rotations, single-alternative profiles, truncated ballots whose counts never "
        "reach the quota. histories (550 quick / 7000 thorough): one instance object through the append API, both rules, repeated-ballot appends that flip the majority, rules again on the same object, then in-place edits of the public multiplicity table + recompute_cardinality_param that keep num_voters / num_unique_orders / num_alternatives (voters moved between ballots, two multiplicities swapped) and the rules once more, judged on the current multiplicity table. non-trivial = >= 2 alternatives, >= 2 distinct ballots, some multiplicity > 1")
EXHAUSTIVE = {"quick": "m<=3, n<=3 distinct ballots, multiplicities<=2, soc/soi (+ toc/toi for the guards)",
              "thorough": "m<=3, n<=3 distinct ballots, multiplicities<=3; m=4 soc with n<=2, multiplicities<=2"}
TRUSTED = ["modelled (mirror): singlewinner.py fallback_voting_winner, bucklin_voting_winner, decorators.py; the level "
           "loop is a fuel-bounded recursion in the model (theorem: fuel num_alternatives is never exhausted) and is "
           "observed by the watchdog on the implementation side"]
ASSUMPTIONS = ["instance.orders == list(instance.multiplicity) (parser / append_* invariant; C02)",
               "strict orders (singleton classes), at least one class per ballot, multiplicities >= 1; "
               "num_alternatives and num_voters agree with the data"]
TIMEOUT_S = 10.0
CHUNK = 100

DT = c06.DT
NAMES = ["fallback", "bucklin"]
THEOREMS_FOR_OP = {"c14.both": "fallback_spec / bucklin_spec / *_fuel / *_guard of Properties/C14.v",
                   "c14.fallback": "fallback_spec, fallback_fuel, fallback_guard",
                   "c14.bucklin": "bucklin_spec, bucklin_fuel, bucklin_guard"}


def both_case(dt, alts, prof, **tags):
    return case("c14.both", c06.inst_payload(dt, alts, prof), **tags)


def gen_exhaustive(tier):
    out = []
    mmax = 2 if tier == "quick" else 3
    for m in (1, 2, 3):
        alts = list(range(1, m + 1))
        for dt in (0, 1, 2, 3):
            bl = c06.ballots_of(dt, alts)
            nmax = 3 if dt in (0, 1) else 2
            for n in range(1, nmax + 1):
                for combo in itertools.combinations(bl, n):
                    for mults in itertools.product(range(1, mmax + 1), repeat=n):
                        out.append(both_case(dt, alts, list(zip(combo, mults)), exh=1))
    if tier == "thorough":
        alts = [1, 2, 3, 4]
        bl = c06.ballots_of(0, alts)
        for n in (1, 2):
            for combo in itertools.combinations(bl, n):
                for mults in itertools.product((1, 2), repeat=n):
                    out.append(both_case(0, alts, list(zip(combo, mults)), exh=1))
    return out


def strictb(perm, dt, rng, p_trunc=0.6):
    if dt == 1 and rng.random() < p_trunc:
        perm = perm[: rng.randint(1, len(perm))]
    return [[a] for a in perm]


def level_profile(rng, dt, alts):
    m = len(alts)
    base = rand_perm(rng, alts)
    kind = rng.choice(["shared", "majority", "half", "rot", "noquota", "plain", "second-level"])
    prof = []
    if kind == "shared":
        top = base[0]
        for _ in range(rng.randint(2, 5)):
            prof.append((strictb([top] + rand_perm(rng, base[1:]), dt, rng), rng.randint(1, 50)))
        for _ in range(rng.randint(0, 4)):
            prof.append((strictb(rand_perm(rng, alts), dt, rng), rng.randint(1, 50)))
    elif kind in ("majority", "half"):
        # top gets tot voters over several orders; the others get tot-1 (majority), tot (exact half), tot+1 (no majority)
        top = base[0]
        tot = 0
        for _ in range(rng.randint(1, 3)):
            k = rng.randint(1, 50)
            tot += k
            prof.append((strictb([top] + rand_perm(rng, base[1:]), dt, rng), k))
        rem = tot + (rng.choice([-1, 0, 1]) if kind == "majority" else 0)
        if m >= 2:
            while rem > 0:
                k = rng.randint(1, rem)
                rem -= k
                p = rand_perm(rng, alts)
                if p[0] == top:
                    p = p[1:] + p[:1]
                prof.append((strictb(p, dt, rng), k))
    elif kind == "rot":
        c = rng.randint(1, 50)
        for r in range(m):
            prof.append((strictb(base[r:] + base[:r], dt, rng, 0.2), c))
    elif kind == "noquota":
        # short ballots with scattered first choices: often no depth reaches the quota (fallback -> approval counts)
        for _ in range(rng.randint(2, 8)):
            p = rand_perm(rng, alts)
            cut = rng.randint(1, max(1, min(2, m))) if dt == 1 else m
            prof.append(([[a] for a in p[:cut]], rng.randint(1, 5)))
    elif kind == "second-level":
        # first places split evenly, a common second choice
        if m >= 3:
            second = base[0]
            rest = base[1:]
            c = rng.randint(1, 20)
            for t in rest:
                tail = rand_perm(rng, [x for x in rest if x != t])
                prof.append((strictb([t, second] + tail, dt, rng, 0.3), c + rng.choice([0, 0, 1])))
        else:
            prof.append((strictb(base, dt, rng), rng.randint(1, 50)))
    else:
        for _ in range(rng.randint(1, 9)):
            prof.append((strictb(rand_perm(rng, alts), dt, rng), rng.randint(1, 50)))
    rng.shuffle(prof)
    return kind, prof[:10]


def half_profile(rng, dt, alts):
    """even number of voters, some alternative placed in the top k by exactly n/2 voters (not a strict majority:
    quota floor(n/2)+1 and ceil(n/2) differ here)"""
    m = len(alts)
    base = rand_perm(rng, alts)
    top = base[0]
    d = rng.randint(1, min(m, 3))                  # depth at which `top` has collected exactly n/2
    half = rng.randint(1, 30)
    prof = []
    left = half
    while left > 0:
        k = rng.randint(1, left)
        left -= k
        rest = rand_perm(rng, base[1:])
        pos = rng.randint(0, d - 1)
        p = rest[:pos] + [top] + rest[pos:]
        prof.append((strictb(p, dt, rng, 0.0 if dt == 0 else 0.3) if dt == 0 else [[a] for a in p[: max(pos + 1, rng.randint(1, m))]], k))
    left = half
    while left > 0:                                # the other half ranks `top` last or (soi) not at all
        k = rng.randint(1, left)
        left -= k
        rest = rand_perm(rng, base[1:])
        if dt == 0 or not rest:
            prof.append(([[a] for a in rest + [top]], k))
        else:
            prof.append(([[a] for a in rest[: rng.randint(1, len(rest))]], k))
    rng.shuffle(prof)
    return prof[:12]


def last_depth_profile(rng, alts):
    """soi: a strict majority is reached only at depth m, through the last position of complete ballots"""
    m = len(alts)
    base = rand_perm(rng, alts)
    x = base[-1]
    c = rng.randint(1, 20)
    prof = []
    left = c
    while left > 0:                                # complete ballots ending in x, different beginnings
        k = rng.randint(1, left)
        left -= k
        prof.append(([[a] for a in rand_perm(rng, base[:-1]) + [x]], k))
    prof.append(([[x]], c))                        # x alone on c truncated ballots: exactly n/2 until depth m
    extra = rng.randint(0, 1)
    if extra and m >= 3:                           # one more voter for x, below the top, keeps x short of the quota
        prof.append(([[base[0]], [x]] if rng.random() < 0.5 else [[base[1]]], 1))
    rng.shuffle(prof)
    return prof


def _call_rule14(inst, r, k):
    from preflibtools.aggregation import singlewinner as W
    return c06._win([W.fallback_voting_winner, W.bucklin_voting_winner][r], inst)


def _default_sel14(m):
    return [[0, 0], [1, 0]]


def _pick_sel14(rng, m):
    return [[rng.choice([0, 1]), 0]]


def oracle_requests(c, r):
    if c["op"] == "c14.perm":
        return [("c14.both", c["payload"][0])]
    if c["op"] != "c14.hist":
        return [(c["op"], c["payload"])]
    if not isinstance(r, list):
        return []
    return [("c14.both", snap) for snap, res in r]


def gen_histories(rng, count):
    out = []
    for _ in range(count):
        out.append(case("c14.hist", c06.gen_history_actions(rng, rng.choice([0, 0, 1]), 2, _pick_sel14), gen="history"))
    return out


def generate(tier, seed):
    cases = _generate(tier, seed)
    cases.extend(gen_histories(random.Random(1000003 * seed + 14014), 550 if tier == "quick" else 7000))
    for pc in c06.gen_permuted(random.Random(1000003 * seed + 140014), 600 if tier == "quick" else 6000):
        if pc["payload"][0][0] in (0, 1):          # strict shapes: soc / soi
            cases.append(case("c14.perm", pc["payload"], **pc["tags"]))
    rng = random.Random(1000003 * seed + 1414)
    out = []
    for c in cases:
        if c["op"] == "c14.both" and not c["tags"].get("exh"):
            ip, tags = c06.exotic_payload(rng, c["payload"])
            if tags:
                c = case("c14.both", ip, **dict(c["tags"], exotic="+".join(tags)))
        out.append(c)
    return out


def big_half_profile(rng, dt, alts):
    """even n beyond 2**53: one first choice has exactly n/2, or n/2 + 1, of the voters"""
    B = rng.choice([2 ** 53, 2 ** 53 + 1, 2 ** 63, 2 ** 64 + 1, 10 ** 30 + 7])
    base = rand_perm(rng, alts)
    top = base[0]
    extra = rng.choice([0, 0, 1, 2])
    prof = []
    for k in rng.choice([[B + extra], [B, extra] if extra else [B - 1, 1], [1, B - 1 + extra]]):
        if k > 0:
            prof.append((strictb([top] + rand_perm(rng, base[1:]), dt, rng, 0.3), k))
    for k in rng.choice([[B], [B - 1, 1], [1, 1, B - 2]]):
        p = rand_perm(rng, base[1:]) + [top]
        prof.append(([[a] for a in (p if dt == 0 else p[: rng.randint(1, len(p))])], k))
    rng.shuffle(prof)
    return prof


def _generate(tier, seed):
    rng = random.Random(1000003 * seed + 14)
    out = gen_exhaustive(tier)
    n = 300 if tier == "quick" else 3000
    for i in range(n):
        m = rng.randint(2, 5)
        alts = rng.sample([0, 1, 2, 3, 4, 5, 6, 10 ** 18, 2 ** 64 + 1], m)
        dt = rng.choice([0, 1])
        out.append(both_case(dt, alts, big_half_profile(rng, dt, alts), gen="big-exact-half"))
    n = 600 if tier == "quick" else 8000
    for i in range(n):
        m = rng.choice([1, 2, 2, 3, 3, 4, 5, 6, 8])
        alts = rng.sample(range(1, 40), m) if rng.random() < 0.3 else list(range(1, m + 1))
        dt = rng.choice([0, 1])
        out.append(both_case(dt, alts, half_profile(rng, dt, alts), gen="exact-half"))
    n = 400 if tier == "quick" else 5000
    for i in range(n):
        m = rng.randint(2, 8)
        alts = list(range(1, m + 1))
        out.append(both_case(1, alts, last_depth_profile(rng, alts), gen="soi-majority-only-at-last-depth"))
    n = 40 if tier == "quick" else 300             # single-alternative profiles, both rules, soc and soi
    for i in range(n):
        a = rng.randint(1, 99)
        out.append(both_case(i % 2, [a], [([[a]], rng.choice([1, 2, 3, rng.randint(1, 50)]))], gen="single-alternative"))
    n = 3000 if tier == "quick" else 50000
    for i in range(n):
        m = 1 if rng.random() < 0.02 else rng.choice([2, 2, 3, 3, 4, 4, 5, 5, 6, 7, 8])
        alts = rng.sample(range(1, 40), m) if rng.random() < 0.3 else list(range(1, m + 1))
        dt = rng.choice([0, 0, 1, 1, 1])
        kind, prof = level_profile(rng, dt, alts)
        out.append(both_case(dt, alts, prof, gen=kind))
    # guards: weak orders / foreign labels
    n = 200 if tier == "quick" else 2000
    for i in range(n):
        m = rng.randint(1, 5)
        alts = list(range(1, m + 1))
        dt = rng.choice([2, 3, 4, 5])
        shape_dt = dt if dt in (2, 3) else rng.choice([0, 1, 2, 3])
        _, prof = c06.tie_profile(rng, shape_dt, alts)
        out.append(both_case(dt, alts, prof, gen="foreign"))
    return out


def impl(c):
    from preflibtools.aggregation import singlewinner as W
    fns = {"fallback": W.fallback_voting_winner, "bucklin": W.bucklin_voting_winner}
    op, pl = c["op"], c["payload"]
    if op == "c14.hist":
        return c06.hist_run(pl, _call_rule14, _default_sel14)
    if op == "c14.perm":
        ip, po, pm = pl
        return [c06._win(fns[nm], c06.build_permuted(ip, po, pm)) for nm in NAMES]
    if op == "c14.both":
        return [c06._win(fns[nm], c06.build(pl)) for nm in NAMES]
    return c06._win(fns[op.split(".")[1]], c06.build(pl))


def judge(c, r, mres):
    if c["op"] == "c14.hist":
        return c06.judge_history(c, r, mres, NAMES, 2, "fallback_spec / bucklin_spec / *_regroup on the current multiplicity table")
    m = mres[0]
    names = NAMES
    if c["op"] == "c14.perm":
        j = judge({"op": "c14.both", "payload": c["payload"][0], "tags": {}}, r, mres)
        if j:
            j["reason"] = "with %s (same ballots and multiplicities), " % c["tags"].get("gen", "permuted storage") + j["reason"]
        return j
    if c["op"] != "c14.both":
        r, m, names = [r], [m], [c["op"].split(".")[1]]
    if len(r) != len(names) or len(m) != len(names):
        return {"kind": "broken-correspondence", "reason": "result arity"}
    dt = c["payload"][0]
    for nm, ri, mi in zip(names, r, m):
        if ri[:2] != c06._canon(mi):
            what = "winner set" if mi[0] == 0 and ri[0] == 0 else "refusal / exception class"
            return {"kind": "mismatch",
                    "reason": "%s on a %s instance: %s differs: implementation %r, model %r"
                              % (nm, DT[dt], what, ri, c06._canon(mi)),
                    "theorem": THEOREMS_FOR_OP["c14." + nm]}
    return None


def nontrivial(c, r, m):
    if c["op"] in ("c14.hist", "c14.perm"):
        return True
    ip = c["payload"]
    return len(ip[1]) >= 2 and len(ip[4]) >= 2 and any(k > 1 for _, k in ip[4])


def _depth(ip):
    """depth at which the quota is reached on the expanded profile (harness-side statistic only)"""
    _, alts, n_alt, n_vot, prof = ip
    quota = n_vot // 2 + 1
    for k in range(1, n_alt + 1):
        cnt = {}
        for o, mu in prof:
            for cl in o[:k]:
                cnt[cl[0]] = cnt.get(cl[0], 0) + mu
        if cnt and max(cnt.values()) >= quota:
            return k
    return None


def _exact_half_before(ip, d):
    _, alts, n_alt, n_vot, prof = ip
    last = n_alt if d is None else d - 1
    for k in range(1, last + 1):
        cnt = {}
        for o, mu in prof:
            for cl in o[:k]:
                cnt[cl[0]] = cnt.get(cl[0], 0) + mu
        if cnt and 2 * max(cnt.values()) == n_vot:
            return True
    return False


def stats(c, r, m):
    if c["op"] == "c14.hist":
        return c06.history_stats(c, r, m, NAMES, 2)
    if c["op"] == "c14.perm":
        return [c["tags"].get("gen", "storage-order"), "storage-order on type=%s" % DT[c["payload"][0][0]]]
    ip = c["payload"]
    out = ["type=%s" % DT[ip[0]], "m=%d" % len(ip[1]), "ballots=%s" % (len(ip[4]) if len(ip[4]) <= 3 else ">3")]
    if c["tags"].get("gen"):
        out.append("gen=" + c["tags"]["gen"])
    if 0 in ip[1]:
        out.append("ids: contain the alternative 0")
    if any(a >= 10 ** 18 for a in ip[1]):
        out.append("ids: huge (>= 10**18, incl. 2**64+1)")
    mx = max([k for _, k in ip[4]] + [0])
    if mx > 2 ** 53:
        out.append("multiplicities: some > 2**53" + (" (> 2**63)" if mx > 2 ** 63 else ""))
    if ip[0] in (0, 1):
        d = _depth(ip)
        out.append("quota reached at depth %s" % ("never" if d is None else (d if d <= 3 else ">3")))
        n_vot, n_alt = ip[3], ip[2]
        if n_vot % 2 == 0 and _exact_half_before(ip, d):
            out.append("even n: best count exactly n/2 at a depth before the quota is reached")
            if n_vot > 2 ** 54:
                out.append("even n > 2**54: best count exactly n/2 (float quota would be wrong)")
        if ip[0] == 1 and d is not None and d == n_alt and n_alt >= 2 and any(len(o) == n_alt for o, _ in ip[4]):
            out.append("soi: strict majority only at the last depth m (complete ballot's last position)")
        if ip[0] == 1 and len({len(o) for o, _ in ip[4]}) > 1:
            out.append("soi: truncated ballots of different lengths")
        if n_alt == 1:
            out.append("single alternative (%s)" % DT[ip[0]])
    mm = m[0] if c["op"] == "c14.both" else [m[0]]
    names = NAMES if c["op"] == "c14.both" else [c["op"].split(".")[1]]
    for nm, mi in zip(names, mm):
        if mi[0] == 0:
            w = len(mi[1])
            out.append("%s: %s" % (nm, "unique winner" if w == 1 else ("%d-way tie" % w if w <= 3 else ">3-way tie")))
        else:
            out.append("%s: refused(%d)" % (nm, mi[1]))
    return out


def describe(c):
    if c["op"] == "c14.hist":
        return c06.describe_history(c, NAMES)
    if c["op"] == "c14.perm":
        return c06.describe(dict(c, op="c06.perm"))
    ip = c["payload"]
    return {"op": c["op"], "data_type": DT[ip[0]], "alternatives": ip[1],
            "ballots": [{"order": o, "multiplicity": k} for o, k in ip[4]],
            "results_are": NAMES if c["op"] == "c14.both" else c["op"]}


def shrink(c):
    if c["op"] == "c14.perm":
        return
    if c["op"] == "c14.hist":
        for c2 in c06.shrink_history(c):
            if all(a[0] != 1 or all(rr < 2 for rr, _ in a[1]) for a in c2["payload"]):
                yield c2
        return
    dt, alts, _, _, prof = c["payload"]
    if len(prof) > 1:
        for i in range(len(prof)):
            yield dict(c, payload=c06.inst_payload(dt, alts, prof[:i] + prof[i + 1:]))
    if len(alts) > 1:
        for x in alts:
            np = []
            for o, k in prof:
                o2 = [[a for a in cl if a != x] for cl in o]
                o2 = [cl for cl in o2 if cl]
                if o2:
                    np.append((o2, k))
            if np:
                yield dict(c, payload=c06.inst_payload(dt, [a for a in alts if a != x], np))
    for i in range(len(prof)):
        k = prof[i][1]
        for k2 in sorted({1, k // 2, k - 1}):
            if 1 <= k2 < k:
                yield dict(c, payload=c06.inst_payload(dt, alts, prof[:i] + [(prof[i][0], k2)] + prof[i + 1:]))
    if c["op"] == "c14.both":
        for nm in NAMES:
            yield {"op": "c14." + nm, "payload": c["payload"], "tags": dict(c["tags"])}
