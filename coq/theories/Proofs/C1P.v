(* Proofs/C1P.v — lemmas about Model/C1P.v: shapes of 0/1 words, the verified checker and the verified
   reference decider of the consecutive-ones property, the prefix/suffix lemma behind the "extremal" domains. *)
From Coq Require Import List Arith Bool Lia Permutation.
From PrefVerif Require Import Lib.Perms Model.C1P.
Import ListNotations.

(* ------------------------------------------------------------------------------------------------ *)
(* Prop-level shapes of a list with respect to a property S of its elements *)
Section Shapes.
Context {T : Type}.

(* the elements satisfying P occupy consecutive positions of l *)
Definition Interval (P : T -> Prop) (l : list T) : Prop :=
  exists l1 l2 l3, l = l1 ++ l2 ++ l3 /\
    Forall (fun x => ~ P x) l1 /\ Forall P l2 /\ Forall (fun x => ~ P x) l3.
(* ... form a prefix / a suffix of l *)
Definition PrefixOf (P : T -> Prop) (l : list T) : Prop :=
  exists l1 l2, l = l1 ++ l2 /\ Forall P l1 /\ Forall (fun x => ~ P x) l2.
Definition SuffixOf (P : T -> Prop) (l : list T) : Prop :=
  exists l1 l2, l = l1 ++ l2 /\ Forall (fun x => ~ P x) l1 /\ Forall P l2.
Definition Extremal (P : T -> Prop) (l : list T) : Prop := PrefixOf P l \/ SuffixOf P l.

Variable f : T -> bool.
Variable P : T -> Prop.
Hypothesis fS : forall x, f x = true <-> P x.

Lemma fS_false x : f x = false <-> ~ P x.
Proof. rewrite <- fS. destruct (f x); split; congruence. Qed.

Lemma all_zero_map l : all_zero (map f l) = true <-> Forall (fun x => ~ P x) l.
Proof.
  unfold all_zero. rewrite forallb_forall, Forall_forall. split.
  - intros H x Hx. apply fS_false. specialize (H (f x) (in_map f l x Hx)). now destruct (f x).
  - intros H b Hb. apply in_map_iff in Hb. destruct Hb as (x & <- & Hx).
    apply H, fS_false in Hx. now rewrite Hx.
Qed.

Lemma all_one_map l : all_one (map f l) = true <-> Forall P l.
Proof.
  unfold all_one. rewrite forallb_forall, Forall_forall. split.
  - intros H x Hx. apply fS. exact (H (f x) (in_map f l x Hx)).
  - intros H b Hb. apply in_map_iff in Hb. destruct Hb as (x & <- & Hx). now apply fS, H.
Qed.

Lemma ones_zeros_map l : ones_zeros (map f l) = true <-> PrefixOf P l.
Proof.
  induction l as [|x t IH]; simpl.
  - split; [|reflexivity]. intros _. exists [], []. repeat split; constructor.
  - destruct (f x) eqn:E.
    + rewrite IH. split.
      * intros (l1 & l2 & -> & H1 & H2). exists (x :: l1), l2. repeat split; auto.
        constructor; [now apply fS|assumption].
      * intros (l1 & l2 & Heq & H1 & H2). destruct l1 as [|y l1]; simpl in Heq.
        -- subst l2. inversion H2 as [|? ? Hx _]; subst. apply fS in E. contradiction.
        -- injection Heq as <- ->. inversion H1; subst. exists l1, l2. auto.
    + rewrite all_zero_map. split.
      * intros H. exists [], (x :: t). repeat split; [constructor|].
        constructor; [now apply fS_false|assumption].
      * intros (l1 & l2 & Heq & H1 & H2). destruct l1 as [|y l1]; simpl in Heq.
        -- subst l2. now inversion H2.
        -- injection Heq as <- ->. inversion H1 as [|? ? Hx _]; subst. apply fS in Hx. congruence.
Qed.

Lemma zeros_ones_map l : zeros_ones (map f l) = true <-> SuffixOf P l.
Proof.
  induction l as [|x t IH]; simpl.
  - split; [|reflexivity]. intros _. exists [], []. repeat split; constructor.
  - destruct (f x) eqn:E.
    + rewrite all_one_map. split.
      * intros H. exists [], (x :: t). repeat split; [constructor|].
        constructor; [now apply fS|assumption].
      * intros (l1 & l2 & Heq & H1 & H2). destruct l1 as [|y l1]; simpl in Heq.
        -- subst l2. now inversion H2.
        -- injection Heq as <- ->. inversion H1 as [|? ? Hx _]; subst. apply fS in E. contradiction.
    + rewrite IH. split.
      * intros (l1 & l2 & -> & H1 & H2). exists (x :: l1), l2. repeat split; auto.
        constructor; [now apply fS_false|assumption].
      * intros (l1 & l2 & Heq & H1 & H2). destruct l1 as [|y l1]; simpl in Heq.
        -- subst l2. inversion H2 as [|? ? Hx _]; subst. apply fS in Hx. congruence.
        -- injection Heq as <- ->. inversion H1; subst. exists l1, l2. auto.
Qed.

Lemma contig01_map l : contig01 (map f l) = true <-> Interval P l.
Proof.
  induction l as [|x t IH]; simpl.
  - split; [|reflexivity]. intros _. exists [], [], []. repeat split; constructor.
  - destruct (f x) eqn:E.
    + rewrite ones_zeros_map. split.
      * intros (l2 & l3 & -> & H2 & H3). exists [], (x :: l2), l3. repeat split; auto.
        constructor; [now apply fS|assumption].
      * intros (l1 & l2 & l3 & Heq & H1 & H2 & H3). destruct l1 as [|y l1]; simpl in Heq.
        -- destruct l2 as [|y l2]; simpl in Heq.
           ++ subst l3. inversion H3 as [|? ? Hx _]; subst. apply fS in E. contradiction.
           ++ injection Heq as <- ->. inversion H2; subst. exists l2, l3. auto.
        -- injection Heq as <- ->. inversion H1 as [|? ? Hx _]; subst. apply fS in E. contradiction.
    + rewrite IH. split.
      * intros (l1 & l2 & l3 & -> & H1 & H2 & H3). exists (x :: l1), l2, l3. repeat split; auto.
        constructor; [now apply fS_false|assumption].
      * intros (l1 & l2 & l3 & Heq & H1 & H2 & H3). destruct l1 as [|y l1]; simpl in Heq.
        -- destruct l2 as [|y l2]; simpl in Heq.
           ++ subst l3. inversion H3; subst. exists [], [], t. repeat split; auto.
           ++ injection Heq as <- ->. inversion H2 as [|? ? Hx _]; subst. apply fS in Hx. congruence.
        -- injection Heq as <- ->. inversion H1; subst. exists l1, l2, l3. auto.
Qed.

Lemma extremal01_map l : extremal01 (map f l) = true <-> Extremal P l.
Proof.
  unfold extremal01, Extremal. rewrite orb_true_iff, ones_zeros_map, zeros_ones_map. reflexivity.
Qed.

(* the position-based reading: no element outside P between two elements of P *)
Lemma contig01_map_between l :
  contig01 (map f l) = true <->
  forall i j k d, i < j -> j < k -> k < length l -> P (nth i l d) -> P (nth k l d) -> P (nth j l d).
Proof.
  assert (Hz : forall t, all_zero (map f t) = true <-> forall j d, j < length t -> ~ P (nth j t d)).
  { intros t. rewrite all_zero_map, Forall_forall. split.
    - intros H j d Hj. apply H, nth_In, Hj.
    - intros H x Hx. destruct (In_nth _ _ x Hx) as (j & Hj & <-). now apply H. }
  assert (Hoz : forall t, ones_zeros (map f t) = true <->
                 forall i j d, i < j -> j < length t -> P (nth j t d) -> P (nth i t d)).
  { induction t as [|x t IHt]; simpl.
    - split; [|reflexivity]. intros _ i j d _ Hj. lia.
    - destruct (f x) eqn:E.
      + rewrite IHt. split.
        * intros H i j d Hij Hj Sj. destruct j as [|j]; [lia|]. destruct i as [|i]; [now apply fS|].
          apply (H i j d); [lia|lia|exact Sj].
        * intros H i j d Hij Hj Sj. apply (H (S i) (S j) d); [lia|lia|exact Sj].
      + rewrite Hz. split.
        * intros H i j d Hij Hj Sj. destruct j as [|j]; [lia|]. exfalso. apply (H j d); [lia|exact Sj].
        * intros H j d Hj Sj. apply fS_false in E. apply E. apply (H 0 (S j) d); [lia|lia|exact Sj]. }
  induction l as [|x t IH]; simpl.
  - split; [|reflexivity]. intros _ i j k d _ _ Hk. lia.
  - destruct (f x) eqn:E.
    + rewrite Hoz. split.
      * intros H i j k d Hij Hjk Hk Si Sk. destruct k as [|k]; [lia|]. destruct j as [|j]; [lia|].
        apply (H j k d); [lia|lia|exact Sk].
      * intros H i j d Hij Hj Sj. apply (H 0 (S i) (S j) d); [lia|lia|lia|now apply fS|exact Sj].
    + rewrite IH. split.
      * intros H i j k d Hij Hjk Hk Si Sk. destruct k as [|k]; [lia|]. destruct j as [|j]; [lia|].
        destruct i as [|i]; [apply fS_false in E; contradiction|].
        apply (H i j k d); [lia|lia|lia|exact Si|exact Sk].
      * intros H i j k d Hij Hjk Hk Si Sk. apply (H (S i) (S j) (S k) d); [lia|lia|lia|exact Si|exact Sk].
Qed.
End Shapes.

(* ------------------------------------------------------------------------------------------------ *)
(* permutations of 0 .. nc-1 *)
Lemma memn_iff j l : memn j l = true <-> In j l.
Proof.
  unfold memn. rewrite existsb_exists. split.
  - intros (x & Hx & E). apply Nat.eqb_eq in E. now subst.
  - intros H. exists j. split; [assumption|apply Nat.eqb_refl].
Qed.

Theorem perm_of_seq_correct nc perm : perm_of_seq nc perm = true <-> Permutation (seq 0 nc) perm.
Proof.
  unfold perm_of_seq. rewrite andb_true_iff, Nat.eqb_eq, forallb_forall. split.
  - intros [Hlen Hin]. apply NoDup_Permutation_bis.
    + apply seq_NoDup.
    + rewrite seq_length. lia.
    + intros j Hj. apply memn_iff, Hin, Hj.
  - intros HP. split.
    + rewrite <- (Permutation_length HP). apply seq_length.
    + intros j Hj. apply memn_iff. eapply Permutation_in; eassumption.
Qed.

Lemma perm_of_seq_range nc perm : Permutation (seq 0 nc) perm -> Forall (fun j => j < nc) perm.
Proof.
  intros HP. apply Forall_forall. intros j Hj.
  apply Permutation_sym in HP. apply (Permutation_in _ HP) in Hj. apply in_seq in Hj. lia.
Qed.

(* ------------------------------------------------------------------------------------------------ *)
(* rows *)
Definition RowContig (perm : list nat) (row : list bool) : Prop :=
  Interval (fun j => nth j row false = true) perm.
Definition RowExtremal (perm : list nat) (row : list bool) : Prop :=
  Extremal (fun j => nth j row false = true) perm.

Lemma row_contig_spec perm row : row_contig perm row = true <-> RowContig perm row.
Proof. unfold row_contig, permute_row, RowContig. apply contig01_map. intros j. reflexivity. Qed.

Lemma row_extremal_spec perm row : row_extremal perm row = true <-> RowExtremal perm row.
Proof. unfold row_extremal, permute_row, RowExtremal. apply extremal01_map. intros j. reflexivity. Qed.

(* position-based reading of row_contig: between two ones (in the order perm) there is no zero *)
Lemma row_contig_between perm row :
  row_contig perm row = true <->
  forall i j k, i < j -> j < k -> k < length perm ->
    nth (nth i perm 0) row false = true -> nth (nth k perm 0) row false = true ->
    nth (nth j perm 0) row false = true.
Proof.
  unfold row_contig, permute_row.
  rewrite (contig01_map_between (pick row) (fun j => nth j row false = true)) by (intros; reflexivity).
  split.
  - intros H i j k. apply H.
  - intros H i j k d Hij Hjk Hk.
    rewrite (nth_indep perm d 0), (nth_indep perm d 0 (n:=k)), (nth_indep perm d 0 (n:=j)) by lia.
    now apply H.
Qed.

(* ------------------------------------------------------------------------------------------------ *)
(* the consecutive-ones property, its checker and its decider *)
Definition C1P (rows : matrix) (nc : nat) : Prop :=
  exists perm, Permutation (seq 0 nc) perm /\ Forall (fun row => row_contig perm row = true) rows.

Theorem c1p_check_correct rows nc perm :
  c1p_check rows nc perm = true <->
  Permutation (seq 0 nc) perm /\ Forall (fun row => row_contig perm row = true) rows.
Proof.
  unfold c1p_check. rewrite andb_true_iff, perm_of_seq_correct, forallb_forall, Forall_forall. reflexivity.
Qed.

Theorem c1p_decide_correct rows nc :
  c1p_decide rows nc = true <->
  exists perm, Permutation (seq 0 nc) perm /\ Forall (fun row => row_contig perm row = true) rows.
Proof.
  unfold c1p_decide.
  apply (exists_perm_dec nat (fun perm => Forall (fun row => row_contig perm row = true) rows)).
  intros r. rewrite forallb_forall, Forall_forall. reflexivity.
Qed.

Corollary c1p_check_decide rows nc perm : c1p_check rows nc perm = true -> c1p_decide rows nc = true.
Proof. rewrite c1p_check_correct, c1p_decide_correct. intros H. exists perm. exact H. Qed.

(* ------------------------------------------------------------------------------------------------ *)
(* a word and its complement are both of the form 0*1*0*  iff  the word is 1*0* or 0*1* *)
Lemma all_zero_negb l : all_zero (map negb l) = all_one l.
Proof. unfold all_zero, all_one. induction l as [|[|] t IH]; simpl; auto. Qed.
Lemma all_one_negb l : all_one (map negb l) = all_zero l.
Proof. unfold all_zero, all_one. induction l as [|[|] t IH]; simpl; auto. Qed.
Lemma ones_zeros_negb l : ones_zeros (map negb l) = zeros_ones l.
Proof. induction l as [|[|] t IH]; simpl; auto using all_zero_negb. Qed.
Lemma zeros_ones_negb l : zeros_ones (map negb l) = ones_zeros l.
Proof. induction l as [|[|] t IH]; simpl; auto using all_one_negb. Qed.

Lemma all_one_ones_zeros l : all_one l = true -> ones_zeros l = true.
Proof. unfold all_one. induction l as [|[|] t IH]; simpl; auto. discriminate. Qed.
Lemma all_zero_zeros_ones l : all_zero l = true -> zeros_ones l = true.
Proof. unfold all_zero. induction l as [|[|] t IH]; simpl; auto. discriminate. Qed.
Lemma all_zero_ones_zeros l : all_zero l = true -> ones_zeros l = true.
Proof. unfold all_zero. induction l as [|[|] t IH]; simpl; auto. discriminate. Qed.
Lemma ones_zeros_contig l : ones_zeros l = true -> contig01 l = true.
Proof. induction l as [|[|] t IH]; simpl; auto. intros H. apply IH, all_zero_ones_zeros, H. Qed.
Lemma zeros_ones_contig l : zeros_ones l = true -> contig01 l = true.
Proof. induction l as [|[|] t IH]; simpl; auto. apply all_one_ones_zeros. Qed.

Lemma contig01_complement l : contig01 l && contig01 (map negb l) = extremal01 l.
Proof.
  unfold extremal01. destruct l as [|[|] t]; simpl; auto.
  - (* 1 :: t *)
    destruct (ones_zeros t) eqn:E; simpl.
    + apply zeros_ones_contig. rewrite zeros_ones_negb. exact E.
    + destruct (all_one t) eqn:E1; [|reflexivity]. apply all_one_ones_zeros in E1. congruence.
  - (* 0 :: t *)
    rewrite ones_zeros_negb. destruct (zeros_ones t) eqn:E.
    + rewrite (zeros_ones_contig _ E). now rewrite orb_true_r.
    + rewrite andb_false_r. destruct (all_zero t) eqn:E1; [|reflexivity].
      apply all_zero_zeros_ones in E1. congruence.
Qed.

(* reading a complemented row: needs the column indices to be inside the row *)
Lemma permute_row_negb perm row :
  Forall (fun j => j < length row) perm -> permute_row perm (map negb row) = map negb (permute_row perm row).
Proof.
  unfold permute_row, pick. intros H. rewrite map_map. apply map_ext_in. intros j Hj.
  rewrite Forall_forall in H. specialize (H j Hj).
  rewrite (nth_indep (map negb row) false (negb false)) by (rewrite map_length; exact H).
  apply map_nth.
Qed.

Lemma row_contig_complement perm row :
  Forall (fun j => j < length row) perm ->
  row_contig perm row && row_contig perm (map negb row) = row_extremal perm row.
Proof.
  intros H. unfold row_contig, row_extremal. rewrite permute_row_negb by exact H.
  apply contig01_complement.
Qed.

(* cei_reduction: a matrix stacked on its complement has all rows contiguous in the order perm iff every row
   of the matrix is a prefix or a suffix in the order perm *)
Theorem cei_reduction M nc perm :
  Forall (fun r => length r = nc) M -> Forall (fun j => j < nc) perm ->
  (Forall (fun row => row_contig perm row = true) (M ++ complement M) <->
   Forall (fun row => row_extremal perm row = true) M).
Proof.
  intros HM Hp. unfold complement. rewrite Forall_app, !Forall_forall. split.
  - intros [H1 H2] row Hrow. rewrite <- row_contig_complement.
    + rewrite (H1 row Hrow). rewrite (H2 (map negb row)); [reflexivity|]. now apply in_map.
    + rewrite Forall_forall in HM. rewrite (HM row Hrow). exact Hp.
  - intros H. split.
    + intros row Hrow. specialize (H row Hrow). rewrite <- row_contig_complement in H.
      * now apply andb_true_iff in H.
      * rewrite Forall_forall in HM. rewrite (HM row Hrow). exact Hp.
    + intros r Hr. apply in_map_iff in Hr. destruct Hr as (row & <- & Hrow).
      specialize (H row Hrow). rewrite <- row_contig_complement in H.
      * now apply andb_true_iff in H.
      * rewrite Forall_forall in HM. rewrite (HM row Hrow). exact Hp.
Qed.

Corollary cei_reduction_c1p M nc :
  Forall (fun r => length r = nc) M ->
  (C1P (M ++ complement M) nc <->
   exists perm, Permutation (seq 0 nc) perm /\ Forall (fun row => row_extremal perm row = true) M).
Proof.
  intros HM. unfold C1P. split; intros (perm & HP & H); exists perm; (split; [exact HP|]);
    apply (cei_reduction M nc perm HM (perm_of_seq_range nc perm HP)); exact H.
Qed.

(* ------------------------------------------------------------------------------------------------ *)
(* transpose *)
Lemma transpose_length nc M : length (transpose nc M) = nc.
Proof. unfold transpose. now rewrite map_length, seq_length. Qed.

Lemma transpose_rows nc M : Forall (fun r => length r = length M) (transpose nc M).
Proof.
  unfold transpose. apply Forall_forall. intros r Hr. apply in_map_iff in Hr.
  destruct Hr as (j & <- & _). apply map_length.
Qed.

Lemma complement_rows nc M : Forall (fun r => length r = nc) M -> Forall (fun r => length r = nc) (complement M).
Proof.
  unfold complement. rewrite !Forall_forall. intros H r Hr. apply in_map_iff in Hr.
  destruct Hr as (r0 & <- & Hr0). rewrite map_length. now apply H.
Qed.

(* ------------------------------------------------------------------------------------------------ *)
(* every permutation of a list is the list read through a permutation of its indices *)
Lemma map_nth_seq {T} (l : list T) d : map (fun i => nth i l d) (seq 0 (length l)) = l.
Proof.
  induction l as [|x t IH]; simpl; [reflexivity|]. f_equal.
  rewrite <- seq_shift, map_map. exact IH.
Qed.

Lemma Permutation_index {T} (d : T) (l l' : list T) :
  Permutation l l' ->
  exists p, Permutation (seq 0 (length l)) p /\ l' = map (fun i => nth i l d) p.
Proof.
  induction 1 as [|x l l' HP IH|x y l|l l' l'' HP1 IH1 HP2 IH2].
  - exists []. split; constructor.
  - destruct IH as (p & Hp & ->). exists (0 :: map S p). split.
    + simpl. constructor. rewrite <- seq_shift. now apply Permutation_map.
    + simpl. f_equal. now rewrite map_map.
  - exists (1 :: 0 :: map (fun i => S (S i)) (seq 0 (length l))). split.
    + simpl. rewrite <- !seq_shift, map_map. apply perm_swap.
    + simpl. f_equal. f_equal. rewrite map_map. simpl. symmetry. apply map_nth_seq.
  - destruct IH1 as (p1 & Hp1 & ->). destruct IH2 as (p2 & Hp2 & ->).
    rewrite map_length in Hp2.
    assert (Hlen : length p1 = length l) by (rewrite <- (Permutation_length Hp1); apply seq_length).
    exists (map (fun i => nth i p1 0) p2). split.
    + rewrite Hlen in Hp2. transitivity p1; [exact Hp1|].
      rewrite <- (map_nth_seq p1 0) at 1. rewrite Hlen. now apply Permutation_map.
    + rewrite map_map. apply map_ext_in. intros i Hi.
      apply Permutation_sym in Hp2. apply (Permutation_in _ Hp2) in Hi. apply in_seq in Hi.
      rewrite (nth_indep _ d (nth 0 l d)) by (rewrite map_length; lia).
      apply (map_nth (fun i => nth i l d)).
Qed.

(* ------------------------------------------------------------------------------------------------ *)
(* heredity: a matrix with the consecutive-ones property keeps it when rows are dropped / repeated and when
   only the columns listed in cols (distinct, in any order) are kept.  Contrapositive: a matrix that contains a
   refuted submatrix is refuted — used by the correspondence to obtain proved negative verdicts at sizes where
   the reference enumeration is not run. *)
Lemma Interval_filter {T} (P : T -> Prop) (c : T -> bool) l : Interval P l -> Interval P (filter c l).
Proof.
  intros (l1 & l2 & l3 & -> & H1 & H2 & H3).
  exists (filter c l1), (filter c l2), (filter c l3). rewrite !filter_app.
  repeat split; auto; apply Forall_forall; intros x Hx; apply filter_In in Hx; destruct Hx as [Hx _];
    [rewrite Forall_forall in H1|rewrite Forall_forall in H2|rewrite Forall_forall in H3]; auto.
Qed.

Theorem c1p_hereditary rows nc rows' cols :
  C1P rows nc -> incl rows' rows -> NoDup cols -> Forall (fun j => j < nc) cols ->
  C1P (map (select_cols cols) rows') (length cols).
Proof.
  intros (perm & HP & Hrows) Hincl Hnd Hrange.
  set (q := filter (fun j => memn j cols) perm).
  assert (Hq : Permutation cols q).
  { apply NoDup_Permutation; [exact Hnd| |].
    - apply NoDup_filter. eapply Permutation_NoDup; [exact HP|apply seq_NoDup].
    - intros j. unfold q. rewrite filter_In, memn_iff. split; [|tauto]. intros Hj. split; [|exact Hj].
      eapply Permutation_in; [exact HP|]. apply in_seq. rewrite Forall_forall in Hrange.
      specialize (Hrange j Hj). lia. }
  destruct (Permutation_index 0 cols q Hq) as (p & Hp & Heq).
  exists p. split; [exact Hp|]. rewrite Forall_map. apply Forall_forall. intros row Hrow.
  rewrite Forall_forall in Hrows. specialize (Hrows row (Hincl row Hrow)).
  unfold row_contig in *. 
  assert (E : permute_row p (select_cols cols row) = map (pick row) q).
  { rewrite Heq, map_map. unfold permute_row, select_cols. apply map_ext_in. intros i Hi.
    apply Permutation_sym in Hp. apply (Permutation_in _ Hp) in Hi. apply in_seq in Hi.
    unfold pick at 1. rewrite (nth_indep _ false (pick row 0)) by (rewrite map_length; lia).
    apply (map_nth (pick row)). }
  rewrite E. unfold permute_row in Hrows.
  apply (contig01_map (pick row) (fun j => pick row j = true) (fun j => iff_refl _)).
  apply Interval_filter.
  apply (contig01_map (pick row) (fun j => pick row j = true) (fun j => iff_refl _)). exact Hrows.
Qed.

Corollary c1p_refuted_by_submatrix rows nc rows' cols :
  incl rows' rows -> NoDup cols -> Forall (fun j => j < nc) cols ->
  c1p_decide (map (select_cols cols) rows') (length cols) = false -> c1p_decide rows nc = false.
Proof.
  intros Hincl Hnd Hr Hf. destruct (c1p_decide rows nc) eqn:E; [|reflexivity].
  apply c1p_decide_correct in E. apply (c1p_hereditary rows nc rows' cols) in E; auto.
  apply c1p_decide_correct in E. congruence.
Qed.

Lemma nodupb_NoDup l : nodupb l = true -> NoDup l.
Proof.
  induction l as [|x t IH]; simpl; [constructor|]. rewrite andb_true_iff, negb_true_iff. intros [H1 H2].
  constructor; [|now apply IH]. intros Hin. apply memn_iff in Hin. congruence.
Qed.

Theorem c1p_core_refuted_sound rows nc ridx cols :
  c1p_core_refuted rows nc ridx cols = true -> c1p_decide rows nc = false.
Proof.
  unfold c1p_core_refuted. rewrite !andb_true_iff, negb_true_iff, !forallb_forall.
  intros [[[Hnd Hc] Hr] Hf].
  apply (c1p_refuted_by_submatrix rows nc (map (fun i => nth i rows []) ridx) cols).
  - intros row Hrow. apply in_map_iff in Hrow. destruct Hrow as (i & <- & Hi).
    apply nth_In. apply Nat.ltb_lt. now apply Hr.
  - now apply nodupb_NoDup.
  - apply Forall_forall. intros j Hj. apply Nat.ltb_lt. now apply Hc.
  - exact Hf.
Qed.

(* ================================================================================================ *)
(* The mirror of solve_consecutive_ones / isC1P around reorder_sets: IF reorder_sets meets its contract on
   duplicate-free families of (ascending) index tuples THEN both functions are correct on every matrix. *)
From Coq Require Import Sorted.

Lemma lnat_eqb_eq a b : lnat_eqb a b = true <-> a = b.
Proof.
  revert b. induction a as [|x a IH]; intros [|y b]; simpl; split; try discriminate; auto.
  - rewrite andb_true_iff, Nat.eqb_eq, IH. intros [-> ->]. reflexivity.
  - intros [= -> ->]. rewrite Nat.eqb_refl. simpl. now apply IH.
Qed.

Lemma lnat_eqb_refl a : lnat_eqb a a = true.
Proof. now apply lnat_eqb_eq. Qed.

Lemma lnat_eqb_neq a b : lnat_eqb a b = false <-> a <> b.
Proof. rewrite <- lnat_eqb_eq. destruct (lnat_eqb a b); split; congruence. Qed.

Lemma lnat_eqb_sym a b : lnat_eqb a b = lnat_eqb b a.
Proof.
  destruct (lnat_eqb b a) eqn:E.
  - apply lnat_eqb_eq in E. subst. apply lnat_eqb_refl.
  - apply lnat_eqb_neq. apply lnat_eqb_neq in E. congruence.
Qed.

(* ---- subsequences keep intervals ---- *)
Inductive sublist {T} : list T -> list T -> Prop :=
| sl_nil : sublist [] []
| sl_skip x l' l : sublist l' l -> sublist l' (x :: l)
| sl_keep x l' l : sublist l' l -> sublist (x :: l') (x :: l).

Lemma sublist_nil_l {T} (l : list T) : sublist [] l.
Proof. induction l; constructor; auto. Qed.

Lemma sublist_app_inv {T} (a b l' : list T) :
  sublist l' (a ++ b) -> exists a' b', l' = a' ++ b' /\ sublist a' a /\ sublist b' b.
Proof.
  revert l'. induction a as [|x a IH]; intros l' H; simpl in H.
  - exists [], l'. repeat split; [constructor|exact H].
  - inversion H as [|? ? ? H'|? l0 ? H']; subst.
    + destruct (IH _ H') as (a' & b' & -> & Ha & Hb). exists a', b'. repeat split; auto. now constructor.
    + destruct (IH _ H') as (a' & b' & -> & Ha & Hb). exists (x :: a'), b'. repeat split; auto. now constructor.
Qed.

Lemma sublist_Forall {T} (P : T -> Prop) l' l : sublist l' l -> Forall P l -> Forall P l'.
Proof.
  induction 1; intros HF; auto.
  - inversion HF; subst. auto.
  - inversion HF; subst. constructor; auto.
Qed.

Lemma Interval_sublist {T} (P : T -> Prop) l' l : sublist l' l -> Interval P l -> Interval P l'.
Proof.
  intros Hs (l1 & l2 & l3 & -> & H1 & H2 & H3).
  apply sublist_app_inv in Hs. destruct Hs as (a1 & r & -> & Ha1 & Hr).
  apply sublist_app_inv in Hr. destruct Hr as (a2 & a3 & -> & Ha2 & Ha3).
  exists a1, a2, a3. repeat split; eauto using sublist_Forall.
Qed.

Lemma sublist_nodup {T} (dec : forall x y : T, {x = y} + {x <> y}) l : sublist (nodup dec l) l.
Proof.
  induction l as [|x t IH]; simpl; [constructor|]. destruct (in_dec dec x t); now constructor.
Qed.

Lemma Interval_ext {T} (P Q : T -> Prop) l : (forall x, In x l -> (P x <-> Q x)) -> Interval P l -> Interval Q l.
Proof.
  intros Hext (l1 & l2 & l3 & -> & H1 & H2 & H3). exists l1, l2, l3. split; [reflexivity|].
  rewrite !Forall_forall in *.
  repeat split; intros x Hx.
  - intros HQ. apply (H1 x Hx). apply Hext; [apply in_or_app; now left|exact HQ].
  - apply Hext; [apply in_or_app; right; apply in_or_app; now left|now apply H2].
  - intros HQ. apply (H3 x Hx). apply Hext; [apply in_or_app; right; apply in_or_app; now right|exact HQ].
Qed.

Lemma Interval_map {T U} (f : T -> U) (P : U -> Prop) l :
  Interval (fun x => P (f x)) l <-> Interval P (map f l).
Proof.
  split.
  - intros (l1 & l2 & l3 & -> & H1 & H2 & H3). exists (map f l1), (map f l2), (map f l3).
    rewrite !map_app, !Forall_map. auto.
  - intros (m1 & m2 & m3 & E & H1 & H2 & H3).
    apply map_eq_app in E. destruct E as (l1 & r & -> & <- & E).
    apply map_eq_app in E. destruct E as (l2 & l3 & -> & <- & <-).
    rewrite !Forall_map in *. exists l1, l2, l3. auto.
Qed.

Lemma Interval_flat_map {T U} (g : T -> list U) (P : T -> Prop) (Q : U -> Prop) res :
  (forall k x, In k res -> In x (g k) -> (Q x <-> P k)) ->
  Interval P res -> Interval Q (flat_map g res).
Proof.
  intros Hg (l1 & l2 & l3 & -> & H1 & H2 & H3).
  exists (flat_map g l1), (flat_map g l2), (flat_map g l3). rewrite !flat_map_app. split; [reflexivity|].
  rewrite !Forall_forall in *.
  repeat split; intros x Hx; apply in_flat_map in Hx; destruct Hx as (k & Hk & Hx).
  - intros HQ. apply (H1 k Hk). apply (Hg k x); auto. apply in_or_app. now left.
  - apply (Hg k x); auto. apply in_or_app. right. apply in_or_app. now left.
  - intros HQ. apply (H3 k Hk). apply (Hg k x); auto. apply in_or_app. right. apply in_or_app. now right.
Qed.

(* ---- column sets ---- *)
Lemma col_set_In rows j i :
  In i (col_set rows j) <-> i < length rows /\ pick (nth i rows []) j = true.
Proof.
  unfold col_set. rewrite filter_In, in_seq. split; intros [H1 H2]; split; auto; lia.
Qed.

Lemma seq_sorted a n : StronglySorted lt (seq a n).
Proof.
  revert a. induction n as [|n IH]; intros a; simpl; constructor; [apply IH|].
  apply Forall_forall. intros x Hx. apply in_seq in Hx. lia.
Qed.

Lemma filter_sorted (f : nat -> bool) l : StronglySorted lt l -> StronglySorted lt (filter f l).
Proof.
  induction 1 as [|x t Hs IH Hall]; simpl; [constructor|]. destruct (f x); [|exact IH].
  constructor; [exact IH|]. rewrite Forall_forall in *. intros y Hy. apply filter_In in Hy. now apply Hall.
Qed.

Lemma col_set_sorted rows j : StronglySorted lt (col_set rows j).
Proof. apply filter_sorted, seq_sorted. Qed.

(* all rows contiguous in the column order perm  <->  for every row index v, the columns whose set contains v are
   consecutive in perm *)
Lemma rows_contig_sets rows perm :
  Forall (fun row => row_contig perm row = true) rows <->
  forall v, Interval (fun j => In v (col_set rows j)) perm.
Proof.
  split.
  - intros H v. destruct (Nat.lt_ge_cases v (length rows)) as [Hv|Hv].
    + rewrite Forall_forall in H. specialize (H (nth v rows []) (nth_In _ _ Hv)).
      apply row_contig_spec in H. unfold RowContig in H.
      eapply Interval_ext; [|exact H]. intros j _. rewrite col_set_In. unfold pick. tauto.
    + exists perm, [], []. rewrite app_nil_r. repeat split; try constructor.
      apply Forall_forall. intros j _ Hin. apply col_set_In in Hin. lia.
  - intros H. apply Forall_forall. intros row Hrow.
    destruct (In_nth _ _ [] Hrow) as (v & Hv & <-). apply row_contig_spec. unfold RowContig.
    eapply Interval_ext; [|exact (H v)]. intros j _. rewrite col_set_In. unfold pick. tauto.
Qed.

(* ---- the contract of reorder_sets ---- *)
(* res rearranges the family F and, for every element v, the sets containing v are consecutive in res *)
Definition SetsOK (F res : list (list nat)) : Prop :=
  Permutation F res /\ forall v, Interval (fun s => In v s) res.

(* reorder_sets on a duplicate-free family of ascending index tuples: an arrangement when it answers, and
   ValueError (None) only when no arrangement exists *)
Definition reorder_contract (reorder : list (list nat) -> option (list (list nat))) : Prop :=
  forall F, NoDup F -> Forall (StronglySorted lt) F ->
    match reorder F with
    | Some res => SetsOK F res
    | None => forall res, ~ SetsOK F res
    end.

(* F = the distinct column sets of the matrix *)
Definition family_of (rows : matrix) (nc : nat) (F : list (list nat)) : Prop :=
  NoDup F /\ forall k, In k F <-> exists j, j < nc /\ col_set rows j = k.

Definition cols_of (rows : matrix) (nc : nat) (k : list nat) : list nat :=
  filter (fun j => lnat_eqb (col_set rows j) k) (seq 0 nc).

Lemma filter_partition_perm {T} (p : T -> bool) l :
  Permutation l (filter p l ++ filter (fun x => negb (p x)) l).
Proof.
  induction l as [|x t IH]; simpl; [constructor|]. destruct (p x); simpl.
  - now constructor.
  - apply Permutation_cons_app. exact IH.
Qed.

Lemma flat_map_ext_in {T U} (f g : T -> list U) l :
  (forall x, In x l -> f x = g x) -> flat_map f l = flat_map g l.
Proof.
  induction l as [|x t IH]; intros H; simpl; [reflexivity|].
  rewrite (H x (or_introl eq_refl)), IH; [reflexivity|]. intros y Hy. apply H. now right.
Qed.

Lemma filter_filter {T} (p q : T -> bool) l : filter p (filter q l) = filter (fun x => p x && q x) l.
Proof.
  induction l as [|x t IH]; simpl; [reflexivity|]. destruct (q x); simpl; rewrite ?andb_true_r, ?andb_false_r.
  - destruct (p x); now rewrite IH.
  - exact IH.
Qed.

Lemma group_perm (f : nat -> list nat) F : forall l,
  NoDup F -> (forall x, In x l -> In (f x) F) ->
  Permutation l (flat_map (fun k => filter (fun x => lnat_eqb (f x) k) l) F).
Proof.
  induction F as [|k F' IH]; intros l Hnd Hin.
  - destruct l as [|x t]; [constructor|]. destruct (Hin x (or_introl eq_refl)).
  - inversion Hnd as [|? ? Hk Hnd']; subst. simpl.
    set (l' := filter (fun x => negb (lnat_eqb (f x) k)) l).
    transitivity (filter (fun x => lnat_eqb (f x) k) l ++ l'); [apply filter_partition_perm|].
    apply Permutation_app_head.
    assert (Hl' : forall x, In x l' -> In (f x) F').
    { intros x Hx. apply filter_In in Hx. destruct Hx as [Hx Hne]. apply negb_true_iff, lnat_eqb_neq in Hne.
      destruct (Hin x Hx) as [E|E]; [congruence|exact E]. }
    rewrite (IH l' Hnd' Hl') at 1. apply Permutation_refl'.
    apply flat_map_ext_in. intros k' Hk'. unfold l'. rewrite filter_filter.
    apply filter_ext. intros x. destruct (lnat_eqb (f x) k') eqn:E1; [|reflexivity].
    apply lnat_eqb_eq in E1. destruct (lnat_eqb (f x) k) eqn:E2; [|reflexivity].
    apply lnat_eqb_eq in E2. congruence.
Qed.

(* an arrangement of the column sets yields a column order accepted by the C1P checker ... *)
Lemma family_witness rows nc F res :
  family_of rows nc F -> SetsOK F res ->
  c1p_check rows nc (flat_map (cols_of rows nc) res) = true.
Proof.
  intros [Hnd HF] [HP Hint]. apply c1p_check_correct. split.
  - unfold cols_of. apply (group_perm (col_set rows) res).
    + eapply Permutation_NoDup; eassumption.
    + intros j Hj. apply in_seq in Hj. eapply Permutation_in; [exact HP|]. apply HF. exists j. split; [lia|reflexivity].
  - apply rows_contig_sets. intros v.
    apply (Interval_flat_map (cols_of rows nc) (fun s => In v s) (fun j => In v (col_set rows j)) res); [|apply Hint].
    intros k j _ Hj. unfold cols_of in Hj. apply filter_In in Hj. destruct Hj as [_ E].
    apply lnat_eqb_eq in E. now rewrite E.
Qed.

(* ... and a column order with all rows contiguous yields an arrangement of the column sets *)
Lemma family_arrangement rows nc F :
  family_of rows nc F -> C1P rows nc -> exists res, SetsOK F res.
Proof.
  intros [Hnd HF] (perm & HP & Hrows).
  set (dec := list_eq_dec Nat.eq_dec).
  exists (nodup dec (map (col_set rows) perm)). split.
  - apply NoDup_Permutation; [exact Hnd|apply NoDup_nodup|].
    intros k. rewrite nodup_In, in_map_iff, HF. split.
    + intros (j & Hj & E). exists j. split; [exact E|]. eapply Permutation_in; [exact HP|]. apply in_seq. lia.
    + intros (j & E & Hj). exists j. split; [|exact E].
      apply (Permutation_in _ (Permutation_sym HP)) in Hj. apply in_seq in Hj. lia.
  - intros v. apply (Interval_sublist _ _ _ (sublist_nodup dec _)).
    apply (Interval_map (col_set rows) (fun s => In v s)).
    apply rows_contig_sets. exact Hrows.
Qed.

Lemma family_sorted rows nc F : family_of rows nc F -> Forall (StronglySorted lt) F.
Proof.
  intros [_ HF]. apply Forall_forall. intros k Hk. apply HF in Hk. destruct Hk as (j & _ & <-).
  apply col_set_sorted.
Qed.

(* ---- the grouping dictionary ---- *)
Lemma group_get_add k j g k' :
  group_get k' (add_col k j g) = if lnat_eqb k' k then group_get k' g ++ [j] else group_get k' g.
Proof.
  induction g as [|[k0 cs] t IH]; simpl.
  - destruct (lnat_eqb k' k); reflexivity.
  - destruct (lnat_eqb k k0) eqn:E0; simpl.
    + apply lnat_eqb_eq in E0. subst k0. destruct (lnat_eqb k' k); reflexivity.
    + rewrite IH. destruct (lnat_eqb k' k0) eqn:E1; [|reflexivity].
      destruct (lnat_eqb k' k) eqn:E2; [|reflexivity].
      apply lnat_eqb_eq in E1. apply lnat_eqb_eq in E2. subst. rewrite lnat_eqb_refl in E0. discriminate.
Qed.

Lemma keys_add k j g k' : In k' (map fst (add_col k j g)) <-> k' = k \/ In k' (map fst g).
Proof.
  induction g as [|[k0 cs] t IH]; simpl.
  - intuition.
  - destruct (lnat_eqb k k0) eqn:E0; simpl.
    + apply lnat_eqb_eq in E0. subst k0. intuition.
    + rewrite IH. intuition.
Qed.

Lemma keys_add_NoDup k j g : NoDup (map fst g) -> NoDup (map fst (add_col k j g)).
Proof.
  induction g as [|[k0 cs] t IH]; simpl; intros H.
  - constructor; [intros []|constructor].
  - inversion H as [|? ? Hk0 Ht]; subst. destruct (lnat_eqb k k0) eqn:E0; simpl.
    + now constructor.
    + constructor; [|now apply IH]. rewrite keys_add. intros [E|Hin]; [|contradiction].
      subst. rewrite lnat_eqb_refl in E0. discriminate.
Qed.

Definition group_inv (rows : matrix) (done : list nat) (g : list (list nat * list nat)) : Prop :=
  NoDup (map fst g) /\
  (forall k, In k (map fst g) <-> exists j, In j done /\ col_set rows j = k) /\
  (forall k, group_get k g = filter (fun j => lnat_eqb (col_set rows j) k) done).

Lemma group_fold rows l : forall done g,
  group_inv rows done g ->
  group_inv rows (done ++ l) (fold_left (fun g j => add_col (col_set rows j) j g) l g).
Proof.
  induction l as [|j l IH]; intros done g Hinv; simpl.
  - now rewrite app_nil_r.
  - replace (done ++ j :: l) with ((done ++ [j]) ++ l) by (rewrite <- app_assoc; reflexivity).
    apply IH. destruct Hinv as (H1 & H2 & H3). split; [|split].
    + now apply keys_add_NoDup.
    + intros k. rewrite keys_add, H2. split.
      * intros [->|(j' & Hj' & E)]; [exists j|exists j']; (split; [|auto]); apply in_or_app; simpl; auto.
      * intros (j' & Hj' & E). apply in_app_or in Hj'. destruct Hj' as [Hj'|[<-|[]]]; [right; eauto|left; auto].
    + intros k. rewrite group_get_add, H3, filter_app. simpl. rewrite (lnat_eqb_sym k).
      destruct (lnat_eqb (col_set rows j) k); [reflexivity|now rewrite app_nil_r].
Qed.

Lemma group_cols_spec rows nc :
  family_of rows nc (map fst (group_cols rows nc)) /\
  forall k, group_get k (group_cols rows nc) = cols_of rows nc k.
Proof.
  assert (H0 : group_inv rows [] []).
  { split; [constructor|split]; [|reflexivity]. intros k. simpl. split; [tauto|]. intros (j & [] & _). }
  pose proof (group_fold rows (seq 0 nc) [] [] H0) as (H1 & H2 & H3). simpl in *.
  split; [split; [exact H1|]|exact H3].
  intros k. rewrite H2. split; intros (j & Hj & E); exists j; (split; [|exact E]).
  - apply in_seq in Hj. lia.
  - apply in_seq. lia.
Qed.

(* ---- isC1P's duplicate removal ---- *)
Lemma memk_iff k l : memk k l = true <-> In k l.
Proof.
  unfold memk. rewrite existsb_exists. split.
  - intros (x & Hx & E). apply lnat_eqb_eq in E. now subst.
  - intros H. exists k. split; [exact H|apply lnat_eqb_refl].
Qed.

Lemma dedup_fold l : forall acc, NoDup acc ->
  NoDup (fold_left (fun acc s => if memk s acc then acc else acc ++ [s]) l acc) /\
  forall k, In k (fold_left (fun acc s => if memk s acc then acc else acc ++ [s]) l acc) <-> In k acc \/ In k l.
Proof.
  induction l as [|s l IH]; intros acc Hnd; simpl.
  - split; [exact Hnd|]. intros k. tauto.
  - destruct (memk s acc) eqn:E.
    + destruct (IH acc Hnd) as [H1 H2]. split; [exact H1|]. intros k. rewrite H2.
      apply memk_iff in E. split; [tauto|]. intros [H|[<-|H]]; auto.
    + assert (Hnd' : NoDup (acc ++ [s])).
      { apply (Permutation_NoDup (Permutation_cons_append acc s)). constructor; [|exact Hnd].
        intros Hin. apply memk_iff in Hin. congruence. }
      destruct (IH (acc ++ [s]) Hnd') as [H1 H2]. split; [exact H1|]. intros k. rewrite H2, in_app_iff. simpl. tauto.
Qed.

Lemma dedup_sets_family rows nc : family_of rows nc (dedup_sets (map (col_set rows) (seq 0 nc))).
Proof.
  unfold dedup_sets. destruct (dedup_fold (map (col_set rows) (seq 0 nc)) [] (NoDup_nil _)) as [H1 H2].
  split; [exact H1|]. intros k. rewrite H2, in_map_iff. simpl. split.
  - intros [[]|(j & E & Hj)]. exists j. apply in_seq in Hj. split; [lia|exact E].
  - intros (j & Hj & E). right. exists j. split; [exact E|apply in_seq; lia].
Qed.

(* ---- main results: relative to the contract of reorder_sets, both functions are correct on every matrix
   (repeated and all-zero rows and columns included; no hypothesis on the rows) ---- *)
Section SolverMirrorCorrect.
Variable reorder : list (list nat) -> option (list (list nat)).
Hypothesis contract : reorder_contract reorder.

Theorem solve_model_correct rows nc :
  match solve_model reorder rows nc with
  | Some perm => c1p_check rows nc perm = true
  | None => c1p_decide rows nc = false
  end.
Proof.
  unfold solve_model. destruct (group_cols_spec rows nc) as [Hfam Hget].
  pose proof (contract _ (proj1 Hfam) (family_sorted _ _ _ Hfam)) as Hc.
  destruct (reorder (map fst (group_cols rows nc))) as [res|].
  - rewrite (flat_map_ext_in _ (cols_of rows nc)) by (intros k _; apply Hget).
    now apply (family_witness rows nc _ res Hfam).
  - destruct (c1p_decide rows nc) eqn:E; [|reflexivity]. apply c1p_decide_correct in E.
    destruct (family_arrangement rows nc _ Hfam E) as (res & Hres). destruct (Hc res Hres).
Qed.

Theorem isC1P_model_correct rows nc : isC1P_model reorder rows nc = c1p_decide rows nc.
Proof.
  unfold isC1P_model. pose proof (dedup_sets_family rows nc) as Hfam.
  pose proof (contract _ (proj1 Hfam) (family_sorted _ _ _ Hfam)) as Hc.
  destruct (reorder (dedup_sets (map (col_set rows) (seq 0 nc)))) as [res|].
  - symmetry. apply (c1p_check_decide rows nc (flat_map (cols_of rows nc) res)).
    now apply (family_witness rows nc _ res Hfam).
  - destruct (c1p_decide rows nc) eqn:E; [|reflexivity]. apply c1p_decide_correct in E.
    destruct (family_arrangement rows nc _ Hfam E) as (res & Hres). destruct (Hc res Hres).
Qed.
End SolverMirrorCorrect.

(* ---- the contract as a checker and a reference decider (used by the direct contract test of reorder_sets) ---- *)
Lemma countk_count_occ k l : countk k l = count_occ (list_eq_dec Nat.eq_dec) l k.
Proof.
  unfold countk. induction l as [|x t IH]; simpl; [reflexivity|].
  destruct (list_eq_dec Nat.eq_dec x k) as [->|Hne].
  - rewrite lnat_eqb_refl. simpl. now rewrite IH.
  - destruct (lnat_eqb k x) eqn:E; [apply lnat_eqb_eq in E; congruence|exact IH].
Qed.

Lemma sets_consec_iff F res :
  (forall s, In s res -> In s F) ->
  (sets_consec F res = true <-> forall v, Interval (fun s => In v s) res).
Proof.
  intros Hincl. unfold sets_consec. rewrite forallb_forall. split.
  - intros Hi v. destruct (in_dec Nat.eq_dec v (concat F)) as [Hv|Hv].
    + apply (contig01_map (memn v) (fun s => In v s) (fun s => memn_iff v s)). apply Hi. now apply nodup_In.
    + exists res, [], []. rewrite app_nil_r. repeat split; try constructor.
      apply Forall_forall. intros s Hs Hvs. apply Hv. apply in_concat. exists s. split; [now apply Hincl|exact Hvs].
  - intros Hi v _. apply (contig01_map (memn v) (fun s => In v s) (fun s => memn_iff v s)). apply Hi.
Qed.

Theorem sets_check_correct F res : sets_check F res = true <-> SetsOK F res.
Proof.
  unfold sets_check, SetsOK. rewrite andb_true_iff, forallb_forall.
  rewrite (Permutation_count_occ (list_eq_dec Nat.eq_dec)). split.
  - intros [Hc Hi]. assert (HP : forall x, count_occ (list_eq_dec Nat.eq_dec) F x = count_occ (list_eq_dec Nat.eq_dec) res x).
    { intros x. destruct (in_dec (list_eq_dec Nat.eq_dec) x (F ++ res)) as [Hin|Hnin].
      - specialize (Hc x Hin). apply Nat.eqb_eq in Hc. now rewrite <- !countk_count_occ.
      - assert (H1 : ~ In x F) by (intros H1; apply Hnin, in_or_app; now left).
        assert (H2 : ~ In x res) by (intros H2; apply Hnin, in_or_app; now right).
        apply (count_occ_not_In (list_eq_dec Nat.eq_dec)) in H1.
        apply (count_occ_not_In (list_eq_dec Nat.eq_dec)) in H2. congruence. }
    split; [exact HP|]. apply (sets_consec_iff F res); [|exact Hi].
    intros s Hs. apply (Permutation_count_occ (list_eq_dec Nat.eq_dec)) in HP.
    eapply Permutation_in; [apply Permutation_sym; exact HP|exact Hs].
  - intros [HP Hi]. split.
    + intros x _. apply Nat.eqb_eq. rewrite !countk_count_occ. apply HP.
    + apply (sets_consec_iff F res); [|exact Hi].
      intros s Hs. apply (Permutation_count_occ (list_eq_dec Nat.eq_dec)) in HP.
      eapply Permutation_in; [apply Permutation_sym; exact HP|exact Hs].
Qed.

Theorem sets_decide_correct F : sets_decide F = true <-> exists res, SetsOK F res.
Proof.
  unfold sets_decide. rewrite existsb_exists. split.
  - intros (res & Hin & Hc). apply perms_iff in Hin. exists res. split; [exact Hin|].
    apply (sets_consec_iff F res); [|exact Hc]. intros s Hs. eapply Permutation_in; [apply Permutation_sym; exact Hin|exact Hs].
  - intros (res & HP & Hi). exists res. split; [now apply perms_iff|].
    apply (sets_consec_iff F res); [|exact Hi]. intros s Hs. eapply Permutation_in; [apply Permutation_sym; exact HP|exact Hs].
Qed.

Lemma ref_reorder_contract : reorder_contract (fun F => find (sets_check F) (perms F)).
Proof.
  intros F _ _. destruct (find (sets_check F) (perms F)) as [res|] eqn:E.
  - apply find_some in E. now apply sets_check_correct.
  - intros res Hres. assert (Hin : In res (perms F)) by (apply perms_iff; apply Hres).
    apply sets_check_correct in Hres. now rewrite (find_none _ _ E res Hin) in Hres.
Qed.

(* reorder_sets returns families of at most two sets unchanged: any such arrangement is fine, so the contract
   only concerns the PQ-tree on families of at least three sets *)
Lemma small_family_ok F : length F <= 2 -> SetsOK F F.
Proof.
  intros Hlen. split; [reflexivity|]. intros v.
  destruct F as [|a [|b [|c r]]]; [| | |simpl in Hlen; lia].
  - exists [], [], []. repeat split; constructor.
  - destruct (in_dec Nat.eq_dec v a) as [Ha|Ha].
    + exists [], [a], []. repeat split; repeat constructor; auto.
    + exists [a], [], []. repeat split; repeat constructor; auto.
  - destruct (in_dec Nat.eq_dec v a) as [Ha|Ha]; destruct (in_dec Nat.eq_dec v b) as [Hb|Hb].
    + exists [], [a; b], []. repeat split; repeat constructor; auto.
    + exists [], [a], [b]. repeat split; repeat constructor; auto.
    + exists [a], [b], []. repeat split; repeat constructor; auto.
    + exists [a; b], [], []. repeat split; repeat constructor; auto.
Qed.

Theorem reorder_sets_model_contract pq_tree :
  (forall F, 3 <= length F -> NoDup F -> Forall (StronglySorted lt) F ->
     match pq_tree F with Some res => SetsOK F res | None => forall res, ~ SetsOK F res end) ->
  reorder_contract (reorder_sets_model pq_tree).
Proof.
  intros H F Hnd Hs. unfold reorder_sets_model. destruct (Nat.leb_spec (length F) 2) as [Hl|Hl].
  - now apply small_family_ok.
  - apply H; auto.
Qed.
