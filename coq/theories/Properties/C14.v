(* Properties/C14.v — Bucklin and fallback winners follow the majority-threshold rule and terminate (statements only).

   Vocabulary (Proofs/Scoring.v, Proofs/Bucklin.v): `expand p` is the full profile (one ballot per voter);
   `count_topk k P a` = number of voters of P who place a among their first k positions; `count_listed P a` = number
   of voters who list a at all (the approval count of a truncated ballot); `quotaN i` = floor(n/2) + 1;
   `reaches P q k` = some alternative is placed in the top k by at least q voters; `is_max f U a` = a ∈ U maximises f
   over U.  wf_inst = DESIGN §7.0 well-formedness (implied by the boolean wf_instb); wf_strict = every class is a
   singleton (soc / soi shape); wf_complete = every ballot ranks all alternatives (soc shape). *)
From Coq Require Import List Arith NArith ZArith Bool Permutation.
From PrefVerif Require Import Lib.Val Model.Scoring Model.Bucklin Proofs.ScoreTable Proofs.Scoring Proofs.Bucklin.
Import ListNotations.

(* fallback (soc and soi): the winners are the alternatives with the highest top-k count at the least depth k at
   which some count reaches the quota; if no depth 1..m does, the alternatives with the highest approval count *)
Theorem fallback_spec : forall i, wf_inst i -> wf_strict i -> dt_in (dt i) [Soc; Soi] = true ->
  exists w, fallback_winner i = Ok w /\
    (forall k, 1 <= k <= length (alts i) -> reaches (expand (prof i)) (quotaN i) k ->
               (forall j, 1 <= j < k -> ~ reaches (expand (prof i)) (quotaN i) j) ->
               forall a, In a w <-> is_max (count_topk k (expand (prof i))) (alts i) a) /\
    ((forall k, 1 <= k <= length (alts i) -> ~ reaches (expand (prof i)) (quotaN i) k) ->
               forall a, In a w <-> is_max (count_listed (expand (prof i))) (alts i) a).
Proof. exact Proofs.Bucklin.fallback_spec. Qed.
Print Assumptions fallback_spec.

(* Bucklin (soc): a least depth k* <= m reaching the quota exists, and the winners are the argmax of the top-k* counts *)
Theorem bucklin_spec : forall i, wf_inst i -> wf_strict i -> wf_complete i -> dt_in (dt i) [Soc] = true ->
  exists w k, bucklin_winner i = Ok w /\ 1 <= k <= length (alts i) /\
    reaches (expand (prof i)) (quotaN i) k /\
    (forall j, 1 <= j < k -> ~ reaches (expand (prof i)) (quotaN i) j) /\
    forall a, In a w <-> is_max (count_topk k (expand (prof i))) (alts i) a.
Proof. exact Proofs.Bucklin.bucklin_spec. Qed.
Print Assumptions bucklin_spec.

(* termination: the level loop never runs out of the fuel num_alternatives — for every instance whatsoever
   (in particular single-alternative profiles) *)
Theorem fallback_fuel : forall i, fallback_winner i <> Err OutOfFuel.
Proof. exact Proofs.Bucklin.fallback_fuel. Qed.
Print Assumptions fallback_fuel.

Theorem bucklin_fuel : forall i, bucklin_winner i <> Err OutOfFuel.
Proof. exact Proofs.Bucklin.bucklin_fuel. Qed.
Print Assumptions bucklin_fuel.

(* merging / splitting identical ballots does not change the winner set *)
Theorem fallback_regroup : forall i i', wf_inst i -> wf_inst i' -> wf_strict i -> wf_strict i' ->
  dt_in (dt i) [Soc; Soi] = true -> dt_in (dt i') [Soc; Soi] = true ->
  alts i = alts i' -> Permutation (expand (prof i)) (expand (prof i')) ->
  exists w w', fallback_winner i = Ok w /\ fallback_winner i' = Ok w' /\ forall a, In a w <-> In a w'.
Proof. exact Proofs.Bucklin.fallback_regroup. Qed.
Print Assumptions fallback_regroup.

Theorem bucklin_regroup : forall i i', wf_inst i -> wf_inst i' -> wf_strict i -> wf_strict i' ->
  dt_in (dt i) [Soc] = true -> dt_in (dt i') [Soc] = true ->
  alts i = alts i' -> Permutation (expand (prof i)) (expand (prof i')) ->
  exists w w', bucklin_winner i = Ok w /\ bucklin_winner i' = Ok w' /\ forall a, In a w <-> In a w'.
Proof. exact Proofs.Bucklin.bucklin_regroup. Qed.
Print Assumptions bucklin_regroup.

(* types outside the documented domain are refused *)
Theorem fallback_guard : forall i, dt_in (dt i) [Soc; Soi] = false -> fallback_winner i = Err Incompatible.
Proof. exact Proofs.Bucklin.fallback_guard. Qed.
Print Assumptions fallback_guard.

Theorem bucklin_guard : forall i, dt_in (dt i) [Soc] = false -> bucklin_winner i = Err Incompatible.
Proof. exact Proofs.Bucklin.bucklin_guard. Qed.
Print Assumptions bucklin_guard.

(* ---- the hypotheses are satisfiable by non-trivial inputs ---- *)
(* 7 voters, two distinct orders share the first choice 1 (4 of 7 first places = the quota): depth 1 decides *)
Definition ex_soc : inst :=
  {| dt := Soc; alts := [1; 2; 3]%N; n_alt := 3; n_vot := 7;
     prof := [ ([[1];[2];[3]], 2); ([[1];[3];[2]], 2); ([[2];[3];[1]], 3) ]%N |}.
Example ex_soc_wf : wf_instb ex_soc = true /\ all_orders strictb ex_soc = true /\
                    all_orders (completeb (alts ex_soc)) ex_soc = true /\ bucklin_winner ex_soc = Ok [1%N]
                    /\ fallback_winner ex_soc = Ok [1%N].
Proof. repeat split; vm_compute; reflexivity. Qed.
Example ex_soc_hyps : wf_inst ex_soc /\ wf_strict ex_soc /\ wf_complete ex_soc.
Proof. split; [apply wf_instb_spec; vm_compute; reflexivity|split; vm_compute; reflexivity]. Qed.

(* truncated ballots, 4 voters, quota 3 never reached: approval counts decide (1 is listed twice) *)
Definition ex_soi : inst :=
  {| dt := Soi; alts := [1; 2; 3; 4]%N; n_alt := 4; n_vot := 4;
     prof := [ ([[1]], 1); ([[2]], 1); ([[3];[1]], 1); ([[4]], 1) ]%N |}.
Example ex_soi_wf : wf_inst ex_soi /\ wf_strict ex_soi /\ fallback_winner ex_soi = Ok [1%N]
                    /\ bucklin_winner ex_soi = Err Incompatible.
Proof. split; [apply wf_instb_spec; vm_compute; reflexivity|repeat split; vm_compute; reflexivity]. Qed.

(* a single alternative *)
Definition ex_one : inst := {| dt := Soc; alts := [5]%N; n_alt := 1; n_vot := 3; prof := [ ([[5]], 3) ]%N |}.
Example ex_one_wf : wf_inst ex_one /\ wf_strict ex_one /\ wf_complete ex_one /\ bucklin_winner ex_one = Ok [5%N].
Proof. split; [apply wf_instb_spec; vm_compute; reflexivity|repeat split; vm_compute; reflexivity]. Qed.
