(* Properties/C07.v — placeholder until Proofs/Pairwise.v exists *)
From Coq Require Import List.
From PrefVerif Require Import Lib.Val Model.Pairwise.
Theorem pairwise_guard : forall i, is_ordinal (data_type i) = false -> pairwise_scores i = Err Incompatible.
Proof. intros i H. unfold pairwise_scores. rewrite H. reflexivity. Qed.
Print Assumptions pairwise_guard.
