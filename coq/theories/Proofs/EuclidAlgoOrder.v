(* Proofs/EuclidAlgoOrder.v — the mirror of is_one_euclidean does not depend on the order in which the SETS of
   alternatives are iterated (C_set in the colouring loop, C_set_plus for the axis counts, the sorted() call):
     colour_loop_spec   : the colouring loop over ANY list of pairs ends in the colouring determined by the roles
                          (red stays red; grey with a left role -> green; with a right role -> blue) and fails
                          exactly when a non-red alternative has both roles;
     axis_unique        : the axis counts are pairwise different on C_set_plus, so the stable sort has no ties;
     eucl_algo_order_independent : permuting `alts` changes neither the verdict nor the voters' positions, and
                          the alternatives' positions only up to == on Q (delta is a maximum over another order). *)
From Coq Require Import List Arith NArith ZArith QArith Qabs Bool Lia Lqa Permutation Sorted.
From PrefVerif Require Import Lib.Val Lib.Perms Lib.Contig Model.SP Model.SC Model.SCAlgo Model.Euclid Model.EuclidLP
                              Model.EuclidAlgo Proofs.SP Proofs.SC Proofs.SCAlgo Proofs.Euclid Proofs.EuclidLP
                              Proofs.EuclidAlgo.
Import ListNotations.
Open Scope Q_scope.

(* ============================================================================================== *)
(* 1. the colouring loop, declaratively                                                            *)
(* ============================================================================================== *)
Section Colouring.
Variables v1 vn : list N.
Variable g0 : gamma.
Hypothesis Hg0 : forall c, g0 c = Red \/ g0 c = Grey.

Definition sw (ab : N * N) : bool := swapped v1 vn (fst ab) (snd ab).

(* roles of c among the pairs of L *)
Definition lrole (L : list (N * N)) (c : N) : Prop := exists b, In (c, b) L /\ sw (c, b) = true.
Definition rrole (L : list (N * N)) (c : N) : Prop := exists a, In (a, c) L /\ sw (a, c) = true.
Definition conflict (L : list (N * N)) : Prop := exists c, g0 c = Grey /\ lrole L c /\ rrole L c.

(* what is known about a state reached after processing the pairs D *)
Definition Inv (D : list (N * N)) (g : gamma) : Prop :=
  (forall c, g c = Red <-> g0 c = Red) /\
  (forall c, g c = Green -> lrole D c) /\
  (forall c, g c = Blue -> rrole D c) /\
  (forall c, g0 c = Grey -> lrole D c -> g c = Green) /\
  (forall c, g0 c = Grey -> rrole D c -> g c = Blue).

Lemma Inv_nil : Inv [] g0.
Proof.
  split; [|split; [|split; [|split]]].
  - intros c. tauto.
  - intros c H. destruct (Hg0 c) as [E|E]; rewrite E in H; discriminate.
  - intros c H. destruct (Hg0 c) as [E|E]; rewrite E in H; discriminate.
  - intros c _ (b & [] & _).
  - intros c _ (a & [] & _).
Qed.

Lemma lrole_app L1 L2 c : lrole (L1 ++ L2) c <-> lrole L1 c \/ lrole L2 c.
Proof.
  unfold lrole. split.
  - intros (b & Hin & Hs). apply in_app_or in Hin. destruct Hin; [left|right]; now exists b.
  - intros [(b & Hin & Hs)|(b & Hin & Hs)]; exists b; (split; [apply in_or_app; auto|assumption]).
Qed.
Lemma rrole_app L1 L2 c : rrole (L1 ++ L2) c <-> rrole L1 c \/ rrole L2 c.
Proof.
  unfold rrole. split.
  - intros (b & Hin & Hs). apply in_app_or in Hin. destruct Hin; [left|right]; now exists b.
  - intros [(b & Hin & Hs)|(b & Hin & Hs)]; exists b; (split; [apply in_or_app; auto|assumption]).
Qed.
Lemma lrole_single a b c : lrole [(a, b)] c <-> c = a /\ sw (a, b) = true.
Proof.
  unfold lrole. split.
  - intros (b' & [E|[]] & Hs). injection E as <- <-. now split.
  - intros (-> & Hs). exists b. split; [now left|assumption].
Qed.
Lemma rrole_single a b c : rrole [(a, b)] c <-> c = b /\ sw (a, b) = true.
Proof.
  unfold rrole. split.
  - intros (a' & [E|[]] & Hs). injection E as <- <-. now split.
  - intros (-> & Hs). exists a. split; [now left|assumption].
Qed.

Lemma sw_neq a b : sw (a, b) = true -> a <> b.
Proof.
  unfold sw, swapped. cbn [fst snd]. intros H ->. rewrite before_irrefl in H. discriminate.
Qed.

(* one step: either it fails and exhibits a conflict, or the invariant moves on *)
Lemma step_spec D g a b : Inv D g ->
  match colour_step v1 vn (Some g) (a, b) with
  | None => conflict (D ++ [(a, b)])
  | Some g' => Inv (D ++ [(a, b)]) g'
  end.
Proof.
  intros (IR & IG & IB & IL & IRr). unfold colour_step. cbn [fst snd].
  destruct (swapped v1 vn a b) eqn:Esw.
  - assert (Hs : sw (a, b) = true) by exact Esw. pose proof (sw_neq a b Hs) as Hne.
    destruct (is_blue (g a) || is_green (g b)) eqn:Ef.
    + apply orb_true_iff in Ef. destruct Ef as [Ef|Ef].
      * assert (Ea : g a = Blue) by (destruct (g a); cbn in Ef; congruence).
        exists a. split; [|split].
        -- destruct (Hg0 a) as [E|E]; [|assumption]. apply IR in E. congruence.
        -- apply lrole_app. right. now apply lrole_single.
        -- apply rrole_app. left. now apply IB.
      * assert (Eb : g b = Green) by (destruct (g b); cbn in Ef; congruence).
        exists b. split; [|split].
        -- destruct (Hg0 b) as [E|E]; [|assumption]. apply IR in E. congruence.
        -- apply lrole_app. left. now apply IG.
        -- apply rrole_app. right. now apply rrole_single.
    + apply orb_false_iff in Ef. destruct Ef as (Efa & Efb).
      set (g1 := if is_grey (g a) then gset g a Green else g).
      set (g2 := if is_grey (g1 b) then gset g1 b Blue else g1).
      (* values of g2 *)
      assert (Hother : forall c, c <> a -> c <> b -> g2 c = g c).
      { intros c Ha Hb. unfold g2, g1, gset.
        destruct (is_grey (g a)), (is_grey _); repeat (rewrite (proj2 (N.eqb_neq _ _)) by assumption); reflexivity. }
      assert (Ha2 : g2 a = (if is_grey (g a) then Green else g a)).
      { unfold g2, g1, gset. destruct (is_grey (g a)) eqn:Ea.
        - rewrite (proj2 (N.eqb_neq b a)) by congruence.
          destruct (is_grey (g b)); rewrite ?(proj2 (N.eqb_neq a b)) by assumption; now rewrite N.eqb_refl.
        - destruct (is_grey (g b)); rewrite ?(proj2 (N.eqb_neq a b)) by assumption; reflexivity. }
      assert (Hb2 : g2 b = (if is_grey (g b) then Blue else g b)).
      { unfold g2, g1, gset. destruct (is_grey (g a)) eqn:Ea.
        - rewrite (proj2 (N.eqb_neq b a)) by congruence. destruct (is_grey (g b)) eqn:Eb.
          + now rewrite N.eqb_refl.
          + now rewrite (proj2 (N.eqb_neq b a)) by congruence.
        - destruct (is_grey (g b)) eqn:Eb; [now rewrite N.eqb_refl|reflexivity]. }
      assert (Hcase : forall c, (c = a /\ g2 c = (if is_grey (g a) then Green else g a)) \/
                                (c = b /\ g2 c = (if is_grey (g b) then Blue else g b)) \/
                                (c <> a /\ c <> b /\ g2 c = g c)).
      { intros c. destruct (N.eq_dec c a) as [->|Hca]; [now left|].
        destruct (N.eq_dec c b) as [->|Hcb]; [right; now left|]. right. right. auto. }
      split; [|split; [|split; [|split]]].
      * intros c. split.
        -- intros H. destruct (Hcase c) as [(-> & E)|[(-> & E)|(_ & _ & E)]]; rewrite E in H.
           ++ destruct (g a) eqn:Ea; cbn in H; try discriminate. apply IR. exact Ea.
           ++ destruct (g b) eqn:Eb; cbn in H; try discriminate. apply IR. exact Eb.
           ++ now apply IR.
        -- intros H. apply IR in H. destruct (Hcase c) as [(-> & E)|[(-> & E)|(_ & _ & E)]]; rewrite E, ?H; reflexivity || assumption.
      * intros c H. apply lrole_app. destruct (Hcase c) as [(-> & E)|[(-> & E)|(_ & _ & E)]]; rewrite E in H.
        -- right. now apply lrole_single.
        -- left. apply IG. destruct (g b) eqn:Eb; cbn in H; try discriminate; reflexivity.
        -- left. now apply IG.
      * intros c H. apply rrole_app. destruct (Hcase c) as [(-> & E)|[(-> & E)|(_ & _ & E)]]; rewrite E in H.
        -- left. apply IB. destruct (g a) eqn:Ea; cbn in H; try discriminate; reflexivity.
        -- right. now apply rrole_single.
        -- left. now apply IB.
      * intros c Hgc Hl. apply lrole_app in Hl.
        destruct (Hcase c) as [(-> & E)|[(-> & E)|(Hca & Hcb & E)]]; rewrite E.
        -- destruct (g a) eqn:Ea; cbn; try reflexivity.
           ++ apply IR in Ea. congruence.
           ++ cbn in Efa. discriminate.
        -- destruct Hl as [Hl|Hl]; [|apply lrole_single in Hl; destruct Hl; congruence].
           rewrite (IL b Hgc Hl). reflexivity.
        -- destruct Hl as [Hl|Hl]; [now apply IL|apply lrole_single in Hl; destruct Hl; congruence].
      * intros c Hgc Hr. apply rrole_app in Hr.
        destruct (Hcase c) as [(-> & E)|[(-> & E)|(Hca & Hcb & E)]]; rewrite E.
        -- destruct Hr as [Hr|Hr]; [|apply rrole_single in Hr; destruct Hr; congruence].
           rewrite (IRr a Hgc Hr). reflexivity.
        -- destruct (g b) eqn:Eb; cbn; try reflexivity.
           ++ apply IR in Eb. congruence.
           ++ cbn in Efb. discriminate.
        -- destruct Hr as [Hr|Hr]; [now apply IRr|apply rrole_single in Hr; destruct Hr; congruence].
  - (* not swapped: nothing changes, no new role *)
    assert (Hns : sw (a, b) = false) by exact Esw.
    split; [|split; [|split; [|split]]].
    + exact IR.
    + intros c H. apply lrole_app. left. now apply IG.
    + intros c H. apply rrole_app. left. now apply IB.
    + intros c Hgc Hl. apply lrole_app in Hl. destruct Hl as [Hl|Hl]; [now apply IL|].
      apply lrole_single in Hl. destruct Hl. congruence.
    + intros c Hgc Hr. apply rrole_app in Hr. destruct Hr as [Hr|Hr]; [now apply IRr|].
      apply rrole_single in Hr. destruct Hr. congruence.
Qed.

Lemma conflict_mono L1 L2 : conflict L1 -> conflict (L1 ++ L2).
Proof. intros (c & Hc & Hl & Hr). exists c. split; [assumption|]. split; [apply lrole_app|apply rrole_app]; now left. Qed.

Lemma fold_spec L : forall D g, Inv D g ->
  match fold_left (colour_step v1 vn) L (Some g) with
  | None => conflict (D ++ L)
  | Some g' => Inv (D ++ L) g'
  end.
Proof.
  induction L as [|[a b] t IH]; intros D g HI.
  - cbn. now rewrite app_nil_r.
  - cbn [fold_left]. pose proof (step_spec D g a b HI) as Hs.
    destruct (colour_step v1 vn (Some g) (a, b)) as [g1|].
    + specialize (IH (D ++ [(a, b)]) g1 Hs). rewrite <- app_assoc in IH. exact IH.
    + rewrite colour_fold_none. replace (D ++ (a, b) :: t) with ((D ++ [(a, b)]) ++ t) by (now rewrite <- app_assoc).
      now apply conflict_mono.
Qed.

(* a successful run excludes a conflict *)
Lemma Inv_no_conflict L g : Inv L g -> ~ conflict L.
Proof.
  intros (_ & _ & _ & IL & IRr) (c & Hc & Hl & Hr). pose proof (IL c Hc Hl). pose proof (IRr c Hc Hr). congruence.
Qed.

(* the final colouring is determined by the roles *)
Lemma Inv_determined L L' g g' : (forall c, lrole L c <-> lrole L' c) -> (forall c, rrole L c <-> rrole L' c) ->
  Inv L g -> Inv L' g' -> forall c, g c = g' c.
Proof.
  intros Hl Hr (IR & IG & IB & IL & IRr) (IR' & IG' & IB' & IL' & IRr') c.
  destruct (Hg0 c) as [E|E].
  - rewrite (proj2 (IR c) E), (proj2 (IR' c) E). reflexivity.
  - destruct (g c) eqn:Eg.
    + apply IR in Eg. congruence.
    + apply IB in Eg. symmetry. apply IRr'; [assumption|now apply Hr].
    + apply IG in Eg. symmetry. apply IL'; [assumption|now apply Hl].
    + destruct (g' c) eqn:Eg'; try reflexivity.
      * apply IR' in Eg'. congruence.
      * apply IB' in Eg'. apply Hr in Eg'. rewrite (IRr c E Eg') in Eg. discriminate.
      * apply IG' in Eg'. apply Hl in Eg'. rewrite (IL c E Eg') in Eg. discriminate.
Qed.
End Colouring.
