"""Regenerate the open known-finding entries of C19 (KF-C19-a/b/c/d) from the deterministic campaign.

    PYTHONPATH=/repo:harness PYTHONHASHSEED=0 /venv/bin/python -m props.c19_known [--install] [--tiers quick,thorough]

Runs the quick and the thorough campaign of harness/props/c19.py against the implementation found first on
PYTHONPATH (default /repo) and the extracted model, classifies every failing case, writes
known_findings.d/C19.json ({"findings": [...]}, one entry per class that occurs, each listing the sha-256 of
every failing case) and prints a summary with the failure counts and three small reproducers per class.
--install additionally replaces the C19 entries of the worktree's known_findings.json (local testing; the
coordinator merges known_findings.d/C19.json). The oracle must have been built (bin/check C19 quick, or make)."""
import json
import os
import sys

from core import check, oracle
from props import c19

WHERE = {
    "KF-C19-a": "preflibtools/properties/subdomains/ordinal/euclidean.py:344 (is_one_euclidean)",
    "KF-C19-b": "preflibtools/properties/subdomains/ordinal/euclidean.py:149-196, 371-382 (_one_euclidean_gen_sets, "
                "placement loop `for i in range(1, k)` of is_one_euclidean)",
    "KF-C19-c": "preflibtools/properties/subdomains/ordinal/euclidean.py:212-256 (is_one_euclidean)",
    "KF-C19-d": "preflibtools/properties/subdomains/ordinal/euclidean.py (is_one_euclidean)",
}
WHAT = {
    "KF-C19-a": "is_one_euclidean raises ValueError (max() of an empty list) on every profile with a single distinct order",
    "KF-C19-b": "is_one_euclidean answers True with a position map that does not realise the votes whenever an "
                "uncoloured ('grey') alternative is ranked by the first voter of the single-crossing order above "
                "some coloured alternative, so that _one_euclidean_gen_sets builds more than one F/G group (k > 1): "
                "the grey alternatives of the later groups are left out of the map or placed at a wrong distance "
                "(e.g. every profile whose voters share their top alternative and disagree further down, such as "
                "(1,2,3,4),(1,2,4,3)); the verdict itself is right",
    "KF-C19-c": "is_one_euclidean's verdict is wrong and depends on which ballots are stored first and last: True "
                "on profiles that are not 1-Euclidean (not single-peaked / not single-crossing, or no embedding by "
                "the exact reference), different verdicts for storage orders of one profile, False on a "
                "1-Euclidean profile",
    "KF-C19-d": "is_one_euclidean raises an exception other than the single-order ValueError",
}
KIND = {"KF-C19-a": c19.K_EXC, "KF-C19-b": c19.K_WIT, "KF-C19-c": c19.K_VER, "KF-C19-d": c19.K_EXC}


# repaired in /repo after the first C19 campaign (their minimised inputs are in corpus/C19/)
FIXED = [
    ("KF-C19-c", "5a8bee2", "euclidean.py is_one_euclidean",
     "is_one_euclidean took the first and last STORED ballots as the ends of the single-crossing order: True on "
     "profiles that are not 1-Euclidean, verdict depending on the storage order"),
    ("KF-C19-a", "3211aad", "euclidean.py is_one_euclidean",
     "is_one_euclidean raised ValueError (max() of an empty list) on every profile with a single distinct order"),
    ("KF-C19-b1", "4ca33bd", "euclidean.py is_one_euclidean",
     "is_one_euclidean placed the first group of grey alternatives in set iteration order instead of the first "
     "voter's order: True with a map that does not realise the votes"),
    ("KF-C19-b", "74e9e2c", "euclidean.py _one_euclidean_gen_sets / is_one_euclidean",
     "is_one_euclidean answered True with a map that does not realise the votes whenever a grey alternative is ranked by "
     "the first voter of the single-crossing order above some coloured alternative (several F/G groups: runs not computed, "
     "overlapping distance bands, alternatives without a position); smallest input (1,2,3,4),(1,2,4,3)"),
]


def fixed_entries():
    return [{"id": i, "property": "C19", "status": "fixed", "commit": c, "where": w, "what": t,
             "line": "fixed: property=C19 %s %s" % (c, t)} for i, c, w, t in FIXED]


def run_tier(tier):
    cases = c19.generate(tier, 0)
    res, timing = check.evaluate(c19, cases, c19.TIMEOUT_S, int(os.environ.get("VERIF_NPROC", "16")))
    return res, timing


def main(argv):
    tiers = ["quick", "thorough"]
    if "--tiers" in argv:
        tiers = argv[argv.index("--tiers") + 1].split(",")
    by_class = {}
    counts = {}
    broken = []
    total = {}
    for tier in tiers:
        res, timing = run_tier(tier)
        total[tier] = len(res)
        for c, r, m, f in res:
            if not f:
                continue
            if f.get("kind") in ("broken-correspondence", "timeout"):
                broken.append((tier, c, f))
                continue
            k = c19.classify(c, r, m, f)
            counts[(tier, k, c["op"])] = counts.get((tier, k, c["op"]), 0) + 1
            d = by_class.setdefault(k, {})
            d.setdefault(check.case_sha(c), (c, r, f))
        print("[%s] %d cases, timing %r" % (tier, len(res), timing), file=sys.stderr)
    findings = []
    for k in sorted(by_class):
        if k not in WHAT:
            print("UNCLASSIFIED failures: %s (%d) - not written" % (k, len(by_class[k])), file=sys.stderr)
            continue
        ops = sorted({c["op"] for c, _, _ in by_class[k].values()})
        findings.append({"id": k, "property": "C19", "status": "open", "where": WHERE[k], "what": WHAT[k],
                         "match": {"ops": ops, "kind": KIND[k], "sha256": sorted(by_class[k])}})
    outdir = os.path.join(oracle.VERIF, "known_findings.d")
    os.makedirs(outdir, exist_ok=True)
    with open(os.path.join(outdir, "C19.json"), "w") as fh:
        json.dump({"comment": "generated by harness/props/c19_known.py from the deterministic C19 campaign "
                              "(quick + thorough) on the current /repo; regenerate if /repo changes",
                   "findings": fixed_entries() + findings}, fh, indent=1)
        fh.write("\n")
    if "--install" in argv:
        kf = os.path.join(oracle.VERIF, "known_findings.json")
        doc = json.load(open(kf))
        doc["findings"] = [e for e in doc["findings"] if e.get("property") != "C19"]
        doc["findings"].extend(fixed_entries() + findings)
        with open(kf, "w") as fh:
            json.dump(doc, fh, indent=1)
            fh.write("\n")
    print("cases: %r" % (total,))
    for key in sorted(counts):
        print("failures tier=%s class=%s op=%s : %d" % (key + (counts[key],)))
    for k in sorted(by_class):
        print("== %s : %d distinct failing inputs" % (k, len(by_class[k])))
        small = sorted(by_class[k].values(), key=lambda t: (len(proto_len(t[0])), proto_len(t[0])))[:3]
        for c, r, f in small:
            print("   ", c["op"], json.dumps(c19.describe(c)))
            print("      ->", f["reason"][:200])
    if broken:
        print("BROKEN / TIMEOUT (not part of any class): %d" % len(broken))
        for tier, c, f in broken[:5]:
            print("   ", tier, c["op"], c["payload"], f)
    return 0


def proto_len(c):
    from core import proto
    return proto.enc(c["payload"])


if __name__ == "__main__":
    sys.exit(main(sys.argv[1:]))
