(* Proofs/Autocorrect.v — lemmas for property C16 (autocorrect): the mirror parsers ord_parse / cat_parse
   (Model/OrdIO.v, Model/CatIO.v) against the independent description of Model/Autocorrect.v. *)
From Coq Require Import List Arith NArith Bool Lia String.
From PrefVerif Require Import Lib.Val Lib.Dec Lib.PyStr Model.Meta Model.Autocorrect Proofs.Meta.
From PrefVerif Require Model.OrdIO Model.CatIO.
Import ListNotations.

(* ================================================================================================ *)
(* A. association lists and merging by summation, generic in the key type                           *)
(* ================================================================================================ *)
Section Generic.
  Context {K : Type} (eqb : K -> K -> bool).
  Hypothesis eqb_eq : forall a b, eqb a b = true <-> a = b.

  Lemma eqb_refl a : eqb a a = true.
  Proof. now apply eqb_eq. Qed.

  Lemma eqb_neq a b : a <> b -> eqb a b = false.
  Proof. intros H. destruct (eqb a b) eqn:E; [|reflexivity]. apply eqb_eq in E. contradiction. Qed.

  Lemma eqb_sym a b : eqb a b = eqb b a.
  Proof.
    destruct (eqb a b) eqn:E.
    - apply eqb_eq in E. subst. symmetry. apply eqb_refl.
    - destruct (eqb b a) eqn:E2; [|reflexivity]. apply eqb_eq in E2. subst. rewrite eqb_refl in E. discriminate.
  Qed.

  Lemma kmem_In x l : kmem eqb x l = true <-> In x l.
  Proof.
    unfold kmem. rewrite existsb_exists. split.
    - intros (y & Hy & E). apply eqb_eq in E. now subst.
    - intros H. exists x. split; [exact H|apply eqb_refl].
  Qed.

  Lemma kmem_false x l : kmem eqb x l = false <-> ~ In x l.
  Proof.
    split.
    - intros H Hin. apply kmem_In in Hin. congruence.
    - intros H. destruct (kmem eqb x l) eqn:E; [|reflexivity]. apply kmem_In in E. contradiction.
  Qed.

  Lemma nodupb_NoDup l : nodupb eqb l = true <-> NoDup l.
  Proof.
    induction l as [|x r IH]; cbn [nodupb].
    - split; [constructor|reflexivity].
    - rewrite andb_true_iff, negb_true_iff, kmem_false, IH. split.
      + intros [H1 H2]. now constructor.
      + intros H. inversion H. now split.
  Qed.

  (* ---- dict operations ---- *)
  Lemma assoc_get_none {V} k (d : list (K * V)) : assoc_get eqb k d = None <-> ~ In k (keys d).
  Proof.
    induction d as [|[k' v] r IH]; cbn [assoc_get keys map fst].
    - split; [intros _ []|reflexivity].
    - destruct (eqb k k') eqn:E.
      + apply eqb_eq in E. subst. split; [discriminate|]. intros H. exfalso. apply H. now left.
      + rewrite IH. unfold keys. split.
        * intros H [H1|H1]; [subst; rewrite eqb_refl in E; discriminate|contradiction].
        * intros H H1. apply H. now right.
  Qed.

  Lemma assoc_get_some_in {V} k (d : list (K * V)) v : assoc_get eqb k d = Some v -> In k (keys d).
  Proof.
    intros H. destruct (in_dec (fun a b => match bool_dec (eqb a b) true with
                                           | left e => left (proj1 (eqb_eq a b) e)
                                           | right n => right (fun e => n (proj2 (eqb_eq a b) e)) end)
                               k (keys d)) as [Hin|Hn]; [exact Hin|].
    apply assoc_get_none in Hn. congruence.
  Qed.

  Lemma assoc_get_set {V} k' k (v : V) d :
    assoc_get eqb k' (assoc_set eqb k v d) = if eqb k' k then Some v else assoc_get eqb k' d.
  Proof.
    induction d as [|[k0 v0] r IH]; cbn [assoc_set assoc_get].
    - destruct (eqb k' k); reflexivity.
    - destruct (eqb k k0) eqn:E.
      + apply eqb_eq in E. subst k0. cbn [assoc_get]. destruct (eqb k' k); reflexivity.
      + cbn [assoc_get]. destruct (eqb k' k0) eqn:E2.
        * apply eqb_eq in E2. subst k0. rewrite (eqb_sym k' k), E. reflexivity.
        * exact IH.
  Qed.

  Lemma assoc_set_absent {V} k (v : V) d : assoc_get eqb k d = None -> assoc_set eqb k v d = d ++ [(k, v)].
  Proof.
    induction d as [|[k0 v0] r IH]; cbn [assoc_set assoc_get app]; [reflexivity|].
    destruct (eqb k k0); [discriminate|]. intros H. now rewrite IH.
  Qed.

  Lemma keys_set_present {V} k (v v0 : V) d : assoc_get eqb k d = Some v0 -> keys (assoc_set eqb k v d) = keys d.
  Proof.
    induction d as [|[k0 v1] r IH]; cbn [assoc_set assoc_get]; [discriminate|].
    destruct (eqb k k0) eqn:E.
    - apply eqb_eq in E. now subst.
    - intros H. unfold keys in *. cbn [map fst]. now rewrite IH.
  Qed.

  Lemma sum_N_app a b : sum_N (a ++ b) = (sum_N a + sum_N b)%N.
  Proof. unfold sum_N. induction a as [|x a IH]; cbn [app fold_right]; [reflexivity|]. rewrite IH. lia. Qed.

  Lemma sum_values_set_present k (v0 m : N) d : assoc_get eqb k d = Some v0 ->
    sum_N (values (assoc_set eqb k (v0 + m)%N d)) = (sum_N (values d) + m)%N.
  Proof.
    induction d as [|[k0 v1] r IH]; cbn [assoc_set assoc_get]; [discriminate|].
    destruct (eqb k k0) eqn:E.
    - intros H. injection H as ->. unfold values. cbn [map snd sum_N fold_right]. lia.
    - intros H. unfold values in *. cbn [map snd sum_N fold_right]. fold (sum_N (map snd (assoc_set eqb k (v0 + m)%N r))).
      fold (sum_N (map snd r)). rewrite IH by exact H. lia.
  Qed.

  (* a table is determined by its keys and its lookups *)
  Lemma assoc_ext {V} (f : K -> V) d : NoDup (keys d) ->
    (forall k, In k (keys d) -> assoc_get eqb k d = Some (f k)) -> d = map (fun k => (k, f k)) (keys d).
  Proof.
    induction d as [|[k v] r IH]; intros Hnd H; [reflexivity|].
    unfold keys in *. cbn [map fst] in *. inversion Hnd as [|? ? Hnin Hnd']; subst.
    f_equal.
    - specialize (H k (or_introl eq_refl)). cbn [assoc_get] in H. rewrite eqb_refl in H. now injection H as ->.
    - apply IH; [exact Hnd'|]. intros k' Hin. specialize (H k' (or_intror Hin)). cbn [assoc_get] in H.
      rewrite eqb_neq in H; [exact H|]. intros ->. contradiction.
  Qed.

  (* ---- distinct ---- *)
  Lemma distinct_snoc l x :
    distinct eqb (l ++ [x]) = if kmem eqb x (distinct eqb l) then distinct eqb l else distinct eqb l ++ [x].
  Proof. unfold distinct. rewrite fold_left_app. reflexivity. Qed.

  Lemma distinct_In l x : In x (distinct eqb l) <-> In x l.
  Proof.
    revert x. induction l as [|y l IH] using rev_ind; intros x; [reflexivity|].
    rewrite distinct_snoc, in_app_iff. cbn [In]. destruct (kmem eqb y (distinct eqb l)) eqn:E.
    - apply kmem_In in E. apply IH in E. rewrite IH. split; [tauto|]. intros [H|[H|[]]]; [exact H|now subst].
    - rewrite in_app_iff, IH. cbn [In]. tauto.
  Qed.

  Lemma distinct_NoDup l : NoDup (distinct eqb l).
  Proof.
    induction l as [|y l IH] using rev_ind; [constructor|].
    rewrite distinct_snoc. destruct (kmem eqb y (distinct eqb l)) eqn:E; [exact IH|].
    apply kmem_false in E. apply NoDup_rev in IH. rewrite <- (rev_involutive (_ ++ _)). apply NoDup_rev.
    rewrite rev_app_distr. cbn [rev app]. constructor; [|exact IH]. now rewrite <- in_rev.
  Qed.

  Lemma distinct_id l : NoDup l -> distinct eqb l = l.
  Proof.
    induction l as [|y l IH] using rev_ind; [reflexivity|]. intros H.
    apply NoDup_rev in H. rewrite rev_app_distr in H. cbn [rev app] in H. inversion H as [|? ? Hn Hnd]; subst.
    apply NoDup_rev in Hnd. rewrite rev_involutive in Hnd. rewrite <- in_rev in Hn.
    rewrite distinct_snoc, IH by exact Hnd. apply kmem_false in Hn. now rewrite Hn.
  Qed.

  (* ---- sums over lines ---- *)
  Lemma msum_snoc bs m o o' :
    msum eqb (bs ++ [(m, o)]) o' = (msum eqb bs o' + (if eqb o o' then m else 0))%N.
  Proof.
    unfold msum. rewrite filter_app, map_app, sum_N_app. cbn [filter snd].
    destruct (eqb o o'); cbn [map fst sum_N fold_right]; lia.
  Qed.

  Lemma total_snoc (bs : list (N * K)) m o : total (bs ++ [(m, o)]) = (total bs + m)%N.
  Proof. unfold total. rewrite map_app, sum_N_app. cbn [map fst sum_N fold_right]. lia. Qed.

  Lemma msum_absent bs o : ~ In o (map snd bs) -> msum eqb bs o = 0%N.
  Proof.
    induction bs as [|[m o'] bs IH]; intros H; [reflexivity|].
    unfold msum. cbn [filter snd]. cbn [map snd In] in H.
    rewrite eqb_neq by (intros ->; apply H; now left).
    apply IH. intros Hin. apply H. now right.
  Qed.

  (* ---- the merge step shared by both parsers ---- *)
  Definition gadd (st : list K * list (K * N)) (b : N * K) : list K * list (K * N) :=
    match assoc_get eqb (snd b) (snd st) with
    | Some k => (fst st, assoc_set eqb (snd b) (k + fst b)%N (snd st))
    | None => (fst st ++ [snd b], assoc_set eqb (snd b) (fst b) (snd st))
    end.

  Definition merge_inv (st : list K * list (K * N)) (bs : list (N * K)) : Prop :=
    fst st = distinct eqb (map snd bs) /\ keys (snd st) = fst st /\
    (forall o, In o (fst st) -> assoc_get eqb o (snd st) = Some (msum eqb bs o)) /\
    sum_N (values (snd st)) = total bs.

  Lemma merge_inv_step st bs b : merge_inv st bs -> merge_inv (gadd st b) (bs ++ [b]).
  Proof.
    destruct st as [ords mu], b as [m o]. unfold merge_inv, gadd. cbn [fst snd].
    intros (Ho & Hk & Hget & Hsum). rewrite map_app. cbn [map snd]. rewrite distinct_snoc, <- Ho.
    destruct (assoc_get eqb o mu) as [k|] eqn:E.
    - cbn [fst snd]. assert (Hin : In o ords) by (rewrite <- Hk; eapply assoc_get_some_in; eauto).
      pose proof (proj2 (kmem_In o ords) Hin) as Hm. rewrite Hm.
      split; [reflexivity|]. split; [rewrite (keys_set_present _ _ _ _ E); exact Hk|]. split.
      + intros o' Hin'. rewrite assoc_get_set, msum_snoc. rewrite (eqb_sym o' o).
        destruct (eqb o o') eqn:E2.
        * apply eqb_eq in E2. subst o'. rewrite (Hget o Hin) in E. now injection E as ->.
        * rewrite (Hget o' Hin'). f_equal. lia.
      + rewrite total_snoc, <- Hsum. now apply sum_values_set_present.
    - cbn [fst snd]. assert (Hnin : ~ In o ords) by (rewrite <- Hk; now apply assoc_get_none).
      pose proof (proj2 (kmem_false o ords) Hnin) as Hm. rewrite Hm.
      rewrite (assoc_set_absent _ _ _ E).
      split; [reflexivity|]. split; [unfold keys; rewrite map_app; cbn [map fst]; now rewrite <- Hk|]. split.
      + intros o' Hin'. rewrite <- (assoc_set_absent _ _ _ E), assoc_get_set, msum_snoc, (eqb_sym o' o).
        destruct (eqb o o') eqn:E2.
        * apply eqb_eq in E2. subst o'. rewrite msum_absent; [reflexivity|].
          intros Hin2. apply Hnin. rewrite Ho. now apply distinct_In.
        * apply in_app_or in Hin' as [Hin'|[->|[]]]; [|rewrite eqb_refl in E2; discriminate].
          rewrite (Hget o' Hin'). f_equal. lia.
      + unfold values. rewrite map_app, sum_N_app, total_snoc. cbn [map snd sum_N fold_right].
        unfold values in Hsum. rewrite Hsum. lia.
  Qed.

  Lemma merge_inv_fold bs : forall st bs0, merge_inv st bs0 -> merge_inv (fold_left gadd bs st) (bs0 ++ bs).
  Proof.
    induction bs as [|b bs IH]; intros st bs0 H; cbn [fold_left]; [now rewrite app_nil_r|].
    replace (bs0 ++ b :: bs) with ((bs0 ++ [b]) ++ bs) by (rewrite <- app_assoc; reflexivity).
    apply IH. now apply merge_inv_step.
  Qed.

  (* the loop invariant at the end of the file: ballot list, table, sum of the table *)
  Theorem merge_fold_spec bs :
    fold_left gadd bs ([], []) = (distinct eqb (map snd bs), merged eqb bs) /\
    sum_N (values (merged eqb bs)) = total bs.
  Proof.
    assert (H0 : merge_inv ([], []) []).
    { unfold merge_inv. cbn. repeat split. intros o []. }
    pose proof (merge_inv_fold bs _ _ H0) as H. cbn [app] in H.
    destruct (fold_left gadd bs ([], [])) as [ords mu]. destruct H as (Ho & Hk & Hget & Hsum). cbn [fst snd] in *.
    assert (Hmu : mu = merged eqb bs).
    { unfold merged. rewrite <- Ho, <- Hk. apply assoc_ext.
      - rewrite Hk, Ho. apply distinct_NoDup.
      - intros k Hin. apply Hget. now rewrite <- Hk. }
    split; [now rewrite Ho, Hmu|]. now rewrite <- Hmu.
  Qed.

  Lemma merged_keys bs : keys (merged eqb bs) = distinct eqb (map snd bs).
  Proof. unfold merged, keys. rewrite map_map. cbn [fst]. apply map_id. Qed.

  Lemma merged_get bs o : In o (map snd bs) -> assoc_get eqb o (merged eqb bs) = Some (msum eqb bs o).
  Proof.
    intros Hin. apply (distinct_In _ o) in Hin. unfold merged.
    induction (distinct eqb (map snd bs)) as [|x l IH]; [destruct Hin|].
    cbn [map assoc_get]. destruct (eqb o x) eqn:E.
    - apply eqb_eq in E. now subst.
    - destruct Hin as [->|Hin]; [rewrite eqb_refl in E; discriminate|]. now apply IH.
  Qed.

  Lemma merged_get_absent bs o : ~ In o (map snd bs) -> assoc_get eqb o (merged eqb bs) = None.
  Proof. intros H. apply assoc_get_none. rewrite merged_keys, distinct_In. exact H. Qed.

  (* without repeated ballots the merging loop and the plain loop coincide *)
  Definition padd (st : list K * list (K * N)) (b : N * K) : list K * list (K * N) :=
    (fst st ++ [snd b], assoc_set eqb (snd b) (fst b) (snd st)).

  Lemma fold_gadd_padd bs : forall st, keys (snd st) = fst st -> NoDup (fst st ++ map snd bs) ->
    fold_left gadd bs st = fold_left padd bs st.
  Proof.
    induction bs as [|[m o] bs IH]; intros [ords mu] Hk Hnd; [reflexivity|].
    cbn [fold_left fst snd map] in *.
    assert (Hnin : ~ In o ords).
    { intros Hin. apply NoDup_remove_2 in Hnd. apply Hnd. apply in_or_app. now left. }
    assert (E : assoc_get eqb o mu = None) by (apply assoc_get_none; now rewrite Hk).
    assert (Hstep : gadd (ords, mu) (m, o) = padd (ords, mu) (m, o)).
    { unfold gadd, padd. cbn [fst snd]. now rewrite E. }
    rewrite Hstep. apply IH.
    - unfold padd. cbn [fst snd]. rewrite (assoc_set_absent _ _ _ E). unfold keys in *. rewrite map_app, Hk. reflexivity.
    - unfold padd. cbn [fst snd]. rewrite <- app_assoc. exact Hnd.
  Qed.
End Generic.

(* ================================================================================================ *)
(* B. the ordinal parser                                                                            *)
(* ================================================================================================ *)
Lemma olist_eqb_eq {T} (eqb : T -> T -> bool) : (forall a b, eqb a b = true <-> a = b) ->
  forall a b, OrdIO.list_eqb eqb a b = true <-> a = b.
Proof.
  intros H. induction a as [|x a IH]; destruct b as [|y b]; cbn [OrdIO.list_eqb].
  - split; reflexivity.
  - split; discriminate.
  - split; discriminate.
  - rewrite andb_true_iff, H, IH. split; [intros [-> ->]; reflexivity|]. intros E. injection E. auto.
Qed.

Lemma order_eqb_eq a b : OrdIO.order_eqb a b = true <-> a = b.
Proof. apply olist_eqb_eq. apply olist_eqb_eq. apply N.eqb_eq. Qed.

Lemma ord_add_true st b : OrdIO.add_ballot true st b = gadd OrdIO.order_eqb st b.
Proof. destruct st as [ords mu], b as [m o]. unfold gadd. cbn [OrdIO.add_ballot fst snd]. reflexivity. Qed.

Lemma ord_add_false st b : OrdIO.add_ballot false st b = padd OrdIO.order_eqb st b.
Proof. destruct st as [ords mu], b as [m o]. reflexivity. Qed.

Lemma fold_left_ext {A B} (f g : A -> B -> A) l : (forall a b, f a b = g a b) -> forall a, fold_left f l a = fold_left g l a.
Proof. intros H. induction l as [|x l IH]; intros a; cbn [fold_left]; [reflexivity|]. now rewrite H, IH. Qed.

(* the ballot loop = read every line on its own, then fold the merge step *)
Lemma ord_ballot_loop_fold au ls : forall st,
  OrdIO.ballot_loop au st ls = rmap (fun bs => fold_left (OrdIO.add_ballot au) bs st) (ord_ballots_r ls).
Proof.
  induction ls as [|l ls IH]; intros st; cbn [OrdIO.ballot_loop ord_ballots_r]; [reflexivity|].
  unfold ord_line. destruct (remove_ws l) as [|c s] eqn:E.
  - cbn [rbind]. rewrite IH. destruct (ord_ballots_r ls); reflexivity.
  - destruct (OrdIO.parse_ballot (c :: s)) as [b|e]; cbn [rbind rmap]; [|reflexivity].
    rewrite IH. destruct (ord_ballots_r ls); reflexivity.
Qed.

(* what the header loop hands to the ballot loop does not depend on the header state *)
Lemma ord_header_rest au lines : forall st st' rest,
  OrdIO.header_loop au st lines = Ok (st', rest) -> rest = body_lines lines.
Proof.
  induction lines as [|l r IH]; intros st st' rest H.
  - cbn in H. now injection H as _ <-.
  - cbn [OrdIO.header_loop body_lines] in *. unfold is_header. change OrdIO.hash with hash in H.
    destruct (startswith hash (strip l)).
    + destruct (OrdIO.header_step au st (strip l)) as [st1|e]; cbn [rbind] in H; [|discriminate].
      destruct r as [|l2 r2]; [now injection H as _ <-|]. eapply IH; eauto.
    + now injection H as _ <-.
Qed.

Definition ord_reserve (m0 : meta) (lines : list text) : meta :=
  set_reserved m0 (reserved_of alt_name_prefix lines).

(* ord_parse true, taken apart *)
Lemma ord_parse_true_inv m0 lines i : OrdIO.ord_parse true false m0 lines = Ok i ->
  exists m nu bs,
    OrdIO.header_loop true (ord_reserve m0 lines, 0%N) lines = Ok ((m, nu), body_lines lines) /\
    ord_ballots_r (body_lines lines) = Ok bs /\
    i = OrdIO.mkOinst (set_num_voters (set_num_alternatives m (N.of_nat (List.length (alt_names m)))) (total bs))
                      (N.of_nat (List.length (distinct OrdIO.order_eqb (map snd bs))))
                      (distinct OrdIO.order_eqb (map snd bs)) (merged OrdIO.order_eqb bs).
Proof.
  unfold OrdIO.ord_parse. fold (ord_reserve m0 lines).
  destruct (OrdIO.header_loop true (ord_reserve m0 lines, 0%N) lines) as [[[m nu] rest]|e] eqn:EH; cbn [rbind]; [|discriminate].
  pose proof (ord_header_rest _ _ _ _ _ EH) as ->.
  rewrite ord_ballot_loop_fold.
  destruct (ord_ballots_r (body_lines lines)) as [bs|e] eqn:EB; cbn [rmap rbind]; [|discriminate].
  rewrite (fold_left_ext _ _ bs ord_add_true).
  destruct (merge_fold_spec OrdIO.order_eqb order_eqb_eq bs) as [Hf Hs]. rewrite Hf.
  intros H. injection H as <-. exists m, nu, bs. split; [reflexivity|]. split; [reflexivity|].
  change OrdIO.sum_N with sum_N. now rewrite Hs.
Qed.

Lemma ord_ballots_ok lines bs : ord_ballots_r (body_lines lines) = Ok bs -> ord_ballots lines = bs.
Proof. unfold ord_ballots. now intros ->. Qed.

(* ac_merge, ordinal content *)
Theorem ac_merge_ord m0 lines i : OrdIO.ord_parse true false m0 lines = Ok i ->
  let bs := ord_ballots lines in
  NoDup (OrdIO.o_orders i) /\
  OrdIO.o_orders i = distinct OrdIO.order_eqb (map snd bs) /\
  (forall o, In o (OrdIO.o_orders i) <-> In o (map snd bs)) /\
  keys (OrdIO.o_mult i) = OrdIO.o_orders i /\
  OrdIO.o_mult i = merged OrdIO.order_eqb bs /\
  (forall o, OrdIO.mult_of i o = ord_lines_mult lines o) /\
  num_voters (OrdIO.o_meta i) = total bs /\
  OrdIO.o_num_unique i = N.of_nat (List.length (distinct OrdIO.order_eqb (map snd bs))) /\
  num_alternatives (OrdIO.o_meta i) = N.of_nat (List.length (alt_names (OrdIO.o_meta i))).
Proof.
  intros H. destruct (ord_parse_true_inv _ _ _ H) as (m & nu & bs & _ & HB & ->).
  rewrite (ord_ballots_ok _ _ HB). cbn zeta. cbn [OrdIO.o_orders OrdIO.o_mult OrdIO.o_meta OrdIO.o_num_unique].
  split; [apply distinct_NoDup; exact order_eqb_eq|]. split; [reflexivity|].
  split; [intros o; apply distinct_In; exact order_eqb_eq|].
  split; [apply merged_keys|]. split; [reflexivity|]. split.
  - intros o. unfold OrdIO.mult_of, ord_lines_mult. cbn [OrdIO.o_mult]. rewrite (ord_ballots_ok _ _ HB).
    destruct (in_dec (list_eq_dec (list_eq_dec N.eq_dec)) o (map snd bs)) as [Hin|Hn].
    + now rewrite (merged_get _ order_eqb_eq _ _ Hin).
    + rewrite (merged_get_absent _ order_eqb_eq _ _ Hn). symmetry. now apply msum_absent; [exact order_eqb_eq|].
  - destruct m; cbn. repeat split; reflexivity.
Qed.

(* the independent description computes exactly the table and the counts of the parser *)
Theorem ord_expected_agrees m0 lines i : OrdIO.ord_parse true false m0 lines = Ok i ->
  ord_expected lines = Ok (OrdIO.o_mult i, num_voters (OrdIO.o_meta i), OrdIO.o_num_unique i).
Proof.
  intros H. destruct (ord_parse_true_inv _ _ _ H) as (m & nu & bs & _ & HB & ->).
  unfold ord_expected. rewrite HB. destruct m; reflexivity.
Qed.

(* ================================================================================================ *)
(* C. the categorical parser                                                                        *)
(* ================================================================================================ *)
Lemma clist_eqb_eq {T} (eqb : T -> T -> bool) : (forall a b, eqb a b = true <-> a = b) ->
  forall a b, CatIO.list_eqb eqb a b = true <-> a = b.
Proof.
  intros H. induction a as [|x a IH]; destruct b as [|y b]; cbn [CatIO.list_eqb].
  - split; reflexivity.
  - split; discriminate.
  - split; discriminate.
  - rewrite andb_true_iff, H, IH. split; [intros [-> ->]; reflexivity|]. intros E. injection E. auto.
Qed.

Lemma ballot_eqb_eq a b : CatIO.ballot_eqb a b = true <-> a = b.
Proof. apply clist_eqb_eq. apply clist_eqb_eq. apply N.eqb_eq. Qed.

Definition cproj (i : CatIO.cinst) : list CatIO.ballot * list (CatIO.ballot * N) := (CatIO.c_prefs i, CatIO.c_mult i).
Definition cput (i : CatIO.cinst) (st : list CatIO.ballot * list (CatIO.ballot * N)) : CatIO.cinst :=
  CatIO.set_c_ballots i (fst st) (snd st).
Definition cadd (au : bool) (i : CatIO.cinst) (b : N * CatIO.ballot) : CatIO.cinst :=
  CatIO.add_ballot au i (fst b) (snd b).

Lemma cat_add_true i b : cadd true i b = cput i (gadd CatIO.ballot_eqb (cproj i) b).
Proof.
  destruct b as [k b]. unfold cadd, cput, gadd, cproj, CatIO.add_ballot. cbn [fst snd].
  destruct (assoc_get CatIO.ballot_eqb b (CatIO.c_mult i)); reflexivity.
Qed.

Lemma cat_add_false i b : cadd false i b = cput i (padd CatIO.ballot_eqb (cproj i) b).
Proof. destruct b as [k b]. reflexivity. Qed.

Lemma cput_cput i st st' : cput (cput i st) st' = cput i st'.
Proof. reflexivity. Qed.
Lemma cproj_cput i st : cproj (cput i st) = st.
Proof. destruct st. reflexivity. Qed.
Lemma cput_cproj i : cput i (cproj i) = i.
Proof. destruct i. reflexivity. Qed.

Lemma cat_fold_proj (f : list CatIO.ballot * list (CatIO.ballot * N) -> N * CatIO.ballot -> _) (g : CatIO.cinst -> N * CatIO.ballot -> CatIO.cinst) :
  (forall i b, g i b = cput i (f (cproj i) b)) ->
  forall bs i, fold_left g bs i = cput i (fold_left f bs (cproj i)).
Proof.
  intros H. induction bs as [|b bs IH]; intros i; cbn [fold_left]; [now rewrite cput_cproj|].
  rewrite IH, H, cproj_cput, cput_cput. reflexivity.
Qed.

Lemma cat_ballot_loop_fold au ls : forall i,
  CatIO.ballot_loop au i ls = rmap (fun bs => fold_left (cadd au) bs i) (cat_ballots_r ls).
Proof.
  induction ls as [|l ls IH]; intros i; cbn [CatIO.ballot_loop cat_ballots_r]; [reflexivity|].
  destruct (CatIO.ballot_of_line l) as [[k b]|e]; cbn [rbind]; [|reflexivity].
  rewrite IH. destruct (cat_ballots_r ls); reflexivity.
Qed.

(* a header line leaves the ballots alone *)
Lemma cat_header_line_ballots au resv i line i' :
  CatIO.header_line au resv i line = Ok i' -> cproj i' = cproj i.
Proof.
  unfold CatIO.header_line. intros H.
  assert (H1 : exists i1, cproj i1 = cproj i /\
    (if startswith (lit "# NUMBER CATEGORIES") line
     then rmap (CatIO.set_c_num_categories i1) (py_int (drop 20 line))
     else if startswith (lit "# CATEGORY NAME") line then
       match match_name cat_name_prefix line with
       | Some (cat, nm) =>
         rmap (fun nm' => CatIO.set_c_cat_names i1 (assoc_set N.eqb cat nm' (CatIO.c_cat_names i1)))
              (corrected_name au nm (values (CatIO.c_cat_names i1)) resv)
       | None => Ok i1
       end
     else rmap (CatIO.set_c_meta i1) (parse_metadata au (CatIO.c_meta i1) line)) = Ok i').
  { destruct (startswith (lit "# NUMBER UNIQUE PREFERENCES") line).
    - destruct (py_int (drop 28 line)) as [n|e]; cbn [rmap rbind] in H; [|discriminate].
      eexists. split; [|exact H]. reflexivity.
    - cbn [rbind] in H. exists i. split; [reflexivity|exact H]. }
  clear H. destruct H1 as (i1 & <- & H).
  destruct (startswith (lit "# NUMBER CATEGORIES") line).
  - destruct (py_int (drop 20 line)); cbn [rmap] in H; [|discriminate]. now injection H as <-.
  - destruct (startswith (lit "# CATEGORY NAME") line).
    + destruct (match_name cat_name_prefix line) as [[cat nm]|]; [|now injection H as <-].
      destruct (corrected_name au nm (values (CatIO.c_cat_names i1)) resv); cbn [rmap] in H; [|discriminate].
      now injection H as <-.
    + destruct (parse_metadata au (CatIO.c_meta i1) line); cbn [rmap] in H; [|discriminate]. now injection H as <-.
Qed.

Lemma cat_header_rest au resv lines : forall i i' rest,
  CatIO.header_loop au resv i lines = Ok (i', rest) -> rest = body_lines lines /\ cproj i' = cproj i.
Proof.
  induction lines as [|l r IH]; intros i i' rest H.
  - cbn in H. injection H as <- <-. now split.
  - cbn [CatIO.header_loop body_lines] in *. unfold is_header. change CatIO.hash_prefix with hash in H.
    destruct (startswith hash (strip l)).
    + destruct (CatIO.header_line au resv i (strip l)) as [i1|e] eqn:E1; cbn [rbind] in H; [|discriminate].
      apply cat_header_line_ballots in E1.
      destruct r as [|l2 r2]; [injection H as <- <-; now split|].
      destruct (IH _ _ _ H) as [-> H2]. split; [reflexivity|congruence].
    + injection H as <- <-. now split.
Qed.

Lemma dedup_id l : NoDup l -> CatIO.dedup l = l.
Proof.
  induction l as [|b r IH]; intros H; [reflexivity|]. inversion H as [|? ? Hn Hnd]; subst.
  cbn [CatIO.dedup]. fold (kmem CatIO.ballot_eqb b r).
  rewrite (proj2 (kmem_false _ ballot_eqb_eq b r) Hn). now rewrite IH.
Qed.

Definition cat_reserve (m0 : meta) (lines : list text) : meta :=
  set_reserved m0 (reserved_of alt_name_prefix lines).

Lemma cat_parse_true_inv m0 lines i : CatIO.cat_parse true false m0 lines = Ok i ->
  exists i1 bs,
    CatIO.header_loop true (reserved_of cat_name_prefix lines) (CatIO.cinst0 (cat_reserve m0 lines)) lines
      = Ok (i1, body_lines lines) /\
    cat_ballots_r (body_lines lines) = Ok bs /\
    CatIO.c_prefs i1 = [] /\ CatIO.c_mult i1 = [] /\
    i = CatIO.recompute (CatIO.set_c_ballots i1 (distinct CatIO.ballot_eqb (map snd bs)) (merged CatIO.ballot_eqb bs)).
Proof.
  unfold CatIO.cat_parse. destruct (teqb (data_type m0) (lit "cat")); [|discriminate].
  fold (cat_reserve m0 lines). unfold CatIO.cat_parse_body.
  destruct (CatIO.header_loop true (reserved_of cat_name_prefix lines) (CatIO.cinst0 (cat_reserve m0 lines)) lines)
    as [[i1 rest]|e] eqn:EH; cbn [rbind]; [|discriminate].
  destruct (cat_header_rest _ _ _ _ _ _ EH) as [-> Hp].
  rewrite cat_ballot_loop_fold.
  destruct (cat_ballots_r (body_lines lines)) as [bs|e] eqn:EB; cbn [rmap]; [|discriminate].
  rewrite (cat_fold_proj _ _ cat_add_true). rewrite Hp. unfold cproj at 1. cbn [CatIO.cinst0 CatIO.c_prefs CatIO.c_mult].
  destruct (merge_fold_spec CatIO.ballot_eqb ballot_eqb_eq bs) as [Hf Hs]. rewrite Hf.
  intros H. injection H as <-. exists i1, bs. unfold cproj in Hp. injection Hp as Hp1 Hp2.
  repeat split; assumption || reflexivity.
Qed.

Lemma cat_ballots_ok lines bs : cat_ballots_r (body_lines lines) = Ok bs -> cat_ballots lines = bs.
Proof. unfold cat_ballots. now intros ->. Qed.

Theorem ac_merge_cat m0 lines i : CatIO.cat_parse true false m0 lines = Ok i ->
  let bs := cat_ballots lines in
  NoDup (CatIO.c_prefs i) /\
  CatIO.c_prefs i = distinct CatIO.ballot_eqb (map snd bs) /\
  (forall b, In b (CatIO.c_prefs i) <-> In b (map snd bs)) /\
  keys (CatIO.c_mult i) = CatIO.c_prefs i /\
  CatIO.c_mult i = merged CatIO.ballot_eqb bs /\
  (forall b, CatIO.mult_of (CatIO.c_mult i) b = cat_lines_mult lines b) /\
  num_voters (CatIO.c_meta i) = total bs /\
  CatIO.c_num_unique i = N.of_nat (List.length (distinct CatIO.ballot_eqb (map snd bs))) /\
  num_alternatives (CatIO.c_meta i) = N.of_nat (List.length (alt_names (CatIO.c_meta i))).
Proof.
  intros H. destruct (cat_parse_true_inv _ _ _ H) as (i1 & bs & _ & HB & _ & _ & ->).
  rewrite (cat_ballots_ok _ _ HB). cbn zeta.
  assert (Hnd : NoDup (distinct CatIO.ballot_eqb (map snd bs))) by (apply distinct_NoDup; exact ballot_eqb_eq).
  unfold CatIO.recompute. cbn [CatIO.set_c_ballots CatIO.set_c_meta CatIO.set_c_num_unique CatIO.c_prefs CatIO.c_mult CatIO.c_meta CatIO.c_num_unique].
  split; [exact Hnd|]. split; [reflexivity|].
  split; [intros b; apply distinct_In; exact ballot_eqb_eq|].
  split; [apply merged_keys|]. split; [reflexivity|]. split.
  - intros b. unfold CatIO.mult_of, cat_lines_mult. rewrite (cat_ballots_ok _ _ HB).
    destruct (in_dec (list_eq_dec (list_eq_dec N.eq_dec)) b (map snd bs)) as [Hin|Hn].
    + now rewrite (merged_get _ ballot_eqb_eq _ _ Hin).
    + rewrite (merged_get_absent _ ballot_eqb_eq _ _ Hn). symmetry. now apply msum_absent; [exact ballot_eqb_eq|].
  - rewrite (dedup_id _ Hnd). destruct (merge_fold_spec CatIO.ballot_eqb ballot_eqb_eq bs) as [_ Hs].
    change CatIO.sum_N with sum_N. rewrite Hs. destruct (CatIO.c_meta i1); cbn. repeat split; reflexivity.
Qed.

Theorem cat_expected_agrees m0 lines i : CatIO.cat_parse true false m0 lines = Ok i ->
  cat_expected lines = Ok (CatIO.c_mult i, num_voters (CatIO.c_meta i), CatIO.c_num_unique i).
Proof.
  intros H. destruct (cat_parse_true_inv _ _ _ H) as (i1 & bs & _ & HB & _ & _ & ->).
  unfold cat_expected. rewrite HB. cbn [rmap].
  assert (Hnd : NoDup (distinct CatIO.ballot_eqb (map snd bs))) by (apply distinct_NoDup; exact ballot_eqb_eq).
  unfold CatIO.recompute. cbn [CatIO.set_c_ballots CatIO.set_c_meta CatIO.set_c_num_unique CatIO.c_prefs CatIO.c_mult CatIO.c_meta CatIO.c_num_unique].
  rewrite (dedup_id _ Hnd). destruct (merge_fold_spec CatIO.ballot_eqb ballot_eqb_eq bs) as [_ Hs].
  change CatIO.sum_N with sum_N. rewrite Hs. destruct (CatIO.c_meta i1); reflexivity.
Qed.
