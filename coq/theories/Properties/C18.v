(* Properties/C18.v — k-alternative partitions are valid, and the brute-force one is minimum.
   Statements only; every proof is `exact <lemma of Proofs/Partition.v or Lib/SetPartitions.v>`.

   Shape (R): the dynamic programme behind k_alt_partition_approx and the DFS of k_alternative_partition_brut_force
   are not mirrored.  What is proved, for every size:
     * partition_check (the witness checker the harness runs on every returned list of axes) accepts exactly the
       valid partitions into single-peaked axes                                    (first sentence of the property)
     * min_partition (the reference optimum the harness compares with at m <= 7) is the least number of axes of a
       valid partition; it lies between 1 and ceil(m/2)
     * brute_force_ok (the judge of the brute-force function) is exactly the second sentence of the property.
     * the MIRROR bf_algo of the repaired brute force (Model/PartitionAlgo.v) is SOUND (bf_sound) and COMPLETE / MINIMUM
       (bf_complete_min) for every size, hence satisfies the second sentence of the property (bf_algo_ok).

   Model (Model/Partition.v, Model/SP.v): alternatives are N; profile = list of flat strict rankings (best first);
   restrict_ranking S r = [a for a in r if a in S]; axes = list of lists of alternatives.
   Quantifier "profile of strict complete orders over at least one alternative":
     wf_profile alts profile := NoDup alts /\ Forall (fun r => Permutation alts r) profile,   and  alts <> []  where needed.
   Specification (Proofs/Partition.v), single-peakedness in the declarative form of Proofs/SP.v (every prefix of every
   restricted vote is contiguous on the axis), NOT the boolean scan:
     axis_sp profile axis := SP_axis (restrict_profile axis profile) axis
     valid_partition alts profile axes := Permutation alts (concat axes) /\ Forall (axis_sp profile) axes
   (both unfolded in valid_partition_meaning / valid_partition_spelled below).
   An empty axis is accepted by the specification and by the checker (the property text holds vacuously of it; the
   code cannot return one); a valid partition of minimum size never contains one (min_size_no_empty_axis).
   The brute force returns ONE partition or None, hence res : option (list (list N)).
   History: the correspondence of this property found that the DFS of /repo was not minimum from m = 6 on (it paired
   alternatives only inside one L-set); repaired by 175f7ec; witness: Example C18_finding_KF_C18_a at the end. *)
From Coq Require Import List Arith NArith Bool Permutation.
From PrefVerif Require Import Lib.Val Lib.Contig Lib.SetPartitions Model.SP Model.ELPDP Model.Partition Model.PartitionAlgo
                              Proofs.SP Proofs.Partition Proofs.PartitionAlgo Proofs.PartitionComplete.
Import ListNotations.

(* ---- the enumeration of set partitions -------------------------------------------------------- *)

Theorem set_partitions_sound : forall (l : list N) (p : list (list N)),
  In p (set_partitions l) -> Forall (fun b => b <> []) p /\ Permutation (concat p) l.
Proof. exact (Lib.SetPartitions.set_partitions_sound N). Qed.
Print Assumptions set_partitions_sound.

(* every family of non-empty blocks covering l occurs, up to the order of the blocks and inside the blocks *)
Theorem set_partitions_complete : forall (l : list N) (q : list (list N)),
  Forall (fun b => b <> []) q -> Permutation (concat q) l ->
  exists p, In p (set_partitions l) /\
            exists q', Permutation q q' /\ Forall2 (@Permutation N) p q'.
Proof. exact (Lib.SetPartitions.set_partitions_complete N). Qed.
Print Assumptions set_partitions_complete.

(* ---- what the specification says -------------------------------------------------------------- *)

Theorem valid_partition_meaning : forall alts profile axes,
  valid_partition alts profile axes <->
  Permutation alts (concat axes) /\
  forall axis, In axis axes -> forall r, In r profile -> forall k,
    contiguous (firstn k (filter (fun a => memN a axis) r)) axis.
Proof. exact Proofs.Partition.valid_partition_meaning. Qed.
Print Assumptions valid_partition_meaning.

(* "axes that together contain every alternative exactly once" *)
Theorem valid_partition_spelled : forall (alts : list N) (axes : list (list N)), NoDup alts ->
  (Permutation alts (concat axes) <->
   Forall (@NoDup N) axes /\ ForallOrdPairs disjoint axes /\
   (forall a, In a alts <-> exists axis, In axis axes /\ In a axis)).
Proof. exact Proofs.Partition.valid_partition_spelled. Qed.
Print Assumptions valid_partition_spelled.

(* ---- first sentence: the witness checker ------------------------------------------------------ *)

Theorem partition_check_correct : forall alts profile axes, wf_profile alts profile ->
  (partition_check alts profile axes = true <->
   (Forall (@NoDup N) axes /\ ForallOrdPairs disjoint axes /\
    (forall a, In a alts <-> exists axis, In axis axes /\ In a axis)) /\
   Forall (axis_sp profile) axes).
Proof. exact Proofs.Partition.partition_check_spelled. Qed.
Print Assumptions partition_check_correct.

Theorem partition_check_valid : forall alts profile axes, wf_profile alts profile ->
  (partition_check alts profile axes = true <-> valid_partition alts profile axes).
Proof. exact Proofs.Partition.partition_check_correct. Qed.
Print Assumptions partition_check_valid.

(* ---- the reference optimum -------------------------------------------------------------------- *)

(* a block admits an axis <-> sp_decide on the restriction *)
Theorem block_sp_correct : forall alts profile b, wf_profile alts profile -> NoDup b -> incl b alts ->
  (block_sp profile b = true <-> exists axis, Permutation b axis /\ axis_sp profile axis).
Proof. exact Proofs.Partition.block_sp_correct. Qed.
Print Assumptions block_sp_correct.

Theorem min_partition_correct : forall alts profile k, wf_profile alts profile ->
  (min_partition alts profile = k <->
   (exists axes, valid_partition alts profile axes /\ length axes = k) /\
   (forall axes, valid_partition alts profile axes -> k <= length axes)).
Proof. exact Proofs.Partition.min_partition_correct. Qed.
Print Assumptions min_partition_correct.

Theorem check_valid_bound : forall alts profile axes, wf_profile alts profile ->
  partition_check alts profile axes = true -> min_partition alts profile <= length axes.
Proof. exact Proofs.Partition.check_valid_bound. Qed.
Print Assumptions check_valid_bound.

Theorem min_size_no_empty_axis : forall alts profile axes, wf_profile alts profile ->
  valid_partition alts profile axes -> length axes = min_partition alts profile -> Forall (fun b => b <> []) axes.
Proof. exact Proofs.Partition.min_size_no_empty_axis. Qed.
Print Assumptions min_size_no_empty_axis.

(* any two alternatives are single-peaked together: the fact the cap ceil(m/2) of the code relies on *)
Theorem two_alts_sp : forall alts profile a b, wf_profile alts profile ->
  In a alts -> In b alts -> a <> b -> block_sp profile [a; b] = true.
Proof. exact Proofs.Partition.two_alts_sp. Qed.
Print Assumptions two_alts_sp.

(* 1 <= optimum <= ceil(m/2) for m >= 1 *)
Theorem min_partition_bounds : forall alts profile, wf_profile alts profile -> alts <> [] ->
  1 <= min_partition alts profile <= (length alts + 1) / 2.
Proof. exact Proofs.Partition.min_partition_bounds. Qed.
Print Assumptions min_partition_bounds.

(* ---- second sentence: the brute force --------------------------------------------------------- *)

(* brute_force_ok alts profile k res = true  iff  res is a valid partition with the smallest possible number of axes and
   that number is at most k, or res is None and no valid partition has at most k axes *)
Theorem brute_force_ok_correct : forall alts profile k res, wf_profile alts profile ->
  (brute_force_ok alts profile k res = true <->
   match res with
   | Some axes => valid_partition alts profile axes /\ length axes <= k /\
                  (forall axes', valid_partition alts profile axes' -> length axes <= length axes')
   | None => forall axes', valid_partition alts profile axes' -> k < length axes'
   end).
Proof. exact Proofs.Partition.brute_force_ok_correct. Qed.
Print Assumptions brute_force_ok_correct.

(* ---- invariance (reused by C15) --------------------------------------------------------------- *)

Theorem min_partition_profile_perm : forall alts profile profile',
  Permutation profile profile' -> min_partition alts profile = min_partition alts profile'.
Proof. exact Proofs.Partition.min_partition_profile_perm. Qed.
Print Assumptions min_partition_profile_perm.

Theorem partition_check_profile_perm : forall alts profile profile' axes,
  Permutation profile profile' -> partition_check alts profile axes = partition_check alts profile' axes.
Proof. exact Proofs.Partition.partition_check_profile_perm. Qed.
Print Assumptions partition_check_profile_perm.

Theorem min_partition_alts_perm : forall alts alts' profile, wf_profile alts profile ->
  Permutation alts alts' -> min_partition alts profile = min_partition alts' profile.
Proof. exact Proofs.Partition.min_partition_alts_perm. Qed.
Print Assumptions min_partition_alts_perm.

Theorem min_partition_relabel : forall f : N -> N, (forall x y, f x = f y -> x = y) ->
  forall alts profile, min_partition (map f alts) (map (map f) profile) = min_partition alts profile.
Proof. exact Proofs.Partition.min_partition_relabel. Qed.
Print Assumptions min_partition_relabel.

Theorem partition_check_relabel : forall f : N -> N, (forall x y, f x = f y -> x = y) ->
  forall alts profile axes,
  partition_check (map f alts) (map (map f) profile) (map (map f) axes) = partition_check alts profile axes.
Proof. exact Proofs.Partition.partition_check_relabel. Qed.
Print Assumptions partition_check_relabel.

(* ---- the MIRROR of k_alternative_partition_brut_force (Model/PartitionAlgo.v) ------------------- *)
(* bf_algo set_order alts votes k mirrors the function as it is in /repo after 175f7ec: the cap ceil(m/2), get_L_sets,
   dfs with placed / new / later / limit() / shortest, singleton_pair_combinations, extend, place (case_2, case_3,
   check_case_4, boundary from Model/ELPDP.v), removal of the None markers.  set_order = the order in which a Python
   set is iterated (any permutation).  The harness compares the implementation with this mirror on every brute-force
   case (same None-ness, same number of axes; the same partition in every case observed so far). *)

(* the L-sets are pairwise disjoint, duplicate-free, inside alts, and cover alts *)
Theorem L_sets_ok : forall alts votes, votes <> [] -> (forall v, In v votes -> incl alts v) -> NoDup alts ->
  NoDup (concat (get_L_sets alts votes)) /\ incl (concat (get_L_sets alts votes)) alts /\
  forall a, In a alts -> In a (concat (get_L_sets alts votes)).
Proof. exact Proofs.PartitionAlgo.L_sets_ok. Qed.
Print Assumptions L_sets_ok.

(* SOUNDNESS of the mirror, every size: a returned partition passes the verified checker and has at most
   min(k, ceil(m/2)) axes *)
Theorem bf_sound : forall set_order alts votes k res,
  wf_profile alts votes -> votes <> [] -> (forall L, Permutation L (set_order L)) ->
  bf_algo set_order alts votes k = Some res ->
  partition_check alts votes res = true /\ length res <= k /\ length res <= (length alts + 1) / 2.
Proof. exact Proofs.PartitionAlgo.bf_sound. Qed.
Print Assumptions bf_sound.

(* hence the None half of the second sentence: no answer when every valid partition has more than k axes ... *)
Theorem bf_none_when_infeasible : forall set_order alts votes k,
  wf_profile alts votes -> votes <> [] -> (forall L, Permutation L (set_order L)) ->
  k < min_partition alts votes -> bf_algo set_order alts votes k = None.
Proof. exact Proofs.PartitionAlgo.bf_none_when_infeasible. Qed.
Print Assumptions bf_none_when_infeasible.

(* ... and an answer lies between the optimum and k, and is accepted by brute_force_ok as soon as it is of optimum size *)
Theorem bf_some_bounds : forall set_order alts votes k res,
  wf_profile alts votes -> votes <> [] -> (forall L, Permutation L (set_order L)) ->
  bf_algo set_order alts votes k = Some res ->
  min_partition alts votes <= length res <= k /\
  (length res = min_partition alts votes -> brute_force_ok alts votes k (Some res) = true).
Proof. exact Proofs.PartitionAlgo.bf_some_bounds. Qed.
Print Assumptions bf_some_bounds.

(* COMPLETENESS / MINIMALITY of the mirror, every size (Proofs/PartitionComplete.v; uses place_complete of
   Proofs/ELPComplete.v - the completeness half of the Erdelyi-Lackner-Pfandler argument for place() - and the level
   sets of Proofs/ELPLevels.v): a valid partition with at most k axes exists -> the mirror answers Some partition with
   at most as many axes *)
Theorem bf_complete_min : forall set_order alts votes k axes,
  wf_profile alts votes -> votes <> [] -> (forall L, Permutation L (set_order L)) ->
  valid_partition alts votes axes -> length axes <= k ->
  exists res, bf_algo set_order alts votes k = Some res /\ length res <= length axes.
Proof. exact Proofs.PartitionComplete.bf_complete_min. Qed.
Print Assumptions bf_complete_min.

(* hence the SECOND SENTENCE of the property is a theorem about the mirror, for every size and every bound k: its answer
   is a valid partition with the smallest possible number of axes when that number is at most k, and None otherwise *)
Theorem bf_algo_ok : forall set_order alts votes k,
  wf_profile alts votes -> votes <> [] -> (forall L, Permutation L (set_order L)) ->
  brute_force_ok alts votes k (bf_algo set_order alts votes k) = true.
Proof. exact Proofs.PartitionComplete.bf_algo_ok. Qed.
Print Assumptions bf_algo_ok.

(* ---- non-vacuity ------------------------------------------------------------------------------ *)
Open Scope N_scope.

Example C18_example_wf : wf_profile [1;2;3] [ [1;2;3] ; [2;3;1] ; [3;1;2] ].
Proof.
  split.
  - repeat constructor; simpl; intuition discriminate.
  - repeat constructor.
    + apply (perm_trans (l' := [2;1;3])); [apply perm_swap|]. apply perm_skip. apply perm_swap.
    + apply Permutation_sym. apply (perm_trans (l' := [1;3;2])); [apply perm_swap|]. apply perm_skip. apply perm_swap.
Qed.

(* the Condorcet cycle on 3 alternatives: optimum 2 = (m+1)/2, the case lost by the cap floor(m/2) (fix 07cd506) *)
Example C18_example_cycle3 :
  min_partition [1;2;3] [ [1;2;3] ; [2;3;1] ; [3;1;2] ] = 2%nat
  /\ partition_check [1;2;3] [ [1;2;3] ; [2;3;1] ; [3;1;2] ] [ [1;2] ; [3] ] = true
  /\ partition_check [1;2;3] [ [1;2;3] ; [2;3;1] ; [3;1;2] ] [ [1;2;3] ] = false
  /\ partition_check [1;2;3] [ [1;2;3] ; [2;3;1] ; [3;1;2] ] [ [1;2] ] = false
  /\ partition_check [1;2;3] [ [1;2;3] ; [2;3;1] ; [3;1;2] ] [ [1;2] ; [2;3] ] = false
  /\ brute_force_ok [1;2;3] [ [1;2;3] ; [2;3;1] ; [3;1;2] ] 2 (Some [ [2;1] ; [3] ]) = true
  /\ brute_force_ok [1;2;3] [ [1;2;3] ; [2;3;1] ; [3;1;2] ] 1 None = true
  /\ brute_force_ok [1;2;3] [ [1;2;3] ; [2;3;1] ; [3;1;2] ] 2 None = false
  /\ brute_force_ok [1;2;3] [ [1;2;3] ; [2;3;1] ; [3;1;2] ] 3 (Some [ [1] ; [2] ; [3] ]) = false.
Proof. repeat split; vm_compute; reflexivity. Qed.

(* one alternative: optimum 1 (m = 1, k = 1 was answered None before fix 07cd506) *)
Example C18_example_m1 :
  min_partition [7] [ [7] ] = 1%nat /\ brute_force_ok [7] [ [7] ] 1 (Some [ [7] ]) = true
  /\ brute_force_ok [7] [ [7] ] 1 None = false.
Proof. repeat split; vm_compute; reflexivity. Qed.

(* the upper bound ceil(m/2) is attained for m = 5 (all cyclic shifts), and a planted 2-partition of 6 alternatives *)
Example C18_example_m5_m6 :
  min_partition [1;2;3;4;5] [ [1;2;3;4;5] ; [2;3;4;5;1] ; [3;4;5;1;2] ; [4;5;1;2;3] ; [5;1;2;3;4] ] = 3%nat
  /\ min_partition [1;2;3;4;5;6] [ [1;4;2;5;3;6] ; [6;3;5;2;4;1] ; [2;5;1;4;6;3] ] = 2%nat
  /\ partition_check [1;2;3;4;5;6] [ [1;4;2;5;3;6] ; [6;3;5;2;4;1] ; [2;5;1;4;6;3] ] [ [1;2;3] ; [4;5;6] ] = true
  /\ length (set_partitions [1;2;3;4;5]) = 52%nat.
Proof. repeat split; vm_compute; reflexivity. Qed.

(* Witness of the REPAIRED defect KF-C18-a (found by this check, fixed in /repo by 175f7ec; inputs kept in
   corpus/C18/fixed-175f7ec-bruteforce-not-minimum.json, notes/c18_bruteforce_not_minimum_repro.py): on this profile the
   optimum is 2 ([1;5], [2;3;4;6]); before the repair k_alternative_partition_brut_force answered None for k = 2 and the
   valid 3-axis partition [[1;3];[2;5;6];[4]] for k >= 3 - both answers are rejected by brute_force_ok, i.e. they violate
   the second sentence of the property. *)
Example C18_finding_KF_C18_a :
  let alts := [1;2;3;4;5;6] in
  let profile := [ [1;2;3;4;5;6] ; [5;1;4;6;3;2] ; [2;5;3;4;1;6] ] in
  min_partition alts profile = 2%nat
  /\ partition_check alts profile [ [1;5] ; [2;3;4;6] ] = true
  /\ brute_force_ok alts profile 2 None = false
  /\ partition_check alts profile [ [1;3] ; [2;5;6] ; [4] ] = true
  /\ brute_force_ok alts profile 3 (Some [ [1;3] ; [2;5;6] ; [4] ]) = false.
Proof. repeat split; vm_compute; reflexivity. Qed.
