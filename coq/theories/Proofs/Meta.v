(* Proofs/Meta.v — lemmas about Lib/PyStr.v (strip, readlines, splitlines) and Model/Meta.v
   (metadata round trip, alternative-name round trip, fuel of the autocorrect suffix search).
   Shared by the ordinal (C01), categorical (C08) and matching (C09) file proofs. *)
From Coq Require Import List NArith Bool String Lia Arith.
From PrefVerif Require Import Lib.Val Lib.Dec Lib.PyStr Model.Meta.
Import ListNotations.

(* ================================================================================================ *)
(* 1. text equality                                                                                 *)
(* ================================================================================================ *)
Lemma teqb_eq a b : teqb a b = true <-> a = b.
Proof.
  revert b. induction a as [|x a IH]; intros [|y b]; simpl; split; intros H; try easy.
  - apply andb_true_iff in H as [H1 H2]. apply N.eqb_eq in H1. apply IH in H2. now subst.
  - injection H as -> ->. rewrite N.eqb_refl. simpl. now apply IH.
Qed.
Lemma teqb_refl a : teqb a a = true.
Proof. now apply teqb_eq. Qed.
Lemma teqb_neq a b : teqb a b = false <-> a <> b.
Proof.
  split; intros H.
  - intros E. apply teqb_eq in E. congruence.
  - destruct (teqb a b) eqn:E; [|easy]. apply teqb_eq in E. contradiction.
Qed.
Lemma tmem_In x l : tmem x l = true <-> In x l.
Proof.
  unfold tmem. rewrite existsb_exists. split.
  - intros [y [Hy E]]. apply teqb_eq in E. now subst.
  - intros H. exists x. split; [easy|apply teqb_refl].
Qed.

(* ================================================================================================ *)
(* 2. strip                                                                                         *)
(* ================================================================================================ *)
Section Strip.
Variable f : N -> bool.

Lemma lstrip_by_length s : List.length (lstrip_by f s) <= List.length s.
Proof. induction s as [|c r IH]; simpl; [lia|]. destruct (f c); simpl; lia. Qed.

Lemma lstrip_by_suffix s : exists p, s = p ++ lstrip_by f s.
Proof.
  induction s as [|c r [p IH]]; simpl; [now exists []|].
  destruct (f c); [exists (c :: p); simpl; now rewrite <- IH | now exists []].
Qed.

Lemma rstrip_by_length s : List.length (rstrip_by f s) <= List.length s.
Proof. unfold rstrip_by. rewrite rev_length. etransitivity; [apply lstrip_by_length|]. now rewrite rev_length. Qed.

Lemma lstrip_by_cons_false c r : f c = false -> lstrip_by f (c :: r) = c :: r.
Proof. simpl. now intros ->. Qed.

Lemma lstrip_by_cons_true c r : f c = true -> lstrip_by f (c :: r) = lstrip_by f r.
Proof. simpl. now intros ->. Qed.

Lemma lstrip_by_all s t : forallb f s = true -> lstrip_by f (s ++ t) = lstrip_by f t.
Proof.
  induction s as [|c r IH]; simpl; [easy|]. intros H. apply andb_true_iff in H as [H1 H2].
  rewrite H1. now apply IH.
Qed.

Lemma lstrip_by_all_nil s : forallb f s = true -> lstrip_by f s = [].
Proof. intros H. rewrite <- (app_nil_r s). now rewrite lstrip_by_all. Qed.

(* a fixed point of lstrip stays one when text is appended, unless it is empty *)
Lemma lstrip_by_app_fix x y : x <> [] -> lstrip_by f x = x -> lstrip_by f (x ++ y) = x ++ y.
Proof.
  destruct x as [|c r]; [easy|]. intros _. simpl. destruct (f c) eqn:E; [|easy].
  intros H. exfalso. pose proof (lstrip_by_length r) as L. rewrite H in L. simpl in L. lia.
Qed.

Lemma rstrip_by_fix_rev s : rstrip_by f s = s <-> lstrip_by f (rev s) = rev s.
Proof.
  unfold rstrip_by. split; intros H.
  - rewrite <- H at 2. now rewrite rev_involutive.
  - rewrite H. apply rev_involutive.
Qed.

Lemma rstrip_by_all s t : forallb f t = true -> rstrip_by f (s ++ t) = rstrip_by f s.
Proof.
  intros H. unfold rstrip_by. rewrite rev_app_distr. rewrite lstrip_by_all; [easy|].
  rewrite forallb_forall in *. intros x Hx. apply H. now apply in_rev.
Qed.

Lemma rstrip_by_app_fix a b : b <> [] -> rstrip_by f b = b -> rstrip_by f (a ++ b) = a ++ b.
Proof.
  intros Hne H. apply rstrip_by_fix_rev. rewrite rev_app_distr. apply lstrip_by_app_fix.
  - intros E. apply Hne. rewrite <- (rev_involutive b). now rewrite E.
  - now apply rstrip_by_fix_rev.
Qed.

Lemma rstrip_by_nil : rstrip_by f [] = [].
Proof. reflexivity. Qed.

(* strip s = s  splits into the two one-sided facts *)
Lemma strip_by_fix s : strip_by f s = s -> lstrip_by f s = s /\ rstrip_by f s = s.
Proof.
  unfold strip_by. intros H.
  assert (L : List.length (lstrip_by f s) = List.length s).
  { pose proof (rstrip_by_length (lstrip_by f s)) as A. pose proof (lstrip_by_length s) as B.
    rewrite H in A. lia. }
  destruct (lstrip_by_suffix s) as [p Hp].
  assert (p = []) as ->.
  { apply length_zero_iff_nil. apply (f_equal (@List.length N)) in Hp. rewrite app_length in Hp. lia. }
  simpl in Hp. rewrite <- Hp in H. now rewrite <- Hp.
Qed.

Lemma strip_by_of_fix s : lstrip_by f s = s -> rstrip_by f s = s -> strip_by f s = s.
Proof. unfold strip_by. now intros -> ->. Qed.
End Strip.

(* a line made of a key K (no outer whitespace, non-empty), one space, a value without outer whitespace,
   and trailing whitespace w (the newline): after strip() the value is still separated by the space, or the
   line ends with K when the value is empty *)
Lemma strip_key_value K v w :
  K <> [] -> strip K = K -> strip v = v -> forallb is_space w = true ->
  strip (K ++ 32%N :: v ++ w) = K ++ (match v with [] => [] | _ => 32%N :: v end).
Proof.
  intros HK SK Sv Hw. apply strip_by_fix in SK as [LK RK]. apply strip_by_fix in Sv as [Lv Rv].
  unfold strip, strip_by. rewrite (lstrip_by_app_fix _ K _ HK LK).
  replace (K ++ 32%N :: v ++ w) with ((K ++ 32%N :: v) ++ w) by (rewrite <- app_assoc; reflexivity).
  rewrite rstrip_by_all by exact Hw.
  destruct v as [|c v'].
  - replace (K ++ [32%N]) with (K ++ [32%N]) by reflexivity.
    rewrite rstrip_by_all by reflexivity. rewrite RK. now rewrite app_nil_r.
  - replace (K ++ 32%N :: c :: v') with ((K ++ [32%N]) ++ c :: v') by (rewrite <- app_assoc; reflexivity).
    rewrite rstrip_by_app_fix; [now rewrite <- app_assoc|easy|exact Rv].
Qed.

(* " value" or "" -> value *)
Lemma strip_sp_value v : strip v = v -> strip (match v with [] => [] | _ => 32%N :: v end) = v.
Proof.
  intros Sv. destruct v as [|c v']; [reflexivity|].
  apply strip_by_fix in Sv as [Lv Rv]. unfold strip, strip_by.
  rewrite lstrip_by_cons_true by reflexivity. rewrite Lv. exact Rv.
Qed.

Lemma strip_nl_r s w : forallb is_space w = true -> strip (s ++ w) = strip s.
Proof.
  intros Hw. unfold strip, strip_by.
  destruct (forallb is_space s) eqn:A.
  - rewrite lstrip_by_all by exact A.
    rewrite (lstrip_by_all_nil _ s A), (lstrip_by_all_nil _ w Hw). reflexivity.
  - (* s contains a non-space character: lstrip (s ++ w) = lstrip s ++ w *)
    assert (G : forall s, forallb is_space s = false -> lstrip_by is_space (s ++ w) = lstrip_by is_space s ++ w).
    { clear. induction s as [|c r IH]; simpl; [discriminate|]. destruct (is_space c); simpl; [exact IH|reflexivity]. }
    rewrite G by exact A. now apply rstrip_by_all.
Qed.

(* ================================================================================================ *)
(* 3. lines                                                                                         *)
(* ================================================================================================ *)
Definition unlines (ls : list text) : text := flat_map (fun l => l ++ nl) ls.
Definition no_nlcr (l : text) : bool := forallb (fun c => negb (N.eqb c 10) && negb (N.eqb c 13)) l.
Definition no_break (l : text) : bool := forallb (fun c => negb (is_linebreak c)) l.

Lemma no_break_no_nlcr l : no_break l = true -> no_nlcr l = true.
Proof.
  unfold no_break, no_nlcr. rewrite !forallb_forall. intros H c Hc. specialize (H c Hc).
  destruct (N.eqb_spec c 10) as [->|]; [discriminate|]. destruct (N.eqb_spec c 13) as [->|]; [discriminate|].
  reflexivity.
Qed.

Lemma readlines_aux_line l : forall cur rest, no_nlcr l = true ->
  readlines_aux cur (l ++ 10%N :: rest) = (rev cur ++ l ++ [10%N]) :: readlines_aux [] rest.
Proof.
  induction l as [|c r IH]; intros cur rest H.
  - simpl. reflexivity.
  - simpl in H. apply andb_true_iff in H as [Hc Hr]. apply andb_true_iff in Hc as [H10 H13].
    simpl. apply negb_true_iff in H10. apply negb_true_iff in H13. rewrite H10, H13.
    rewrite IH by exact Hr. simpl. now rewrite <- app_assoc.
Qed.

Theorem readlines_unlines ls : forallb no_nlcr ls = true -> readlines (unlines ls) = map (fun l => l ++ nl) ls.
Proof.
  unfold readlines. induction ls as [|l r IH]; intros H; [reflexivity|].
  simpl in H. apply andb_true_iff in H as [Hl Hr]. simpl. unfold nl at 1. rewrite <- app_assoc. simpl.
  rewrite readlines_aux_line by exact Hl. simpl. now rewrite IH.
Qed.

Lemma splitlines_aux_line l : forall cur rest, no_break l = true ->
  splitlines_aux cur (l ++ 10%N :: rest) = (rev cur ++ l) :: splitlines_aux [] rest.
Proof.
  induction l as [|c r IH]; intros cur rest H.
  - simpl. now rewrite app_nil_r.
  - simpl in H. apply andb_true_iff in H as [Hc Hr]. apply negb_true_iff in Hc.
    simpl. rewrite Hc. rewrite IH by exact Hr. simpl. now rewrite <- app_assoc.
Qed.

Theorem splitlines_unlines ls : forallb no_break ls = true -> splitlines (unlines ls) = ls.
Proof.
  unfold splitlines. induction ls as [|l r IH]; intros H; [reflexivity|].
  simpl in H. apply andb_true_iff in H as [Hl Hr]. simpl. unfold nl at 1. rewrite <- app_assoc. simpl.
  rewrite splitlines_aux_line by exact Hl. simpl. now rewrite IH.
Qed.

(* ================================================================================================ *)
(* 4. numbers and keys inside lines                                                                 *)
(* ================================================================================================ *)
Lemma strip_by_none f s : forallb (fun c => negb (f c)) s = true -> strip_by f s = s.
Proof.
  intros H. apply strip_by_of_fix.
  - destruct s as [|c r]; [reflexivity|]. simpl in H. apply andb_true_iff in H as [H _].
    apply negb_true_iff in H. now apply lstrip_by_cons_false.
  - apply rstrip_by_fix_rev. assert (H' : forallb (fun c => negb (f c)) (rev s) = true).
    { rewrite forallb_forall in *. intros x Hx. apply H. now apply in_rev. }
    destruct (rev s) as [|c r]; [reflexivity|]. simpl in H'. apply andb_true_iff in H' as [H' _].
    apply negb_true_iff in H'. now apply lstrip_by_cons_false.
Qed.

Lemma digit_not_space c : is_digit c = true -> is_space c = false.
Proof.
  unfold is_digit, is_space. intros H. apply andb_true_iff in H as [A B].
  apply N.leb_le in A. apply N.leb_le in B.
  repeat match goal with
  | |- context [(?a <=? c)%N] => destruct (N.leb_spec a c); try lia
  | |- context [(c <=? ?a)%N] => destruct (N.leb_spec c a); try lia
  | |- context [(c =? ?a)%N] => destruct (N.eqb_spec c a); try lia
  end; reflexivity.
Qed.

Lemma strip_digits s : forallb is_digit s = true -> strip s = s.
Proof.
  intros H. apply strip_by_none. rewrite forallb_forall in *. intros c Hc.
  apply negb_true_iff. apply digit_not_space. now apply H.
Qed.

Lemma strip_show_N n : strip (show_N n) = show_N n.
Proof. apply strip_digits, show_N_digits. Qed.

Lemma py_int_show_N n : py_int (show_N n) = Ok n.
Proof. unfold py_int. now rewrite strip_show_N, read_show_N. Qed.

Lemma py_int_sp_show_N n : py_int (32%N :: show_N n) = Ok n.
Proof.
  unfold py_int. replace (strip (32%N :: show_N n)) with (show_N n); [now rewrite read_show_N|].
  unfold strip, strip_by. rewrite lstrip_by_cons_true by reflexivity.
  pose proof (strip_show_N n) as H. apply strip_by_fix in H as [L R]. now rewrite L, R.
Qed.

Lemma span_digits_app d t :
  forallb is_digit d = true -> (match t with [] => true | c :: _ => negb (is_digit c) end) = true ->
  span_digits (d ++ t) = (d, t).
Proof.
  intros Hd Ht. induction d as [|c r IH]; simpl.
  - destruct t as [|c t']; [reflexivity|]. simpl. apply negb_true_iff in Ht. now rewrite Ht.
  - simpl in Hd. apply andb_true_iff in Hd as [Hc Hr]. rewrite Hc. now rewrite (IH Hr).
Qed.

Lemma upto_nl_id s : forallb (fun c => negb (N.eqb c 10)) s = true -> upto_nl s = s.
Proof.
  induction s as [|c r IH]; simpl; [reflexivity|]. intros H. apply andb_true_iff in H as [Hc Hr].
  apply negb_true_iff in Hc. rewrite Hc. now rewrite IH.
Qed.

Lemma no_break_no_nl s : no_break s = true -> forallb (fun c => negb (N.eqb c 10)) s = true.
Proof.
  unfold no_break. rewrite !forallb_forall. intros H c Hc. specialize (H c Hc).
  destruct (N.eqb_spec c 10) as [->|]; [discriminate|reflexivity].
Qed.

(* a value after its key: " value", or nothing when the value is empty (strip() removed the space) *)
Definition spv (v : text) : text := match v with [] => [] | _ => 32%N :: v end.

Lemma strip_kv K v : K <> [] -> strip K = K -> strip v = v -> strip (K ++ 32%N :: v) = K ++ spv v.
Proof.
  intros HK SK Sv. pose proof (strip_key_value K v [] HK SK Sv eq_refl) as H.
  now rewrite app_nil_r in H.
Qed.

Lemma strip_spv v : strip v = v -> strip (spv v) = v.
Proof. apply strip_sp_value. Qed.

(* ================================================================================================ *)
(* 5. parse_metadata on each line written by write_metadata / the count lines / the name lines      *)
(* ================================================================================================ *)
Definition wf_value (v : text) : Prop := strip v = v.

Ltac field_line Hv :=
  rewrite strip_kv; [|discriminate|reflexivity|exact Hv];
  let X := fresh "X" in let EX := fresh "EX" in
  remember (spv _) as X eqn:EX; unfold parse_metadata; cbn -[strip]; subst X;
  rewrite (strip_spv _ Hv); reflexivity.

Lemma parse_line_file_name au m v : wf_value v ->
  parse_metadata au m (strip (lit "# FILE NAME:" ++ 32%N :: v)) = Ok (set_file_name m v).
Proof. intros Hv. field_line Hv. Qed.
Lemma parse_line_title au m v : wf_value v ->
  parse_metadata au m (strip (lit "# TITLE:" ++ 32%N :: v)) = Ok (set_title m v).
Proof. intros Hv. field_line Hv. Qed.
Lemma parse_line_description au m v : wf_value v ->
  parse_metadata au m (strip (lit "# DESCRIPTION:" ++ 32%N :: v)) = Ok (set_description m v).
Proof. intros Hv. field_line Hv. Qed.
Lemma parse_line_data_type au m v : wf_value v ->
  parse_metadata au m (strip (lit "# DATA TYPE:" ++ 32%N :: v)) = Ok (set_data_type m v).
Proof. intros Hv. field_line Hv. Qed.
Lemma parse_line_modification_type au m v : wf_value v ->
  parse_metadata au m (strip (lit "# MODIFICATION TYPE:" ++ 32%N :: v)) = Ok (set_modification_type m v).
Proof. intros Hv. field_line Hv. Qed.
Lemma parse_line_relates_to au m v : wf_value v ->
  parse_metadata au m (strip (lit "# RELATES TO:" ++ 32%N :: v)) = Ok (set_relates_to m v).
Proof. intros Hv. field_line Hv. Qed.
Lemma parse_line_related_files au m v : wf_value v ->
  parse_metadata au m (strip (lit "# RELATED FILES:" ++ 32%N :: v)) = Ok (set_related_files m v).
Proof. intros Hv. field_line Hv. Qed.
Lemma parse_line_publication_date au m v : wf_value v ->
  parse_metadata au m (strip (lit "# PUBLICATION DATE:" ++ 32%N :: v)) = Ok (set_publication_date m v).
Proof. intros Hv. field_line Hv. Qed.
Lemma parse_line_modification_date au m v : wf_value v ->
  parse_metadata au m (strip (lit "# MODIFICATION DATE:" ++ 32%N :: v)) = Ok (set_modification_date m v).
Proof. intros Hv. field_line Hv. Qed.

Lemma spv_show_N n : spv (show_N n) = 32%N :: show_N n.
Proof. pose proof (show_N_nonempty n). unfold spv. now destruct (show_N n). Qed.

Lemma parse_line_num_alternatives au m n :
  parse_metadata au m (strip (lit "# NUMBER ALTERNATIVES:" ++ 32%N :: show_N n)) = Ok (set_num_alternatives m n).
Proof.
  rewrite strip_kv; [|discriminate|reflexivity|apply strip_show_N]. rewrite spv_show_N.
  unfold parse_metadata. cbn -[py_int show_N]. now rewrite py_int_sp_show_N.
Qed.
Lemma parse_line_num_voters au m n :
  parse_metadata au m (strip (lit "# NUMBER VOTERS:" ++ 32%N :: show_N n)) = Ok (set_num_voters m n).
Proof.
  rewrite strip_kv; [|discriminate|reflexivity|apply strip_show_N]. rewrite spv_show_N.
  unfold parse_metadata. cbn -[py_int show_N]. now rewrite py_int_sp_show_N.
Qed.

(* ---- the name line  "# ALTERNATIVE NAME <id>: <name>"  (the name may be EMPTY) ---- *)
Definition name_key (prefix : text) (a : N) : text := prefix ++ show_N a ++ [58%N].
Definition name_line (prefix : text) (a : N) (nm : text) : text := name_key prefix a ++ 32%N :: nm.

Lemma colon_not_space : is_space 58 = false. Proof. reflexivity. Qed.

Lemma strip_name_key prefix a :
  (match prefix with c :: _ => negb (is_space c) | [] => false end) = true ->
  name_key prefix a <> [] /\ strip (name_key prefix a) = name_key prefix a.
Proof.
  intros Hp. destruct prefix as [|c p]; [discriminate|]. apply negb_true_iff in Hp.
  split; [discriminate|]. apply strip_by_of_fix.
  - unfold name_key. simpl. now rewrite Hp.
  - unfold name_key. rewrite app_assoc. apply rstrip_by_app_fix; [discriminate|reflexivity].
Qed.

Lemma strip_name_line prefix a nm :
  (match prefix with c :: _ => negb (is_space c) | [] => false end) = true -> wf_value nm ->
  strip (name_line prefix a nm) = name_key prefix a ++ spv nm.
Proof.
  intros Hp Hn. destruct (strip_name_key prefix a Hp) as [A B]. unfold name_line. now apply strip_kv.
Qed.

Lemma startswith_app p s : startswith p (p ++ s) = true.
Proof. induction p as [|c r IH]; simpl; [reflexivity|]. now rewrite N.eqb_refl. Qed.

Lemma skipn_app_exact {T} (p s : list T) : skipn (List.length p) (p ++ s) = s.
Proof. induction p; simpl; auto. Qed.

(* re.match(name pattern, stripped line) on a written name line *)
Lemma match_name_line prefix a nm :
  no_break nm = true ->
  match_name prefix (name_key prefix a ++ spv nm) = Some (a, nm).
Proof.
  intros Hb. unfold match_name, name_key. rewrite <- !app_assoc. rewrite startswith_app.
  unfold drop. rewrite skipn_app_exact. simpl app.
  rewrite span_digits_app; [|apply show_N_digits|reflexivity].
  pose proof (show_N_nonempty a) as Hne. destruct (show_N a) as [|d0 dr] eqn:Ed; [easy|].
  rewrite <- Ed. rewrite read_show_N.
  assert (U : upto_nl nm = nm) by (apply upto_nl_id; now apply no_break_no_nl).
  destruct nm as [|c r]; [reflexivity|]. unfold spv. now rewrite U.
Qed.

Lemma parse_line_alt_name au m a nm : wf_value nm -> no_break nm = true ->
  parse_metadata au m (strip (name_line alt_name_prefix a nm)) =
  rmap (fun nm' => set_alt_names m (assoc_set N.eqb a nm' (alt_names m)))
       (corrected_name au nm (values (alt_names m)) (reserved m)).
Proof.
  intros Hv Hb. rewrite strip_name_line; [|reflexivity|exact Hv].
  pose proof (match_name_line alt_name_prefix a nm Hb) as M.
  unfold parse_metadata. rewrite M. clear M.
  unfold name_key, alt_name_prefix. rewrite <- !app_assoc.
  remember (show_N a ++ [58%N] ++ spv nm) as Y. cbn -[corrected_name]. reflexivity.
Qed.

(* ================================================================================================ *)
(* 6. the written header as a list of lines; round trip of the nine fields and of the names         *)
(* ================================================================================================ *)
Definition meta_lines (m : meta) : list text :=
  [ lit "# FILE NAME:" ++ 32%N :: file_name m;  lit "# TITLE:" ++ 32%N :: title m;
    lit "# DESCRIPTION:" ++ 32%N :: description m;  lit "# DATA TYPE:" ++ 32%N :: data_type m;
    lit "# MODIFICATION TYPE:" ++ 32%N :: modification_type m;  lit "# RELATES TO:" ++ 32%N :: relates_to m;
    lit "# RELATED FILES:" ++ 32%N :: related_files m;  lit "# PUBLICATION DATE:" ++ 32%N :: publication_date m;
    lit "# MODIFICATION DATE:" ++ 32%N :: modification_date m ].

Lemma write_metadata_lines m : write_metadata m = unlines (meta_lines m).
Proof.
  unfold write_metadata, hline, unlines, meta_lines. cbn [flat_map lit].
  repeat (rewrite <- ?app_assoc; cbn [app]). reflexivity.
Qed.

Definition alt_name_lines (d : list (N * text)) : list text :=
  map (fun p => name_line alt_name_prefix (fst p) (snd p)) d.

Lemma write_alt_names_lines d : write_alt_names d = unlines (alt_name_lines d).
Proof.
  unfold write_alt_names, unlines, alt_name_lines. induction d as [|[a nm] r IH]; [reflexivity|].
  cbn [flat_map map fst snd]. rewrite IH. f_equal.
  unfold name_line, name_key, alt_name_prefix. cbn [lit]. repeat (rewrite <- ?app_assoc; cbn [app]). reflexivity.
Qed.

(* the nine fields free of line boundaries and of outer whitespace (they may be empty) *)
Definition wf_field (v : text) : Prop := wf_value v /\ no_break v = true.
Definition wf_fields (m : meta) : Prop :=
  wf_field (file_name m) /\ wf_field (title m) /\ wf_field (description m) /\ wf_field (data_type m) /\
  wf_field (modification_type m) /\ wf_field (relates_to m) /\ wf_field (related_files m) /\
  wf_field (publication_date m) /\ wf_field (modification_date m).

(* folding parse_metadata over (stripped) lines *)
Definition parse_meta_lines (au : bool) (m : meta) (ls : list text) : result meta :=
  fold_left (fun r l => rbind r (fun m => parse_metadata au m (strip l))) ls (Ok m).

Definition copy_fields (m m' : meta) : meta :=
  mkMeta (file_name m) (title m) (description m) (data_type m) (modification_type m) (relates_to m)
         (related_files m) (publication_date m) (modification_date m)
         (num_alternatives m') (num_voters m') (alt_names m') (reserved m').

(* parsing the nine header lines restores the nine fields, whatever they were before, EMPTY values included *)
Theorem metadata_roundtrip au m m' :
  wf_fields m -> parse_meta_lines au m' (meta_lines m) = Ok (copy_fields m m').
Proof.
  intros (H1 & H2 & H3 & H4 & H5 & H6 & H7 & H8 & H9).
  unfold parse_meta_lines, meta_lines. cbn [fold_left rbind].
  rewrite parse_line_file_name by apply H1. cbn [rbind].
  rewrite parse_line_title by apply H2. cbn [rbind].
  rewrite parse_line_description by apply H3. cbn [rbind].
  rewrite parse_line_data_type by apply H4. cbn [rbind].
  rewrite parse_line_modification_type by apply H5. cbn [rbind].
  rewrite parse_line_relates_to by apply H6. cbn [rbind].
  rewrite parse_line_related_files by apply H7. cbn [rbind].
  rewrite parse_line_publication_date by apply H8. cbn [rbind].
  rewrite parse_line_modification_date by apply H9. reflexivity.
Qed.

Lemma parse_meta_lines_nl au m ls :
  parse_meta_lines au m (map (fun l => l ++ nl) ls) = parse_meta_lines au m ls.
Proof.
  unfold parse_meta_lines. generalize (Ok m) as r. induction ls as [|l t IH]; intros r; [reflexivity|].
  cbn [map fold_left]. rewrite IH. rewrite strip_nl_r by reflexivity. reflexivity.
Qed.

Lemma meta_lines_no_break m : wf_fields m -> forallb no_break (meta_lines m) = true.
Proof.
  intros (H1 & H2 & H3 & H4 & H5 & H6 & H7 & H8 & H9).
  unfold meta_lines. cbn [forallb]. unfold wf_field, no_break in *.
  rewrite !forallb_app. cbn [forallb lit]. 
  destruct H1 as [_ ->], H2 as [_ ->], H3 as [_ ->], H4 as [_ ->], H5 as [_ ->], H6 as [_ ->],
           H7 as [_ ->], H8 as [_ ->], H9 as [_ ->]. reflexivity.
Qed.

Lemma forallb_no_nlcr ls : forallb no_break ls = true -> forallb no_nlcr ls = true.
Proof. rewrite !forallb_forall. intros H l Hl. apply no_break_no_nlcr. now apply H. Qed.

(* the same through the file (readlines) and through a string (splitlines) *)
Corollary metadata_roundtrip_readlines au m m' :
  wf_fields m -> parse_meta_lines au m' (readlines (write_metadata m)) = Ok (copy_fields m m').
Proof.
  intros H. rewrite write_metadata_lines, readlines_unlines.
  - rewrite parse_meta_lines_nl. now apply metadata_roundtrip.
  - apply forallb_no_nlcr. now apply meta_lines_no_break.
Qed.
Corollary metadata_roundtrip_splitlines au m m' :
  wf_fields m -> parse_meta_lines au m' (splitlines (write_metadata m)) = Ok (copy_fields m m').
Proof.
  intros H. rewrite write_metadata_lines, splitlines_unlines.
  - now apply metadata_roundtrip.
  - now apply meta_lines_no_break.
Qed.

(* ---- names ---- *)
Definition wf_names (d : list (N * text)) : Prop :=
  Forall (fun p => wf_field (snd p)) d /\ NoDup (keys d).

Definition set_all (d acc : list (N * text)) : list (N * text) :=
  fold_left (fun acc p => assoc_set N.eqb (fst p) (snd p) acc) d acc.

Lemma assoc_set_fresh (a : N) (nm : text) acc :
  ~ In a (keys acc) -> assoc_set N.eqb a nm acc = acc ++ [(a, nm)].
Proof.
  induction acc as [|[k v] r IH]; intros H; [reflexivity|].
  cbn [assoc_set]. destruct (N.eqb_spec a k) as [->|Hne].
  - exfalso. apply H. now left.
  - cbn [app]. rewrite IH; [reflexivity|]. intros Hin. apply H. now right.
Qed.

Lemma set_all_fresh d : forall acc, NoDup (keys acc ++ keys d) -> set_all d acc = acc ++ d.
Proof.
  induction d as [|[a nm] r IH]; intros acc H; [now rewrite app_nil_r|].
  unfold set_all. cbn [fold_left fst snd]. fold (set_all r (assoc_set N.eqb a nm acc)).
  rewrite assoc_set_fresh.
  - rewrite IH.
    + now rewrite <- app_assoc.
    + unfold keys in *. rewrite map_app. cbn [map fst]. rewrite <- app_assoc. exact H.
  - intros Hin. unfold keys in H. cbn [map fst] in H. apply NoDup_remove_2 in H. apply H.
    apply in_or_app. now left.
Qed.

(* parsing (autocorrect off) the name lines of a dict with distinct ids restores the dict, in order;
   names may be EMPTY *)
Theorem alt_names_roundtrip m' d :
  Forall (fun p => wf_field (snd p)) d ->
  parse_meta_lines false m' (alt_name_lines d) = Ok (set_alt_names m' (set_all d (alt_names m'))).
Proof.
  unfold parse_meta_lines. revert m'. induction d as [|[a nm] r IH]; intros m' H.
  - cbn. destruct m'; reflexivity.
  - inversion H as [|? ? [Hv Hb] Hr]; subst. cbn [alt_name_lines map fold_left rbind fst snd].
    cbn [fst snd] in *. rewrite parse_line_alt_name by assumption.
    unfold corrected_name. cbn [andb rmap].
    fold (alt_name_lines r). rewrite (IH _ Hr). reflexivity.
Qed.

Corollary alt_names_roundtrip_fresh m' d :
  wf_names d -> alt_names m' = [] ->
  parse_meta_lines false m' (alt_name_lines d) = Ok (set_alt_names m' d).
Proof.
  intros [Hf Hn] E. rewrite alt_names_roundtrip by exact Hf. rewrite E.
  rewrite set_all_fresh; [reflexivity|exact Hn].
Qed.

Lemma alt_name_lines_no_break d :
  Forall (fun p => wf_field (snd p)) d -> forallb no_break (alt_name_lines d) = true.
Proof.
  induction 1 as [|[a nm] r [Hv Hb] Hr IH]; [reflexivity|].
  cbn [alt_name_lines map forallb fst snd]. fold (alt_name_lines r). rewrite IH, andb_true_r.
  unfold name_line, name_key, no_break in *. rewrite !forallb_app. cbn [forallb].
  cbn [snd] in Hb. rewrite Hb.
  assert (D : forallb (fun c => negb (is_linebreak c)) (show_N a) = true).
  { pose proof (show_N_digits a) as Hd. rewrite forallb_forall in *. intros c Hc. specialize (Hd c Hc).
    unfold is_digit in Hd. apply andb_true_iff in Hd as [A B]. apply N.leb_le in A. apply N.leb_le in B.
    unfold is_linebreak.
    repeat match goal with
    | |- context [(?a <=? c)%N] => destruct (N.leb_spec a c); try lia
    | |- context [(c <=? ?a)%N] => destruct (N.leb_spec c a); try lia
    | |- context [(c =? ?a)%N] => destruct (N.eqb_spec c a); try lia
    end; reflexivity. }
  rewrite D. reflexivity.
Qed.

(* ================================================================================================ *)
(* 7. the suffix search of autocorrect never runs out of fuel                                       *)
(* ================================================================================================ *)
Lemma suffixed_inj name j k : suffixed name j = suffixed name k -> j = k.
Proof.
  unfold suffixed. intros H. apply app_inv_head in H. apply app_inv_head in H. now apply show_N_inj.
Qed.

Lemma find_free_ext fuel name u1 u2 : forall k,
  (forall j, (k <= j)%N -> tmem (suffixed name j) u1 = tmem (suffixed name j) u2) ->
  find_free fuel name u1 k = find_free fuel name u2 k.
Proof.
  induction fuel as [|f IH]; intros k H; [reflexivity|].
  cbn [find_free]. rewrite (H k) by lia. destruct (tmem (suffixed name k) u2); [|reflexivity].
  apply IH. intros j Hj. apply H. lia.
Qed.

Definition without (x : text) (l : list text) : list text := filter (fun u => negb (teqb u x)) l.

Lemma without_length_lt x l : tmem x l = true -> (List.length (without x l) < List.length l)%nat.
Proof.
  induction l as [|y r IH]; [discriminate|].
  unfold tmem. cbn [existsb without filter]. intros H.
  assert (L : (List.length (without x r) <= List.length r)%nat).
  { clear. unfold without. induction r as [|z r IH]; simpl; [lia|]. destruct (negb (teqb z x)); simpl; lia. }
  destruct (teqb y x) eqn:E.
  - cbn [negb]. fold (without x r). simpl. lia.
  - cbn [negb length]. fold (without x r).
    assert (E' : teqb x y = false).
    { apply teqb_neq. apply teqb_neq in E. congruence. }
    rewrite E' in H. cbn [orb] in H. specialize (IH H). simpl. lia.
Qed.

Lemma tmem_without x y l : x <> y -> tmem y (without x l) = tmem y l.
Proof.
  intros Hne. destruct (tmem y l) eqn:E.
  - apply tmem_In. apply tmem_In in E. unfold without. apply filter_In. split; [easy|].
    apply negb_true_iff. apply teqb_neq. congruence.
  - destruct (tmem y (without x l)) eqn:E2; [|reflexivity].
    apply tmem_In in E2. unfold without in E2. apply filter_In in E2 as [E2 _].
    apply tmem_In in E2. congruence.
Qed.

(* the result: the first free suffixed name from k on; fuel above the number of used names suffices *)
Theorem find_free_spec name : forall fuel used k, (List.length used < fuel)%nat ->
  exists j, (k <= j)%N /\ find_free fuel name used k = Ok (suffixed name j)
            /\ tmem (suffixed name j) used = false
            /\ (forall j', (k <= j')%N -> (j' < j)%N -> tmem (suffixed name j') used = true).
Proof.
  induction fuel as [|f IH]; intros used k Hlen; [lia|].
  cbn [find_free]. destruct (tmem (suffixed name k) used) eqn:E.
  - set (u1 := without (suffixed name k) used).
    assert (Hext : forall j, (N.succ k <= j)%N -> tmem (suffixed name j) used = tmem (suffixed name j) u1).
    { intros j Hj. symmetry. apply tmem_without. intros Heq. apply suffixed_inj in Heq. lia. }
    rewrite (find_free_ext f name used u1 (N.succ k) Hext).
    pose proof (without_length_lt _ _ E) as Hlt.
    destruct (IH u1 (N.succ k)) as (j & Hj & Hr & Hfree & Hbelow); [fold u1 in Hlt; lia|].
    exists j. split; [lia|]. split; [exact Hr|]. split.
    + rewrite Hext by exact Hj. exact Hfree.
    + intros j' H1 H2. destruct (N.eq_dec j' k) as [->|Hne]; [exact E|].
      rewrite Hext by lia. apply Hbelow; lia.
  - exists k. split; [lia|]. split; [reflexivity|]. split; [exact E|]. intros j' H1 H2. lia.
Qed.

Corollary find_free_ok name used k : exists t, find_free (S (List.length used)) name used k = Ok t.
Proof.
  destruct (find_free_spec name (S (List.length used)) used k) as (j & _ & H & _); [lia|]. eauto.
Qed.

(* corrected_name (the fuel it passes is S (len(values) + len(reserved))) never answers OutOfFuel, and the
   name it hands out is neither a current value nor a reserved name when a correction happens *)
Theorem corrected_name_ok au name vals resv : exists t, corrected_name au name vals resv = Ok t.
Proof.
  unfold corrected_name. destruct (au && tmem name vals); [|eauto].
  rewrite <- app_length. apply find_free_ok.
Qed.

Theorem corrected_name_spec au name vals resv t :
  corrected_name au name vals resv = Ok t ->
  (au && tmem name vals = false /\ t = name) \/
  (au && tmem name vals = true /\ exists j, (1 <= j)%N /\ t = suffixed name j /\ ~ In t vals /\ ~ In t resv).
Proof.
  unfold corrected_name. destruct (au && tmem name vals) eqn:E.
  - intros H. right. split; [reflexivity|].
    destruct (find_free_spec name (S (List.length vals + List.length resv)) (vals ++ resv) 1)
      as (j & Hj & Hr & Hfree & _); [rewrite app_length; lia|].
    rewrite Hr in H. injection H as <-. exists j. split; [exact Hj|]. split; [reflexivity|].
    assert (N : ~ In (suffixed name j) (vals ++ resv)).
    { intros Hin. apply tmem_In in Hin. congruence. }
    split; intros Hin; apply N; apply in_or_app; auto.
  - intros H. injection H as <-. now left.
Qed.

(* Summary of the names other proofs rely on (kept stable):
   teqb_eq tmem_In | strip_by_fix strip_kv strip_spv strip_nl_r strip_digits strip_show_N py_int_show_N
   py_int_sp_show_N | unlines no_nlcr no_break readlines_unlines splitlines_unlines | spv wf_value wf_field
   wf_fields parse_line_<field> parse_line_num_alternatives parse_line_num_voters name_key name_line
   strip_name_line match_name_line parse_line_alt_name | meta_lines write_metadata_lines alt_name_lines
   write_alt_names_lines parse_meta_lines copy_fields metadata_roundtrip(_readlines|_splitlines) wf_names set_all
   alt_names_roundtrip(_fresh) meta_lines_no_break alt_name_lines_no_break | find_free_spec find_free_ok
   corrected_name_ok corrected_name_spec *)
