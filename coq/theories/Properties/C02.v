(* Properties/C02.v — incrementally built ordinal instances stay consistent with the multiset of
   votes added (append_order / append_order_array / append_order_list / append_vote_map /
   the populate_ family).  Statements only; every proof is `exact` of a lemma of Proofs/OrdState.v.

   Vocabulary (Model/OrdState.v, Proofs/OrdState.v):
     state            the seven redundant fields of an OrdinalInstance
     step s o         one call of an entry point (each mirrors its own hand-written bookkeeping)
     run ops          fold_left step ops init        (init = OrdinalInstance())
     votes o          the votes an operation adds; votes_of ops = flat_map votes ops
     cnt ms o         number of occurrences of the order o in the list (multiset) ms
     wf_vote          at least one class, classes non-empty, no alternative twice
     wf_op            the votes of the operation are well-formed; vote-map multiplicities >= 1
                      (duplicate-free vote-map keys are NOT needed: the model handles a repeated key)
   populate_IC / populate_IC_anon / populate_urn / populate_mallows / populate_mallows_mix are
   `append_vote_map (generate_* ...)`: the sampler is external, its result is an arbitrary map
   satisfying `sampler_output`; C02_populate shows that such a call is a well-formed AppendVoteMap,
   so every theorem below covers histories containing populate_* calls. *)
From Coq Require Import String List Arith NArith Bool Permutation.
From PrefVerif Require Import Lib.Val Lib.Dec Model.OrdState Proofs.OrdState.
Import ListNotations.

(* ---- the invariant: what "consistent with the multiset ms of votes added so far" means ---- *)
Theorem C02_Inv_meaning : forall s ms,
  Inv s ms <->
  ( NoDup (map fst (mult s)) /\                                   (* multiplicity: duplicate-free keys *)
    ords s = map fst (mult s) /\                                  (* orders = its keys, same order *)
    (forall o, lookup (mult s) o =                                (* multiplicity = counting function *)
               if (cnt ms o =? 0)%N then None else Some (cnt ms o)) /\
    n_vot s = N.of_nat (length ms) /\                             (* num_voters *)
    n_uniq s = N.of_nat (length (ords s)) /\                      (* num_unique_orders *)
    NoDup (map fst (alts s)) /\                                   (* alternatives_name: no repeated key *)
    (forall a, In a (map fst (alts s)) <-> exists o, In o ms /\ In a (concat o)) /\   (* exactly those occurring *)
    (forall a t, In (a, t) (alts s) -> t = alt_name a) /\         (* "Alternative <a>" *)
    n_alt s = N.of_nat (length (alts s)) /\                       (* num_alternatives *)
    Forall wf_vote ms /\
    (infer_type s = Ok (dtype s) \/ s = init) ).                  (* data_type = infer_type(), except on
                                                                     the fresh instance, see below *)
Proof. exact Inv_explicit_iff. Qed.
Print Assumptions C02_Inv_meaning.

Theorem C02_init : Inv init [].
Proof. exact Inv_init. Qed.
Print Assumptions C02_init.

Theorem C02_step : forall s ms o,
  Inv s ms -> wf_op o ->
  Inv (step s o) (ms ++ votes o) /\ infer_type (step s o) = Ok (dtype (step s o)).
Proof. exact step_Inv. Qed.
Print Assumptions C02_step.

(* no call raises on a well-formed operation *)
Theorem C02_no_raise : forall s ms o, Inv s ms -> wf_op o -> step_raises s o = false.
Proof. exact step_no_raise. Qed.
Print Assumptions C02_no_raise.

Theorem C02_reachable : forall ops, wf_ops ops -> Inv (fold_left step ops init) (votes_of ops).
Proof. exact reachable. Qed.
Print Assumptions C02_reachable.

(* after at least one call, data_type is what infer_type() returns (and infer_type does not raise) *)
Theorem C02_reachable_typed : forall ops,
  wf_ops ops -> ops <> [] -> infer_type (run ops) = Ok (dtype (run ops)).
Proof. exact run_typed. Qed.
Print Assumptions C02_reachable_typed.

Theorem C02_populate : forall vm, sampler_output vm -> wf_op (AppendVoteMap vm).
Proof. exact sampler_wf. Qed.
Print Assumptions C02_populate.

(* populate_X = append_vote_map (prefsampling_ordinal_wrapper sampler params): `wrapper` mirrors the
   wrapper of instances/sampling.py on the sampler's raw rows.  For rows that are non-empty
   duplicate-free rankings its result has duplicate-free keys, is the counting function of the rows
   (as singleton-class orders), expands to a permutation of them, is a sampler_output, and the populate
   call is a well-formed operation after which the invariant holds with votes = the rows. *)
Theorem C02_wrapper : forall rows, sampler_rows rows ->
  NoDup (map fst (wrapper rows)) /\
  (forall o, lookup (wrapper rows) o =
             if (cnt (map strictify rows) o =? 0)%N then None else Some (cnt (map strictify rows) o)) /\
  Permutation (expand (wrapper rows)) (map strictify rows) /\
  sampler_output (wrapper rows).
Proof. exact wrapper_spec. Qed.
Print Assumptions C02_wrapper.

Theorem C02_populate_rows : forall ops rows, wf_ops ops -> sampler_rows rows ->
  wf_op (AppendVoteMap (wrapper rows)) /\
  Inv (run (ops ++ [AppendVoteMap (wrapper rows)])) (votes_of ops ++ map strictify rows).
Proof. exact populate_rows. Qed.
Print Assumptions C02_populate_rows.

Example C02_example_rows :
  sampler_rows [[2;0;1]; [0;1;2]; [2;0;1]]%N /\
  wrapper [[2;0;1]; [0;1;2]; [2;0;1]]%N = [ ([[2];[0];[1]], 2); ([[0];[1];[2]], 1) ]%N.
Proof.
  split; [|vm_compute; reflexivity].
  repeat constructor; simpl; try discriminate; intuition discriminate.
Qed.
Print Assumptions C02_example_rows.

(* the maintenance call recompute_cardinality_param() is the identity on every consistent instance
   (so it may be called anywhere in a history; the read-only accessors are pure functions of the state) *)
Theorem C02_recompute_noop : forall s ms, Inv s ms -> recompute s = s.
Proof. exact recompute_noop. Qed.
Print Assumptions C02_recompute_noop.

(* ---- regrouping / reordering the same multiset of votes ---- *)
Theorem C02_regroup : forall ops ops',
  wf_ops ops -> wf_ops ops' -> Permutation (votes_of ops) (votes_of ops') ->
  let s := run ops in let s' := run ops' in
  (forall o, lookup (mult s) o = lookup (mult s') o) /\          (* equal multiplicity functions *)
  n_vot s = n_vot s' /\ n_uniq s = n_uniq s' /\ n_alt s = n_alt s' /\
  (forall p, In p (alts s) <-> In p (alts s')) /\                (* same (id, name) pairs *)
  (forall o, In o (ords s) <-> In o (ords s')) /\                (* same order lists as sets ... *)
  NoDup (ords s) /\ NoDup (ords s') /\                           (* ... both duplicate-free *)
  (ops <> [] -> ops' <> [] -> dtype s = dtype s').
Proof.
  intros ops ops' W W' P.
  destruct (Inv_regroup _ _ _ _ (reachable ops W) (reachable ops' W') P)
    as [H1 H2 H3 H4 H5 H6 [H7 H8] H9].
  repeat (split; [assumption|]).
  intros Hne Hne'. apply H9; now apply run_typed.
Qed.
Print Assumptions C02_regroup.

(* ---- views ---- *)
Theorem C02_views : forall ops, wf_ops ops ->
  let s := run ops in
  Permutation (full_profile s) (votes_of ops) /\
  vote_map s = mult s /\
  (forall o, mget (mult s) o = cnt (votes_of ops) o) /\
  flatten_strict s = map (fun p => (map (fun c => hd 0%N c) (fst p), snd p)) (mult s) /\
  (forall l, map (fun c => hd 0%N c) (strictify l) = l).
Proof.
  intros ops W. pose proof (reachable ops W) as I.
  split; [exact (full_profile_perm _ _ I)|].
  split; [exact (vote_map_eq _ _ I)|].
  split; [intro o; exact (tbl_mget _ _ _ o (inv_tbl _ _ I))|].
  split; [exact (flatten_strict_eq _ _ I) | exact hd_strictify].
Qed.
Print Assumptions C02_views.

(* ---- data_type against the definition, is_strict / is_complete and the ballot-size statistics ---- *)
Theorem C02_type : forall ops, wf_ops ops -> votes_of ops <> [] ->
  let s := run ops in let ms := votes_of ops in
  dtype s = spec_type ms /\                                      (* the type of the multiset by definition *)
  is_strict s = is_strict_type (dtype s) /\                      (* basic.is_strict  <-> soc / soi *)
  is_complete s = Ok (is_complete_type (dtype s)) /\             (* basic.is_complete <-> soc / toc *)
  (largest_indif s = 1 <-> is_strict_type (dtype s) = true) /\
  (smallest_ballot s = Ok (N.to_nat (n_alt s)) <-> is_complete_type (dtype s) = true) /\
  (exists k, largest_ballot s = Ok k /\ (N.of_nat k <= n_alt s)%N) /\
  (is_strict_type (dtype s) = true <-> forall o c, In o ms -> In c o -> length c = 1) /\
  (is_complete_type (dtype s) = true <->
     forall o a, In o ms -> In a (map fst (alts s)) -> In a (concat o)) /\
  dtype s <> DNone.
Proof. intros ops W Hne. exact (type_agreement _ _ (reachable ops W) Hne). Qed.
Print Assumptions C02_type.

(* ---- sanity.orders raises no count, type or duplicate complaint ---- *)
Theorem C02_sanity : forall ops, wf_ops ops -> ops <> [] -> sanity_ok (run ops) = true.
Proof. intros ops W Hne. exact (Inv_sanity _ _ (reachable ops W) (run_typed ops W Hne)). Qed.
Print Assumptions C02_sanity.

(* ---- what is FALSE of the faithful model: the degenerate ends of the quantifier ----
   (1) the empty history: OrdinalInstance() has data_type "toi" while infer_type() returns "soc",
       and sanity.orders complains about exactly that;
   (2) hence two histories with the same (empty) multiset of votes, one empty and one consisting of
       an empty batch, end with different data_type;
   (3) a non-empty history that adds no vote has data_type "soc" although is_strict is False and
       is_complete raises ValueError (min() of an empty list). *)
Theorem C02_fresh_type_refuted :
  infer_type init = Ok Soc /\ dtype init = Toi /\ sanity_ok init = false.
Proof. vm_compute. repeat split. Qed.
Print Assumptions C02_fresh_type_refuted.

Theorem C02_regroup_fresh_refuted : exists ops ops',
  wf_ops ops /\ wf_ops ops' /\ Permutation (votes_of ops) (votes_of ops') /\
  dtype (run ops) <> dtype (run ops').
Proof.
  exists [], [AppendList []]. split; [constructor|]. split; [repeat constructor|].
  split; [constructor | vm_compute; discriminate].
Qed.
Print Assumptions C02_regroup_fresh_refuted.

Theorem C02_type_empty_refuted : exists ops,
  wf_ops ops /\ ops <> [] /\ dtype (run ops) = Soc /\
  is_strict (run ops) = false /\ is_complete (run ops) = Err ValueErr.
Proof.
  exists [AppendVoteMap []]. split; [repeat constructor|]. split; [discriminate|].
  vm_compute. repeat split.
Qed.
Print Assumptions C02_type_empty_refuted.

(* ---- the hypotheses are satisfiable: a history through all four entry points, with repeated,
   weak and incomplete votes, and a regrouped twin ---- *)
Definition ex_ops : list op :=
  [ AppendOrder [1; 2; 3]%N;
    AppendArray [[2; 1; 3]; [1; 2; 3]]%N;
    AppendList [ [[1; 2]; [3]]; [[3]] ]%N;
    AppendVoteMap [ ([[1]; [2]; [3]]%N, 2%N); ([[3]]%N, 1%N) ] ].
Definition ex_twin : list op :=
  [ AppendVoteMap [ ([[3]]%N, 2%N); ([[1]; [2]; [3]]%N, 4%N) ];
    AppendList [ [[1; 2]; [3]]; [[2]; [1]; [3]] ]%N ].

Example C02_example_wf : wf_ops ex_ops /\ wf_ops ex_twin /\ votes_of ex_ops <> [].
Proof.
  split; [apply wf_opsb_sound; vm_compute; reflexivity|].
  split; [apply wf_opsb_sound; vm_compute; reflexivity | vm_compute; discriminate].
Qed.
Print Assumptions C02_example_wf.

Example C02_example_twin : Permutation (votes_of ex_ops) (votes_of ex_twin).
Proof.
  apply (Permutation_count_occ order_eq_dec). intro o.
  change (votes_of ex_ops) with
    [ [[1];[2];[3]]; [[2];[1];[3]]; [[1];[2];[3]]; [[1;2];[3]]; [[3]];
      [[1];[2];[3]]; [[1];[2];[3]]; [[3]] ]%N.
  change (votes_of ex_twin) with
    [ [[3]]; [[3]]; [[1];[2];[3]]; [[1];[2];[3]]; [[1];[2];[3]]; [[1];[2];[3]];
      [[1;2];[3]]; [[2];[1];[3]] ]%N.
  cbn [count_occ].
  destruct (order_eq_dec [[1];[2];[3]]%N o), (order_eq_dec [[2];[1];[3]]%N o),
           (order_eq_dec [[1;2];[3]]%N o), (order_eq_dec [[3]]%N o); reflexivity.
Qed.
Print Assumptions C02_example_twin.

Example C02_example_run :
  mult (run ex_ops) = [ ([[1];[2];[3]], 4); ([[2];[1];[3]], 1); ([[1;2];[3]], 1); ([[3]], 2) ]%N /\
  n_vot (run ex_ops) = 8%N /\ n_uniq (run ex_ops) = 4%N /\ n_alt (run ex_ops) = 3%N /\
  dtype (run ex_ops) = Toi /\ dtype (run ex_twin) = Toi /\ sanity_ok (run ex_ops) = true.
Proof. vm_compute. repeat split. Qed.
Print Assumptions C02_example_run.

Example C02_example_sampler :
  sampler_output [ ([[2];[1];[3]]%N, 3%N); ([[3];[1];[2]]%N, 1%N) ].
Proof.
  constructor; [|constructor; [|constructor]]; (split; [|vm_compute; discriminate]).
  - exists [2;1;3]%N. split; [reflexivity|]. split; [discriminate|].
    repeat constructor; simpl; intuition discriminate.
  - exists [3;1;2]%N. split; [reflexivity|]. split; [discriminate|].
    repeat constructor; simpl; intuition discriminate.
Qed.
Print Assumptions C02_example_sampler.
