(* Model/ILPEnc.v — the integer linear programmes built by the three ILP functions of singlepeakedness.py
   (C11: is_single_peaked_ILP; C12: approx_SP_voter_deletion_ILP, approx_SP_alternative_deletion_ILP).
   Executable definitions only.

   MIRRORED (constraint builders, variable declarations, objective; /repo as of fix dae135d):
     sp_ILP_trans_cstr      trans_cstrs      6 constraints per 3-combination of column indices
     sp_ILP_total_cstr      total_cstrs      1 per 2-combination
     sp_ILP_pos_cstr        pos_cstrs        4 per 2-combination (ordering_a1_a2, diffPos1_a1_a2, ordering_a2_a1, diffPos1_a2_a1)
     sp_ILP_cons_ones_cstr / _vot_del_cstr / _alt_del_cstr      cons_cstrs / votdel_cons_cstrs / altdel_cons_cstrs
                            (rows of SP.sp_matrix; for voter deletion the explicit row_to_voter list)
     the add_var lines      sp_vars / votdel_vars / altdel_vars   (binary leftof_a1_a2, integer 1 <= pos_a <= m,
                                                                   binary delVoter_v / delAlt_a)
     model.objective        0 / sum delVoter_v / sum delAlt_a   (minimised)
     the decoding loop      decode_axis      axis[int(pos_a.x) - 1] = index_to_alternatives[a]
   NOT modelled: python-mip / CBC (the solver is trusted to return an optimal feasible assignment within max_gap).

   Indices: alternatives are referred to by their position in list(instance.alternatives_name) (= alts),
   voters by their position in instance.orders.
   SCALING: every constraint is stored multiplied by 2 (coefficients and right-hand side), because diffPos1 has
   the coefficient 0.5; the objective is not scaled.  A constraint is  sum coeff*var  REL  rhs  with all the
   variables on the left, which is also the normal form python-mip keeps (expr + const REL 0). *)
From Coq Require Import List Arith NArith ZArith Bool.
From PrefVerif Require Import Lib.Val Lib.Contig Model.SP.
Import ListNotations.

Inductive var : Type :=
| LeftOf (a b : nat)        (* leftof_a_b : 1 iff column a is left of column b on the axis *)
| Pos (a : nat)             (* pos_a      : position of column a on the axis, 1..m       *)
| DelVoter (v : nat)        (* delVoter_v : 1 iff order v is ignored                      *)
| DelAlt (a : nat).         (* delAlt_a   : 1 iff column a is ignored                     *)

Inductive rel : Type := Le | Ge | Eq.

Record cstr : Type := mk_cstr { c_lhs : list (Z * var); c_rel : rel; c_rhs : Z }.
Record vdecl : Type := mk_vdecl { v_var : var; v_lb : Z; v_ub : Z }.       (* integer variable with bounds *)
Record ilp : Type := mk_ilp { i_vars : list vdecl; i_cstrs : list cstr; i_obj : list (Z * var) }.

(* ---------------------------------------------------------------------------------------------- *)
(* semantics                                                                                       *)
Definition asg := var -> Z.

Definition eval (s : asg) (l : list (Z * var)) : Z :=
  fold_right (fun cv acc => (fst cv * s (snd cv) + acc)%Z) 0%Z l.

Definition holdsb (s : asg) (c : cstr) : bool :=
  match c_rel c with
  | Le => (eval s (c_lhs c) <=? c_rhs c)%Z
  | Ge => (c_rhs c <=? eval s (c_lhs c))%Z
  | Eq => (eval s (c_lhs c) =? c_rhs c)%Z
  end.

Definition in_boundsb (s : asg) (d : vdecl) : bool :=
  ((v_lb d <=? s (v_var d)) && (s (v_var d) <=? v_ub d))%Z.

Definition feasibleb (M : ilp) (s : asg) : bool :=
  forallb (in_boundsb s) (i_vars M) && forallb (holdsb s) (i_cstrs M).

Definition objective (M : ilp) (s : asg) : Z := eval s (i_obj M).

(* ---------------------------------------------------------------------------------------------- *)
(* itertools.combinations(range(m), 2) and (range(m), 3)                                           *)
Definition combos2 (m : nat) : list (nat * nat) :=
  flat_map (fun a => map (fun b => (a, b)) (seq (S a) (m - S a))) (seq 0 m).
Definition combos3 (m : nat) : list (nat * nat * nat) :=
  flat_map (fun a => flat_map (fun b => map (fun c => (a, b, c)) (seq (S b) (m - S b)))
                              (seq (S a) (m - S a))) (seq 0 m).

(* ---------------------------------------------------------------------------------------------- *)
(* variable declarations, in the order of the add_var calls                                        *)
Definition binary (v : var) : vdecl := mk_vdecl v 0 1.

Definition leftof_vars (m : nat) : list vdecl :=
  flat_map (fun a => map (fun b => binary (LeftOf a b)) (seq 0 m)) (seq 0 m).
Definition pos_vars (m : nat) : list vdecl :=
  map (fun a => mk_vdecl (Pos a) 1 (Z.of_nat m)) (seq 0 m).
Definition voter_vars (n : nat) : list vdecl := map (fun v => binary (DelVoter v)) (seq 0 n).
Definition alt_vars (m : nat) : list vdecl := map (fun a => binary (DelAlt a)) (seq 0 m).

(* ---------------------------------------------------------------------------------------------- *)
(* sp_ILP_trans_cstr:  leftof_x_y + leftof_y_z - 1 <= leftof_x_z                                   *)
Definition trans1 (x y z : nat) : cstr :=
  mk_cstr [(2, LeftOf x y); (2, LeftOf y z); (-2, LeftOf x z)]%Z Le 2.
Definition trans_cstrs (m : nat) : list cstr :=
  flat_map (fun t => match t with (a1, a2, a3) =>
              [trans1 a1 a2 a3; trans1 a1 a3 a2; trans1 a2 a1 a3; trans1 a2 a3 a1; trans1 a3 a1 a2; trans1 a3 a2 a1]
            end) (combos3 m).

(* sp_ILP_total_cstr:  leftof_a1_a2 + leftof_a2_a1 == 1                                            *)
Definition total1 (a1 a2 : nat) : cstr := mk_cstr [(2, LeftOf a1 a2); (2, LeftOf a2 a1)]%Z Eq 2.
Definition total_cstrs (m : nat) : list cstr := map (fun t => total1 (fst t) (snd t)) (combos2 m).

(* sp_ILP_pos_cstr:
     ordering_x_y :  pos_x <= pos_y + m * (1 - leftof_x_y)                 i.e.  pos_x - pos_y + m leftof_x_y <= m
     diffPos1_x_y :  pos_y - pos_x >= 0.5 leftof_x_y - (1 - leftof_x_y) m  i.e.  pos_y - pos_x - (m + 1/2) leftof_x_y >= -m *)
Definition ordering1 (m x y : nat) : cstr :=
  mk_cstr [(2, Pos x); (-2, Pos y); (2 * Z.of_nat m, LeftOf x y)]%Z Le (2 * Z.of_nat m)%Z.
Definition diffpos1 (m x y : nat) : cstr :=
  mk_cstr [(2, Pos y); (-2, Pos x); (- (2 * Z.of_nat m + 1), LeftOf x y)]%Z Ge (- (2 * Z.of_nat m))%Z.
Definition pos_cstrs (m : nat) : list cstr :=
  flat_map (fun t => match t with (a1, a2) =>
              [ordering1 m a1 a2; diffpos1 m a1 a2; ordering1 m a2 a1; diffpos1 m a2 a1]
            end) (combos2 m).

(* the consecutive-ones constraints of one matrix row: for every pair i, j of columns holding a 1 and every
   column k holding a 0
       leftof_i_k + leftof_k_j <= 1 (+ relaxation)        leftof_j_k + leftof_k_i <= 1 (+ relaxation)
   `relax i j k` is the list of relaxation terms (already moved to the left-hand side and scaled)  *)
Definition one_pairs (row : list bool) : list (nat * nat) :=
  filter (fun t => nth (fst t) row false && nth (snd t) row false) (combos2 (length row)).
Definition zero_cols (row : list bool) : list nat :=
  filter (fun k => negb (nth k row false)) (seq 0 (length row)).
Definition cons1 (relax : nat -> nat -> nat -> list (Z * var)) (i j k : nat) : cstr :=
  mk_cstr ([(2, LeftOf i k); (2, LeftOf k j)]%Z ++ relax i j k) Le 2.
Definition row_cstrs (relax : nat -> nat -> nat -> list (Z * var)) (row : list bool) : list cstr :=
  flat_map (fun t => flat_map (fun k => [cons1 relax (fst t) (snd t) k; cons1 relax (snd t) (fst t) k])
                              (zero_cols row)) (one_pairs row).

Definition no_relax (i j k : nat) : list (Z * var) := [].
Definition voter_relax (v : nat) (i j k : nat) : list (Z * var) := [(-2, DelVoter v)]%Z.
Definition alt_relax (i j k : nat) : list (Z * var) := [(-2, DelAlt i); (-2, DelAlt j); (-2, DelAlt k)]%Z.

(* sp_ILP_cons_ones_cstr *)
Definition cons_cstrs (alts : list N) (p : list order) : list cstr :=
  flat_map (row_cstrs no_relax) (sp_matrix alts p).

(* sp_ILP_cons_ones_vot_del_cstr:  row_to_voter = [v for v, order in enumerate(orders) for _ in order] *)
Definition row_to_voter (p : list order) : list nat :=
  flat_map (fun vo => repeat (fst vo) (length (snd vo))) (combine (seq 0 (length p)) p).
Definition votdel_cons_cstrs (alts : list N) (p : list order) : list cstr :=
  flat_map (fun rv => row_cstrs (voter_relax (snd rv)) (fst rv)) (combine (sp_matrix alts p) (row_to_voter p)).

(* sp_ILP_cons_ones_alt_del_cstr *)
Definition altdel_cons_cstrs (alts : list N) (p : list order) : list cstr :=
  flat_map (row_cstrs alt_relax) (sp_matrix alts p).

(* ---------------------------------------------------------------------------------------------- *)
(* the three models, constraints in the order the functions add them                               *)
Definition sp_ilp (alts : list N) (p : list order) : ilp :=
  let m := length alts in
  mk_ilp (leftof_vars m ++ pos_vars m)
         (trans_cstrs m ++ total_cstrs m ++ cons_cstrs alts p ++ pos_cstrs m)
         [].

Definition votdel_ilp (alts : list N) (p : list order) : ilp :=
  let m := length alts in
  mk_ilp (leftof_vars m ++ pos_vars m ++ voter_vars (length p))
         (trans_cstrs m ++ total_cstrs m ++ votdel_cons_cstrs alts p ++ pos_cstrs m)
         (map (fun v => (1%Z, DelVoter v)) (seq 0 (length p))).

Definition altdel_ilp (alts : list N) (p : list order) : ilp :=
  let m := length alts in
  mk_ilp (leftof_vars m ++ pos_vars m ++ alt_vars m)
         (trans_cstrs m ++ total_cstrs m ++ altdel_cons_cstrs alts p ++ pos_cstrs m)
         (map (fun a => (1%Z, DelAlt a)) (seq 0 m)).

(* ---------------------------------------------------------------------------------------------- *)
(* what the functions read back from a solution                                                    *)

Fixpoint set_nth {T} (k : nat) (x : T) (l : list T) : list T :=
  match l with
  | [] => []
  | y :: r => match k with 0 => x :: r | S k' => y :: set_nth k' x r end
  end.

(* axis = [0]*m ; for a: axis[int(pos_a.x) - 1] = index_to_alternatives[a] *)
Definition decode_axis (alts : list N) (s : asg) : list N :=
  fold_left (fun ax a => set_nth (Z.to_nat (s (Pos a)) - 1) (nth a alts 0%N) ax)
            (seq 0 (length alts)) (repeat 0%N (length alts)).

(* deleted_voters = [v for v if delVoter_v.x > 0]   (indices) *)
Definition decode_voters (n : nat) (s : asg) : list nat :=
  filter (fun v => (0 <? s (DelVoter v))%Z) (seq 0 n).
(* deleted_alts = [a for a if delAlt_a.x > 0]       (indices; the harness maps them to alternatives) *)
Definition decode_alt_idx (m : nat) (s : asg) : list nat :=
  filter (fun a => (0 <? s (DelAlt a))%Z) (seq 0 m).
Definition decode_alts (alts : list N) (s : asg) : list N :=
  map (fun a => nth a alts 0%N) (decode_alt_idx (length alts) s).
