(* Proofs/WmdIO.v — C09: a written matching file is parsed back to the same content (Model/WmdIO.v).
   Spec definitions (well-formedness, the re-parsed instance) + the lemmas; the theorems are restated in
   Properties/C09.v.  Uses the shared header lemmas of Proofs/Meta.v (owned by the C01 package). *)
From Coq Require Import List NArith ZArith Bool String Lia Permutation Sorted.
From PrefVerif Require Import Lib.Val Lib.Dec Lib.DecZ Lib.PyStr Model.Meta Model.WmdIO.
From PrefVerif Require Import Proofs.Meta Proofs.WmdSort Proofs.WmdGraph.
Import ListNotations.

(* ================================================================================================ *)
(* 1. small text facts                                                                              *)
(* ================================================================================================ *)
Lemma filter_id {A} (p : A -> bool) l : forallb p l = true -> filter p l = l.
Proof.
  induction l as [|x r IH]; simpl; [reflexivity|]. intros H. apply andb_true_iff in H as [Hx Hr].
  rewrite Hx. now rewrite IH.
Qed.

Lemma forallb_impl {A} (p q : A -> bool) l :
  (forall x, p x = true -> q x = true) -> forallb p l = true -> forallb q l = true.
Proof. intros I. rewrite !forallb_forall. intros H x Hx. apply I. now apply H. Qed.

Lemma linebreak_is_space c : is_linebreak c = true -> is_space c = true.
Proof.
  intros H. unfold is_linebreak in H. rewrite !orb_true_iff, !andb_true_iff, !N.leb_le, !N.eqb_eq in H.
  assert (E : (c = 10 \/ c = 11 \/ c = 12 \/ c = 13 \/ c = 28 \/ c = 29 \/ c = 30 \/ c = 133 \/ c = 8232
              \/ c = 8233)%N) by lia.
  repeat (destruct E as [->|E]; [reflexivity|]). subst c. reflexivity.
Qed.

Lemma digit_facts c : is_digit c = true ->
  negb (is_space c) = true /\ negb (N.eqb c 32) = true /\ negb (N.eqb c 44) = true /\ negb (is_linebreak c) = true
  /\ negb (N.eqb c 35) = true.
Proof.
  intros H. pose proof (digit_not_space c H) as S.
  unfold is_digit in H. apply andb_true_iff in H as [A B]. apply N.leb_le in A. apply N.leb_le in B.
  repeat split.
  - now rewrite S.
  - destruct (N.eqb_spec c 32); [lia|reflexivity].
  - destruct (N.eqb_spec c 44); [lia|reflexivity].
  - destruct (is_linebreak c) eqn:E; [|reflexivity]. apply linebreak_is_space in E. congruence.
  - destruct (N.eqb_spec c 35); [lia|reflexivity].
Qed.

Lemma show_N_all (p : N -> bool) n : (forall c, is_digit c = true -> p c = true) -> forallb p (show_N n) = true.
Proof. intros H. eapply forallb_impl; [exact H|apply show_N_digits]. Qed.

Lemma show_N_no_break n : no_break (show_N n) = true.
Proof. apply show_N_all. intros c H. apply (digit_facts c H). Qed.

(* node ids are printed with digits and "-" *)
Lemma idchar_facts c : idchar c = true ->
  negb (is_space c) = true /\ negb (N.eqb c 32) = true /\ negb (N.eqb c 44) = true /\ negb (is_linebreak c) = true
  /\ negb (N.eqb c 35) = true.
Proof.
  unfold idchar. intros H. apply orb_true_iff in H as [H|H]; [now apply digit_facts|].
  apply N.eqb_eq in H. subst c. repeat split; reflexivity.
Qed.

Lemma show_Z_no_break z : no_break (show_Z z) = true.
Proof. apply show_Z_all. intros c H. apply (idchar_facts c H). Qed.

Lemma strip_show_Z z : strip (show_Z z) = show_Z z.
Proof. apply strip_by_none. apply show_Z_all. intros c H. apply (idchar_facts c H). Qed.

Lemma py_int_show_Z z : py_int_Z (show_Z z) = Ok z.
Proof. unfold py_int_Z. now rewrite strip_show_Z, read_show_Z. Qed.

Lemma is_hash_line_cons c r : is_hash_line (c :: r) = N.eqb 35 c.
Proof. unfold is_hash_line. change (lit "#") with [35%N]. cbn [startswith]. apply andb_true_r. Qed.

(* s.split(",") *)
Lemma split_on_nosep sep s : forallb (fun c => negb (N.eqb c sep)) s = true -> split_on sep s = [s].
Proof.
  induction s as [|c r IH]; simpl; [reflexivity|]. intros H. apply andb_true_iff in H as [Hc Hr].
  apply negb_true_iff in Hc. rewrite Hc. now rewrite IH.
Qed.

Lemma split_on_app_sep sep s t : forallb (fun c => negb (N.eqb c sep)) s = true ->
  split_on sep (s ++ sep :: t) = s :: split_on sep t.
Proof.
  induction s as [|c r IH]; simpl.
  - intros _. now rewrite N.eqb_refl.
  - intros H. apply andb_true_iff in H as [Hc Hr]. apply negb_true_iff in Hc. rewrite Hc. now rewrite IH.
Qed.

Lemma remove_sp_app a b : remove_sp (a ++ b) = remove_sp a ++ remove_sp b.
Proof. unfold remove_sp. apply filter_app. Qed.

Lemma remove_sp_id s : forallb (fun c => negb (N.eqb c 32)) s = true -> remove_sp s = s.
Proof. apply filter_id. Qed.

(* ================================================================================================ *)
(* 1a. values for the FILE path: only "\n" and "\r" end a line for file.readlines(), so a value may contain  *)
(*     the other eight str.splitlines boundaries (\x0b \x0c \x1c \x1d \x1e \x85 U+2028 U+2029) strictly inside.   *)
(*     wf_field_rl v := strip v = v  /\  no "\n", no "\r" in v.   (wf_field of Proofs/Meta.v additionally      *)
(*     excludes those eight characters: needed for parse_str / splitlines only.)                            *)
(* ================================================================================================ *)
Definition wf_field_rl (v : text) : Prop := wf_value v /\ no_nlcr v = true.
Definition wf_fields_rl (m : meta) : Prop :=
  wf_field_rl (file_name m) /\ wf_field_rl (title m) /\ wf_field_rl (description m) /\ wf_field_rl (data_type m) /\
  wf_field_rl (modification_type m) /\ wf_field_rl (relates_to m) /\ wf_field_rl (related_files m) /\
  wf_field_rl (publication_date m) /\ wf_field_rl (modification_date m).
Definition wf_names_rl (d : list (N * text)) : Prop :=
  Forall (fun p => wf_field_rl (snd p)) d /\ NoDup (keys d).

Lemma wf_field_weaken v : wf_field v -> wf_field_rl v.
Proof. intros [A B]. split; [exact A|now apply no_break_no_nlcr]. Qed.
Lemma wf_fields_weaken m : wf_fields m -> wf_fields_rl m.
Proof.
  intros (H1 & H2 & H3 & H4 & H5 & H6 & H7 & H8 & H9). repeat split; try apply H1; try apply H2; try apply H3;
  try apply H4; try apply H5; try apply H6; try apply H7; try apply H8; try apply H9;
  apply no_break_no_nlcr; first [apply H1|apply H2|apply H3|apply H4|apply H5|apply H6|apply H7|apply H8|apply H9].
Qed.
Lemma wf_names_weaken d : wf_names d -> wf_names_rl d.
Proof.
  intros [F D]. split; [|exact D]. eapply Forall_impl; [|exact F]. intros p. apply wf_field_weaken.
Qed.

Lemma no_nlcr_no_nl v : no_nlcr v = true -> forallb (fun c => negb (N.eqb c 10)) v = true.
Proof.
  unfold no_nlcr. apply forallb_impl. intros c H. now apply andb_true_iff in H as [H _].
Qed.

Theorem metadata_roundtrip_rl au m m' :
  wf_fields_rl m -> parse_meta_lines au m' (meta_lines m) = Ok (copy_fields m m').
Proof.
  intros (H1 & H2 & H3 & H4 & H5 & H6 & H7 & H8 & H9).
  unfold parse_meta_lines, meta_lines. cbn [fold_left rbind].
  rewrite parse_line_file_name by apply H1. cbn [rbind].
  rewrite parse_line_title by apply H2. cbn [rbind].
  rewrite parse_line_description by apply H3. cbn [rbind].
  rewrite parse_line_data_type by apply H4. cbn [rbind].
  rewrite parse_line_modification_type by apply H5. cbn [rbind].
  rewrite parse_line_relates_to by apply H6. cbn [rbind].
  rewrite parse_line_related_files by apply H7. cbn [rbind].
  rewrite parse_line_publication_date by apply H8. cbn [rbind].
  rewrite parse_line_modification_date by apply H9. reflexivity.
Qed.

(* re.match(name pattern, stripped line): the final "rest of line" group stops at "\n" only *)
Lemma match_name_line_rl prefix a nm :
  forallb (fun c => negb (N.eqb c 10)) nm = true ->
  match_name prefix (name_key prefix a ++ spv nm) = Some (a, nm).
Proof.
  intros Hb. unfold match_name, name_key. rewrite <- !app_assoc. rewrite startswith_app.
  unfold drop. rewrite skipn_app_exact. simpl app.
  rewrite span_digits_app; [|apply show_N_digits|reflexivity].
  pose proof (show_N_nonempty a) as Hne. destruct (show_N a) as [|d0 dr] eqn:Ed; [easy|].
  rewrite <- Ed. rewrite read_show_N.
  assert (U : upto_nl nm = nm) by (now apply upto_nl_id).
  destruct nm as [|c r]; [reflexivity|]. unfold spv. now rewrite U.
Qed.

Lemma parse_line_alt_name_rl au m a nm : wf_value nm -> forallb (fun c => negb (N.eqb c 10)) nm = true ->
  parse_metadata au m (strip (name_line alt_name_prefix a nm)) =
  rmap (fun nm' => set_alt_names m (assoc_set N.eqb a nm' (alt_names m)))
       (corrected_name au nm (values (alt_names m)) (reserved m)).
Proof.
  intros Hv Hb. rewrite strip_name_line; [|reflexivity|exact Hv].
  pose proof (match_name_line_rl alt_name_prefix a nm Hb) as M.
  unfold parse_metadata. rewrite M. clear M.
  unfold name_key, alt_name_prefix. rewrite <- !app_assoc.
  remember (show_N a ++ [58%N] ++ spv nm) as Y. cbn -[corrected_name]. reflexivity.
Qed.

Theorem alt_names_roundtrip_rl m' d :
  Forall (fun p => wf_field_rl (snd p)) d ->
  parse_meta_lines false m' (alt_name_lines d) = Ok (set_alt_names m' (set_all d (alt_names m'))).
Proof.
  unfold parse_meta_lines. revert m'. induction d as [|[a nm] r IH]; intros m' H.
  - cbn. destruct m'; reflexivity.
  - inversion H as [|? ? [Hv Hb] Hr]; subst. cbn [alt_name_lines map fold_left rbind fst snd].
    cbn [fst snd] in *. rewrite parse_line_alt_name_rl; [|exact Hv|now apply no_nlcr_no_nl].
    unfold corrected_name. cbn [andb rmap].
    fold (alt_name_lines r). rewrite (IH _ Hr). reflexivity.
Qed.

Corollary alt_names_roundtrip_fresh_rl m' d :
  wf_names_rl d -> alt_names m' = [] ->
  parse_meta_lines false m' (alt_name_lines d) = Ok (set_alt_names m' d).
Proof.
  intros [Hf Hn] E. rewrite alt_names_roundtrip_rl by exact Hf. rewrite E.
  rewrite set_all_fresh; [reflexivity|exact Hn].
Qed.

Lemma show_N_no_nlcr n : no_nlcr (show_N n) = true.
Proof. apply no_break_no_nlcr, show_N_no_break. Qed.

Lemma meta_lines_no_nlcr m : wf_fields_rl m -> forallb no_nlcr (meta_lines m) = true.
Proof.
  intros (H1 & H2 & H3 & H4 & H5 & H6 & H7 & H8 & H9).
  unfold meta_lines. cbn [forallb]. unfold wf_field_rl, no_nlcr in *.
  rewrite !forallb_app. cbn [forallb lit].
  destruct H1 as [_ ->], H2 as [_ ->], H3 as [_ ->], H4 as [_ ->], H5 as [_ ->], H6 as [_ ->],
           H7 as [_ ->], H8 as [_ ->], H9 as [_ ->]. reflexivity.
Qed.

Lemma alt_name_lines_no_nlcr d :
  Forall (fun p => wf_field_rl (snd p)) d -> forallb no_nlcr (alt_name_lines d) = true.
Proof.
  induction 1 as [|[a nm] r [Hv Hb] Hr IH]; [reflexivity|].
  cbn [alt_name_lines map forallb fst snd]. fold (alt_name_lines r). rewrite IH, andb_true_r.
  pose proof (show_N_no_nlcr a) as D.
  unfold name_line, name_key, no_nlcr in *. rewrite !forallb_app. cbn [forallb].
  cbn [snd] in Hb. rewrite Hb, D. reflexivity.
Qed.

(* ================================================================================================ *)
(* 1b. the header loop of MatchingInstance.parse on written header lines                            *)
(* ================================================================================================ *)
Lemma wmd_header_cons ac m ne l r :
  wmd_header ac m ne (l :: r) =
  if is_hash_line (strip l) then
    rbind (if startswith (lit "# NUMBER EDGES") (strip l)
           then rmap (fun k => (m, k)) (py_int (drop 15 (strip l)))
           else rmap (fun m' => (m', ne)) (parse_metadata ac m (strip l)))
          (fun st => match r with
                     | [] => Ok (fst st, snd st, [l])
                     | _ :: _ => wmd_header ac (fst st) (snd st) r
                     end)
  else Ok (m, ne, l :: r).
Proof. reflexivity. Qed.

Lemma wmd_header_step_meta ac m ne l r m1 :
  is_hash_line (strip l) = true -> startswith (lit "# NUMBER EDGES") (strip l) = false ->
  parse_metadata ac m (strip l) = Ok m1 -> r <> [] ->
  wmd_header ac m ne (l :: r) = wmd_header ac m1 ne r.
Proof.
  intros H1 H2 H3 Hr. rewrite wmd_header_cons, H1, H2, H3. cbn [rmap rbind fst snd].
  destruct r; [contradiction|reflexivity].
Qed.

Lemma wmd_header_step_edges ac m ne l r k :
  is_hash_line (strip l) = true -> startswith (lit "# NUMBER EDGES") (strip l) = true ->
  py_int (drop 15 (strip l)) = Ok k -> r <> [] ->
  wmd_header ac m ne (l :: r) = wmd_header ac m k r.
Proof.
  intros H1 H2 H3 Hr. rewrite wmd_header_cons, H1, H2, H3. cbn [rmap rbind fst snd].
  destruct r; [contradiction|reflexivity].
Qed.

Lemma wmd_header_stop ac m ne l r :
  is_hash_line (strip l) = false -> wmd_header ac m ne (l :: r) = Ok (m, ne, l :: r).
Proof. intros H. now rewrite wmd_header_cons, H. Qed.

(* a header line other than the NUMBER EDGES line *)
Definition hdr_ok (l : text) : Prop :=
  is_hash_line (strip l) = true /\ startswith (lit "# NUMBER EDGES") (strip l) = false.

Lemma parse_meta_lines_err ac e ls :
  fold_left (fun r l => rbind r (fun m => parse_metadata ac m (strip l))) ls (Err e) = Err e.
Proof. induction ls as [|l t IH]; [reflexivity|]. exact IH. Qed.

Lemma parse_meta_lines_cons ac m l ls :
  parse_meta_lines ac m (l :: ls) = rbind (parse_metadata ac m (strip l)) (fun m1 => parse_meta_lines ac m1 ls).
Proof.
  unfold parse_meta_lines. cbn [fold_left rbind].
  destruct (parse_metadata ac m (strip l)) as [m1|e]; [reflexivity|]. apply parse_meta_lines_err.
Qed.

(* trailing whitespace t (the newline kept by readlines, or nothing after splitlines) *)
Lemma wmd_header_meta ac t ls : forallb is_space t = true -> forall m m' ne rest,
  Forall hdr_ok ls -> rest <> [] -> parse_meta_lines ac m ls = Ok m' ->
  wmd_header ac m ne (map (fun l => l ++ t) ls ++ rest) = wmd_header ac m' ne rest.
Proof.
  intros Ht. induction ls as [|l r IH]; intros m m' ne rest F Hr P.
  - unfold parse_meta_lines in P. cbn in P. injection P as ->. reflexivity.
  - inversion F as [|? ? [A B] F']; subst. rewrite parse_meta_lines_cons in P.
    destruct (parse_metadata ac m (strip l)) as [m1|e] eqn:E; [|discriminate]. cbn [rbind] in P.
    cbn [map app]. rewrite (wmd_header_step_meta ac m ne (l ++ t) _ m1).
    + now apply IH.
    + now rewrite strip_nl_r.
    + now rewrite strip_nl_r.
    + now rewrite strip_nl_r.
    + intros C. apply app_eq_nil in C as [_ C]. contradiction.
Qed.

Lemma meta_lines_hdr_ok m : wf_fields_rl m -> Forall hdr_ok (meta_lines m).
Proof.
  intros (H1 & H2 & H3 & H4 & H5 & H6 & H7 & H8 & H9). unfold meta_lines.
  repeat (apply Forall_cons; [unfold hdr_ok; rewrite strip_kv;
    [split; reflexivity|discriminate|reflexivity|
     first [apply H1|apply H2|apply H3|apply H4|apply H5|apply H6|apply H7|apply H8|apply H9]]|]).
  constructor.
Qed.

Definition count_alts_line (n : N) : text := lit "# NUMBER ALTERNATIVES:" ++ 32%N :: show_N n.
Definition count_edges_line (n : N) : text := lit "# NUMBER EDGES:" ++ 32%N :: show_N n.

Lemma count_alts_hdr_ok n : hdr_ok (count_alts_line n).
Proof.
  unfold hdr_ok, count_alts_line. rewrite strip_kv; [split; reflexivity|discriminate|reflexivity|apply strip_show_N].
Qed.

Lemma strip_count_edges_line n : strip (count_edges_line n) = lit "# NUMBER EDGES:" ++ 32%N :: show_N n.
Proof.
  unfold count_edges_line. rewrite strip_kv; [|discriminate|reflexivity|apply strip_show_N].
  now rewrite spv_show_N.
Qed.

Lemma alt_name_lines_hdr_ok d : Forall (fun p => wf_field_rl (snd p)) d -> Forall hdr_ok (alt_name_lines d).
Proof.
  induction 1 as [|[a nm] r [Hv Hb] Hr IH]; [constructor|].
  cbn [alt_name_lines map fst snd]. constructor; [|exact IH].
  unfold hdr_ok. cbn [snd] in Hv. rewrite strip_name_line; [|reflexivity|exact Hv].
  unfold name_key, alt_name_prefix. split; reflexivity.
Qed.

Lemma count_lines_no_break n k : no_break (count_alts_line n) = true /\ no_break (count_edges_line k) = true.
Proof.
  unfold count_alts_line, count_edges_line, no_break. rewrite !forallb_app. cbn [forallb].
  fold (no_break (show_N n)). fold (no_break (show_N k)). rewrite !show_N_no_break. split; reflexivity.
Qed.

Lemma unlines_app a b : unlines (a ++ b) = unlines a ++ unlines b.
Proof. unfold unlines. apply flat_map_app. Qed.

Lemma pair_eq_dec (a b : Z * Z) : {a = b} + {a <> b}.
Proof. decide equality; apply Z.eq_dec. Qed.

Lemma flat_map_ext_in' {A B} (f g : A -> list B) l :
  (forall a, In a l -> f a = g a) -> flat_map f l = flat_map g l.
Proof.
  induction l as [|x r IH]; intros H; [reflexivity|]. simpl. rewrite (H x) by now left.
  rewrite IH; [reflexivity|]. intros a Ha. apply H. now right.
Qed.

(* ================================================================================================ *)
(* 2. one edge line                                                                                 *)
(* ================================================================================================ *)
Section WmdProofs.
  Variable W : Type.
  Variable show_w : W -> text.
  Variable read_w : text -> option W.

  (* what is needed of a weight w and the codec "{}".format(float) / float(token): facts about CPython that
     are not proved (tested by the harness on every generated weight).  The last clause excludes every
     whitespace character: U+0020 and all line boundaries included (linebreak_is_space). *)
  Definition good_w (w : W) : Prop :=
    read_w (show_w w) = Some w /\ show_w w <> [] /\
    forallb (fun c => negb (N.eqb c 44)) (show_w w) = true /\
    forallb (fun c => negb (is_space c)) (show_w w) = true.

  Notation winst := (winst W).
  Notation wtab := (list ((Z * Z) * W)).
  Notation good_e := (fun e : (Z * Z) * W => good_w (snd e)).

  Lemma show_w_no_sp w : good_w w -> forallb (fun c => negb (N.eqb c 32)) (show_w w) = true.
  Proof.
    intros (_ & _ & _ & Hs). eapply forallb_impl; [|apply Hs]. intros c H. apply negb_true_iff in H.
    destruct (N.eqb_spec c 32) as [->|]; [discriminate|reflexivity].
  Qed.

  Lemma show_w_no_break w : good_w w -> no_break (show_w w) = true.
  Proof.
    intros (_ & _ & _ & Hs). eapply forallb_impl; [|apply Hs]. intros c H. apply negb_true_iff in H.
    destruct (is_linebreak c) eqn:E; [|reflexivity]. apply linebreak_is_space in E. congruence.
  Qed.

  (* the edge line without its newline *)
  Definition eline (e : (Z * Z) * W) : text :=
    show_Z (fst (fst e)) ++ lit ", " ++ show_Z (snd (fst e)) ++ lit ", " ++ show_w (snd e).

  Lemma edge_line_eline n m w : edge_line W show_w n m w = eline ((n, m), w) ++ nl.
  Proof. unfold edge_line, eline. simpl fst. simpl snd. now rewrite <- !app_assoc. Qed.

  Lemma strip_eline e : good_w (snd e) -> strip (eline e) = eline e.
  Proof.
    destruct e as [[n m] w]. intros (_ & Hne & _ & Hs). cbn [snd] in *. unfold eline. simpl fst. simpl snd. apply strip_by_of_fix.
    - apply lstrip_by_app_fix; [apply show_Z_nonempty|].
      pose proof (strip_show_Z n) as H. now apply strip_by_fix in H.
    - rewrite !app_assoc. apply rstrip_by_app_fix; [exact Hne|].
      pose proof (strip_by_none is_space (show_w w) Hs) as H. now apply strip_by_fix in H.
  Qed.

  Lemma remove_sp_eline e : good_w (snd e) ->
    remove_sp (eline e) = show_Z (fst (fst e)) ++ 44%N :: show_Z (snd (fst e)) ++ 44%N :: show_w (snd e).
  Proof.
    intros Hg. unfold eline. rewrite !remove_sp_app.
    rewrite !(remove_sp_id (show_Z _)) by (apply show_Z_all; intros c H; apply (idchar_facts c H)).
    rewrite (remove_sp_id (show_w _)) by now apply show_w_no_sp. reflexivity.
  Qed.

  Theorem parse_edge_line_eline t e : forallb is_space t = true -> good_w (snd e) ->
    parse_edge_line W read_w (eline e ++ t) = Ok e.
  Proof.
    intros Ht Hg. pose proof Hg as (Hrs & _ & Hc & _).
    unfold parse_edge_line. rewrite strip_nl_r by exact Ht.
    rewrite strip_eline by exact Hg. rewrite remove_sp_eline by exact Hg.
    rewrite split_on_app_sep by (apply show_Z_all; intros c H; apply (idchar_facts c H)).
    rewrite split_on_app_sep by (apply show_Z_all; intros c H; apply (idchar_facts c H)).
    rewrite split_on_nosep by exact Hc.
    rewrite !py_int_show_Z. simpl rbind. rewrite Hrs. now destruct e as [[n m] w].
  Qed.

  Lemma eline_no_break e : good_w (snd e) -> no_break (eline e) = true.
  Proof.
    intros Hg. unfold eline, no_break. rewrite !forallb_app. fold (no_break (show_Z (fst (fst e)))).
    fold (no_break (show_Z (snd (fst e)))). fold (no_break (show_w (snd e))).
    rewrite !show_Z_no_break, show_w_no_break by exact Hg. reflexivity.
  Qed.

  (* an edge line is not a header line *)
  Lemma eline_not_hash e : good_w (snd e) -> is_hash_line (strip (eline e ++ nl)) = false.
  Proof.
    intros Hg. rewrite strip_nl_r by reflexivity. rewrite strip_eline by exact Hg. unfold eline.
    pose proof (show_Z_nonempty (fst (fst e))) as Hne. pose proof (show_Z_idchars (fst (fst e))) as Hd.
    destruct (show_Z (fst (fst e))) as [|c r]; [contradiction|]. simpl in Hd.
    apply andb_true_iff in Hd as [Hc _]. destruct (idchar_facts c Hc) as (_ & _ & _ & _ & H35).
    cbn [app]. rewrite is_hash_line_cons. apply negb_true_iff in H35. now rewrite N.eqb_sym.
  Qed.

  Definition elines (es : wtab) : list text := map eline es.

  Lemma parse_edges_elines_t t (Ht : forallb is_space t = true) es : Forall good_e es -> forall g,
    parse_edges W read_w (map (fun l => l ++ t) (elines es)) g =
    Ok (fold_left (fun g e => add_edge (fst (fst e)) (snd (fst e)) (snd e) g) es g).
  Proof.
    induction 1 as [|e r He Hr IH]; intros g; [reflexivity|].
    simpl. rewrite parse_edge_line_eline by assumption. simpl. apply IH.
  Qed.

  Lemma wlist_In (wt : wtab) ks e : In e (wlist wt ks) -> In e wt.
  Proof.
    unfold wlist. rewrite in_flat_map. intros [k [_ H]].
    destruct (assoc_get peqb k wt) as [w|] eqn:G; [|contradiction]. destruct H as [<-|[]].
    now apply (assoc_get_Some_In _ _ peqb peqb_spec).
  Qed.

  Lemma edges_text_lines wt ks :
    flat_map (edge_text W show_w wt) ks = unlines (elines (wlist wt ks)).
  Proof.
    induction ks as [|[n m] r IH]; [reflexivity|]. cbn [flat_map]. rewrite IH. unfold edge_text.
    cbn [wlist flat_map]. destruct (assoc_get peqb (n, m) wt) as [w|]; [|reflexivity].
    cbn [fst snd app]. rewrite edge_line_eline. unfold elines, unlines. cbn [map flat_map].
    reflexivity.
  Qed.

  (* ============================================================================================== *)
  (* 3. the written file as a list of lines                                                        *)
  (* ============================================================================================== *)
  Definition sorted_weights (i : winst) : wtab := wlist (w_weights i) (edge_keys (w_nodes i)).

  Definition header_lines (i : winst) : list text :=
    meta_lines (w_meta i) ++
    [count_alts_line (num_alternatives (w_meta i)); count_edges_line (w_num_edges i)] ++
    alt_name_lines (alt_names (w_meta i)).

  Definition file_lines (i : winst) : list text := header_lines i ++ elines (sorted_weights i).

  Lemma count_lines_lines i :
    count_lines W i = unlines [count_alts_line (num_alternatives (w_meta i)); count_edges_line (w_num_edges i)].
  Proof.
    unfold count_lines, unlines, count_alts_line, count_edges_line, nl. cbn [flat_map].
    repeat (rewrite <- ?app_assoc; cbn [app]). reflexivity.
  Qed.

  Theorem wmd_write_lines i : wmd_write W show_w i = unlines (file_lines i).
  Proof.
    unfold wmd_write, file_lines, header_lines. rewrite !unlines_app.
    rewrite write_metadata_lines, write_alt_names_lines, edges_text_lines, count_lines_lines.
    now rewrite <- !app_assoc.
  Qed.

  (* ============================================================================================== *)
  (* 4. well-formed instances and the instance a written file is parsed to                           *)
  (* ============================================================================================== *)
  Definition wf_weights (i : winst) : Prop :=
    NoDup (keys (w_weights i)) /\
    (forall n m, In (n, m) (keys (w_weights i)) <-> In m (nbrs (w_nodes i) n)).

  Definition wf_core (i : winst) : Prop :=
    data_type (w_meta i) = lit "wmd" /\
    wf_fields (w_meta i) /\ wf_names (alt_names (w_meta i)) /\
    wf_nmap (w_nodes i) /\ wf_weights i /\
    w_num_edges i = N.of_nat (List.length (all_edges (w_nodes i))) /\
    all_edges (w_nodes i) <> [].

  (* ... whose weights are all printed and read back faithfully *)
  Definition wf_wmd (i : winst) : Prop := wf_core i /\ Forall good_e (w_weights i).

  (* the same with the weaker condition on text values that suffices for the file path (wf_field_rl) *)
  Definition wf_core_rl (i : winst) : Prop :=
    data_type (w_meta i) = lit "wmd" /\
    wf_fields_rl (w_meta i) /\ wf_names_rl (alt_names (w_meta i)) /\
    wf_nmap (w_nodes i) /\ wf_weights i /\
    w_num_edges i = N.of_nat (List.length (all_edges (w_nodes i))) /\
    all_edges (w_nodes i) <> [].
  Definition wf_wmd_rl (i : winst) : Prop := wf_core_rl i /\ Forall good_e (w_weights i).

  Lemma wf_core_weaken i : wf_core i -> wf_core_rl i.
  Proof.
    intros (Hdt & Hf & Hn & R). split; [exact Hdt|]. split; [now apply wf_fields_weaken|].
    split; [now apply wf_names_weaken|exact R].
  Qed.
  Lemma wf_wmd_weaken i : wf_wmd i -> wf_wmd_rl i.
  Proof. intros [H G]. split; [now apply wf_core_weaken|exact G]. Qed.

  Lemma sorted_weights_good i : Forall good_e (w_weights i) -> Forall good_e (wlist (w_weights i) (edge_keys (w_nodes i))).
  Proof.
    intros H. rewrite Forall_forall in *. intros e He. apply H. now apply wlist_In in He.
  Qed.

  Definition reparsed_meta (m : meta) : meta := set_reserved (set_num_voters m (num_alternatives m)) [].

  Definition reparsed (i : winst) : winst :=
    mkW (reparsed_meta (w_meta i)) (num_stored (rebuilt (w_nodes i))) (rebuilt (w_nodes i)) (sorted_weights i).

  Lemma wf_all_weighted i : wf_weights i -> all_weighted (w_weights i) (edge_keys (w_nodes i)).
  Proof.
    intros [D E] [n m] Hk. apply edge_keys_In in Hk as [_ Hk]. apply E in Hk.
    intros C. apply (assoc_get_None _ _ peqb peqb_spec) in C. contradiction.
  Qed.

  Lemma sorted_weights_keys i : wf_weights i -> keys (sorted_weights i) = edge_keys (w_nodes i).
  Proof. intros H. apply wlist_keys. now apply wf_all_weighted. Qed.

  Lemma file_lines_no_break i : wf_wmd i -> forallb no_break (file_lines i) = true.
  Proof.
    intros [(_ & Hf & [Hn _] & _) Hgood]. unfold file_lines, header_lines. rewrite !forallb_app.
    rewrite meta_lines_no_break by exact Hf. rewrite alt_name_lines_no_break by exact Hn.
    destruct (count_lines_no_break (num_alternatives (w_meta i)) (w_num_edges i)) as [A B].
    cbn [forallb]. rewrite A, B. cbn [andb].
    unfold elines. rewrite forallb_forall. intros l Hl. apply in_map_iff in Hl as [e [<- He]].
    apply eline_no_break. apply sorted_weights_good in Hgood. rewrite Forall_forall in Hgood. now apply Hgood.
  Qed.

  Lemma file_lines_no_nlcr i : wf_wmd_rl i -> forallb no_nlcr (file_lines i) = true.
  Proof.
    intros [(_ & Hf & [Hn _] & _) Hgood]. unfold file_lines, header_lines. rewrite !forallb_app.
    rewrite meta_lines_no_nlcr by exact Hf. rewrite alt_name_lines_no_nlcr by exact Hn.
    destruct (count_lines_no_break (num_alternatives (w_meta i)) (w_num_edges i)) as [A B].
    apply no_break_no_nlcr in A. apply no_break_no_nlcr in B.
    cbn [forallb]. rewrite A, B. cbn [andb].
    unfold elines. rewrite forallb_forall. intros l Hl. apply in_map_iff in Hl as [e [<- He]].
    apply no_break_no_nlcr, eline_no_break. apply sorted_weights_good in Hgood. rewrite Forall_forall in Hgood.
    now apply Hgood.
  Qed.

  (* ============================================================================================== *)
  (* 5. parsing the written lines                                                                   *)
  (* ============================================================================================== *)
  Lemma reparsed_meta_eq M d na :
    wf_names_rl d -> d = alt_names M -> na = num_alternatives M ->
    let m := set_alt_names (set_num_alternatives (copy_fields M (meta0 (lit "wmd"))) na) d in
    set_num_voters m (num_alternatives m) = reparsed_meta M.
  Proof. intros _ -> ->. destruct M. reflexivity. Qed.

  (* t: what the line splitter leaves at the end of each line ("\n" for readlines, "" for splitlines) *)
  Lemma header_file_lines_rl t i : forallb is_space t = true -> wf_wmd_rl i ->
    wmd_header false (meta0 (lit "wmd")) 0 (map (fun l => l ++ t) (file_lines i)) =
    Ok (set_alt_names (set_num_alternatives (copy_fields (w_meta i) (meta0 (lit "wmd"))) (num_alternatives (w_meta i)))
                      (alt_names (w_meta i)),
        w_num_edges i, map (fun l => l ++ t) (elines (sorted_weights i))).
  Proof.
    intros Ht [(Hdt & Hf & Hn & Hg & Hw & Hne & Hnz) Hgood].
    assert (Hk : keys (sorted_weights i) = edge_keys (w_nodes i)) by now apply sorted_weights_keys.
    assert (Hes : sorted_weights i <> []).
    { intros C. rewrite C in Hk. cbn in Hk. apply Hnz. apply length_zero_iff_nil.
      rewrite (all_edges_length _ Hg), <- Hk. reflexivity. }
    unfold file_lines, header_lines. rewrite !map_app. cbn [map]. rewrite <- !app_assoc. cbn [app].
    set (M := w_meta i) in *. set (es := sorted_weights i) in *.
    assert (Hrest : map (fun l => l ++ t) (elines es) <> []).
    { destruct es; [contradiction|discriminate]. }
    (* the nine metadata lines *)
    rewrite (wmd_header_meta false t (meta_lines M) Ht _ (copy_fields M (meta0 (lit "wmd"))));
      [|now apply meta_lines_hdr_ok|discriminate|now apply metadata_roundtrip_rl].
    (* NUMBER ALTERNATIVES *)
    destruct (count_alts_hdr_ok (num_alternatives M)) as [A1 A2].
    rewrite (wmd_header_step_meta false _ _ _ _ (set_num_alternatives (copy_fields M (meta0 (lit "wmd"))) (num_alternatives M)));
      [|now rewrite strip_nl_r|now rewrite strip_nl_r|
       rewrite strip_nl_r by exact Ht; apply parse_line_num_alternatives|discriminate].
    (* NUMBER EDGES *)
    rewrite (wmd_header_step_edges false _ _ _ _ (w_num_edges i));
      [|rewrite strip_nl_r by exact Ht; rewrite strip_count_edges_line; reflexivity
       |rewrite strip_nl_r by exact Ht; rewrite strip_count_edges_line; reflexivity
       |rewrite strip_nl_r by exact Ht; rewrite strip_count_edges_line; apply py_int_sp_show_N
       |intros C; apply app_eq_nil in C as [_ C]; contradiction].
    (* the name lines *)
    rewrite (wmd_header_meta false t (alt_name_lines (alt_names M)) Ht _
               (set_alt_names (set_num_alternatives (copy_fields M (meta0 (lit "wmd"))) (num_alternatives M))
                              (alt_names M)));
      [|apply alt_name_lines_hdr_ok; apply Hn|exact Hrest|now apply alt_names_roundtrip_fresh_rl].
    (* the first edge line stops the header loop *)
    destruct es as [|e r] eqn:Ees; [contradiction|]. cbn [elines map].
    rewrite wmd_header_stop; [reflexivity|].
    rewrite strip_nl_r by exact Ht. rewrite <- (strip_nl_r _ nl) by reflexivity. apply eline_not_hash.
    apply sorted_weights_good in Hgood. fold (sorted_weights i) in Hgood. fold es in Hgood. rewrite Ees in Hgood.
    now inversion Hgood.
  Qed.

  Theorem parse_file_lines_rl t i : forallb is_space t = true -> wf_wmd_rl i ->
    wmd_parse W read_w false false (meta0 (lit "wmd")) (map (fun l => l ++ t) (file_lines i)) = Ok (reparsed i).
  Proof.
    intros Ht H. pose proof H as [(Hdt & Hf & Hn & Hg & Hw & Hne & Hnz) Hgood].
    assert (Hk : keys (sorted_weights i) = edge_keys (w_nodes i)) by now apply sorted_weights_keys.
    unfold wmd_parse. cbn [data_type meta0]. rewrite teqb_refl.
    rewrite (header_file_lines_rl t i Ht H). cbn [rbind fst snd].
    rewrite (reparsed_meta_eq (w_meta i) (alt_names (w_meta i)) (num_alternatives (w_meta i)) Hn eq_refl eq_refl).
    rewrite (parse_edges_elines_t t Ht) by now apply sorted_weights_good. rewrite fold_add_edge_split. cbn [rbind fst snd].
    rewrite Hk. fold (rebuilt (w_nodes i)).
    rewrite fold_assoc_set_fresh.
    2:{ cbn [keys map app]. fold (keys (sorted_weights i)). rewrite Hk. destruct Hg as [D [Dn _]]. now apply edge_keys_NoDup. }
    reflexivity.
  Qed.

  (* header_only=True: the header fields and the NUMBER EDGES value of the file, an empty graph *)
  Theorem parse_file_lines_header_only_rl t i : forallb is_space t = true -> wf_wmd_rl i ->
    wmd_parse W read_w false true (meta0 (lit "wmd")) (map (fun l => l ++ t) (file_lines i)) =
    Ok (mkW (reparsed_meta (w_meta i)) (w_num_edges i) [] []).
  Proof.
    intros Ht H. pose proof H as [(Hdt & Hf & Hn & Hg & Hw & Hne & Hnz) Hgood].
    unfold wmd_parse. cbn [data_type meta0]. rewrite teqb_refl.
    rewrite (header_file_lines_rl t i Ht H). cbn [rbind fst snd].
    now rewrite (reparsed_meta_eq (w_meta i) (alt_names (w_meta i)) (num_alternatives (w_meta i)) Hn eq_refl eq_refl).
  Qed.

  (* ============================================================================================== *)
  (* 6. the re-parsed instance has the same content                                                 *)
  (* ============================================================================================== *)
  Lemma reparsed_weights_get_rl i k : wf_wmd_rl i ->
    assoc_get peqb k (w_weights (reparsed i)) = assoc_get peqb k (w_weights i).
  Proof.
    intros [(_ & _ & _ & Hg & [D E] & _) _]. cbn [reparsed w_weights]. unfold sorted_weights.
    destruct (in_dec pair_eq_dec k (edge_keys (w_nodes i))) as [I|I].
    - now apply wlist_get_in.
    - rewrite wlist_get_notin by exact I. symmetry. apply (assoc_get_None _ _ peqb peqb_spec).
      intros C. apply I. destruct k as [a b]. apply E in C. apply edge_keys_In.
      split; [now apply nbrs_In_key in C|exact C].
  Qed.

  Lemma wedges_In (j : winst) n m w : NoDup (keys (w_nodes j)) ->
    (In ((n, m), w) (wedges j) <->
     In m (nbrs (w_nodes j) n) /\ assoc_get peqb (n, m) (w_weights j) = Some w).
  Proof.
    intros D. unfold wedges. rewrite in_flat_map. split.
    - intros [k [Hk H]]. destruct (assoc_get peqb k (w_weights j)) as [w0|] eqn:G; [|contradiction].
      destruct H as [H|[]]. injection H as -> ->. split; [|exact G]. now apply all_edges_In in Hk.
    - intros [H G]. exists (n, m). split; [now apply all_edges_In|]. rewrite G. now left.
  Qed.

  (* what C09 claims about the instance i' obtained by parsing the file written from i *)
  Definition same_content_rl (i i' : winst) : Prop :=
    (* all header fields, the alternative names (same dict, same order) and num_alternatives are those
       of i; num_voters = num_alternatives *)
    w_meta i' = reparsed_meta (w_meta i) /\
    (* the same set of directed edges *)
    (forall n m, In m (nbrs (w_nodes i') n) <-> In m (nbrs (w_nodes i) n)) /\
    (* with the same weights: the two weight tables are the same function *)
    (forall k, assoc_get peqb k (w_weights i') = assoc_get peqb k (w_weights i)) /\
    (* edges() returns the same set of (source, target, weight) triples *)
    (forall e, In e (wedges i') <-> In e (wedges i)) /\
    (* the nodes of i' are exactly the nodes of i that are incident to an edge (isolated nodes are lost) *)
    (forall n, In n (keys (w_nodes i')) <-> incident (w_nodes i) n) /\
    (* num_edges is the number of edges, as before *)
    w_num_edges i' = N.of_nat (List.length (all_edges (w_nodes i'))) /\
    w_num_edges i' = w_num_edges i /\
    (* and i' is again a well-formed instance *)
    wf_wmd_rl i'.

  Lemma reparsed_meta_fields_rl M : wf_fields_rl M -> wf_fields_rl (reparsed_meta M).
  Proof. destruct M. exact (fun H => H). Qed.

  Lemma reparsed_wf_rl i : wf_wmd_rl i -> wf_wmd_rl (reparsed i).
  Proof.
    intros [(Hdt & Hf & Hn & Hg & Hw & Hne & Hnz) Hgood].
    assert (Hk : keys (sorted_weights i) = edge_keys (w_nodes i)) by now apply sorted_weights_keys.
    split; [|now apply sorted_weights_good].
    unfold wf_core_rl. cbn [reparsed w_meta w_nodes w_weights w_num_edges].
    split; [|split; [|split; [|split; [|split; [|split]]]]].
    - destruct (w_meta i). exact Hdt.
    - now apply reparsed_meta_fields_rl.
    - destruct (w_meta i). exact Hn.
    - apply rebuilt_wf.
    - unfold wf_weights, reparsed. cbn [w_weights w_nodes]. split.
      + rewrite Hk. destruct Hg as [D [Dn _]]. now apply edge_keys_NoDup.
      + intros n m. rewrite Hk. split; intros H.
        * apply edge_keys_In in H as [_ H]. exact (proj2 (rebuilt_nbrs _ _ _) H).
        * apply (proj1 (rebuilt_nbrs _ _ _)) in H. apply edge_keys_In. split; [now apply nbrs_In_key in H|exact H].
    - apply num_stored_length.
    - intros C. apply Hnz. apply length_zero_iff_nil.
      rewrite (all_edges_length _ Hg), <- (rebuilt_edge_keys _ Hg), <- (all_edges_length _ (rebuilt_wf _)).
      now rewrite C.
  Qed.

  Theorem reparsed_same_content_rl i : wf_wmd_rl i -> same_content_rl i (reparsed i).
  Proof.
    intros H. pose proof H as [(Hdt & Hf & Hn & Hg & Hw & Hne & Hnz) Hgood].
    assert (Hg' : wf_nmap (rebuilt (w_nodes i))) by apply rebuilt_wf.
    unfold same_content_rl. split; [|split; [|split; [|split; [|split; [|split; [|split]]]]]].
    - reflexivity.
    - intros n m. apply rebuilt_nbrs.
    - intros k. now apply reparsed_weights_get_rl.
    - intros [[n m] w]. rewrite !wedges_In; [|apply Hg|apply Hg'].
      rewrite reparsed_weights_get_rl by exact H. cbn [reparsed w_nodes]. now rewrite rebuilt_nbrs.
    - intros n. apply rebuilt_keys.
    - apply num_stored_length.
    - cbn [reparsed w_num_edges]. rewrite rebuilt_num_stored by exact Hg. now symmetry.
    - now apply reparsed_wf_rl.
  Qed.

  (* ============================================================================================== *)
  (* 7. writing the re-parsed instance reproduces the file                                          *)
  (* ============================================================================================== *)
  Theorem write_reparsed_rl i : wf_wmd_rl i -> wmd_write W show_w (reparsed i) = wmd_write W show_w i.
  Proof.
    intros H. pose proof H as [(Hdt & Hf & Hn & Hg & Hw & Hne & Hnz) Hgood].
    unfold wmd_write. cbn [reparsed w_meta w_nodes w_weights].
    assert (E1 : write_metadata (reparsed_meta (w_meta i)) = write_metadata (w_meta i))
      by (destruct (w_meta i); reflexivity).
    assert (E2 : alt_names (reparsed_meta (w_meta i)) = alt_names (w_meta i))
      by (destruct (w_meta i); reflexivity).
    assert (E3 : count_lines W (reparsed i) = count_lines W i).
    { unfold count_lines. cbn [reparsed w_meta w_num_edges].
      rewrite rebuilt_num_stored by exact Hg. rewrite <- Hne. destruct (w_meta i); reflexivity. }
    fold (reparsed i). rewrite E1, E2, E3. do 3 f_equal.
    rewrite rebuilt_edge_keys by exact Hg. apply flat_map_ext_in'. intros k Hk.
    unfold edge_text, sorted_weights. now rewrite wlist_get_in.
  Qed.

  (* ============================================================================================== *)
  (* 8. the theorems of C09                                                                         *)
  (* ============================================================================================== *)
  Theorem roundtrip_readlines_rl i : wf_wmd_rl i ->
    wmd_parse W read_w false false (meta0 (lit "wmd")) (readlines (wmd_write W show_w i)) = Ok (reparsed i).
  Proof.
    intros H. rewrite wmd_write_lines. rewrite readlines_unlines.
    - now apply (parse_file_lines_rl nl).
    - now apply file_lines_no_nlcr.
  Qed.

  Theorem header_only_readlines_rl i : wf_wmd_rl i ->
    wmd_parse W read_w false true (meta0 (lit "wmd")) (readlines (wmd_write W show_w i)) =
    Ok (mkW (reparsed_meta (w_meta i)) (w_num_edges i) [] []).
  Proof.
    intros H. rewrite wmd_write_lines. rewrite readlines_unlines.
    - now apply (parse_file_lines_header_only_rl nl).
    - now apply file_lines_no_nlcr.
  Qed.

  Theorem roundtrip_rl i : wf_wmd_rl i ->
    exists i', wmd_parse W read_w false false (meta0 (lit "wmd")) (readlines (wmd_write W show_w i)) = Ok i'
               /\ same_content_rl i i'.
  Proof.
    intros H. exists (reparsed i). split; [now apply roundtrip_readlines_rl|now apply reparsed_same_content_rl].
  Qed.

  Theorem idempotent_rl i i' : wf_wmd_rl i ->
    wmd_parse W read_w false false (meta0 (lit "wmd")) (readlines (wmd_write W show_w i)) = Ok i' ->
    wmd_write W show_w i' = wmd_write W show_w i.
  Proof.
    intros H P. rewrite roundtrip_readlines_rl in P by exact H. injection P as <-. now apply write_reparsed_rl.
  Qed.

  (* ============================================================================================== *)
  (* 8b. the same for the stronger text condition wf_field (no str.splitlines boundary at all), which  *)
  (*     also covers parse_str; names kept for Proofs/EntryFiles.v                                    *)
  (* ============================================================================================== *)
  Definition same_content (i i' : winst) : Prop :=
    w_meta i' = reparsed_meta (w_meta i) /\
    (forall n m, In m (nbrs (w_nodes i') n) <-> In m (nbrs (w_nodes i) n)) /\
    (forall k, assoc_get peqb k (w_weights i') = assoc_get peqb k (w_weights i)) /\
    (forall e, In e (wedges i') <-> In e (wedges i)) /\
    (forall n, In n (keys (w_nodes i')) <-> incident (w_nodes i) n) /\
    w_num_edges i' = N.of_nat (List.length (all_edges (w_nodes i'))) /\
    w_num_edges i' = w_num_edges i /\
    wf_wmd i'.

  Lemma reparsed_meta_fields M : wf_fields M -> wf_fields (reparsed_meta M).
  Proof. destruct M. exact (fun H => H). Qed.

  Lemma reparsed_wf i : wf_wmd i -> wf_wmd (reparsed i).
  Proof.
    intros H. pose proof (reparsed_wf_rl i (wf_wmd_weaken i H)) as [(Hdt & _ & _ & R) G].
    destruct H as [(_ & Hf & Hn & _) _]. split; [|exact G].
    split; [exact Hdt|]. split; [now apply reparsed_meta_fields|]. split; [|exact R].
    cbn [reparsed w_meta]. destruct (w_meta i). exact Hn.
  Qed.

  Theorem reparsed_same_content i : wf_wmd i -> same_content i (reparsed i).
  Proof.
    intros H. pose proof (reparsed_same_content_rl i (wf_wmd_weaken i H)) as (A & B & C & D & E & F & G & _).
    repeat (split; [assumption|]). now apply reparsed_wf.
  Qed.

  Theorem write_reparsed i : wf_wmd i -> wmd_write W show_w (reparsed i) = wmd_write W show_w i.
  Proof. intros H. now apply write_reparsed_rl, wf_wmd_weaken. Qed.

  Theorem parse_file_lines t i : forallb is_space t = true -> wf_wmd i ->
    wmd_parse W read_w false false (meta0 (lit "wmd")) (map (fun l => l ++ t) (file_lines i)) = Ok (reparsed i).
  Proof. intros Ht H. now apply parse_file_lines_rl, wf_wmd_weaken. Qed.

  Theorem roundtrip_readlines i : wf_wmd i ->
    wmd_parse W read_w false false (meta0 (lit "wmd")) (readlines (wmd_write W show_w i)) = Ok (reparsed i).
  Proof. intros H. now apply roundtrip_readlines_rl, wf_wmd_weaken. Qed.

  Theorem roundtrip_splitlines i : wf_wmd i ->
    wmd_parse W read_w false false (meta0 (lit "wmd")) (splitlines (wmd_write W show_w i)) = Ok (reparsed i).
  Proof.
    intros H. rewrite wmd_write_lines. rewrite splitlines_unlines by now apply file_lines_no_break.
    rewrite <- (parse_file_lines [] i eq_refl H). f_equal.
    rewrite <- (map_id (file_lines i)) at 1. apply map_ext. intros l. now rewrite app_nil_r.
  Qed.

  Theorem header_only_readlines i : wf_wmd i ->
    wmd_parse W read_w false true (meta0 (lit "wmd")) (readlines (wmd_write W show_w i)) =
    Ok (mkW (reparsed_meta (w_meta i)) (w_num_edges i) [] []).
  Proof. intros H. now apply header_only_readlines_rl, wf_wmd_weaken. Qed.

  Theorem roundtrip i : wf_wmd i ->
    exists i', wmd_parse W read_w false false (meta0 (lit "wmd")) (readlines (wmd_write W show_w i)) = Ok i'
               /\ same_content i i'.
  Proof.
    intros H. exists (reparsed i). split; [now apply roundtrip_readlines|now apply reparsed_same_content].
  Qed.

  Theorem idempotent i i' : wf_wmd i ->
    wmd_parse W read_w false false (meta0 (lit "wmd")) (readlines (wmd_write W show_w i)) = Ok i' ->
    wmd_write W show_w i' = wmd_write W show_w i.
  Proof. intros H. now apply idempotent_rl, wf_wmd_weaken. Qed.

  (* ============================================================================================== *)
  (* 8c. no written line is mis-classified by the header loop, whatever the values contain ('#', ':',  *)
  (*     ',', digits, a complete fake header or edge line): a header line stays a header line of ITS   *)
  (*     kind because its fixed prefix comes first, an edge line starts with a digit or '-'            *)
  (* ============================================================================================== *)
  Theorem lines_classified i : wf_wmd_rl i ->
    (* metadata, NUMBER ALTERNATIVES and name lines: '#' lines that are not the NUMBER EDGES line *)
    Forall hdr_ok (meta_lines (w_meta i) ++ [count_alts_line (num_alternatives (w_meta i))] ++
                   alt_name_lines (alt_names (w_meta i))) /\
    (* the NUMBER EDGES line is recognised as such and carries its number *)
    (is_hash_line (strip (count_edges_line (w_num_edges i))) = true /\
     startswith (lit "# NUMBER EDGES") (strip (count_edges_line (w_num_edges i))) = true /\
     py_int (drop 15 (strip (count_edges_line (w_num_edges i)))) = Ok (w_num_edges i)) /\
    (* edge lines are never taken for header lines *)
    Forall (fun l => is_hash_line (strip (l ++ nl)) = false) (elines (sorted_weights i)).
  Proof.
    intros [(_ & Hf & [Hn _] & _) Hgood]. split; [|split].
    - apply Forall_app. split; [now apply meta_lines_hdr_ok|]. apply Forall_app. split.
      + constructor; [apply count_alts_hdr_ok|constructor].
      + now apply alt_name_lines_hdr_ok.
    - rewrite strip_count_edges_line. split; [reflexivity|]. split; [reflexivity|apply py_int_sp_show_N].
    - apply sorted_weights_good in Hgood. fold (sorted_weights i) in Hgood. unfold elines.
      apply Forall_forall. intros l Hl. apply in_map_iff in Hl as [e [<- He]]. apply eline_not_hash.
      rewrite Forall_forall in Hgood. now apply Hgood.
  Qed.

End WmdProofs.

(* ================================================================================================ *)
(* 9. the same theorems under hypotheses on the whole codec (the form used in Properties/C09.v)      *)
(* ================================================================================================ *)
Section WmdCodec.
  Variable W : Type.
  Variable show_w : W -> text.
  Variable read_w : text -> option W.
  Hypothesis H_read_show : forall w, read_w (show_w w) = Some w.
  Hypothesis H_show_nonempty : forall w, show_w w <> [].
  Hypothesis H_show_no_comma : forall w, forallb (fun c => negb (N.eqb c 44)) (show_w w) = true.
  Hypothesis H_show_no_space : forall w, forallb (fun c => negb (is_space c)) (show_w w) = true.

  Lemma codec_good w : good_w W show_w read_w w.
  Proof. repeat split; auto. Qed.

  Lemma wf_core_wf (i : winst W) : wf_core W i -> wf_wmd W show_w read_w i.
  Proof. intros H. split; [exact H|]. apply Forall_forall. intros e _. apply codec_good. Qed.

  Theorem codec_roundtrip i : wf_core W i ->
    exists i', wmd_parse W read_w false false (meta0 (lit "wmd")) (readlines (wmd_write W show_w i)) = Ok i'
               /\ same_content W show_w read_w i i'.
  Proof. intros H. now apply roundtrip, wf_core_wf. Qed.

  Theorem codec_idempotent i i' : wf_core W i ->
    wmd_parse W read_w false false (meta0 (lit "wmd")) (readlines (wmd_write W show_w i)) = Ok i' ->
    wmd_write W show_w i' = wmd_write W show_w i.
  Proof. intros H. now apply idempotent, wf_core_wf. Qed.

  Theorem codec_roundtrip_readlines i : wf_core W i ->
    wmd_parse W read_w false false (meta0 (lit "wmd")) (readlines (wmd_write W show_w i)) = Ok (reparsed W i).
  Proof. intros H. now apply roundtrip_readlines, wf_core_wf. Qed.

  Theorem codec_roundtrip_splitlines i : wf_core W i ->
    wmd_parse W read_w false false (meta0 (lit "wmd")) (splitlines (wmd_write W show_w i)) = Ok (reparsed W i).
  Proof. intros H. now apply roundtrip_splitlines, wf_core_wf. Qed.

  Theorem codec_header_only i : wf_core W i ->
    wmd_parse W read_w false true (meta0 (lit "wmd")) (readlines (wmd_write W show_w i)) =
    Ok (mkW (reparsed_meta (w_meta i)) (w_num_edges i) [] []).
  Proof. intros H. now apply header_only_readlines, wf_core_wf. Qed.

  (* the file path with the weaker text condition *)
  Lemma wf_core_rl_wf (i : winst W) : wf_core_rl W i -> wf_wmd_rl W show_w read_w i.
  Proof. intros H. split; [exact H|]. apply Forall_forall. intros e _. apply codec_good. Qed.

  Theorem codec_roundtrip_rl i : wf_core_rl W i ->
    exists i', wmd_parse W read_w false false (meta0 (lit "wmd")) (readlines (wmd_write W show_w i)) = Ok i'
               /\ same_content_rl W show_w read_w i i'.
  Proof. intros H. now apply roundtrip_rl, wf_core_rl_wf. Qed.

  Theorem codec_idempotent_rl i i' : wf_core_rl W i ->
    wmd_parse W read_w false false (meta0 (lit "wmd")) (readlines (wmd_write W show_w i)) = Ok i' ->
    wmd_write W show_w i' = wmd_write W show_w i.
  Proof. intros H. now apply idempotent_rl, wf_core_rl_wf. Qed.

  Theorem codec_roundtrip_readlines_rl i : wf_core_rl W i ->
    wmd_parse W read_w false false (meta0 (lit "wmd")) (readlines (wmd_write W show_w i)) = Ok (reparsed W i).
  Proof. intros H. now apply roundtrip_readlines_rl, wf_core_rl_wf. Qed.

  Theorem codec_header_only_rl i : wf_core_rl W i ->
    wmd_parse W read_w false true (meta0 (lit "wmd")) (readlines (wmd_write W show_w i)) =
    Ok (mkW (reparsed_meta (w_meta i)) (w_num_edges i) [] []).
  Proof. intros H. now apply header_only_readlines_rl, wf_core_rl_wf. Qed.
End WmdCodec.

(* ================================================================================================ *)
(* 10. the instantiation that is extracted (Ops/C09.v): a weight is its raw token                    *)
(* ================================================================================================ *)
Definition tok_ok (t : text) : bool :=
  negb (match t with [] => true | _ => false end) &&
  forallb (fun c => negb (N.eqb c 44)) t && forallb (fun c => negb (is_space c)) t.

Lemma tok_ok_good t : tok_ok t = true -> good_w text tok_show tok_read t.
Proof.
  unfold tok_ok. intros H. apply andb_true_iff in H as [H Hs]. apply andb_true_iff in H as [Hn Hc].
  unfold good_w, tok_show, tok_read. fold (strip_by is_space t). fold (strip t).
  assert (E : strip t = t) by now apply strip_by_none.
  rewrite E. destruct t as [|c r]; [discriminate|]. repeat split; try assumption; try discriminate.
  assert (X : existsb (N.eqb 44) (c :: r) = false); [|now rewrite X].
  apply not_true_is_false. intros C. apply existsb_exists in C as [x [Hx Ex]]. apply N.eqb_eq in Ex. subst x.
  rewrite forallb_forall in Hc. specialize (Hc _ Hx). discriminate.
Qed.

Definition wf_tok (i : twinst) : Prop :=
  wf_core text i /\ Forall (fun e => tok_ok (snd e) = true) (w_weights i).

Lemma wf_tok_wf i : wf_tok i -> wf_wmd text tok_show tok_read i.
Proof.
  intros [H F]. split; [exact H|]. rewrite Forall_forall in *. intros e He. apply tok_ok_good. now apply F.
Qed.

Theorem tok_roundtrip i : wf_tok i ->
  exists i', wmd_parse_tok false false (meta0 (lit "wmd")) (readlines (wmd_write_tok i)) = Ok i'
             /\ same_content text tok_show tok_read i i'.
Proof. intros H. apply roundtrip. now apply wf_tok_wf. Qed.

Theorem tok_idempotent i i' : wf_tok i ->
  wmd_parse_tok false false (meta0 (lit "wmd")) (readlines (wmd_write_tok i)) = Ok i' ->
  wmd_write_tok i' = wmd_write_tok i.
Proof. intros H. apply idempotent. now apply wf_tok_wf. Qed.

(* the file path with the weaker text condition, on the extracted instantiation *)
Definition wf_tok_rl (i : twinst) : Prop :=
  wf_core_rl text i /\ Forall (fun e => tok_ok (snd e) = true) (w_weights i).

Lemma wf_tok_rl_wf i : wf_tok_rl i -> wf_wmd_rl text tok_show tok_read i.
Proof.
  intros [H F]. split; [exact H|]. rewrite Forall_forall in *. intros e He. apply tok_ok_good. now apply F.
Qed.

Theorem tok_roundtrip_rl i : wf_tok_rl i ->
  exists i', wmd_parse_tok false false (meta0 (lit "wmd")) (readlines (wmd_write_tok i)) = Ok i'
             /\ same_content_rl text tok_show tok_read i i'.
Proof. intros H. apply roundtrip_rl. now apply wf_tok_rl_wf. Qed.

Theorem tok_idempotent_rl i i' : wf_tok_rl i ->
  wmd_parse_tok false false (meta0 (lit "wmd")) (readlines (wmd_write_tok i)) = Ok i' ->
  wmd_write_tok i' = wmd_write_tok i.
Proof. intros H. apply idempotent_rl. now apply wf_tok_rl_wf. Qed.
