(* Proofs/SP.v — specifications and lemmas for Model/SP.v (C03, C11; reused by C12, C15, C18).

   SPECIFICATIONS (Prop)
     sp_on_axis o axis    for every k, the union of the k best classes of o is contiguous on axis
     SPw_axis p axis      every order of p is sp_on_axis
     SPw alts p           exists axis, Permutation alts axis /\ SPw_axis p axis          (C11)
     SP_axis rs axis      for every ranking r of rs and every k, firstn k r is contiguous on axis
     SP alts rs           exists axis, Permutation alts axis /\ SP_axis rs axis            (C03)
     same_elems axis o    the alternatives of o are exactly those of axis
     complete_on axis o   NoDup (concat o) /\ all classes non-empty /\ same_elems axis o    (complete weak order)
     sp_C1P rows nc       some permutation of the nc columns makes the ones of every row consecutive *)
From Coq Require Import List Arith NArith Bool Lia Permutation.
From PrefVerif Require Import Lib.Val Lib.Perms Lib.Contig Model.SP.
Import ListNotations.

(* ---------------------------------------------------------------------------------------------- *)
(* specifications                                                                                  *)

Definition sp_on_axis (o : order) (axis : list N) : Prop :=
  forall k, contiguous (concat (firstn k o)) axis.
Definition SPw_axis (p : list order) (axis : list N) : Prop := forall o, In o p -> sp_on_axis o axis.
Definition SPw (alts : list N) (p : list order) : Prop :=
  exists axis, Permutation alts axis /\ SPw_axis p axis.

Definition SP_axis (rs : list ranking) (axis : list N) : Prop :=
  forall r, In r rs -> forall k, contiguous (firstn k r) axis.
Definition SP (alts : list N) (rs : list ranking) : Prop :=
  exists axis, Permutation alts axis /\ SP_axis rs axis.

Definition same_elems (axis : list N) (o : order) : Prop := forall a, In a axis <-> In a (concat o).
Definition complete_on (axis : list N) (o : order) : Prop :=
  NoDup (concat o) /\ Forall (fun c => c <> []) o /\ same_elems axis o.

Definition sp_C1P (rows : list (list bool)) (ncols : nat) : Prop :=
  exists perm, Permutation (seq 0 ncols) perm /\
               Forall (fun row => ones_consec (map (fun j => nth j row false) perm)) rows.

(* ---------------------------------------------------------------------------------------------- *)
(* 1. the scan accepts exactly the valleys (no  low .. HIGH .. low)                                *)

Fixpoint nondec (q : nat) (ps : list nat) : bool :=
  match ps with [] => true | p :: r => (q <=? p) && nondec p r end.

Lemma sp_scan_passed q ps : sp_scan q true ps = nondec q ps.
Proof.
  revert q; induction ps as [|p r IH]; intros q; simpl; [reflexivity|].
  destruct (q <? p) eqn:E1.
  - apply Nat.ltb_lt in E1. rewrite IH. replace (q <=? p) with true; [reflexivity|].
    symmetry; apply Nat.leb_le; lia.
  - apply Nat.ltb_ge in E1. destruct (p <? q) eqn:E2; simpl.
    + apply Nat.ltb_lt in E2. replace (q <=? p) with false; [reflexivity|].
      symmetry; apply Nat.leb_gt; lia.
    + apply Nat.ltb_ge in E2. rewrite IH. replace (q <=? p) with true; [reflexivity|].
      symmetry; apply Nat.leb_le; lia.
Qed.

Lemma nondec_in q ps : nondec q ps = true -> forall z, In z ps -> q <= z.
Proof.
  revert q; induction ps as [|p r IH]; intros q H z Hz; simpl in *; [contradiction|].
  apply andb_true_iff in H. destruct H as [H1 H2]. apply Nat.leb_le in H1.
  destruct Hz as [<-|Hz]; [assumption|]. specialize (IH p H2 z Hz). lia.
Qed.

Lemma nondec_no_desc q ps : nondec q ps = true ->
  forall l1 y l3 z l4, q :: ps = l1 ++ y :: l3 ++ z :: l4 -> y <= z.
Proof.
  revert q; induction ps as [|p r IH]; intros q H l1 y l3 z l4 E.
  - destruct l1 as [|a l1]; simpl in E.
    + injection E as _ E. destruct l3; discriminate.
    + injection E as _ E. destruct l1; discriminate.
  - destruct l1 as [|a l1]; simpl in E.
    + injection E as <- E. apply (nondec_in _ _ H). rewrite E. apply in_or_app. right. now left.
    + injection E as _ E. simpl in H. apply andb_true_iff in H. destruct H as [_ H].
      eapply IH; eauto.
Qed.

Lemma nondec_false q ps : nondec q ps = false ->
  exists l1 y z l4, q :: ps = l1 ++ y :: z :: l4 /\ z < y /\ (forall w, In w l1 -> w <= y).
Proof.
  revert q; induction ps as [|p r IH]; intros q H; simpl in H; [discriminate|].
  destruct (q <=? p) eqn:E; simpl in H.
  - apply Nat.leb_le in E. destruct (IH p H) as (l1 & y & z & l4 & E' & Hlt & Hle).
    exists (q :: l1), y, z, l4. split; [simpl; now rewrite E'|]. split; [assumption|].
    intros w [<-|Hw]; [|now apply Hle].
    destruct l1 as [|a l1]; simpl in E'; injection E' as -> _; [lia|].
    specialize (Hle a (or_introl eq_refl)). lia.
  - apply Nat.leb_gt in E. exists [], q, p, r. repeat split; auto. intros w [].
Qed.

Theorem sp_scan_correct : forall ps q, sp_scan q false ps = true <-> ~ peak3 (q :: ps).
Proof.
  induction ps as [|p r IH]; intros q.
  - simpl. split; [|reflexivity]. intros _ (x & y & z & (l1 & l2 & l3 & l4 & E) & _).
    destruct l1 as [|a l1]; simpl in E; injection E as _ E.
    + destruct l2; discriminate.
    + destruct l1; discriminate.
  - simpl. destruct (q <? p) eqn:E1.
    + apply Nat.ltb_lt in E1. rewrite sp_scan_passed. split.
      * intros H (x & y & z & (l1 & l2 & l3 & l4 & E) & Hxy & Hzy).
        destruct l1 as [|a l1]; simpl in E; injection E as E0 E.
        -- assert (Hyz : y <= z).
           { eapply (nondec_no_desc p r H l2 y l3 z l4). exact E. }
           lia.
        -- assert (Hyz : y <= z).
           { eapply (nondec_no_desc p r H (l1 ++ x :: l2) y l3 z l4).
             rewrite E. now rewrite <- app_assoc. }
           lia.
      * intros Hnb. destruct (nondec p r) eqn:Hn; [reflexivity|exfalso].
        destruct (nondec_false _ _ Hn) as (l1 & y & z & l4 & E & Hlt & Hle).
        apply Hnb. exists q, y, z. split.
        -- exists [], l1, [], l4. simpl. now rewrite E.
        -- split; [|assumption].
           destruct l1 as [|a l1]; simpl in E; injection E as E0 E.
           ++ lia.
           ++ specialize (Hle a (or_introl eq_refl)). lia.
    + apply Nat.ltb_ge in E1. rewrite andb_false_r. rewrite IH. split.
      * intros Hnb (x & y & z & (l1 & l2 & l3 & l4 & E) & Hxy & Hzy). apply Hnb.
        destruct l1 as [|a l1]; simpl in E; injection E as E0 E.
        -- subst x. destruct l2 as [|b l2]; simpl in E.
           ++ injection E as E _. lia.
           ++ injection E as Eb E. subst b. exists p, y, z. split; [|lia].
              exists [], l2, l3, l4. simpl. now rewrite E.
        -- exists x, y, z. split; [|lia]. exists l1, l2, l3, l4. exact E.
      * intros Hnb (x & y & z & (l1 & l2 & l3 & l4 & E) & Hxy & Hzy). apply Hnb.
        exists x, y, z. split; [|lia]. exists (q :: l1), l2, l3, l4. simpl. now rewrite E.
Qed.

Theorem sp_scan_ok_correct ps : sp_scan_ok ps = true <-> valley ps.
Proof.
  destruct ps as [|q r]; simpl.
  - split; [|reflexivity]. intros _ (x & y & z & (l1 & l2 & l3 & l4 & E) & _).
    destruct l1; discriminate.
  - apply sp_scan_correct.
Qed.

(* ---------------------------------------------------------------------------------------------- *)
(* 2. class positions and level sets                                                               *)

Lemma class_pos_cons c r a : class_pos (c :: r) a = if memN a c then 0 else S (class_pos r a).
Proof.
  unfold class_pos. simpl. destruct (memN a c); [reflexivity|].
  destruct (class_index r a); reflexivity.
Qed.

Lemma concat_firstn_incl {T} k (o : list (list T)) : incl (concat (firstn k o)) (concat o).
Proof.
  revert k; induction o as [|c r IH]; intros k x Hx.
  - now rewrite firstn_nil in Hx.
  - destruct k as [|k]; simpl in *; [contradiction|].
    apply in_app_or in Hx. apply in_or_app. destruct Hx as [Hx|Hx]; [now left|right].
    eapply IH; eauto.
Qed.

Lemma class_pos_lt o a k : In a (concat o) -> (class_pos o a < k <-> In a (concat (firstn k o))).
Proof.
  revert k; induction o as [|c r IH]; intros k Hin; [contradiction|].
  rewrite class_pos_cons. destruct k as [|k].
  - simpl. split; [lia|contradiction].
  - simpl in *. destruct (memN a c) eqn:E.
    + apply memN_In in E. split; [|lia]. intros _. apply in_or_app. now left.
    + apply memN_false in E. apply in_app_or in Hin. destruct Hin as [Hin|Hin]; [contradiction|].
      rewrite <- Nat.succ_lt_mono, (IH k Hin). split.
      * intros H. apply in_or_app. now right.
      * intros H. apply in_app_or in H. destruct H as [H|H]; [contradiction|assumption].
Qed.

Lemma level_set_prefix o axis k : same_elems axis o ->
  forall x, In x (filter (fun a => class_pos o a <? k) axis) <-> In x (concat (firstn k o)).
Proof.
  intros Hse x. rewrite filter_In, Nat.ltb_lt. split.
  - intros [Hx Hlt]. apply class_pos_lt; [now apply Hse|assumption].
  - intros Hx. assert (Hx' : In x (concat o)) by (eapply concat_firstn_incl; eauto).
    split; [now apply Hse|]. now apply class_pos_lt.
Qed.

(* ---------------------------------------------------------------------------------------------- *)
(* 3. the axis test                                                                                *)

Theorem axis_test_correct_gen o axis : same_elems axis o -> NoDup axis ->
  (sp_axis_weak o axis = true <-> sp_on_axis o axis).
Proof.
  intros Hse Hnd. unfold sp_axis_weak, sp_on_axis.
  rewrite sp_scan_ok_correct, (valley_level_sets (class_pos o) axis Hnd).
  split; intros H k; specialize (H k).
  - eapply contiguous_ext; [|exact H]. now apply level_set_prefix.
  - eapply contiguous_ext; [|exact H]. intros x. symmetry. now apply level_set_prefix.
Qed.

Theorem axis_test_correct o axis : complete_on axis o -> NoDup axis ->
  (sp_axis_weak o axis = true <-> forall k, contiguous (concat (firstn k o)) axis).
Proof. intros (_ & _ & Hse) Hnd. now apply axis_test_correct_gen. Qed.

Lemma sp_axis_profile_correct p axis : NoDup axis -> (forall o, In o p -> same_elems axis o) ->
  (sp_axis_profile p axis = true <-> SPw_axis p axis).
Proof.
  intros Hnd Hse. unfold sp_axis_profile, SPw_axis. rewrite forallb_forall.
  split; intros H o Ho.
  - apply axis_test_correct_gen; auto.
  - apply axis_test_correct_gen; auto.
Qed.

Lemma same_elems_perm axis axis' o : Permutation axis axis' -> same_elems axis o -> same_elems axis' o.
Proof.
  intros Hp Hse a. split.
  - intros Ha. apply Hse. eapply Permutation_in; [apply Permutation_sym; exact Hp|exact Ha].
  - intros Ha. apply Hse in Ha. eapply Permutation_in; eauto.
Qed.

Lemma complete_on_perm axis axis' o : Permutation axis axis' -> complete_on axis o -> complete_on axis' o.
Proof.
  intros Hp (H1 & H2 & H3). split; [assumption|]. split; [assumption|]. eapply same_elems_perm; eauto.
Qed.

(* the model of is_single_peaked_axis on an instance of type soc / toc *)
Theorem axis_test_profile_correct d p axis :
  dt_soc_toc d = true -> NoDup axis -> Forall (complete_on axis) p ->
  exists b, is_single_peaked_axis_model d p axis = Ok b /\ (b = true <-> SPw_axis p axis).
Proof.
  intros Hd Hnd Hc. unfold is_single_peaked_axis_model. rewrite Hd. eexists. split; [reflexivity|].
  apply sp_axis_profile_correct; [assumption|]. intros o Ho.
  rewrite Forall_forall in Hc. now destruct (Hc o Ho) as (_ & _ & H).
Qed.

(* ---------------------------------------------------------------------------------------------- *)
(* 4. witness checker and reference decider                                                        *)

Lemma nodupN_correct l : nodupN l = true <-> NoDup l.
Proof.
  induction l as [|a r IH]; simpl.
  - split; [constructor|reflexivity].
  - rewrite andb_true_iff, negb_true_iff, memN_false, IH. split.
    + intros [H1 H2]. now constructor.
    + intros H. inversion H; subst. auto.
Qed.

Theorem valid_axis_correct alts axis : NoDup alts -> (valid_axis alts axis = true <-> Permutation alts axis).
Proof.
  intros Hnd. unfold valid_axis. rewrite !andb_true_iff, Nat.eqb_eq, nodupN_correct, !forallb_forall. split.
  - intros [[[Hlen Hnda] Hin1] Hin2]. apply NoDup_Permutation_bis; [assumption|lia|].
    intros x Hx. apply memN_In. now apply Hin2.
  - intros Hp. repeat split.
    + symmetry. now apply Permutation_length.
    + eapply Permutation_NoDup; eauto.
    + intros x Hx. apply memN_In. eapply Permutation_in; [apply Permutation_sym; exact Hp|assumption].
    + intros x Hx. apply memN_In. eapply Permutation_in; eauto.
Qed.

(* "lists every alternative exactly once" *)
Lemma perm_iff_exactly_once (alts axis : list N) : NoDup alts ->
  (Permutation alts axis <-> NoDup axis /\ forall a, In a axis <-> In a alts).
Proof.
  intros Hnd. split.
  - intros Hp. split; [eapply Permutation_NoDup; eauto|]. intros a. split; apply Permutation_in; auto.
    now apply Permutation_sym.
  - intros [Hnda H]. apply NoDup_Permutation; auto. intros a. symmetry. apply H.
Qed.

Theorem check_axis_correct alts p axis : NoDup alts -> Forall (complete_on alts) p ->
  (spw_check_axis alts p axis = true <-> Permutation alts axis /\ SPw_axis p axis).
Proof.
  intros Hnd Hc. unfold spw_check_axis. rewrite andb_true_iff, (valid_axis_correct alts axis Hnd).
  split; intros [Hp H]; split; auto.
  - apply sp_axis_profile_correct in H; auto.
    + eapply Permutation_NoDup; eauto.
    + intros o Ho. rewrite Forall_forall in Hc. destruct (Hc o Ho) as (_ & _ & Hse).
      eapply same_elems_perm; eauto.
  - apply sp_axis_profile_correct; auto.
    + eapply Permutation_NoDup; eauto.
    + intros o Ho. rewrite Forall_forall in Hc. destruct (Hc o Ho) as (_ & _ & Hse).
      eapply same_elems_perm; eauto.
Qed.

Theorem spw_decide_correct alts p : NoDup alts -> Forall (complete_on alts) p ->
  (spw_decide alts p = true <-> SPw alts p).
Proof.
  intros Hnd Hc. unfold spw_decide, SPw.
  rewrite (exists_perm_dec N (fun r => sp_axis_profile p r = true) (sp_axis_profile p)); [|reflexivity].
  split; intros (axis & Hp & H); exists axis; split; auto.
  - apply sp_axis_profile_correct in H; auto.
    + eapply Permutation_NoDup; eauto.
    + intros o Ho. rewrite Forall_forall in Hc. destruct (Hc o Ho) as (_ & _ & Hse).
      eapply same_elems_perm; eauto.
  - apply sp_axis_profile_correct; auto.
    + eapply Permutation_NoDup; eauto.
    + intros o Ho. rewrite Forall_forall in Hc. destruct (Hc o Ho) as (_ & _ & Hse).
      eapply same_elems_perm; eauto.
Qed.

(* ---------------------------------------------------------------------------------------------- *)
(* 5. strict profiles                                                                              *)

Lemma concat_firstn_strictify k r : concat (firstn k (strictify r)) = firstn k r.
Proof.
  revert k; induction r as [|a r IH]; intros k; destruct k as [|k]; simpl; try reflexivity.
  f_equal. apply IH.
Qed.

Lemma concat_strictify r : concat (strictify r) = r.
Proof. induction r as [|a r IH]; simpl; [reflexivity|]. f_equal. apply IH. Qed.

Lemma SPw_axis_strict rs axis : SPw_axis (map strictify rs) axis <-> SP_axis rs axis.
Proof.
  unfold SPw_axis, SP_axis, sp_on_axis. split.
  - intros H r Hr k. rewrite <- concat_firstn_strictify. apply H. now apply in_map.
  - intros H o Ho k. apply in_map_iff in Ho. destruct Ho as (r & <- & Hr).
    rewrite concat_firstn_strictify. now apply H.
Qed.

(* on strict profiles the weak-order notion (C11) is C03's notion *)
Theorem strict_agree alts rs : SPw alts (map strictify rs) <-> SP alts rs.
Proof.
  unfold SPw, SP. split; intros (axis & Hp & H); exists axis; split; auto; now apply SPw_axis_strict.
Qed.

Lemma complete_on_strictify alts r : Permutation alts r -> NoDup alts -> complete_on alts (strictify r).
Proof.
  intros Hp Hnd. unfold complete_on, same_elems. rewrite concat_strictify. repeat split.
  - eapply Permutation_NoDup; eauto.
  - unfold strictify. apply Forall_forall. intros c Hc. apply in_map_iff in Hc.
    destruct Hc as (a & <- & _). discriminate.
  - apply Permutation_in; assumption.
  - apply Permutation_in. now apply Permutation_sym.
Qed.

Lemma complete_on_strict_profile alts rs : NoDup alts -> Forall (fun r => Permutation alts r) rs ->
  Forall (complete_on alts) (map strictify rs).
Proof.
  intros Hnd H. apply Forall_forall. intros o Ho. apply in_map_iff in Ho. destruct Ho as (r & <- & Hr).
  rewrite Forall_forall in H. apply complete_on_strictify; auto.
Qed.

Theorem sp_decide_correct alts rs : NoDup alts -> Forall (fun r => Permutation alts r) rs ->
  (sp_decide alts rs = true <-> SP alts rs).
Proof.
  intros Hnd H. unfold sp_decide. rewrite spw_decide_correct; auto using complete_on_strict_profile.
  apply strict_agree.
Qed.

Theorem sp_check_axis_correct alts rs axis : NoDup alts -> Forall (fun r => Permutation alts r) rs ->
  (sp_check_axis alts rs axis = true <->
   (NoDup axis /\ forall a, In a axis <-> In a alts) /\ SP_axis rs axis).
Proof.
  intros Hnd H. unfold sp_check_axis.
  rewrite check_axis_correct; auto using complete_on_strict_profile.
  rewrite SPw_axis_strict, (perm_iff_exactly_once alts axis Hnd). reflexivity.
Qed.

(* strict orders: the decision agrees with the weak-order decision on the same profile *)
Theorem sp_decide_spw alts rs : sp_decide alts rs = spw_decide alts (map strictify rs).
Proof. reflexivity. Qed.

(* ---------------------------------------------------------------------------------------------- *)
(* 6. type gates                                                                                   *)

Theorem C11_gate_axis d p axis : d <> DTsoc -> d <> DTtoc -> is_single_peaked_axis_model d p axis = Err TypeErr.
Proof. intros H1 H2. destruct d; try reflexivity; congruence. Qed.
Theorem C11_gate_pq d alts p : d <> DTsoc -> d <> DTtoc -> is_single_peaked_pq_tree_model d alts p = Err TypeErr.
Proof. intros H1 H2. destruct d; try reflexivity; congruence. Qed.
Theorem C11_gate_ilp d alts p : d <> DTsoc -> d <> DTtoc -> is_single_peaked_ILP_model d alts p = Err TypeErr.
Proof. intros H1 H2. destruct d; try reflexivity; congruence. Qed.
