(* Properties/C11.v — C11: weak-order single-peakedness: the axis test, the PQ-tree and the ILP recognisers match
   the definition; other data types are refused with TypeError.

   Shape (DESIGN §1): (M) is_single_peaked_axis and sp_cons_ones_matrix are mirrored (Model/SP.v: sp_axis_weak,
   sp_matrix); (R) is_single_peaked_pq_tree / is_single_peaked_ILP are compared by the harness with the verified
   reference spw_decide, their witnesses go through the verified checker spw_check_axis.

   Vocabulary: an order is the list of its indifference classes, best first; concat (firstn k o) is the union of
   the k best classes; contiguous S axis (Lib/Contig.v): axis = l1 ++ mid ++ l2 with mid and S having the same
   elements; complete_on axis o: NoDup (concat o), all classes non-empty, same alternatives as the axis. *)
From Coq Require Import List NArith Bool Permutation.
From PrefVerif Require Import Lib.Val Lib.Contig Model.SP Proofs.SP Proofs.SPILP.
From PrefVerif Require Model.C1P Model.PQTreeSP Proofs.PQTreeSP.
Import ListNotations.

(* ---- clause 1: is_single_peaked_axis is True exactly when, for every voter and every k, the union of the voter's
        k best indifference classes is contiguous on the axis ---- *)
Theorem axis_test_correct : forall (o : order) (axis : list N),
  complete_on axis o -> NoDup axis ->
  (sp_axis_weak o axis = true <-> forall k, contiguous (concat (firstn k o)) axis).
Proof. exact Proofs.SP.axis_test_correct. Qed.
Print Assumptions axis_test_correct.

(* the whole function on an instance of type soc / toc *)
Theorem axis_function_correct : forall (d : ord_dt) (p : list order) (axis : list N),
  d = DTsoc \/ d = DTtoc -> NoDup axis -> Forall (complete_on axis) p ->
  exists b, is_single_peaked_axis_model d p axis = Ok b /\
            (b = true <-> forall o, In o p -> forall k, contiguous (concat (firstn k o)) axis).
Proof. exact Proofs.SP.axis_function_correct. Qed.
Print Assumptions axis_function_correct.

(* ---- clause 2: "True exactly when some axis passes that test": the verified reference, and the models of the two
        recognisers (type guard, then the C1P reduction of sp_cons_ones_matrix resp. the reference) ---- *)
Theorem spw_decide_correct : forall (alts : list N) (p : list order),
  NoDup alts -> Forall (complete_on alts) p ->
  (spw_decide alts p = true <->
   exists axis, Permutation alts axis /\ forall o, In o p -> forall k, contiguous (concat (firstn k o)) axis).
Proof. exact Proofs.SP.spw_decide_correct. Qed.
Print Assumptions spw_decide_correct.

(* the reduction used by is_single_peaked_pq_tree and is_single_peaked_ILP: the matrix of sp_cons_ones_matrix has
   the consecutive-ones property (for some permutation of its columns) iff some axis passes the axis test; hence a
   correct C1P solver decides weak-order single-peakedness *)
Theorem sp_matrix_correct : forall (alts : list N) (p : list order),
  NoDup alts -> Forall (complete_on alts) p ->
  (sp_c1p_decide (sp_matrix alts p) (length alts) = true <->
   exists axis, Permutation alts axis /\ sp_axis_profile p axis = true).
Proof. exact Proofs.SP.sp_matrix_correct. Qed.
Print Assumptions sp_matrix_correct.

Theorem sp_matrix_C1P : forall (alts : list N) (p : list order),
  NoDup alts -> (forall o, In o p -> same_elems alts o) ->
  ((exists perm, Permutation (seq 0 (length alts)) perm /\
                 Forall (fun row => ones_consec (map (fun j => nth j row false) perm)) (sp_matrix alts p))
   <-> exists axis, Permutation alts axis /\ forall o, In o p -> forall k, contiguous (concat (firstn k o)) axis).
Proof. exact Proofs.SP.sp_matrix_C1P. Qed.
Print Assumptions sp_matrix_C1P.

Theorem sp_c1p_decide_correct : forall (rows : list (list bool)) (nc : nat),
  sp_c1p_decide rows nc = true <->
  exists perm, Permutation (seq 0 nc) perm /\
               Forall (fun row => ones_consec (map (fun j => nth j row false) perm)) rows.
Proof. exact Proofs.SP.sp_c1p_decide_correct. Qed.
Print Assumptions sp_c1p_decide_correct.

(* the integer programme of is_single_peaked_ILP (Proofs/SPILP.v): the totality, transitivity and consecutive-ones
   constraints over the 0/1 variables left_of_vars are satisfiable iff the profile is single-peaked; i.e. a solver
   that reports feasibility correctly makes is_single_peaked_ILP decide the property (CBC itself, the position
   variables and the reading of the axis are not modelled: the returned axis goes through check_axis_correct) *)
Theorem ilp_encoding_sound : forall (alts : list N) (p : list order),
  NoDup alts -> Forall (complete_on alts) p ->
  ((exists L : nat -> nat -> bool,
      (forall a1 a2, a1 < a2 -> a2 < length alts -> b2n (L a1 a2) + b2n (L a2 a1) = 1) /\
      ilp_trans (length alts) L /\
      Forall (ilp_row L) (sp_matrix alts p))
   <->
   exists axis, Permutation alts axis /\
                forall o, In o p -> forall k, contiguous (concat (firstn k o)) axis).
Proof. exact Proofs.SPILP.ilp_encoding_sound. Qed.
Print Assumptions ilp_encoding_sound.

Theorem decider_models_correct : forall (d : ord_dt) (alts : list N) (p : list order),
  d = DTsoc \/ d = DTtoc -> NoDup alts -> Forall (complete_on alts) p ->
  exists b, is_single_peaked_pq_tree_model d alts p = Ok b /\ is_single_peaked_ILP_model d alts p = Ok b /\
            (b = true <-> exists axis, Permutation alts axis /\
                          forall o, In o p -> forall k, contiguous (concat (firstn k o)) axis).
Proof. exact Proofs.SP.decider_models_correct. Qed.
Print Assumptions decider_models_correct.

(* ---- clause 3: the axis returned by the ILP "is a permutation of the alternatives that passes the test": the
        boolean checker run on it accepts exactly such axes ---- *)
Theorem check_axis_correct : forall (alts : list N) (p : list order) (axis : list N),
  NoDup alts -> Forall (complete_on alts) p ->
  (spw_check_axis alts p axis = true <->
   (NoDup axis /\ forall a, In a axis <-> In a alts) /\
   forall o, In o p -> forall k, contiguous (concat (firstn k o)) axis).
Proof. exact Proofs.SP.check_axis_correct_once. Qed.
Print Assumptions check_axis_correct.

Theorem valid_axis_correct : forall (alts axis : list N),
  NoDup alts -> (valid_axis alts axis = true <-> Permutation alts axis).
Proof. exact Proofs.SP.valid_axis_correct. Qed.
Print Assumptions valid_axis_correct.

(* ---- clause 4: agreement with is_single_peaked (C03) on strict profiles: the two notions coincide ---- *)
Theorem strict_agree : forall (alts : list N) (rs : list ranking),
  (exists axis, Permutation alts axis /\
                forall o, In o (map strictify rs) -> forall k, contiguous (concat (firstn k o)) axis)
  <->
  (exists axis, Permutation alts axis /\ forall r, In r rs -> forall k, contiguous (firstn k r) axis).
Proof. exact Proofs.SP.strict_agree. Qed.
Print Assumptions strict_agree.

Theorem sp_decide_spw : forall (alts : list N) (rs : list ranking),
  sp_decide alts rs = spw_decide alts (map strictify rs).
Proof. exact Proofs.SP.sp_decide_spw. Qed.
Print Assumptions sp_decide_spw.

(* ---- clause 5: every instance of another type is refused with TypeError (the guards of the three functions) ---- *)
Theorem C11_gate : forall (d : ord_dt) (alts : list N) (p : list order) (axis : list N),
  d <> DTsoc -> d <> DTtoc ->
  is_single_peaked_axis_model d p axis = Err TypeErr /\
  is_single_peaked_pq_tree_model d alts p = Err TypeErr /\
  is_single_peaked_ILP_model d alts p = Err TypeErr.
Proof. exact Proofs.SP.C11_gate. Qed.
Print Assumptions C11_gate.

(* ---- heredity (exact negatives on large inputs), invariance (reused by C12, C15, C18) ---- *)
Theorem sp_restrict : forall (alts : list N) (p : list order) (S : list N),
  SPw alts p -> SPw (restrict_alts S alts) (map (restrict_order S) p).
Proof. exact Proofs.SP.sp_restrict. Qed.
Print Assumptions sp_restrict.

Theorem spw_core_refutes : forall (S alts : list N) (p core : list order),
  NoDup alts -> Forall (complete_on alts) p ->
  (forall o, In o core <-> In o (map (restrict_order S) p)) ->
  spw_decide (restrict_alts S alts) core = false -> ~ SPw alts p.
Proof. exact Proofs.SP.spw_core_refutes. Qed.
Print Assumptions spw_core_refutes.

Theorem spw_decide_relabel : forall (f : N -> N), (forall x y, f x = f y -> x = y) ->
  forall (alts : list N) (p : list order),
  spw_decide (map f alts) (map (map (map f)) p) = spw_decide alts p.
Proof. exact Proofs.SP.spw_decide_relabel. Qed.
Print Assumptions spw_decide_relabel.

Theorem spw_decide_reorder : forall (alts : list N) (p p' : list order),
  Permutation p p' -> spw_decide alts p = spw_decide alts p'.
Proof. exact Proofs.SP.spw_decide_reorder. Qed.
Print Assumptions spw_decide_reorder.

Theorem spw_decide_set_ext : forall (alts : list N) (p p' : list order),
  (forall o, In o p <-> In o p') -> spw_decide alts p = spw_decide alts p'.
Proof. exact Proofs.SP.spw_decide_set_ext. Qed.
Print Assumptions spw_decide_set_ext.

Theorem spw_decide_alts_perm : forall (alts alts' : list N) (p : list order),
  Permutation alts alts' -> spw_decide alts p = spw_decide alts' p.
Proof. exact Proofs.SP.spw_decide_alts_perm. Qed.
Print Assumptions spw_decide_alts_perm.

(* ---- non-vacuity ---- *)
Open Scope N_scope.

(* a profile of complete weak orders (tied top class, complete indifference) that is single-peaked, with its axis *)
Example C11_example_sp :
  let alts := [1;2;3;4] in
  let p := [ [[2;3];[1];[4]] ; [[3];[4];[2];[1]] ; [[1;2;3;4]] ] in
  NoDup alts /\ Forall (complete_on alts) p /\
  spw_check_axis alts p [1;2;3;4] = true /\ spw_decide alts p = true /\
  sp_c1p_decide (sp_matrix alts p) 4 = true.
Proof.
  cbv zeta. split; [apply nodupN_correct; vm_compute; reflexivity|]. split.
  - apply complete_profile_b. vm_compute. reflexivity.
  - repeat split; vm_compute; reflexivity.
Qed.

(* a profile refuted by the reference; and the repaired defect: tied top class {1,2} split on the axis 1,3,2 *)
Example C11_example_not_sp :
  spw_decide [1;2;3] [ [[1;2];[3]] ; [[2;3];[1]] ; [[1;3];[2]] ] = false
  /\ sp_axis_weak [[1;2];[3]] [1;3;2] = false
  /\ ~ contiguous (concat (firstn 1 [[1;2];[3]])) [1;3;2].
Proof.
  split; [vm_compute; reflexivity|]. split; [vm_compute; reflexivity|].
  intros H. apply (contiguousb_correct [1;2] [1;3;2]) in H.
  - vm_compute in H. discriminate.
  - apply nodupN_correct. vm_compute. reflexivity.
Qed.

(* ---- is_single_peaked_pq_tree as the algorithm it runs: sp_matrix, isC1P's duplicate removal and the PQ-tree, all
   mirrored (Model/PQTreeSP.v on top of Model/PQTree.v; the harness demands the implementation's verdict to EQUAL the
   mirror's at every size, case c11.pq_exact).  Soundness chain of the C05 package re-exported: a True answer means
   that some axis passes the axis test.  elems = the order in which reorder_sets visits the elements (iteration
   order of a CPython set, a parameter); it has to cover the row indices occurring in the column sets.
   (Completeness of the PQ-tree is not proved: a False answer stays compared with the verified reference.) ---- *)
Theorem pq_tree_sp_sound : forall elems d (alts : list N) (p : list order),
  NoDup alts -> Forall (complete_on alts) p ->
  incl (concat (PrefVerif.Model.C1P.dedup_sets
                  (map (PrefVerif.Model.C1P.col_set (sp_matrix alts p)) (seq 0 (length alts))))) elems ->
  PrefVerif.Model.PQTreeSP.is_single_peaked_pq_tree_algo elems d alts p = Ok true ->
  exists axis, Permutation alts axis /\ sp_axis_profile p axis = true.
Proof. exact PrefVerif.Proofs.PQTreeSP.pq_tree_sp_sound. Qed.
Print Assumptions pq_tree_sp_sound.

Theorem pq_tree_algo_gate : forall elems d alts p,
  dt_soc_toc d = false -> PrefVerif.Model.PQTreeSP.is_single_peaked_pq_tree_algo elems d alts p = Err TypeErr.
Proof. exact PrefVerif.Proofs.PQTreeSP.pq_tree_algo_gate. Qed.
Print Assumptions pq_tree_algo_gate.

(* completeness of the mirrored PQ-tree (C05 package, Proofs/PQTreeComplete.v) re-exported: the algorithm answers True
   whenever some axis passes the axis test, hence it DECIDES weak-order single-peakedness *)
Theorem pq_tree_sp_complete : forall elems d (alts : list N) (p : list order),
  NoDup alts -> Forall (complete_on alts) p -> dt_soc_toc d = true ->
  (exists axis, Permutation alts axis /\ sp_axis_profile p axis = true) ->
  PrefVerif.Model.PQTreeSP.is_single_peaked_pq_tree_algo elems d alts p = Ok true.
Proof. exact PrefVerif.Proofs.PQTreeSP.pq_tree_sp_complete. Qed.
Print Assumptions pq_tree_sp_complete.

Theorem pq_tree_sp_correct : forall elems d (alts : list N) (p : list order),
  NoDup alts -> Forall (complete_on alts) p -> dt_soc_toc d = true ->
  incl (concat (PrefVerif.Model.C1P.dedup_sets
                  (map (PrefVerif.Model.C1P.col_set (sp_matrix alts p)) (seq 0 (length alts))))) elems ->
  (PrefVerif.Model.PQTreeSP.is_single_peaked_pq_tree_algo elems d alts p = Ok true <->
   exists axis, Permutation alts axis /\ sp_axis_profile p axis = true).
Proof. exact PrefVerif.Proofs.PQTreeSP.pq_tree_sp_correct. Qed.
Print Assumptions pq_tree_sp_correct.
