(* Ops/C18.v — protocol entry points for property C18 (k-alternative partitions).
   payload conventions: alts = list of N; profile = list of flat strict rankings (best first);
   axes = list of lists of N; option = () | (x). *)
From Coq Require Import List ZArith NArith String.
From PrefVerif Require Import Lib.Val Model.SP Model.Partition Model.PartitionAlgo.
Import ListNotations.
Open Scope string_scope.

Definition d18_alts (v : val) : list N := dlist dN v.
Definition d18_profile (v : val) : list ranking := dlist (dlist dN) v.
Definition d18_axes (v : val) : list (list N) := dlist (dlist dN) v.

(* (alts profile axes) -> bool *)
Definition op18_check (v : val) : val :=
  ebool (partition_check (d18_alts (dnth 0 v)) (d18_profile (dnth 1 v)) (d18_axes (dnth 2 v))).
(* (alts profile) -> nat *)
Definition op18_min (v : val) : val :=
  enat (min_partition (d18_alts (dnth 0 v)) (d18_profile (dnth 1 v))).
(* (alts profile ((k res) ...)) -> (min (bool ...)) : brute_force_ok for every pair (k, res), the optimum computed once *)
Definition op18_bf (v : val) : val :=
  let alts := d18_alts (dnth 0 v) in
  let profile := d18_profile (dnth 1 v) in
  let mn := min_partition alts profile in
  VL [ enat mn;
       elist (fun kr => ebool (brute_force_ok_with mn alts profile (fst kr) (snd kr)))
             (dlist (dpair dnat (doption d18_axes)) (dnth 2 v)) ].
(* (alts profile block) -> bool : does the block admit an axis *)
Definition op18_block (v : val) : val :=
  ebool (block_sp (d18_profile (dnth 1 v)) (d18_alts (dnth 2 v))).

(* (alts profile (k ...) hint) -> (option-partition ...) : the mirror of k_alternative_partition_brut_force for every k;
   hint = the alternatives in the order in which Python iterates the L-sets (order parameter of the mirror) *)
Definition op18_bf_algo (v : val) : val :=
  let alts := d18_alts (dnth 0 v) in
  let profile := d18_profile (dnth 1 v) in
  let hint := d18_alts (dnth 3 v) in
  elist (fun k => eoption (elist (elist eN)) (bf_algo (hint_order hint) alts profile k)) (dlist dnat (dnth 2 v)).

Definition ops : optable :=
  [ ("c18.check", op18_check); ("c18.min", op18_min); ("c18.bf", op18_bf); ("c18.block", op18_block); ("c18.bf_algo", op18_bf_algo) ].
